(** Column-level corollaries of Lemma B (Tree/LemmaBProofs.v) on the single-SELECT fragment:
    C07 (layout invariance), C08 (alpha-equivalence), C14 (default schema = explicit qualification),
    each for the end-to-end column pairs [script_pairs] of the tree model on the rendered statement. *)
From SV Require Import Tree.Render Tree.LemmaA Tree.LemmaAProofs Tree.LemmaB Tree.LemmaBProofs Ident.Escape.
From SV Require Import Ast.Rename Ast.RenameProofs Ast.Qualify Ast.QualifyCols.

(** * Specification level, in the [spec_pairs] form *)
Lemma spec_pairs_alpha rho ds s : admissible rho s -> admissible_cols rho ds s ->
  spec_pairs ds (rename_stmt rho (stmt_locals s) s) = spec_pairs ds s.
Proof. intros Ha Hc. unfold spec_pairs. rewrite (spec_flows_alpha rho ds s Ha Hc). reflexivity. Qed.

Lemma spec_pairs_default_is_qualification ds s : ds <> "" -> spec_pairs "" (qual_stmt ds s) = spec_pairs ds s.
Proof. intros Hds. unfold spec_pairs. rewrite (spec_flows_default_is_qualification ds s Hds). reflexivity. Qed.


(** * (1) C07 at column level: the column pairs do not depend on the trivia put at the gaps of the statement *)
Theorem cols_layout_invariant_on_single_select : forall n1 n2 e s,
  noise_ok n1 = true -> noise_ok n2 = true -> env_ok e = true ->
  stmt_ok s = true -> sshape s = true -> colshape s = true -> sel_tables_syntactic s = true ->
  script_pairs e false [] [r_stmt n1 s] = script_pairs e false [] [r_stmt n2 s].
Proof.
  intros n1 n2 e s H1 H2 He Hs Hq Hc Hf.
  rewrite (lemma_B_tables_colshape n1 e s H1 He Hs Hq Hc Hf), (lemma_B_tables_colshape n2 e s H2 He Hs Hq Hc Hf).
  reflexivity.
Qed.
Print Assumptions cols_layout_invariant_on_single_select.

(** the same on the slightly larger fragment of [lemma_B_single_select] (bare SELECT and no-data statements included) *)
Theorem cols_layout_invariant_on_single_select_fragment : forall n1 n2 e s,
  noise_ok n1 = true -> noise_ok n2 = true -> env_ok e = true ->
  stmt_ok s = true -> sshape s = true -> colshape s = true -> single_select_fragment s = true ->
  script_pairs e false [] [r_stmt n1 s] = script_pairs e false [] [r_stmt n2 s].
Proof.
  intros n1 n2 e s H1 H2 He Hs Hq Hc Hf.
  rewrite (lemma_B_single_select n1 e s H1 He Hs Hq Hc Hf), (lemma_B_single_select n2 e s H2 He Hs Hq Hc Hf).
  reflexivity.
Qed.
Print Assumptions cols_layout_invariant_on_single_select_fragment.

(** * (2) C08 at column level: an admissibly renamed statement has the same column pairs, whatever the trivia *)
Theorem cols_alpha_on_single_select : forall rho n1 n2 e s,
  admissible rho s -> admissible_cols rho (e_cfg e) s ->
  noise_ok n1 = true -> noise_ok n2 = true -> env_ok e = true ->
  stmt_ok s = true -> sshape s = true -> colshape s = true -> sel_tables_syntactic s = true ->
  stmt_ok (rename_stmt rho (stmt_locals s) s) = true -> sshape (rename_stmt rho (stmt_locals s) s) = true ->
  colshape (rename_stmt rho (stmt_locals s) s) = true -> sel_tables_syntactic (rename_stmt rho (stmt_locals s) s) = true ->
  script_pairs e false [] [r_stmt n1 (rename_stmt rho (stmt_locals s) s)] = script_pairs e false [] [r_stmt n2 s].
Proof.
  intros rho n1 n2 e s Ha Hac H1 H2 He Hs Hq Hc Hf Hs' Hq' Hc' Hf'.
  rewrite (lemma_B_tables_colshape n1 e _ H1 He Hs' Hq' Hc' Hf'), (lemma_B_tables_colshape n2 e s H2 He Hs Hq Hc Hf).
  apply spec_pairs_alpha; assumption.
Qed.
Print Assumptions cols_alpha_on_single_select.

(** * (4) C14 at column level: the model under default schema [e_cfg e] reports for [s] the column pairs the model
      without a default reports for the explicitly qualified statement *)
Theorem cols_default_is_qualification_on_single_select : forall n1 n2 e e0 s,
  noise_ok n1 = true -> noise_ok n2 = true -> env_ok e = true -> env_ok e0 = true ->
  e_cfg e <> "" -> e_cfg e0 = "" ->
  stmt_ok s = true -> sshape s = true -> colshape s = true -> sel_tables_syntactic s = true ->
  stmt_ok (qual_stmt (e_cfg e) s) = true -> sshape (qual_stmt (e_cfg e) s) = true ->
  colshape (qual_stmt (e_cfg e) s) = true -> sel_tables_syntactic (qual_stmt (e_cfg e) s) = true ->
  script_pairs e false [] [r_stmt n1 s] = script_pairs e0 false [] [r_stmt n2 (qual_stmt (e_cfg e) s)].
Proof.
  intros n1 n2 e e0 s H1 H2 He He0 Hds H0 Hs Hq Hc Hf Hs' Hq' Hc' Hf'.
  rewrite (lemma_B_tables_colshape n1 e s H1 He Hs Hq Hc Hf), (lemma_B_tables_colshape n2 e0 _ H2 He0 Hs' Hq' Hc' Hf').
  rewrite H0. symmetry. apply spec_pairs_default_is_qualification. exact Hds.
Qed.
Print Assumptions cols_default_is_qualification_on_single_select.

(** * (5) Non-vacuity: a two-table join with aliases, an unqualified column, a qualified star and an INSERT column list *)
Definition cor_env_dw : env := mk_env "ansi" "dw" "dw" {| p_truthy := false; p_cols := [] |} [].
Definition cor_env_0 : env := mk_env "ansi" "" "" {| p_truthy := false; p_cols := [] |} [].
Definition cor_ex : stmt :=
  SInsert (None, "out1") (Some ["c0"; "c1"; "c2"; "c3"])
    (QSelect [IExpr (EColRef (Some "p") "x") None; IExpr (EColRef None "u1") (Some "k"); IStar (Some "q");
              IExpr (EColRef (Some "q") "y") (Some "z")]
             [RTable (Some "s1", "t1") (Some "p"); RTable (None, "t2") (Some "q")] false None).
Definition cor_rho (n : string) : string := ("r_" ++ n)%string.
Definition cor_noise : list seg := [].

Lemma cor_ex_admissible : forall ds, admissible cor_rho cor_ex /\ admissible_cols cor_rho ds cor_ex.
Proof.
  intros ds. unfold admissible, admissible_cols. cbn.
  repeat split.
  - intros a b [<-|[<-|[]]] [<-|[<-|[]]] H; try reflexivity; discriminate H.
  - intros a [<-|[<-|[]]] [H|[H|[H|[]]]]; discriminate H.
  - intros a [<-|[<-|[]]] [H|[H|[H|[]]]]; discriminate H.
  - intros a b [<-|[<-|[]]] [<-|[<-|[]]] H; discriminate H.
  - intros a q [<-|[<-|[]]] [<-|[<-|[<-|[]]]] Hq _; try (apply Hq; left; reflexivity); try (apply Hq; right; left; reflexivity).
  - intros a _ [].
  - intros a _ [].
Qed.

Example cols_alpha_nonvacuous :
  let s' := rename_stmt cor_rho (stmt_locals cor_ex) cor_ex in
  (admissible cor_rho cor_ex /\ admissible_cols cor_rho (e_cfg cor_env_dw) cor_ex) /\
  env_ok cor_env_dw && stmt_ok cor_ex && sshape cor_ex && colshape cor_ex && sel_tables_syntactic cor_ex
  && stmt_ok s' && sshape s' && colshape s' && sel_tables_syntactic s' = true /\
  s' <> cor_ex /\
  script_pairs cor_env_dw false [] [r_stmt [] s']
  = ["dw.t2.*>dw.out1.c2"; "dw.t2.y>dw.out1.c3"; "s1.t1.x>dw.out1.c0"; "u1{dw.t2,s1.t1}>dw.out1.c1"].
Proof.
  cbv zeta. split; [apply cor_ex_admissible|]. split; [vm_compute; reflexivity|]. split; [vm_compute; discriminate|].
  vm_compute. reflexivity.
Qed.

Example cols_default_is_qualification_nonvacuous :
  let s' := qual_stmt (e_cfg cor_env_dw) cor_ex in
  e_cfg cor_env_dw <> "" /\ e_cfg cor_env_0 = "" /\
  env_ok cor_env_dw && env_ok cor_env_0 && stmt_ok cor_ex && sshape cor_ex && colshape cor_ex && sel_tables_syntactic cor_ex
  && stmt_ok s' && sshape s' && colshape s' && sel_tables_syntactic s' = true /\
  s' <> cor_ex /\
  script_pairs cor_env_0 false [] [r_stmt [] s']
  = ["dw.t2.*>dw.out1.c2"; "dw.t2.y>dw.out1.c3"; "s1.t1.x>dw.out1.c0"; "u1{dw.t2,s1.t1}>dw.out1.c1"] /\
  script_pairs cor_env_0 false [] [r_stmt [] cor_ex] <> script_pairs cor_env_dw false [] [r_stmt [] cor_ex].
Proof.
  cbv zeta. split; [vm_compute; discriminate|]. split; [reflexivity|]. split; [vm_compute; reflexivity|].
  split; [vm_compute; discriminate|]. split; [vm_compute; reflexivity|]. vm_compute. discriminate.
Qed.

(* ================================================================== *)
(** * Guards on [s] only

    On the single-SELECT fragment the guards of the qualified statement follow from those of [s] when the default schema
    is a plain identifier ([id_ok], which [env_ok e] and [e_cfg e <> ""] give). *)
Definition qrel (ds : string) (r : rel) : rel :=
  match r with RTable t al => RTable (qual_target ds t) al | _ => r end.

Lemma qual_select_tables k ds items from cj :
  forallb is_rtable from = true ->
  qual_q (S k) ds [] (QSelect items from cj None) = QSelect items (map (qrel ds) from) cj None.
Proof.
  intros Hrt. cbn [qual_q]. f_equal. apply map_ext_in. intros r Hr. rewrite forallb_forall in Hrt. specialize (Hrt r Hr).
  destruct r as [t al| |]; try discriminate. cbn [qual_rel qrel]. f_equal.
Qed.

Lemma nodot_split s : sexists is_dot s = false -> split_dot_aux s = [s].
Proof.
  induction s as [|a r IH]; intros H; [reflexivity|]. cbn [sexists] in H. apply orb_false_iff in H. destruct H as [H1 H2].
  cbn [split_dot_aux]. unfold is_dot in H1. rewrite H1, (IH H2). reflexivity.
Qed.

Lemma id_ok_schema_ok ds : id_ok ds = true -> schema_ok ds = true.
Proof.
  intros H. unfold schema_ok. rewrite (nodot_split ds (id_ok_nodot ds H)). cbn [forallb List.length Nat.leb]. rewrite H. reflexivity.
Qed.

Lemma env_ok_id_ok e : env_ok e = true -> e_cfg e <> "" -> id_ok (e_cfg e) = true.
Proof.
  intros He Hds. unfold env_ok in He. apply andb_true_iff in He. destruct He as [He _]. apply andb_true_iff in He. destruct He as [_ He].
  apply orb_true_iff in He. destruct He as [He|He]; [apply String.eqb_eq in He; contradiction|exact He].
Qed.

Lemma id_ok_nonempty ds : id_ok ds = true -> ds <> "".
Proof. intros H E. rewrite E in H. discriminate H. Qed.

Lemma tref_ok_qual ds t : id_ok ds = true -> tref_ok t = true -> tref_ok (qual_target ds t) = true.
Proof.
  intros Hds Ht. destruct t as [[sc|] n]; [exact Ht|]. unfold tref_ok, qual_target in *. cbn [fst snd] in *.
  rewrite andb_true_r in Ht. rewrite Ht, (id_ok_schema_ok ds Hds). reflexivity.
Qed.

Lemma rel_ok_qrel ds from : id_ok ds = true -> forallb rel_ok from = true -> forallb rel_ok (map (qrel ds) from) = true.
Proof.
  intros Hds H. rewrite forallb_forall in *. intros r' Hr'. apply in_map_iff in Hr'. destruct Hr' as (r & <- & Hr).
  specialize (H r Hr). destruct r as [t al| |]; try discriminate. cbn [qrel rel_ok] in *.
  apply andb_true_iff in H. destruct H as [H1 H2]. rewrite (tref_ok_qual ds t Hds H1), H2. reflexivity.
Qed.

Lemma rname_qrel ds r : rname (qrel ds r) = rname r.
Proof. destruct r as [[[sc|] n] al| |]; reflexivity. Qed.
Lemma rbare_qrel ds r : snd (rtref (qrel ds r)) = snd (rtref r).
Proof. destruct r as [[[sc|] n] al| |]; reflexivity. Qed.
Lemma rtref_qrel ds r : is_rtable r = true -> rtref (qrel ds r) = qual_target ds (rtref r).
Proof. destruct r as [t al| |]; try discriminate. reflexivity. Qed.

Lemma tref_strs_qual ds0 ds from : ds <> "" -> forallb is_rtable from = true ->
  map (fun r => tref_str ds0 (rtref r)) (map (qrel ds) from) = map (fun r => tref_str ds (rtref r)) from.
Proof.
  intros Hds Hrt. rewrite map_map. apply map_ext_in. intros r Hr. rewrite forallb_forall in Hrt.
  rewrite (rtref_qrel ds r (Hrt r Hr)). apply tref_str_qualified. exact Hds.
Qed.

Lemma tables_cond_qual ds0 ds t from : ds <> "" -> forallb is_rtable from = true ->
  tables_cond ds t from -> tables_cond ds0 (qual_target ds t) (map (qrel ds) from).
Proof.
  intros Hds Hrt [H1 H2]. unfold tables_cond. rewrite (tref_strs_qual ds0 ds from Hds Hrt), (tref_str_qualified ds0 ds t Hds).
  split; assumption.
Qed.

Lemma qual1_qrel ds from q : qual1 from q -> qual1 (map (qrel ds) from) q.
Proof.
  intros (r0 & Hr0 & En & Hu). exists (qrel ds r0). split; [apply in_map; exact Hr0|]. split; [rewrite rname_qrel; exact En|].
  intros r' Hr' Hor. apply in_map_iff in Hr'. destruct Hr' as (r & <- & Hr). rewrite rname_qrel, rbare_qrel in Hor.
  rewrite (Hu r Hr Hor). reflexivity.
Qed.

Lemma items_cond_qual ds from items : items_cond from items -> items_cond (map (qrel ds) from) items.
Proof.
  intros H i Hi. specialize (H i Hi). destruct (snd (item_ref i)) as [q|].
  - apply qual1_qrel. exact H.
  - destruct H as [(r & ->)|[Hl Hs]]; [left; exists (qrel ds r); reflexivity|right; rewrite map_length; split; assumption].
Qed.

Lemma noqual_items_qual ds from items : noqual_items from items -> noqual_items (map (qrel ds) from) items.
Proof. unfold noqual_items. rewrite map_length. intros H. exact H. Qed.

(** the single-SELECT fragment, unpacked *)
Lemma single_select_inv s : stmt_ok s = true -> sel_tables_syntactic s = true ->
  exists t items from cj,
    ((exists cols, s = SInsert t cols (QSelect items from cj None) /\ match cols with Some cs => forallb id_ok cs = true | None => True end)
     \/ s = SCtas t (QSelect items from cj None) \/ s = SView t (QSelect items from cj None)) /\
    forallb is_rtable from = true /\ trefs_distinct (map rtref from) = true /\
    tref_ok t = true /\ forallb item_ok items = true /\ from <> [] /\ forallb rel_ok from = true.
Proof.
  intros Hok Hsh.
  assert (K : exists t items from cj,
            ((exists cols, s = SInsert t cols (QSelect items from cj None) /\ match cols with Some cs => forallb id_ok cs = true | None => True end)
             \/ s = SCtas t (QSelect items from cj None) \/ s = SView t (QSelect items from cj None)) /\
            forallb is_rtable from && trefs_distinct (map rtref from) = true /\
            tref_ok t && frag_query (S (q_size (QSelect items from cj None))) (QSelect items from cj None)
            && names_ok_q (S (q_size (QSelect items from cj None))) [] (QSelect items from cj None) = true).
  { destruct s as [t cols q|t q|t q|q|kind]; cbn [sel_tables_syntactic] in Hsh; try discriminate;
      destruct q as [items from cj [wh|]| |]; try discriminate; exists t, items, from, cj.
    - cbn [stmt_ok] in Hok. apply andb_true_iff in Hok. destruct Hok as [Hok Hcols]. split; [|split; [exact Hsh|exact Hok]].
      left. exists cols. split; [reflexivity|]. destruct cols; [exact Hcols|exact I].
    - cbn [stmt_ok] in Hok. split; [right; left; reflexivity|]. split; [exact Hsh|exact Hok].
    - cbn [stmt_ok] in Hok. split; [right; right; reflexivity|]. split; [exact Hsh|exact Hok]. }
  destruct K as (t & items & from & cj & Hs & Hsh' & Hok').
  apply andb_true_iff in Hsh'. destruct Hsh' as [Hrt Hd].
  destruct (stmt_ok_select t items from cj Hok' Hrt) as (Ht & Hit & Hne & Hrel).
  exists t, items, from, cj. repeat split; assumption.
Qed.

(** Lemma B for the qualified statement, from the guards of the original: whatever default schema [e0] has *)
Theorem lemma_B_qualified : forall noise e0 ds s,
  noise_ok noise = true -> env_ok e0 = true -> id_ok ds = true ->
  stmt_ok s = true -> colshape s = true -> sel_tables_syntactic s = true ->
  script_pairs e0 false [] [r_stmt noise (qual_stmt ds s)] = spec_pairs (e_cfg e0) (qual_stmt ds s).
Proof.
  intros noise e0 ds s Hn He Hid Hok Hc Hsh.
  pose proof (id_ok_nonempty ds Hid) as Hds.
  destruct (single_select_inv s Hok Hsh) as (t & items & from & cj & Hs & Hrt & Hd & Ht & Hit & Hne & Hrel).
  assert (Hs' : (exists cols, s = SInsert t cols (QSelect items from cj None)) \/ s = SCtas t (QSelect items from cj None) \/ s = SView t (QSelect items from cj None)).
  { destruct Hs as [(cols & E & _)|[E|E]]; [left; exists cols; exact E|right; left; exact E|right; right; exact E]. }
  destruct (colshape_tables ds s t items from cj Hs' Hc Ht Hne Hrel Hit Hd) as (Htc & Hic & Hnq).
  pose proof (tref_ok_qual ds t Hid Ht) as Ht'.
  pose proof (rel_ok_qrel ds from Hid Hrel) as Hrel'.
  assert (Hne' : map (qrel ds) from <> []) by (destruct from; [contradiction|discriminate]).
  pose proof (tables_cond_qual (e_cfg e0) ds t from Hds Hrt Htc) as Htc'.
  pose proof (items_cond_qual ds from items Hic) as Hic'.
  pose proof (noqual_items_qual ds from items Hnq) as Hnq'.
  assert (Eq : forall k, qual_q (S k) ds [] (QSelect items from cj None) = QSelect items (map (qrel ds) from) cj None)
    by (intros k; apply qual_select_tables; exact Hrt).
  destruct Hs as [(cols & E & Hcols)|[E|E]]; rewrite E; cbn [qual_stmt]; rewrite Eq; fold (qual_target ds t).
  - destruct cols as [cs|].
    + destruct (colshape_tables "" s t items from cj Hs' Hc Ht Hne Hrel Hit Hd) as (Htc0 & _ & _).
      destruct (colshape_cols s t cs items from cj E Hc Hrel Hit Htc0 Hic) as [Hnd Hlen].
      apply (lemma_B_insert_cols noise e0 _ cs items _ cj Hn He Ht' Hcols Hnd Hlen Hit Hne' Hrel' Htc' Hic' Hnq').
    + apply (lemma_B_select_tables noise e0 _ _ items _ cj Hn He (or_introl eq_refl) Ht' Hit Hne' Hrel' Htc' Hic' Hnq').
  - apply (lemma_B_select_tables noise e0 _ _ items _ cj Hn He (or_intror (or_introl eq_refl)) Ht' Hit Hne' Hrel' Htc' Hic' Hnq').
  - apply (lemma_B_select_tables noise e0 _ _ items _ cj Hn He (or_intror (or_intror eq_refl)) Ht' Hit Hne' Hrel' Htc' Hic' Hnq').
Qed.
Print Assumptions lemma_B_qualified.

(** (4'), guards on [s] only, and any default schema on the side of the qualified statement *)
Theorem cols_default_is_qualification_on_single_select_strong : forall n1 n2 e e0 s,
  noise_ok n1 = true -> noise_ok n2 = true -> env_ok e = true -> env_ok e0 = true ->
  e_cfg e <> "" ->
  stmt_ok s = true -> sshape s = true -> colshape s = true -> sel_tables_syntactic s = true ->
  script_pairs e false [] [r_stmt n1 s] = script_pairs e0 false [] [r_stmt n2 (qual_stmt (e_cfg e) s)].
Proof.
  intros n1 n2 e e0 s H1 H2 He He0 Hds Hs Hq Hc Hf.
  rewrite (lemma_B_tables_colshape n1 e s H1 He Hs Hq Hc Hf).
  rewrite (lemma_B_qualified n2 e0 (e_cfg e) s H2 He0 (env_ok_id_ok e He Hds) Hs Hc Hf).
  unfold spec_pairs. rewrite (spec_flows_qualified_any_default (e_cfg e0) (e_cfg e) s Hds). reflexivity.
Qed.
Print Assumptions cols_default_is_qualification_on_single_select_strong.

(* ================================================================== *)
(** * The guards themselves are preserved by qualification (single-SELECT fragment, [id_ok ds]) *)

Lemma is_rtable_qrel ds from : forallb is_rtable from = true -> forallb is_rtable (map (qrel ds) from) = true.
Proof.
  intros H. rewrite forallb_forall in *. intros r' Hr'. apply in_map_iff in Hr'. destruct Hr' as (r & <- & Hr).
  specialize (H r Hr). destruct r; try discriminate. reflexivity.
Qed.

Lemma frag_select_tables k items from cj :
  forallb is_rtable from = true -> frag_query (S k) (QSelect items from cj None) = true -> forall k' ds,
  frag_query (S k') (QSelect items (map (qrel ds) from) cj None) = true.
Proof.
  intros Hrt H k' ds. cbn [frag_query] in *. rewrite !andb_true_r in *.
  apply andb_true_iff in H. destruct H as [H _]. apply andb_true_iff in H. destruct H as [H1 H2].
  rewrite H1. cbn [andb]. apply andb_true_iff. split.
  - destruct from; [discriminate H2|reflexivity].
  - pose proof (is_rtable_qrel ds from Hrt) as Hrt'. rewrite forallb_forall in *. intros r' Hr'.
    specialize (Hrt' r' Hr'). destruct r'; try discriminate. reflexivity.
Qed.

Lemma names_select_tables k items from cj :
  forallb is_rtable from = true -> names_ok_q (S k) [] (QSelect items from cj None) = true -> forall k' ds, id_ok ds = true ->
  names_ok_q (S k') [] (QSelect items (map (qrel ds) from) cj None) = true.
Proof.
  intros Hrt H k' ds Hds. cbn [names_ok_q] in *. rewrite !andb_true_r in *.
  apply andb_true_iff in H. destruct H as [H1 H2]. rewrite H1. cbn [andb].
  rewrite forallb_forall in *. intros r' Hr'. apply in_map_iff in Hr'. destruct Hr' as (r & <- & Hr).
  specialize (H2 r Hr). specialize (Hrt r Hr). destruct r as [t al| |]; try discriminate. cbn [qrel].
  apply andb_true_iff in H2. destruct H2 as [H2 H3]. rewrite (tref_ok_qual ds t Hds H2), H3. reflexivity.
Qed.

Lemma q_size_select_qrel ds items from cj :
  forallb is_rtable from = true ->
  q_size (QSelect items (map (qrel ds) from) cj None) = q_size (QSelect items from cj None).
Proof. intros Hrt. rewrite <- (qual_select_tables 0 ds items from cj Hrt). apply q_size_qual. Qed.

Lemma tref_clash_qual ds a b : tref_clash (qual_target ds a) (qual_target ds b) = true -> tref_clash a b = true.
Proof.
  destruct a as [[x|] n], b as [[y|] m]; unfold tref_clash, qual_target; cbn [fst snd]; intros H;
    apply andb_true_iff in H; destruct H as [H1 H2]; rewrite H1; try exact H2; reflexivity.
Qed.

Lemma trefs_distinct_qual ds l : trefs_distinct l = true -> trefs_distinct (map (qual_target ds) l) = true.
Proof.
  induction l as [|t r IH]; intros H; [reflexivity|]. cbn [map trefs_distinct] in *.
  apply andb_true_iff in H. destruct H as [H1 H2]. rewrite (IH H2), andb_true_r.
  rewrite forallb_forall in *. intros t' Ht'. apply in_map_iff in Ht'. destruct Ht' as (t0 & <- & Ht0).
  specialize (H1 t0 Ht0). destruct (tref_clash (qual_target ds t) (qual_target ds t0)) eqn:E; [|reflexivity].
  rewrite (tref_clash_qual ds t t0 E) in H1. discriminate H1.
Qed.

Lemma rtrefs_qrel ds from : forallb is_rtable from = true -> map rtref (map (qrel ds) from) = map (qual_target ds) (map rtref from).
Proof.
  intros Hrt. rewrite !map_map. apply map_ext_in. intros r Hr. rewrite forallb_forall in Hrt. apply rtref_qrel. exact (Hrt r Hr).
Qed.

Theorem sel_tables_syntactic_qual : forall ds s, sel_tables_syntactic s = true -> sel_tables_syntactic (qual_stmt ds s) = true.
Proof.
  intros ds s H. destruct s as [t cols q|t q|t q|q|kind]; cbn [sel_tables_syntactic] in H; try discriminate;
    destruct q as [items from cj [wh|]| |]; try discriminate;
    apply andb_true_iff in H; destruct H as [Hrt Hd];
    cbn [qual_stmt]; rewrite (qual_select_tables _ ds items from cj Hrt); cbn [sel_tables_syntactic];
    rewrite (is_rtable_qrel ds from Hrt), (rtrefs_qrel ds from Hrt), (trefs_distinct_qual ds _ Hd); reflexivity.
Qed.
Print Assumptions sel_tables_syntactic_qual.

Theorem sshape_qual : forall ds s, sel_tables_syntactic s = true -> sshape (qual_stmt ds s) = true.
Proof.
  intros ds s H. destruct s as [t cols q|t q|t q|q|kind]; cbn [sel_tables_syntactic] in H; try discriminate;
    destruct q as [items from cj [wh|]| |]; try discriminate;
    apply andb_true_iff in H; destruct H as [Hrt _];
    cbn [qual_stmt]; rewrite (qual_select_tables _ ds items from cj Hrt); cbn [sshape sshape_q qshape]; rewrite andb_true_r;
    pose proof (is_rtable_qrel ds from Hrt) as Hrt'; rewrite forallb_forall in *; intros r Hr; specialize (Hrt' r Hr);
    destruct r; try discriminate; reflexivity.
Qed.
Print Assumptions sshape_qual.

Theorem stmt_ok_qual : forall ds s, id_ok ds = true -> stmt_ok s = true -> sel_tables_syntactic s = true ->
  stmt_ok (qual_stmt ds s) = true.
Proof.
  intros ds s Hds Hok H. destruct s as [t cols q|t q|t q|q|kind]; cbn [sel_tables_syntactic] in H; try discriminate;
    destruct q as [items from cj [wh|]| |]; try discriminate;
    apply andb_true_iff in H; destruct H as [Hrt _];
    cbn [qual_stmt]; rewrite (qual_select_tables _ ds items from cj Hrt); fold (qual_target ds t);
    cbn [stmt_ok] in *; rewrite (q_size_select_qrel ds items from cj Hrt).
  - apply andb_true_iff in Hok. destruct Hok as [Hok Hcols]. apply andb_true_iff in Hok. destruct Hok as [Hok H3].
    apply andb_true_iff in Hok. destruct Hok as [H1 H2].
    rewrite (tref_ok_qual ds t Hds H1), (frag_select_tables _ items from cj Hrt H2), (names_select_tables _ items from cj Hrt H3 _ ds Hds), Hcols.
    reflexivity.
  - apply andb_true_iff in Hok. destruct Hok as [Hok H3]. apply andb_true_iff in Hok. destruct Hok as [H1 H2].
    rewrite (tref_ok_qual ds t Hds H1), (frag_select_tables _ items from cj Hrt H2), (names_select_tables _ items from cj Hrt H3 _ ds Hds).
    reflexivity.
  - apply andb_true_iff in Hok. destruct Hok as [Hok H3]. apply andb_true_iff in Hok. destruct Hok as [H1 H2].
    rewrite (tref_ok_qual ds t Hds H1), (frag_select_tables _ items from cj Hrt H2), (names_select_tables _ items from cj Hrt H3 _ ds Hds).
    reflexivity.
Qed.
Print Assumptions stmt_ok_qual.

(* ================================================================== *)
(** * Alpha-equivalence with guards on [s] only

    The guards of the renamed statement follow from those of [s], from [admissible] and from the new names being
    identifiers of the fragment ([id_ok (rho a)] for the local names [a] of [s]). *)
Section RenameGuards.
  Variable rho : string -> string.
  Variable L T : list string.
  Hypothesis Hinj : forall a b, In a L -> In b L -> rho a = rho b -> a = b.
  Hypothesis HnewT : forall a, In a L -> ~ In (rho a) T.
  Hypothesis HoldT : forall a, In a L -> ~ In a T.
  Hypothesis Hid : forall a, In a L -> id_ok (rho a) = true.

  Definition rrel (r : rel) : rel := match r with RTable t al => RTable t (rn_opt rho L al) | _ => r end.

  Lemma rename_select_tables items from cj :
    forallb is_rtable from = true ->
    rename_query rho L [] (QSelect items from cj None) = QSelect (map (rename_item rho L) items) (map rrel from) cj None.
  Proof.
    intros Hrt. rewrite rename_query_select. f_equal. apply map_ext_in. intros r Hr. rewrite forallb_forall in Hrt. specialize (Hrt r Hr).
    destruct r as [[[sc|] n] al| |]; try discriminate; reflexivity.
  Qed.

  Lemma rn_local a : In a L -> rn rho L a = rho a.
  Proof. intros H. unfold rn. apply mem_string_In in H. rewrite H. reflexivity. Qed.
  Lemma rn_nonlocal a : ~ In a L -> rn rho L a = a.
  Proof. intros H. unfold rn. apply mem_string_nIn in H. rewrite H. reflexivity. Qed.

  Lemma id_ok_rn q : id_ok q = true -> id_ok (rn rho L q) = true.
  Proof.
    intros Hq. unfold rn. destruct (mem_string q L) eqn:E; [|exact Hq]. apply Hid. apply mem_string_In. exact E.
  Qed.

  Variable from : list rel.
  Hypothesis Hrt : forallb is_rtable from = true.
  Hypothesis HL : incl (flat_map rel_locals from) L.
  Hypothesis HT : incl (flat_map (rel_tables []) from) T.

  Lemma alias_local t a : In (RTable t (Some a)) from -> In a L.
  Proof. intros H. apply HL. apply in_flat_map. exists (RTable t (Some a)). split; [exact H|left; reflexivity]. Qed.
  Lemma bare_table t al : In (RTable t al) from -> In (snd t) T.
  Proof.
    intros H. apply HT. apply in_flat_map. exists (RTable t al). split; [exact H|]. destruct t as [[sc|] n]; left; reflexivity.
  Qed.

  Lemma rtref_rrel r : rtref (rrel r) = rtref r.
  Proof. destruct r; reflexivity. Qed.

  Lemma rel_ok_rrel : forallb rel_ok from = true -> forallb rel_ok (map rrel from) = true.
  Proof.
    intros H. rewrite forallb_forall in *. intros r' Hr'. apply in_map_iff in Hr'. destruct Hr' as (r & <- & Hr).
    specialize (H r Hr). destruct r as [t [a|]| |]; try discriminate; cbn [rrel rn_opt option_map rel_ok] in *; [|exact H].
    apply andb_true_iff in H. destruct H as [H1 H2]. rewrite H1, (id_ok_rn a H2). reflexivity.
  Qed.

  Lemma tables_cond_rrel ds t : tables_cond ds t from -> tables_cond ds t (map rrel from).
  Proof.
    unfold tables_cond. rewrite map_map.
    rewrite (map_ext (fun r => tref_str ds (rtref (rrel r))) (fun r => tref_str ds (rtref r))); [intros H; exact H|].
    intros r. rewrite rtref_rrel. reflexivity.
  Qed.

  Lemma qual1_rrel q : qual1 from q -> qual1 (map rrel from) (rn rho L q).
  Proof.
    intros (r0 & Hr0 & En & Hu). pose proof Hrt as Hrt'. rewrite forallb_forall in Hrt'.
    exists (rrel r0). split; [apply in_map; exact Hr0|].
    pose proof (Hrt' r0 Hr0) as K0. destruct r0 as [t0 [a0|]| |]; try discriminate; cbn [rname ralias rtref snd] in En; subst q.
    - (* the relation answers to its alias, which is renamed *)
      pose proof (alias_local t0 a0 Hr0) as La0. split; [reflexivity|].
      intros r' Hr' Hor. apply in_map_iff in Hr'. destruct Hr' as (r & <- & Hr). rewrite (rn_local a0 La0) in Hor.
      pose proof (Hrt' r Hr) as K. destruct r as [t [b|]| |]; try discriminate.
      + pose proof (alias_local t b Hr) as Lb. cbn [rrel rn_opt option_map rname ralias rtref snd] in Hor. rewrite (rn_local b Lb) in Hor.
        destruct Hor as [Hor|Hor].
        * rewrite (Hu _ Hr (or_introl (Hinj b a0 Lb La0 Hor))). reflexivity.
        * exfalso. apply (HnewT a0 La0). rewrite <- Hor. exact (bare_table t _ Hr).
      + cbn [rrel rn_opt option_map rname ralias rtref snd] in Hor.
        exfalso. apply (HnewT a0 La0). destruct Hor as [Hor|Hor]; rewrite <- Hor; exact (bare_table t _ Hr).
    - (* the relation answers to its bare name, which is not a local name *)
      pose proof (bare_table t0 None Hr0) as Tq.
      assert (Nq : ~ In (snd t0) L) by (intros K; exact (HoldT _ K Tq)).
      rewrite (rn_nonlocal _ Nq). split; [reflexivity|].
      intros r' Hr' Hor. apply in_map_iff in Hr'. destruct Hr' as (r & <- & Hr).
      pose proof (Hrt' r Hr) as K. destruct r as [t [b|]| |]; try discriminate.
      + pose proof (alias_local t b Hr) as Lb. cbn [rrel rn_opt option_map rname ralias rtref snd] in Hor. rewrite (rn_local b Lb) in Hor.
        destruct Hor as [Hor|Hor].
        * exfalso. apply (HnewT b Lb). rewrite Hor. exact Tq.
        * rewrite (Hu _ Hr (or_intror Hor)). reflexivity.
      + cbn [rrel rn_opt option_map rname ralias rtref snd] in Hor.
        assert (E : snd t = snd t0) by (destruct Hor; assumption).
        rewrite (Hu _ Hr (or_introl E)). reflexivity.
  Qed.

  Lemma item_ref_rename i : item_ref (rename_item rho L i) = (fst (item_ref i), rn_opt rho L (snd (item_ref i))).
  Proof. destruct i as [[qq c| | | | | |] al|qq]; reflexivity. Qed.

  Lemma item_ok_rename items : forallb item_ok items = true -> forallb item_ok (map (rename_item rho L) items) = true.
  Proof.
    intros H. rewrite forallb_forall in *. intros i' Hi'. apply in_map_iff in Hi'. destruct Hi' as (i & <- & Hi). specialize (H i Hi).
    destruct i as [[qq c| | | | | |] al|qq]; try discriminate; cbn [rename_item rename_expr item_ok] in *.
    - apply andb_true_iff in H. destruct H as [H H3]. apply andb_true_iff in H. destruct H as [H1 H2]. rewrite H1, H3.
      destruct qq as [x|]; [cbn [rn_opt option_map]; rewrite (id_ok_rn x H2)|]; reflexivity.
    - destruct qq as [x|]; [cbn [rn_opt option_map]; apply id_ok_rn; exact H|reflexivity].
  Qed.

  Lemma items_cond_rename items : items_cond from items -> items_cond (map rrel from) (map (rename_item rho L) items).
  Proof.
    intros H i' Hi'. apply in_map_iff in Hi'. destruct Hi' as (i & <- & Hi). specialize (H i Hi).
    rewrite item_ref_rename. cbn [fst snd]. destruct (snd (item_ref i)) as [q|]; cbn [rn_opt option_map].
    - apply qual1_rrel. exact H.
    - destruct H as [(r & E)|[Hl Hs]]; [left; exists (rrel r); rewrite E; reflexivity|right; rewrite map_length; split; assumption].
  Qed.

  Lemma noqual_items_rename items : noqual_items from items -> noqual_items (map rrel from) (map (rename_item rho L) items).
  Proof.
    unfold noqual_items. rewrite map_length. intros H Hl i' j' c c' q Hi' Hj' Ei Ej.
    apply in_map_iff in Hi', Hj'. destruct Hi' as (i & <- & Hi). destruct Hj' as (j & <- & Hj).
    rewrite item_ref_rename in Ei, Ej. destruct (item_ref i) as [x o] eqn:Ri. destruct (item_ref j) as [y o'] eqn:Rj. cbn [fst snd] in Ei, Ej.
    destruct o as [z|]; [discriminate Ei|]. destruct o' as [z'|]; [|discriminate Ej].
    inversion Ei. inversion Ej. subst. apply (H Hl i j c c' z' Hi Hj Ri Rj).
  Qed.
End RenameGuards.

Theorem lemma_B_renamed : forall noise e rho s,
  noise_ok noise = true -> env_ok e = true ->
  admissible rho s -> (forall a, In a (stmt_locals s) -> id_ok (rho a) = true) ->
  stmt_ok s = true -> colshape s = true -> sel_tables_syntactic s = true ->
  script_pairs e false [] [r_stmt noise (rename_stmt rho (stmt_locals s) s)] = spec_pairs (e_cfg e) (rename_stmt rho (stmt_locals s) s).
Proof.
  intros noise e rho s Hn He [Hinj [HnewT [HoldT _]]] Hid Hok Hc Hsh.
  destruct (single_select_inv s Hok Hsh) as (t & items & from & cj & Hs & Hrt & Hd & Ht & Hit & Hne & Hrel).
  assert (Hs' : (exists cols, s = SInsert t cols (QSelect items from cj None)) \/ s = SCtas t (QSelect items from cj None) \/ s = SView t (QSelect items from cj None)).
  { destruct Hs as [(cols & E & _)|[E|E]]; [left; exists cols; exact E|right; left; exact E|right; right; exact E]. }
  destruct (colshape_tables (e_cfg e) s t items from cj Hs' Hc Ht Hne Hrel Hit Hd) as (Htc & Hic & Hnq).
  assert (HL : incl (flat_map rel_locals from) (stmt_locals s)).
  { destruct Hs' as [(cols & E)|[E|E]]; rewrite E; unfold stmt_locals; cbn [stmt_query]; rewrite query_locals_select, app_nil_r; apply incl_refl. }
  assert (HT : incl (flat_map (rel_tables []) from) (stmt_tables s)).
  { destruct Hs' as [(cols & E)|[E|E]]; rewrite E; unfold stmt_tables; cbn [stmt_query]; rewrite query_tables_select, app_nil_r; apply incl_refl. }
  set (L := stmt_locals s) in *. set (T := stmt_tables s) in *.
  pose proof (rel_ok_rrel rho L Hid from Hrel) as Hrel'.
  assert (Hne' : map (rrel rho L) from <> []) by (destruct from; [contradiction|discriminate]).
  pose proof (tables_cond_rrel rho L from (e_cfg e) t Htc) as Htc'.
  pose proof (items_cond_rename rho L T Hinj HnewT HoldT from Hrt HL HT items Hic) as Hic'.
  pose proof (noqual_items_rename rho L from items Hnq) as Hnq'.
  pose proof (item_ok_rename rho L Hid items Hit) as Hit'.
  pose proof (rename_select_tables rho L items from cj Hrt) as Eq.
  destruct Hs as [(cols & E & Hcols)|[E|E]]; rewrite E; cbn [rename_stmt]; rewrite Eq.
  - destruct cols as [cs|].
    + destruct (colshape_tables "" s t items from cj Hs' Hc Ht Hne Hrel Hit Hd) as (Htc0 & _ & _).
      destruct (colshape_cols s t cs items from cj E Hc Hrel Hit Htc0 Hic) as [Hnd Hlen].
      assert (Hlen' : List.length cs = List.length (map (rename_item rho L) items)) by (rewrite map_length; exact Hlen).
      apply (lemma_B_insert_cols noise e t cs _ _ cj Hn He Ht Hcols Hnd Hlen' Hit' Hne' Hrel' Htc' Hic' Hnq').
    + apply (lemma_B_select_tables noise e _ t _ _ cj Hn He (or_introl eq_refl) Ht Hit' Hne' Hrel' Htc' Hic' Hnq').
  - apply (lemma_B_select_tables noise e _ t _ _ cj Hn He (or_intror (or_introl eq_refl)) Ht Hit' Hne' Hrel' Htc' Hic' Hnq').
  - apply (lemma_B_select_tables noise e _ t _ _ cj Hn He (or_intror (or_intror eq_refl)) Ht Hit' Hne' Hrel' Htc' Hic' Hnq').
Qed.
Print Assumptions lemma_B_renamed.

(** (2'), guards on [s] only *)
Theorem cols_alpha_on_single_select_strong : forall rho n1 n2 e s,
  admissible rho s -> admissible_cols rho (e_cfg e) s -> (forall a, In a (stmt_locals s) -> id_ok (rho a) = true) ->
  noise_ok n1 = true -> noise_ok n2 = true -> env_ok e = true ->
  stmt_ok s = true -> sshape s = true -> colshape s = true -> sel_tables_syntactic s = true ->
  script_pairs e false [] [r_stmt n1 (rename_stmt rho (stmt_locals s) s)] = script_pairs e false [] [r_stmt n2 s].
Proof.
  intros rho n1 n2 e s Ha Hac Hid H1 H2 He Hs Hq Hc Hf.
  rewrite (lemma_B_renamed n1 e rho s H1 He Ha Hid Hs Hc Hf), (lemma_B_tables_colshape n2 e s H2 He Hs Hq Hc Hf).
  apply spec_pairs_alpha; assumption.
Qed.
Print Assumptions cols_alpha_on_single_select_strong.

(** non-vacuity of the strong forms (the hypotheses on [cor_ex] only) *)
Example cols_alpha_strong_nonvacuous :
  (admissible cor_rho cor_ex /\ admissible_cols cor_rho (e_cfg cor_env_dw) cor_ex) /\
  (forall a, In a (stmt_locals cor_ex) -> id_ok (cor_rho a) = true) /\
  env_ok cor_env_dw && stmt_ok cor_ex && sshape cor_ex && colshape cor_ex && sel_tables_syntactic cor_ex = true /\
  stmt_locals cor_ex = ["p"; "q"].
Proof.
  split; [apply cor_ex_admissible|]. split; [intros a [<-|[<-|[]]]; reflexivity|]. split; vm_compute; reflexivity.
Qed.

Example cols_default_is_qualification_strong_nonvacuous :
  let e9 := mk_env "ansi" "other" "other" {| p_truthy := false; p_cols := [] |} [] in
  e_cfg cor_env_dw <> "" /\
  env_ok cor_env_dw && env_ok e9 && stmt_ok cor_ex && sshape cor_ex && colshape cor_ex && sel_tables_syntactic cor_ex = true /\
  script_pairs e9 false [] [r_stmt [] (qual_stmt (e_cfg cor_env_dw) cor_ex)]
  = ["dw.t2.*>dw.out1.c2"; "dw.t2.y>dw.out1.c3"; "s1.t1.x>dw.out1.c0"; "u1{dw.t2,s1.t1}>dw.out1.c1"].
Proof. cbv zeta. split; [vm_compute; discriminate|]. split; vm_compute; reflexivity. Qed.

(** the premise [id_ok (rho a)] of the strong form is what makes the renamed statement stay in the fragment:
    a new name with a dot leaves it *)
Example rename_leaves_fragment :
  let rho := fun n : string => ("x." ++ n)%string in
  admissible rho cor_ex /\ stmt_ok (rename_stmt rho (stmt_locals cor_ex) cor_ex) = false.
Proof.
  cbv zeta. split; [|vm_compute; reflexivity]. unfold admissible. cbn. repeat split.
  - intros a b [<-|[<-|[]]] [<-|[<-|[]]] H; try reflexivity; discriminate H.
  - intros a [<-|[<-|[]]] [H|[H|[H|[]]]]; discriminate H.
  - intros a [<-|[<-|[]]] [H|[H|[H|[]]]]; discriminate H.
  - intros a b [<-|[<-|[]]] [<-|[<-|[]]] H; discriminate H.
Qed.

(* ================================================================== *)
(** * [colshape] is preserved by qualification as well (single-SELECT fragment, [id_ok ds]) *)

(** tests first *)
Example colshape_qual_tests :
  forallb (fun s => negb (stmt_ok s && colshape s && sel_tables_syntactic s) || colshape (qual_stmt "dw" s))
    [ cor_ex;
      SCtas (None, "o") (QSelect [IExpr (EColRef (Some "t1") "a") None; IStar (Some "t2")] [RTable (None, "t1") None; RTable (Some "s", "t2") None] false None);
      SView (Some "dw", "v") (QSelect [IStar None; IExpr (EColRef None "a") (Some "b")] [RTable (None, "dw") None] false None);
      SInsert (None, "o") (Some ["a"; "b"]) (QSelect [IExpr (EColRef (Some "dw") "a") None; IExpr (EColRef None "k") None] [RTable (None, "dw") None; RTable (Some "dw", "x") (Some "y")] true None);
      SInsert (None, "o") None (QSelect [IExpr (EColRef (Some "x") "a") None] [RTable (None, "t") (Some "x"); RTable (Some "x", "u") None] true None) ] = true
  /\ map (fun s => stmt_ok s && colshape s && sel_tables_syntactic s)
       [ cor_ex;
         SCtas (None, "o") (QSelect [IExpr (EColRef (Some "t1") "a") None; IStar (Some "t2")] [RTable (None, "t1") None; RTable (Some "s", "t2") None] false None);
         SView (Some "dw", "v") (QSelect [IStar None; IExpr (EColRef None "a") (Some "b")] [RTable (None, "dw") None] false None);
         SInsert (None, "o") (Some ["a"; "b"]) (QSelect [IExpr (EColRef (Some "dw") "a") None; IExpr (EColRef None "k") None] [RTable (None, "dw") None; RTable (Some "dw", "x") (Some "y")] true None) ]
     = [true; true; true; true].
Proof. split; vm_compute; reflexivity. Qed.

Lemma tref_eqb_qual ds a b : tref_eqb a b = true -> tref_eqb (qual_target ds a) (qual_target ds b) = true.
Proof.
  destruct a as [[x|] n], b as [[y|] m]; unfold tref_eqb, qual_target; cbn [fst snd ostr_eqb]; intros H; try discriminate H; try exact H.
  apply andb_true_iff in H. destruct H as [_ H]. rewrite H, String.eqb_refl. reflexivity.
Qed.

Lemma otref_is_qual ds t o : otref_is t o = true -> otref_is (qual_target ds t) (option_map (qual_target ds) o) = true.
Proof. destruct o as [t'|]; cbn [otref_is option_map]; [apply tref_eqb_qual|discriminate]. Qed.

Lemma tref_eqb_refl t : tref_eqb t t = true.
Proof. destruct t as [[x|] n]; unfold tref_eqb; cbn [fst snd ostr_eqb]; rewrite ?String.eqb_refl; reflexivity. Qed.

Lemma q_trefs_tables k items from cj :
  forallb is_rtable from = true -> q_trefs (S k) (QSelect items from cj None) = map rtref from.
Proof.
  intros Hrt. cbn [q_trefs]. rewrite app_nil_r, (LemmaAProofs.rels_flat_tables from Hrt).
  induction from as [|r rs IH]; [reflexivity|]. cbn [forallb] in Hrt. apply andb_true_iff in Hrt. destruct Hrt as [H1 H2].
  destruct r as [t al| |]; try discriminate. cbn [flat_map map rtref app]. rewrite (IH H2). reflexivity.
Qed.

Definition sce_of (from : list rel) : list sc_entry := map (fun r => (ralias r, Some (rtref r))) from.

Lemma scopes_tables k items from cj :
  forallb is_rtable from = true ->
  scopes (S k) (QSelect items from cj None) = ([sce_of from], map snd (sce_of from)).
Proof.
  intros Hrt. cbn [scopes]. rewrite (LemmaAProofs.rels_flat_tables from Hrt). cbn [map snd fst app]. rewrite !app_nil_r.
  rewrite (flat_map_none _ from) by (intros r Hr; rewrite forallb_forall in Hrt; specialize (Hrt r Hr); destruct r; try discriminate; reflexivity).
  cbn [app]. unfold sce_of.
  assert (E : map (fun r => match r with RTable t al => (al, Some t) | RDerived _ a => (Some a, None) | RGroup _ _ => (None, None) end) from
              = map (fun r => (ralias r, Some (rtref r))) from).
  { apply map_ext_in. intros r Hr. rewrite forallb_forall in Hrt. specialize (Hrt r Hr). destruct r; try discriminate. reflexivity. }
  rewrite E. reflexivity.
Qed.

Definition qe (ds : string) (en : sc_entry) : sc_entry := (fst en, option_map (qual_target ds) (snd en)).

Lemma sce_of_qrel ds from : forallb is_rtable from = true -> sce_of (map (qrel ds) from) = map (qe ds) (sce_of from).
Proof.
  intros Hrt. unfold sce_of. rewrite !map_map. apply map_ext_in. intros r Hr. rewrite forallb_forall in Hrt. specialize (Hrt r Hr).
  destruct r as [t al| |]; try discriminate. reflexivity.
Qed.

Lemma noself_qual ds t l :
  forallb (fun r => negb (tref_clash t r)) l = true ->
  forallb (fun r => negb (tref_clash (qual_target ds t) r)) (map (qual_target ds) l) = true.
Proof.
  intros H. rewrite forallb_forall in *. intros r' Hr'. apply in_map_iff in Hr'. destruct Hr' as (r & <- & Hr). specialize (H r Hr).
  destruct (tref_clash (qual_target ds t) (qual_target ds r)) eqn:E; [|reflexivity]. rewrite (tref_clash_qual ds t r E) in H. discriminate H.
Qed.

Lemma scope_pair_ok_qual ds a : scope_pair_ok a a = true -> scope_pair_ok (map (qe ds) a) (map (qe ds) a) = true.
Proof.
  unfold scope_pair_ok. intros H. rewrite forallb_forall in *. intros ea' Hea'. apply in_map_iff in Hea'. destruct Hea' as (ea & <- & Hea).
  specialize (H ea Hea). cbn [qe fst snd]. destruct (fst ea) as [al|]; [|reflexivity].
  rewrite forallb_forall in *. intros eb' Heb'. apply in_map_iff in Heb'. destruct Heb' as (eb & <- & Heb).
  specialize (H eb Heb). cbn [qe fst snd]. destruct (fst eb) as [bl|]; [|reflexivity].
  destruct (snd eb) as [y|] eqn:Ey; cbn [option_map]; [|reflexivity].
  destruct (String.eqb al bl); [|reflexivity]. cbn [andb] in *.
  assert (Ex : existsb (fun e' : option string * option tref => otref_is y (snd e')) a = true).
  { apply existsb_exists. exists eb. split; [exact Heb|]. rewrite Ey. cbn [otref_is]. apply tref_eqb_refl. }
  rewrite Ex, andb_true_r in H. apply negb_true_iff in H. apply negb_false_iff in H.
  rewrite (otref_is_qual ds y (snd ea) H). reflexivity.
Qed.

Lemma names_global_qual ds k items from cj :
  forallb is_rtable from = true ->
  names_global (S k) (QSelect items from cj None) = true ->
  names_global (S k) (QSelect items (map (qrel ds) from) cj None) = true.
Proof.
  intros Hrt H. pose proof (is_rtable_qrel ds from Hrt) as Hrt'. unfold names_global in *.
  rewrite (q_trefs_tables k items _ cj Hrt'), (scopes_tables k items _ cj Hrt'), (sce_of_qrel ds from Hrt), (rtrefs_qrel ds from Hrt).
  rewrite (q_trefs_tables k items _ cj Hrt), (scopes_tables k items _ cj Hrt) in H.
  cbn [fst flat_map] in *. rewrite app_nil_r in *. apply andb_true_iff in H. destruct H as [G1 G2]. apply andb_true_iff. split.
  - rewrite forallb_forall in *. intros t1' H1'. apply in_map_iff in H1'. destruct H1' as (t1 & <- & H1). specialize (G1 t1 H1).
    rewrite forallb_forall in *. intros t2' H2'. apply in_map_iff in H2'. destruct H2' as (t2 & <- & H2). specialize (G1 t2 H2).
    apply orb_true_iff in G1. apply orb_true_iff. destruct G1 as [G1|G1].
    + left. destruct t1 as [[x|] n], t2 as [[y|] m]; exact G1.
    + right. apply tref_eqb_qual. exact G1.
  - rewrite forallb_forall in *. intros [a o'] Hao. apply in_flat_map in Hao. destruct Hao as (en' & Hen' & Hin).
    apply in_map_iff in Hen'. destruct Hen' as (en & <- & Hen). cbn [qe fst snd] in Hin.
    destruct (fst en) as [a0|] eqn:Ea; [|destruct Hin]. destruct Hin as [Hin|[]]. inversion Hin. subst a0 o'. clear Hin.
    assert (Hao : In (a, snd en) (flat_map (fun en0 : sc_entry => match fst en0 with Some a0 => [(a0, snd en0)] | None => [] end) (sce_of from))).
    { apply in_flat_map. exists en. split; [exact Hen|]. rewrite Ea. left. reflexivity. }
    specialize (G2 _ Hao). cbn [fst snd] in *.
    rewrite forallb_forall in *. intros t2' H2'. apply in_map_iff in H2'. destruct H2' as (t2 & <- & H2). specialize (G2 t2 H2).
    apply orb_true_iff in G2. apply orb_true_iff. destruct G2 as [G2|G2].
    + left. destruct t2 as [[y|] m]; exact G2.
    + right. apply otref_is_qual. exact G2.
Qed.

Lemma snd_qual ds t : snd (qual_target ds t) = snd t.
Proof. destruct t as [[x|] n]; reflexivity. Qed.

Lemma orb_impl (a b b' : bool) : (b = true -> b' = true) -> a || b = true -> a || b' = true.
Proof. intros Hi H. apply orb_true_iff in H. apply orb_true_iff. destruct H as [H|H]; [left; exact H|right; exact (Hi H)]. Qed.

Lemma scope_names_ok_qual ds from :
  forallb is_rtable from = true -> scope_names_ok from = true -> scope_names_ok (map (qrel ds) from) = true.
Proof.
  induction from as [|r rest IH]; intros Hrt H; [reflexivity|].
  cbn [forallb] in Hrt. apply andb_true_iff in Hrt. destruct Hrt as [Hr Hrt].
  cbn [map scope_names_ok] in *. apply andb_true_iff in H. destruct H as [H1 H2]. rewrite (IH Hrt H2), andb_true_r.
  rewrite forallb_forall in *. intros r2' Hr2'. apply in_map_iff in Hr2'. destruct Hr2' as (r2 & <- & Hr2).
  specialize (H1 r2 Hr2). specialize (Hrt r2 Hr2).
  destruct r as [t al| |]; try discriminate. destruct r2 as [t' al'| |]; try discriminate.
  cbn [qrel rel_name rel_bare] in *. rewrite !snd_qual.
  apply andb_true_iff in H1. destruct H1 as [H1 N4]. apply andb_true_iff in H1. destruct H1 as [H1 N3].
  apply andb_true_iff in H1. destruct H1 as [N1 N2]. rewrite N1. cbn [andb].
  rewrite (orb_impl _ _ _ (tref_eqb_qual ds t t') N2). cbn [andb].
  assert (N3' : negb (ostr_eqb (Some match al with Some a => a | None => snd t end) (Some (snd t')))
                || match al with Some _ => false | None => tref_eqb (qual_target ds t) (qual_target ds t') end = true).
  { destruct al; [exact N3|]. exact (orb_impl _ _ _ (tref_eqb_qual ds t t') N3). }
  assert (N4' : negb (ostr_eqb (Some match al' with Some a => a | None => snd t' end) (Some (snd t)))
                || match al' with Some _ => false | None => tref_eqb (qual_target ds t) (qual_target ds t') end = true).
  { destruct al'; [exact N4|]. exact (orb_impl _ _ _ (tref_eqb_qual ds t t') N4). }
  rewrite N3', N4'. reflexivity.
Qed.

Lemma is_base_all ds0 from : forallb is_base (map (sbind ds0) from) = true.
Proof. apply forallb_forall. intros b Hb. apply in_map_iff in Hb. destruct Hb as (r & <- & _). reflexivity. Qed.

Lemma find_binding_qual ds from q :
  forallb is_rtable from = true -> id_ok q = true -> qual1 from q ->
  exists r0, find_binding q (map (sbind "") (map (qrel ds) from)) = Some (sbind "" r0).
Proof.
  intros Hrt Hq Hq1. destruct (qual1_qrel ds from q Hq1) as (r0 & Hr0 & En & Hu). exists r0.
  apply (find_binding_q "" _ q r0 (is_rtable_qrel ds from Hrt) Hq Hr0 En Hu).
Qed.

Lemma item_ok_c_qual ds AN UQ from i :
  forallb is_rtable from = true -> item_ok i = true ->
  match snd (item_ref i) with Some q => qual1 from q | None => True end ->
  item_ok_c AN (map (sbind "") from) true UQ i = true ->
  item_ok_c AN (map (sbind "") (map (qrel ds) from)) true UQ i = true.
Proof.
  intros Hrt Hit Hq H. destruct (xcol_of_facts i Hit) as (_ & _ & _ & F4).
  destruct i as [[qq c| | | | | |] al'|qq]; cbn [item_ok] in Hit; try discriminate; cbn [item_ref snd fst] in *.
  - cbn [item_ok_c col_refs forallb] in *. rewrite andb_true_r in *. destruct qq as [q|]; cbn [ref_ok fst snd] in *.
    + destruct (find_binding_qual ds from q Hrt F4 Hq) as (r0 & E). rewrite E. reflexivity.
    + destruct from as [|r [|r2 l]]; cbn [map] in *; [exact H|reflexivity|].
      apply andb_true_iff in H. destruct H as [_ H]. rewrite H, andb_true_r.
      exact (is_base_all "" (qrel ds r :: qrel ds r2 :: map (qrel ds) l)).
  - cbn [item_ok_c] in *. destruct qq as [q|].
    + destruct (find_binding_qual ds from q Hrt F4 Hq) as (r0 & E). rewrite E, (is_base_all "" (map (qrel ds) from)). reflexivity.
    + destruct from as [|r [|r2 l]]; cbn [map] in *; [exact H|reflexivity|exact H].
Qed.

Lemma cs_q_qual ds k items from cj :
  forallb is_rtable from = true -> forallb item_ok items = true -> items_cond from items ->
  cs_q (S k) (q_refnames (S k) (QSelect items from cj None)) true [] (QSelect items from cj None) = true ->
  cs_q (S k) (q_refnames (S k) (QSelect items (map (qrel ds) from) cj None)) true [] (QSelect items (map (qrel ds) from) cj None) = true.
Proof.
  intros Hrt Hit Hic H. pose proof (is_rtable_qrel ds from Hrt) as Hrt'.
  rewrite (q_refnames_tables k items _ cj Hrt'). rewrite (q_refnames_tables k items _ cj Hrt) in H.
  cbn [cs_q] in *. rewrite (scope_of_tables k _ Hrt'), (LemmaAProofs.rels_flat_tables _ Hrt').
  rewrite (scope_of_tables k _ Hrt), (LemmaAProofs.rels_flat_tables _ Hrt) in H. rewrite andb_true_r in *.
  apply andb_true_iff in H. destruct H as [H _]. apply andb_true_iff in H. destruct H as [Hnames Hitems].
  rewrite (scope_names_ok_qual ds from Hrt Hnames). cbn [andb]. apply andb_true_iff. split.
  - rewrite forallb_forall in Hit, Hitems. apply forallb_forall. intros i Hi. apply (item_ok_c_qual ds _ _ from i Hrt (Hit i Hi)); [|exact (Hitems i Hi)].
    specialize (Hic i Hi). destruct (snd (item_ref i)); [exact Hic|exact I].
  - rewrite forallb_forall in Hrt'. apply forallb_forall. intros r Hr. specialize (Hrt' r Hr). destruct r; try discriminate. reflexivity.
Qed.

Lemma cs_alias_body_qual ds k items from cj :
  forallb is_rtable from = true ->
  nested_ok (S k) (QSelect items from cj None)
  && forallb (fun a => forallb (scope_pair_ok a) (fst (scopes (S k) (QSelect items from cj None)))) (fst (scopes (S k) (QSelect items from cj None)))
  && names_global (S k) (QSelect items from cj None) = true ->
  nested_ok (S k) (QSelect items (map (qrel ds) from) cj None)
  && forallb (fun a => forallb (scope_pair_ok a) (fst (scopes (S k) (QSelect items (map (qrel ds) from) cj None))))
             (fst (scopes (S k) (QSelect items (map (qrel ds) from) cj None)))
  && names_global (S k) (QSelect items (map (qrel ds) from) cj None) = true.
Proof.
  intros Hrt H. pose proof (is_rtable_qrel ds from Hrt) as Hrt'. cbv zeta in *.
  rewrite (scopes_tables k items _ cj Hrt'), (sce_of_qrel ds from Hrt). rewrite (scopes_tables k items _ cj Hrt) in H.
  cbn [fst forallb] in *. rewrite !andb_true_r in *.
  apply andb_true_iff in H. destruct H as [H G]. apply andb_true_iff in H. destruct H as [_ P].
  rewrite (names_global_qual ds k items from cj Hrt G), (scope_pair_ok_qual ds _ P), !andb_true_r.
  cbn [nested_ok]. rewrite andb_true_r, (LemmaAProofs.rels_flat_tables _ Hrt').
  rewrite forallb_forall in Hrt'. apply forallb_forall. intros r Hr. specialize (Hrt' r Hr). destruct r; try discriminate. reflexivity.
Qed.

Theorem colshape_qual : forall ds s,
  id_ok ds = true -> stmt_ok s = true -> colshape s = true -> sel_tables_syntactic s = true ->
  colshape (qual_stmt ds s) = true.
Proof.
  intros ds s Hid Hok Hc Hsh.
  pose proof (id_ok_nonempty ds Hid) as Hds.
  destruct (single_select_inv s Hok Hsh) as (t & items & from & cj & Hs & Hrt & Hd & Ht & Hit & Hne & Hrel).
  assert (Hs' : (exists cols, s = SInsert t cols (QSelect items from cj None)) \/ s = SCtas t (QSelect items from cj None) \/ s = SView t (QSelect items from cj None)).
  { destruct Hs as [(cols & E & _)|[E|E]]; [left; exists cols; exact E|right; left; exact E|right; right; exact E]. }
  destruct (colshape_tables ds s t items from cj Hs' Hc Ht Hne Hrel Hit Hd) as (Htc & Hic & Hnq).
  pose proof (rel_ok_qrel ds from Hid Hrel) as Hrel'.
  pose proof (is_rtable_qrel ds from Hrt) as Hrt'.
  pose proof (tables_cond_qual "" ds t from Hds Hrt Htc) as Htc'.
  pose proof (items_cond_qual ds from items Hic) as Hic'.
  assert (Eq : forall k, qual_q (S k) ds [] (QSelect items from cj None) = QSelect items (map (qrel ds) from) cj None)
    by (intros k; apply qual_select_tables; exact Hrt).
  assert (Hlen : forall k, List.length (q_cols (S k) "" [] (QSelect items (map (qrel ds) from) cj None)) = List.length items).
  { intros k. rewrite (LemmaBProofs.q_cols_select k "" items _ cj None Hrt'). apply length_flat_single. intros i Hi.
    destruct (item_cols_single (mk_env "ansi" "" "" {| p_truthy := false; p_cols := [] |} []) (qual_target ds t) _ items Hrel' Hit Htc' Hic' i Hi) as (srcs & E).
    eexists. exact E. }
  pose proof (q_size_select_qrel ds items from cj Hrt) as Hsz.
  pose proof Hc as Hc0.
  unfold colshape in Hc |- *. apply andb_true_iff in Hc. destruct Hc as [Hc C4]. apply andb_true_iff in Hc. destruct Hc as [Hc C3].
  apply andb_true_iff in Hc. destruct Hc as [C1 C2].
  assert (G1 : forall k, forallb (fun r => negb (tref_clash t r)) (q_trefs (S k) (QSelect items from cj None)) = true ->
               forallb (fun r => negb (tref_clash (qual_target ds t) r)) (q_trefs (S k) (QSelect items (map (qrel ds) from) cj None)) = true).
  { intros k G. rewrite (q_trefs_tables k items _ cj Hrt'), (rtrefs_qrel ds from Hrt). rewrite (q_trefs_tables k items _ cj Hrt) in G.
    apply noself_qual. exact G. }
  destruct Hs as [(cols & E & Hcols)|[E|E]]; subst s; cbn [qual_stmt]; rewrite Eq; fold (qual_target ds t);
    cbn [cs_noself cs_cols cs_alias cs_scopes stmt_query] in *; rewrite Hsz.
  - rewrite (G1 _ C1), (cs_alias_body_qual ds _ items from cj Hrt C3), (cs_q_qual ds _ items from cj Hrt Hit Hic C4), !andb_true_r. cbn [andb].
    destruct cols as [cs|]; [|reflexivity]. apply andb_true_iff in C2. destruct C2 as [C2 _]. rewrite C2. cbn [andb].
    destruct (colshape_tables "" _ t items from cj Hs' Hc0 Ht Hne Hrel Hit Hd) as (Htc0 & _ & _).
    apply Nat.eqb_eq. rewrite Hlen. 
    destruct (colshape_cols _ t cs items from cj eq_refl Hc0 Hrel Hit Htc0 Hic) as [_ Hl].
    exact Hl.
  - rewrite (G1 _ C1), (cs_alias_body_qual ds _ items from cj Hrt C3), (cs_q_qual ds _ items from cj Hrt Hit Hic C4). reflexivity.
  - rewrite (G1 _ C1), (cs_alias_body_qual ds _ items from cj Hrt C3), (cs_q_qual ds _ items from cj Hrt Hit Hic C4). reflexivity.
Qed.
Print Assumptions colshape_qual.

(** all four guards of Lemma B at once *)
Theorem guards_preserved_by_qualification : forall ds s,
  id_ok ds = true -> stmt_ok s = true -> sshape s = true -> colshape s = true -> sel_tables_syntactic s = true ->
  stmt_ok (qual_stmt ds s) = true /\ sshape (qual_stmt ds s) = true /\
  colshape (qual_stmt ds s) = true /\ sel_tables_syntactic (qual_stmt ds s) = true.
Proof.
  intros ds s Hid Hok _ Hc Hf. split; [apply stmt_ok_qual; assumption|]. split; [apply sshape_qual; assumption|].
  split; [apply colshape_qual; assumption|apply sel_tables_syntactic_qual; assumption].
Qed.
Print Assumptions guards_preserved_by_qualification.

Example guards_preserved_nonvacuous :
  id_ok "dw" && stmt_ok cor_ex && sshape cor_ex && colshape cor_ex && sel_tables_syntactic cor_ex = true
  /\ qual_stmt "dw" cor_ex <> cor_ex.
Proof. split; [vm_compute; reflexivity|vm_compute; discriminate]. Qed.

(** [id_ok ds] is needed for the preservation of [stmt_ok]: a default schema with two dots is not a schema of the fragment *)
Example stmt_ok_qual_needs_id_ok :
  stmt_ok cor_ex = true /\ sel_tables_syntactic cor_ex = true /\ stmt_ok (qual_stmt "a.b.c" cor_ex) = false.
Proof. repeat split; vm_compute; reflexivity. Qed.

(** (2), (4) on the fragment of [lemma_B_single_select] (bare SELECT and no-data statements included), guards on both sides *)
Theorem cols_alpha_on_single_select_fragment : forall rho n1 n2 e s,
  admissible rho s -> admissible_cols rho (e_cfg e) s ->
  noise_ok n1 = true -> noise_ok n2 = true -> env_ok e = true ->
  stmt_ok s = true -> sshape s = true -> colshape s = true -> single_select_fragment s = true ->
  stmt_ok (rename_stmt rho (stmt_locals s) s) = true -> sshape (rename_stmt rho (stmt_locals s) s) = true ->
  colshape (rename_stmt rho (stmt_locals s) s) = true -> single_select_fragment (rename_stmt rho (stmt_locals s) s) = true ->
  script_pairs e false [] [r_stmt n1 (rename_stmt rho (stmt_locals s) s)] = script_pairs e false [] [r_stmt n2 s].
Proof.
  intros rho n1 n2 e s Ha Hac H1 H2 He Hs Hq Hc Hf Hs' Hq' Hc' Hf'.
  rewrite (lemma_B_single_select n1 e _ H1 He Hs' Hq' Hc' Hf'), (lemma_B_single_select n2 e s H2 He Hs Hq Hc Hf).
  apply spec_pairs_alpha; assumption.
Qed.
Print Assumptions cols_alpha_on_single_select_fragment.

Theorem cols_default_is_qualification_on_single_select_fragment : forall n1 n2 e e0 s,
  noise_ok n1 = true -> noise_ok n2 = true -> env_ok e = true -> env_ok e0 = true ->
  e_cfg e <> "" ->
  stmt_ok s = true -> sshape s = true -> colshape s = true -> single_select_fragment s = true ->
  stmt_ok (qual_stmt (e_cfg e) s) = true -> sshape (qual_stmt (e_cfg e) s) = true ->
  colshape (qual_stmt (e_cfg e) s) = true -> single_select_fragment (qual_stmt (e_cfg e) s) = true ->
  script_pairs e false [] [r_stmt n1 s] = script_pairs e0 false [] [r_stmt n2 (qual_stmt (e_cfg e) s)].
Proof.
  intros n1 n2 e e0 s H1 H2 He He0 Hds Hs Hq Hc Hf Hs' Hq' Hc' Hf'.
  rewrite (lemma_B_single_select n1 e s H1 He Hs Hq Hc Hf), (lemma_B_single_select n2 e0 _ H2 He0 Hs' Hq' Hc' Hf').
  unfold spec_pairs. rewrite (spec_flows_qualified_any_default (e_cfg e0) (e_cfg e) s Hds). reflexivity.
Qed.
Print Assumptions cols_default_is_qualification_on_single_select_fragment.
