(** Parenthesised join groups at table level, JOIN spelling: the theorem.
    Single-level SELECT statements (plain query / INSERT without column list / CTAS) whose FROM is a JOIN-style list of two or
    more elements, each a base table or a group ( a JOIN b ON .. ) of two base tables - the group as a JOIN operand
    ([from t1 join (t2 join t3 on ..) on ..]) or as the first element -, star / column / expression items, any trivia:
    [lemma_A_group_join].  The sole-FROM-element layout and the comma layout are not covered (the comma layout is the
    refuted K-C01-11, Tree/LemmaAGroup.v). *)
From Coq Require Import Lia.
From SV Require Import Tree.Render Tree.RenderExpr Tree.RenderGroup Tree.ExprItem Tree.LemmaA Tree.LemmaAProofs Tree.LemmaB Tree.LemmaBProofs
     Tree.LemmaBExpr Tree.LemmaAExpr Tree.LemmaAChain Tree.LemmaAGroup Tree.LemmaAGroup2 Ident.Escape.
From SV Require TriviaProofs.

Definition stmt_ok_g_join (s : stmt) : bool :=
  match s with
  | SInsert t None (QSelect items (r0 :: r1 :: rest) false None) | SCtas t (QSelect items (r0 :: r1 :: rest) false None) =>
      tref_ok t && forallb item_ok_a items && forallb rel_ok_g (r0 :: r1 :: rest)
  | SQuery (QSelect items (r0 :: r1 :: rest) false None) => forallb item_ok_a items && forallb rel_ok_g (r0 :: r1 :: rest)
  | _ => false
  end.

Section NavG5.
Variable noise : list seg.
Hypothesis Hnoise : noise_ok noise = true.
Variable e : env.
Hypothesis Henv : env_ok e = true.

Notation FC r0 r1 rest := (r_fc_g noise (r0 :: r1 :: rest) false).

Lemma flat_of_ok l : forallb rel_ok_g l = true -> forallb group_flat l = true.
Proof. apply forallb_impl. intros r _ H. unfold rel_ok_g in H. apply andb_true_iff in H. apply H. Qed.

Lemma lsf_fee_of r : group_flat r = true -> list_subqueries_fee (fee_of noise r) = Ok [].
Proof.
  destruct r as [t al| |[ta aa| |] [tb ab| |]]; try discriminate; intros _.
  - cbn [fee_of]. rewrite fee_tbl_rel. apply (list_subqueries_fee_table noise Hnoise).
  - exact (list_subqueries_gfee noise Hnoise ta aa tb ab).
Qed.

Definition Lstep (jc : seg) : res (list sqtuple) :=
  match find_from_expression_element jc with Some fee => list_subqueries_fee fee | None => Ok [] end.

Lemma Lstep_jcs r : group_flat r = true -> forall jc, In jc (jcs_of noise r) -> Lstep jc = Ok [].
Proof.
  intros Hr jc Hjc. unfold jcs_of in Hjc. destruct Hjc as [<-|Hjc].
  - unfold Lstep. rewrite (ffee_joinc noise Hnoise r). apply lsf_fee_of. exact Hr.
  - destruct r as [t al| |[ta aa| |] [tb ab| |]]; try discriminate; cbn [inner_jcs] in Hjc; [destruct Hjc|]. destruct Hjc as [<-|[]].
    unfold Lstep. rewrite (ffee_joinc_tbl noise Hnoise tb ab). apply (lsf_fee_of (RTable tb ab)). reflexivity.
Qed.

Lemma list_subquery_fc_g r0 r1 rest :
  forallb group_flat (r0 :: r1 :: rest) = true -> list_subquery (FC r0 r1 rest) = Ok [].
Proof.
  intros Hfl. destruct (fc_facts noise Hnoise r0 r1 rest Hfl) as (F1 & F2 & F3). cbv zeta in *.
  unfold list_subquery. rewrite F1.
  match goal with |- context [ty_in ?n ["select_clause"; "from_clause"; "where_clause"]] =>
    change (ty_in n ["select_clause"; "from_clause"; "where_clause"]) with true end. cbn iota.
  unfold list_subqueries.
  match goal with |- context [tyis ?n "select_clause"] => change (tyis n "select_clause") with false end. cbn iota.
  match goal with |- context [tyis ?n "from_expression_element"] => change (tyis n "from_expression_element") with false end. cbn iota.
  match goal with |- context [tyis ?n "where_clause"] => change (tyis n "where_clause") with false end. cbn iota.
  match goal with |- context [ty_in ?n ["from_clause"; "from_expression"]] => change (ty_in n ["from_clause"; "from_expression"]) with true end. cbn iota.
  rewrite F2, F3. fold Lstep.
  cbn [forallb] in Hfl. apply andb_true_iff in Hfl. destruct Hfl as [H0 Hl].
  rewrite (lsf_fee_of r0 H0). rewrite concat_res_nil; [reflexivity|].
  intros jc Hjc. apply in_app_iff in Hjc. destruct Hjc as [Hjc|Hjc].
  - apply (Lstep_jcs r0 H0). right. exact Hjc.
  - apply in_flat_map in Hjc. destruct Hjc as (r & Hr & Hjc). assert (Hl' : forallb group_flat (r1 :: rest) = true) by exact Hl.
    rewrite forallb_forall in Hl'. apply (Lstep_jcs r (Hl' r Hr) jc Hjc).
Qed.

Lemma ise_fc_g r0 r1 rest : is_set_expression (FC r0 r1 rest) = false.
Proof.
  unfold is_set_expression. rewrite r_fc_g_join.
  match goal with |- context [tyis ?n "set_expression"] => change (tyis n "set_expression") with false end. cbn [orb children node].
  rewrite (existsb_sep noise Hnoise) by (intros x Hx; apply noise_tyis; [exact Hx|reflexivity]). reflexivity.
Qed.

Lemma sel_subq1_fc_g r0 r1 rest : forallb group_flat (r0 :: r1 :: rest) = true -> sel_subq1 (FC r0 r1 rest) = Ok [].
Proof. intros H. unfold sel_subq1. rewrite (list_subquery_fc_g r0 r1 rest H), ise_fc_g. reflexivity. Qed.

Lemma handle_child_fc_g f st r0 r1 rest :
  handle_child f e st (FC r0 r1 rest) =
  (do ts <- list_tables e (FC r0 r1 rest) (s_g st);
   Ok {| s_g := s_g st; s_tables := s_tables st ++ ts; s_columns := s_columns st; s_barriers := s_barriers st |}).
Proof.
  unfold handle_child. rewrite (swap_partition_off e Henv). unfold handle_select_into.
  match goal with |- context [ty_in ?n ["into_table_clause"; "into_clause"]] => change (ty_in n ["into_table_clause"; "into_clause"]) with false end. cbn iota.
  destruct (list_tables e (FC r0 r1 rest) (s_g st)); [|reflexivity].
  match goal with |- context [tyis ?n "select_clause"] => change (tyis n "select_clause") with false end. cbn iota. rewrite app_nil_r. reflexivity.
Qed.

(** ** the SELECT *)
Definition Qg (items : list item) (r0 r1 : rel) (rest : list rel) : seg := r_select_g noise items (r0 :: r1 :: rest) false.

Lemma sel_segments_g items r0 r1 rest : sel_segments (Qg items r0 r1 rest) = [r_sc noise items; FC r0 r1 rest].
Proof.
  unfold sel_segments, Qg, r_select_g. match goal with |- context [tyis ?n "set_expression"] => change (tyis n "set_expression") with false end. cbn iota.
  rewrite (lcs_node noise Hnoise) by reflexivity. reflexivity.
Qed.

Lemma select_g_ok f ctx items r0 r1 rest ctes :
  forallb item_ok_a items = true -> forallb rel_ok_g (r0 :: r1 :: rest) = true -> items_fuel items <= f ->
  Pre (init_holder ctx) ctes ->
  exists g, extract (S (S f)) e XSelect (Qg items r0 r1 rest) ctx = Ok g /\
            Post (init_holder ctx) g (flat_map (rel_reads e ctes) (flat_map rels_flat (r0 :: r1 :: rest))).
Proof.
  intros Hit Hok Hfu Hpre. pose proof (flat_of_ok _ Hok) as Hfl. destruct Hpre as (G1 & G2 & G3). set (g1 := init_holder ctx) in *.
  rewrite extract_select_eq, sel_segments_g. unfold sel_subqueries. cbn [map concat_res].
  rewrite (sel_subq1_sc noise Hnoise items Hit), (sel_subq1_fc_g r0 r1 rest Hfl). cbn [app ex_subquery fold_left].
  unfold sel_fold. cbn [fold_left]. unfold sel_step.
  destruct (handle_child_sc noise Hnoise e Henv f {| s_g := g1; s_tables := []; s_columns := []; s_barriers := [] |} items Hit Hfu) as (cols & E1 & Hcols).
  fold g1. rewrite E1, (ise_sc noise Hnoise). rewrite handle_child_fc_g. cbn [s_g s_tables s_columns s_barriers app].
  destruct (list_tables_g noise Hnoise e Henv r0 r1 rest g1 ctes Hok G1 G2) as (ts & E2 & Hts & Hx). rewrite E2, ise_fc_g.
  cbn [s_g s_tables s_columns s_barriers].
  destruct (select_tail e Henv g1 ts cols [] G1 Hts Hcols (one_write_length g1 G1 G3)) as (g3 & E3 & Hg3 & Hk3 & Hr3).
  rewrite E3. exists g3. split; [reflexivity|].
  split; [exact Hg3|]. split; [intros x; rewrite Hr3, Hx; reflexivity|]. split; [|split].
  - intros d. rewrite (Hk3 "write") by discriminate. auto.
  - intros d Hd _. rewrite (Hk3 "write") by discriminate. exact Hd.
  - intros d. unfold sq_cte. rewrite (Hk3 "cte") by discriminate. reflexivity.
Qed.

(** the reads of the specification *)
Lemma q_reads_g k items r0 r1 rest cj :
  forallb group_flat (r0 :: r1 :: rest) = true ->
  q_reads (S k) (e_cfg e) [] (QSelect items (r0 :: r1 :: rest) cj None) = flat_map (rel_reads e []) (flat_map rels_flat (r0 :: r1 :: rest)).
Proof.
  intros Hfl. cbn [q_reads]. rewrite app_nil_r. apply flat_map_ext_in'. intros r Hr.
  apply in_flat_map in Hr. destruct Hr as (r' & Hr' & Hr). rewrite forallb_forall in Hfl. specialize (Hfl r' Hr').
  destruct r' as [t al| |[ta aa| |] [tb ab| |]]; try discriminate; cbn [rels_flat app In] in Hr.
  - destruct Hr as [<-|[]]. reflexivity.
  - destruct Hr as [<-|[<-|[]]]; reflexivity.
Qed.

Lemma depth_Qg_items items r0 r1 rest : S (items_fuel items) <= depth (Qg items r0 r1 rest).
Proof.
  assert (H1 : S (depth (r_sc noise items)) <= depth (Qg items r0 r1 rest)).
  { unfold Qg, r_select_g. apply depth_child. cbn [children node]. apply (In_sep noise). left. reflexivity. }
  assert (H2 : items_fuel items <= depth (r_sc noise items)).
  { apply items_fuel_bound. intros i Hi. exact (item_fuel_sc noise items i Hi). }
  lia.
Qed.

(** the SELECT as the source of INSERT / CREATE *)
Lemma ci_source_g items r0 r1 rest f stmt g :
  forallb item_ok_a items = true -> forallb rel_ok_g (r0 :: r1 :: rest) = true ->
  S (S (depth (Qg items r0 r1 rest))) <= f -> Pre g [] -> sq_cte g = [] -> (forall d, In d (holder_nodes g "write") -> dk d <> KSubq) ->
  exists g', ci_step f e stmt (Ok (g, false, false)) (Qg items r0 r1 rest) = Ok (g', false, false) /\
             RW g g' (flat_map (rel_reads e []) (flat_map rels_flat (r0 :: r1 :: rest))).
Proof.
  intros Hit Hok Hf Hpre Hcte Hns. destruct f as [|[|f]]; [lia|lia|].
  rewrite (ci_select_x e (S (S f)) stmt g (Qg items r0 r1 rest)) by reflexivity. unfold ex_delegate. fold (dctx g).
  destruct (init_delegate g [] Hpre) as (I0 & _).
  pose proof (depth_Qg_items items r0 r1 rest) as Hd.
  destruct (select_g_ok f (dctx g) items r0 r1 rest [] Hit Hok ltac:(lia) I0) as (sub & E & HP). rewrite E.
  exists (compose g sub). split; [reflexivity|]. apply Post_RW. apply (Post_delegate g sub [] _ Hpre Hns HP).
Qed.

Theorem lemma_A_group_join_s s :
  stmt_ok_g_join s = true ->
  stmt_reads (analyze e false (r_stmt_g noise s)) = sort_strings (spec_reads (e_cfg e) s) /\
  stmt_writes (analyze e false (r_stmt_g noise s)) = sort_strings (spec_writes (e_cfg e) s).
Proof.
  intros Hok. destruct s as [t [cs|] q|t q|t q|q|kind]; try discriminate Hok.
  - (* INSERT *)
    destruct q as [items [|r0 [|r1 rest]] [|] [wh|]| |]; try discriminate Hok. cbn [stmt_ok_g_join] in Hok.
    apply andb_true_iff in Hok. destruct Hok as [Hok Hrel]. apply andb_true_iff in Hok. destruct Hok as [Ht Hit].
    pose proof (insert_g noise Hnoise e Henv (Qg items r0 r1 rest) (flat_map (rel_reads e []) (flat_map rels_flat (r0 :: r1 :: rest)))
                  (S (S (depth (Qg items r0 r1 rest)))) eq_refl
                  (fun f stmt g Hf Hp Hc Hn => ci_source_g items r0 r1 rest f stmt g Hit Hrel Hf Hp Hc Hn) t None Ht) as H.
    cbv zeta in H. cbn [cols_part app] in H.
    change (r_stmt_g noise (SInsert t None (QSelect items (r0 :: r1 :: rest) false None)))
      with (node "insert_statement" ["insert_statement"] (sep noise [kw "insert"; kw "into"; r_tref t; Qg items r0 r1 rest])).
    destruct H as (g & E & G1 & G2 & G3).
    { match goal with |- _ <= 3 * depth ?st + 9 => assert (Hd : S (depth (Qg items r0 r1 rest)) <= depth st) end.
      { apply depth_child. cbn [children node]. apply (In_sep noise). right. right. right. left. reflexivity. }
      lia. }
    apply (wrapper_conclusion e _ g t (QSelect items (r0 :: r1 :: rest) false None) (SInsert t None (QSelect items (r0 :: r1 :: rest) false None)) E G1); [|exact G3|reflexivity|reflexivity].
    intros x. rewrite G2, (q_reads_g _ items r0 r1 rest false (flat_of_ok _ Hrel)). reflexivity.
  - (* CTAS *)
    destruct q as [items [|r0 [|r1 rest]] [|] [wh|]| |]; try discriminate Hok. cbn [stmt_ok_g_join] in Hok.
    apply andb_true_iff in Hok. destruct Hok as [Hok Hrel]. apply andb_true_iff in Hok. destruct Hok as [Ht Hit].
    pose proof (create_g noise Hnoise e Henv (Qg items r0 r1 rest) (flat_map (rel_reads e []) (flat_map rels_flat (r0 :: r1 :: rest)))
                  (S (S (depth (Qg items r0 r1 rest)))) eq_refl
                  (fun f stmt g Hf Hp Hc Hn => ci_source_g items r0 r1 rest f stmt g Hit Hrel Hf Hp Hc Hn) false t Ht) as H.
    cbv zeta in H.
    change (r_stmt_g noise (SCtas t (QSelect items (r0 :: r1 :: rest) false None)))
      with (node "create_table_statement" ["create_table_statement"] (sep noise [kw "create"; kw "table"; r_tref t; kw "as"; Qg items r0 r1 rest])).
    destruct H as (g & E & G1 & G2 & G3).
    { match goal with |- _ <= 3 * depth ?st + 9 => assert (Hd : S (depth (Qg items r0 r1 rest)) <= depth st) end.
      { apply depth_child. cbn [children node]. apply (In_sep noise). right. right. right. right. left. reflexivity. }
      lia. }
    apply (wrapper_conclusion e _ g t (QSelect items (r0 :: r1 :: rest) false None) (SCtas t (QSelect items (r0 :: r1 :: rest) false None)) E G1); [|exact G3|reflexivity|reflexivity].
    intros x. rewrite G2, (q_reads_g _ items r0 r1 rest false (flat_of_ok _ Hrel)). reflexivity.
  - (* plain query *)
    destruct q as [items [|r0 [|r1 rest]] [|] [wh|]| |]; try discriminate Hok. cbn [stmt_ok_g_join] in Hok.
    apply andb_true_iff in Hok. destruct Hok as [Hit Hrel].
    change (r_stmt_g noise (SQuery (QSelect items (r0 :: r1 :: rest) false None))) with (Qg items r0 r1 rest).
    set (stmt := Qg items r0 r1 rest).
    assert (Ea : analyze e false stmt = extract (S (S (3 * depth stmt + 8))) e XSelect stmt empty_ctx).
    { replace (S (S (3 * depth stmt + 8))) with (3 * depth stmt + 10) by lia. reflexivity. }
    pose proof (depth_Qg_items items r0 r1 rest) as Hd. fold stmt in Hd.
    destruct (select_g_ok (3 * depth stmt + 8) empty_ctx items r0 r1 rest [] Hit Hrel ltac:(lia) Pre_empty) as (g & E & (A1 & A2 & A3 & _)).
    fold stmt in E. rewrite Ea, E. change (init_holder empty_ctx) with empty_graph in *. split.
    + unfold spec_reads. apply (stmt_reads_spec _ g); [reflexivity|exact A1|]. intros x. rewrite A2, tset_empty.
      rewrite (q_reads_g _ items r0 r1 rest false (flat_of_ok _ Hrel)). tauto.
    + unfold spec_writes. apply (stmt_writes_spec _ g); [reflexivity|exact A1|constructor|]. intros x. cbn [In]. split; [|tauto].
      intros (d & Hdw & _). apply A3 in Hdw. destruct Hdw.
Qed.
End NavG5.

(** LEMMA A for parenthesised join groups, JOIN spelling *)
Theorem lemma_A_group_join : forall noise e s,
  noise_ok noise = true -> env_ok e = true -> stmt_ok_g_join s = true ->
  stmt_reads (analyze e false (r_stmt_g noise s)) = sort_strings (spec_reads (e_cfg e) s) /\
  stmt_writes (analyze e false (r_stmt_g noise s)) = sort_strings (spec_writes (e_cfg e) s).
Proof. intros noise e s Hn He Hok. apply (lemma_A_group_join_s noise Hn e He s Hok). Qed.
Print Assumptions lemma_A_group_join.

(** non-vacuity: the JOIN-style instances of [groupT] (Tree/LemmaAGroup.v) - a group as JOIN operand, as first element, two
    groups, aliases, a repeated table - satisfy the guard; trivia [ws; cmt] *)
Example ex_group_join_hyps :
  noise_ok [ws; cmt] = true /\ env_ok e0 = true /\
  map stmt_ok_g_join groupT = [true; true; false; false; false; false; true; true; false; false; true; true].
Proof. vm_compute. repeat split. Qed.
Example ex_group_join_instance :
  stmt_reads (analyze e0 false (r_stmt_g [ws; cmt] (nth 7 groupT (SNoData 0)))) =
  ["<default>.t1"; "<default>.t2"; "<default>.t3"; "<default>.t4"; "<default>.t5"] /\
  stmt_writes (analyze e0 false (r_stmt_g [ws; cmt] (nth 7 groupT (SNoData 0)))) = ["s.o"].
Proof. vm_compute. split; reflexivity. Qed.
