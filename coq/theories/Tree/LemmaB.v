(** Lemma B (columns): on the rendered core grammar the tree walker + script assembly report exactly the
    end-to-end column pairs the denotational specification prescribes.  Statement only; proofs in LemmaBProofs.v. *)
From SV Require Import Tree.Render Tree.LemmaA Tree.LemmaAProofs Ident.Escape.

Definition spec_pairs (ds : string) (s : stmt) : list string :=
  uniq_sorted (sort_strings (map (fun p => (show_src (fst p) ++ ">" ++ snd p)%string) (spec_flows ds s))).

(** * [colshape]: the extra guard of the column level.
    Every conjunct excludes one class of counterexamples to the unguarded statement (LemmaBProofs.v, [cxB_*]). *)

Definition ostr_eqb (a b : option string) : bool :=
  match a, b with Some x, Some y => String.eqb x y | None, None => true | _, _ => false end.
Definition tref_eqb (a b : tref) : bool := ostr_eqb (fst a) (fst b) && String.eqb (snd a) (snd b).
(** the two references may denote the same table (under some default schema) *)
Definition tref_clash (a b : tref) : bool :=
  String.eqb (snd a) (snd b) && match fst a, fst b with Some x, Some y => String.eqb x y | _, _ => true end.

Fixpoint nodup_s (l : list string) : bool :=
  match l with [] => true | x :: r => negb (mem_string x r) && nodup_s r end.
Definition count_s (x : string) (l : list string) : nat := List.length (filter (String.eqb x) l).

(** all table references, at any depth *)
Fixpoint q_trefs (fuel : nat) (q : query) : list tref :=
  match fuel with
  | O => []
  | S k =>
      match q with
      | QSelect _ from _ wh =>
          flat_map (fun r => match r with RTable t _ => [t] | RDerived q' _ => q_trefs k q' | RGroup _ _ => [] end)
                   (flat_map rels_flat from)
          ++ match wh with Some (_, sq) => q_trefs k sq | None => [] end
      | QUnion a b => q_trefs k a ++ q_trefs k b
      | QWith _ c b => q_trefs k c ++ q_trefs k b
      end
  end.

(** the column names of all select-item references, at any depth (WHERE columns are not lineage) *)
Definition item_refs (i : item) : list (option string * string) :=
  match i with IExpr e _ => col_refs e | IStar _ => [] end.
Fixpoint q_refnames (fuel : nat) (q : query) : list string :=
  match fuel with
  | O => []
  | S k =>
      match q with
      | QSelect items from _ wh =>
          map snd (flat_map item_refs items)
          ++ flat_map (fun r => match r with RDerived q' _ => q_refnames k q' | _ => [] end) (flat_map rels_flat from)
          ++ match wh with Some (_, sq) => q_refnames k sq | None => [] end
      | QUnion a b => q_refnames k a ++ q_refnames k b
      | QWith _ c b => q_refnames k c ++ q_refnames k b
      end
  end.

(** ** (1) K-C02-2: the target is not among the tables read *)
Definition cs_noself (s : stmt) : bool :=
  match s with
  | SInsert t _ q | SCtas t q | SView t q => forallb (fun r => negb (tref_clash t r)) (q_trefs (S (q_size q)) q)
  | _ => true
  end.

(** ** (2) the INSERT column list names every output column once *)
Definition cs_cols (s : stmt) : bool :=
  match s with
  | SInsert _ (Some cs) q => nodup_s cs && Nat.eqb (List.length cs) (List.length (q_cols (S (q_size q)) "" [] q))
  | _ => true
  end.

(** ** (3) alias discipline across scopes (K-C02-4 / 7 / 8): the alias edges of all scopes of a statement are mixed *)
Definition sc_entry := (option string * option tref)%type.   (* alias?, table (None: a derived table) *)
Fixpoint scopes (fuel : nat) (q : query) : list (list sc_entry) * list (option tref) :=
  match fuel with
  | O => ([], [])
  | S k =>
      match q with
      | QSelect _ from _ wh =>
          let rels := flat_map rels_flat from in
          let sc := map (fun r => match r with
                                  | RTable t al => (al, Some t)
                                  | RDerived _ a => (Some a, None)
                                  | RGroup _ _ => (None, None) end) rels in
          let inner := flat_map (fun r => match r with RDerived q' _ => fst (scopes k q') | _ => [] end) rels in
          let w := match wh with Some (_, sq) => scopes k sq | None => ([], []) end in
          (* the tables of a WHERE .. IN (sub-query) count as members of the enclosing scope *)
          let sc' := sc ++ map (fun d => (@None string, d)) (snd w) in
          (inner ++ [sc'] ++ fst w, map snd sc')
      | QUnion a b => (fst (scopes k a) ++ fst (scopes k b), snd (scopes k a) ++ snd (scopes k b))
      | QWith _ c b => (fst (scopes k c) ++ fst (scopes k b), snd (scopes k b))
      end
  end.
Definition otref_is (t : tref) (o : option tref) : bool := match o with Some t' => tref_eqb t t' | None => false end.
(** alias [al] names X in scope [a] and the table Y <> X in scope [b], while Y also occurs in [a] *)
Definition scope_pair_ok (a b : list sc_entry) : bool :=
  forallb (fun ea => match fst ea with
                     | None => true
                     | Some al =>
                         forallb (fun eb => match fst eb, snd eb with
                                            | Some bl, Some y =>
                                                negb (String.eqb al bl && negb (otref_is y (snd ea))
                                                      && existsb (fun e' => otref_is y (snd e')) a)
                                            | _, _ => true end) b
                     end) a.
Definition aliases_in (fuel : nat) (q : query) : list string :=
  flat_map (fun sc => flat_map (fun en : sc_entry => match fst en with Some a => [a] | None => [] end) sc) (fst (scopes fuel q)).
(** a derived table's alias is not used again inside it *)
Fixpoint nested_ok (fuel : nat) (q : query) : bool :=
  match fuel with
  | O => false
  | S k =>
      match q with
      | QSelect _ from _ wh =>
          forallb (fun r => match r with
                            | RDerived q' a => negb (mem_string a (aliases_in k q')) && nested_ok k q'
                            | _ => true end) (flat_map rels_flat from)
          && match wh with Some (_, sq) => nested_ok k sq | None => true end
      | QUnion a b => nested_ok k a && nested_ok k b
      | QWith _ c b => nested_ok k c && nested_ok k b
      end
  end.
(** the tables joined (JOIN ... ON) inside a derived table are also listed for the enclosing FROM when that has a JOIN of
    its own (the join clauses are found by a recursive crawl), so name clashes matter across scopes (K-C02-3 through a
    derived table): statement-wide, one bare name is one table, and an alias is not the bare name of another table *)
Definition names_global (fuel : nat) (q : query) : bool :=
  let trs := q_trefs fuel q in
  let als := flat_map (fun sc => flat_map (fun en : sc_entry => match fst en with Some a => [(a, snd en)] | None => [] end) sc)
                      (fst (scopes fuel q)) in
  forallb (fun t => forallb (fun t' => negb (String.eqb (snd t) (snd t')) || tref_eqb t t') trs) trs
  && forallb (fun ao : string * option tref =>
                forallb (fun t' => negb (String.eqb (fst ao) (snd t')) || otref_is t' (snd ao)) trs) als.

Definition cs_alias (s : stmt) : bool :=
  match stmt_query s with
  | Some q =>
      let scs := fst (scopes (S (q_size q)) q) in
      nested_ok (S (q_size q)) q && forallb (fun a => forallb (scope_pair_ok a) scs) scs
      && names_global (S (q_size q)) q
  | None => true
  end.

(** ** (4) per SELECT scope *)
Definition rel_name (r : rel) : option string :=
  match r with
  | RTable t al => Some (match al with Some a => a | None => snd t end)
  | RDerived _ a => Some a
  | RGroup _ _ => None
  end.
Definition rel_bare (r : rel) : option tref := match r with RTable t _ => Some t | _ => None end.

(** K-C02-3: the names relations answer to are distinct; an alias is not the bare name of another table in scope;
    two tables with the same bare name are the same table *)
Fixpoint scope_names_ok (rels : list rel) : bool :=
  match rels with
  | [] => true
  | r :: rest =>
      forallb (fun r' =>
                 negb (ostr_eqb (rel_name r) (rel_name r'))
                 && match rel_bare r, rel_bare r' with
                    | Some t, Some t' => negb (String.eqb (snd t) (snd t')) || tref_eqb t t'
                    | _, _ => true end
                 && match rel_bare r' with
                    | Some t' => negb (ostr_eqb (rel_name r) (Some (snd t')))
                                 || match r with RTable t None => tref_eqb t t' | _ => false end
                    | None => true end
                 && match rel_bare r with
                    | Some t => negb (ostr_eqb (rel_name r') (Some (snd t)))
                                || match r' with RTable t' None => tref_eqb t t' | _ => false end
                    | None => true end) rest
      && scope_names_ok rest
  end.

Definition has_col (c : string) (cols : list colspec) : bool :=
  existsb (fun cs => String.eqb (fst cs) c) cols && negb (existsb (fun cs => String.eqb (fst cs) "*") cols).
Definition is_base (b : binding) : bool := match b_rel b with RelBase _ => true | RelCols _ => false end.

(** the bindings of a scope, as Spec.q_cols builds them (default schema "") *)
Definition scope_of (k : nat) (ctes : list (string * list colspec)) (from : list rel) : list binding :=
  map (fun r => match r with
                | RTable t alias =>
                    match fst t, assoc_s (snd t) ctes with
                    | None, Some cols =>
                        {| b_alias := alias; b_names := match alias with Some _ => [] | None => [snd t] end; b_rel := RelCols cols |}
                    | _, _ =>
                        {| b_alias := alias; b_names := match alias with Some _ => [] | None => [snd t; tref_str "" t] end;
                           b_rel := RelBase (tref_str "" t) |}
                    end
                | RDerived q' alias => {| b_alias := Some alias; b_names := []; b_rel := RelCols (q_cols k "" ctes q') |}
                | RGroup _ _ => {| b_alias := None; b_names := []; b_rel := RelCols [] |}
                end) (flat_map rels_flat from).

(** a reference resolves, to an existing column; an unqualified reference over several relations (unresolved) needs
    base tables only and a column name used nowhere else in the statement (K-C02-5, K-C04-1) *)
Definition ref_ok (allnames : list string) (scope : list binding) (unq_here : list string) (r : option string * string) : bool :=
  match fst r with
  | Some q => match find_binding q scope with
              | Some b => match b_rel b with RelBase _ => true | RelCols cols => has_col (snd r) cols end
              | None => false
              end
  | None => match scope with
            | [b] => match b_rel b with RelBase _ => true | RelCols cols => has_col (snd r) cols end
            | _ => forallb is_base scope && Nat.eqb (count_s (snd r) allnames) (count_s (snd r) unq_here)
            end
  end.

(** stars: only where the output columns are not consumed by name ([star_ok]); [*] over one base table, [q.*] over base tables *)
Definition item_ok_c (allnames : list string) (scope : list binding) (star_ok : bool) (unq_here : list string) (i : item) : bool :=
  match i with
  | IExpr e _ => forallb (ref_ok allnames scope unq_here) (col_refs e)
  | IStar None => star_ok && match scope with [b] => is_base b | _ => false end
  | IStar (Some q) => star_ok && forallb is_base scope && match find_binding q scope with Some _ => true | None => false end
  end.

Fixpoint cs_q (fuel : nat) (allnames : list string) (star_ok : bool) (ctes : list (string * list colspec)) (q : query) : bool :=
  match fuel with
  | O => false
  | S k =>
      match q with
      | QSelect items from _ wh =>
          let rels := flat_map rels_flat from in
          let scope := scope_of k ctes from in
          let unq_here := flat_map (fun r : option string * string => match fst r with None => [snd r] | Some _ => [] end)
                                   (flat_map item_refs items) in
          scope_names_ok rels
          && forallb (item_ok_c allnames scope star_ok unq_here) items
          && forallb (fun r => match r with RDerived q' _ => cs_q k allnames false ctes q' | _ => true end) rels
          && match wh with Some (_, sq) => cs_q k allnames false ctes sq | None => true end
      | QUnion a b =>
          (* branches of the same arity; the output names of the first branch are distinct (the positions of the
             following branches are found through the write columns, which are keyed by name) *)
          cs_q k allnames star_ok ctes a && cs_q k allnames star_ok ctes b
          && Nat.eqb (List.length (q_cols k "" ctes a)) (List.length (q_cols k "" ctes b))
          && nodup_s (map fst (q_cols k "" ctes a))
      | QWith n c b => cs_q k allnames false ctes c && cs_q k allnames star_ok ((n, q_cols k "" ctes c) :: ctes) b
      end
  end.
Definition cs_scopes (s : stmt) : bool :=
  match stmt_query s with
  | Some q => cs_q (S (q_size q)) (q_refnames (S (q_size q)) q) true [] q
  | None => true
  end.

Definition colshape (s : stmt) : bool := cs_noself s && cs_cols s && cs_alias s && cs_scopes s.

Definition lemma_B_statement : Prop :=
  forall noise e s,
    noise_ok noise = true -> env_ok e = true -> stmt_ok s = true -> sshape s = true -> colshape s = true ->
    script_pairs e false [] [r_stmt noise s] = spec_pairs (e_cfg e) s.

(** the statement with the guard [colshape] left out: refuted in LemmaBProofs.v *)
Definition lemma_B_unguarded : Prop :=
  forall noise e s,
    noise_ok noise = true -> env_ok e = true -> stmt_ok s = true -> sshape s = true ->
    script_pairs e false [] [r_stmt noise s] = spec_pairs (e_cfg e) s.

(** executable form, for testing before proving *)
Definition lemma_B_check (noise : list seg) (e : env) (s : stmt) : string :=
  if negb (noise_ok noise && env_ok e && stmt_ok s && sshape s && colshape s) then "outside"
  else if list_eqb (script_pairs e false [] [r_stmt noise s]) (spec_pairs (e_cfg e) s) then "holds" else "FAILS".
Definition lemma_B_check0 (noise : list seg) (e : env) (s : stmt) : string :=
  if negb (noise_ok noise && env_ok e && stmt_ok s && sshape s) then "outside"
  else if list_eqb (script_pairs e false [] [r_stmt noise s]) (spec_pairs (e_cfg e) s) then "holds" else "FAILS".
