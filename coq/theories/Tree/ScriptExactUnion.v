(** UNION statements inside scripts: the holder of INSERT / CTAS / VIEW over a UNION of two SELECTs from base tables,
    all references resolved at statement level, satisfies the conjuncts of [Composition.c04_hyps], and its column edges
    are exactly its specified flows ([union_core_statement], the analogue of [ScriptExact.core_statement]); hence the
    script theorem of ScriptExact.v extends to scripts that mix single-SELECT and UNION statements
    ([script_exact_on_core_union]).  (Tree/ScriptExact.v is an unmodified copy of the sibling agent's file.) *)
From Coq Require Import Permutation Lia.
From SV Require Import Tree.Render Tree.LemmaA Tree.LemmaAProofs Tree.LemmaB Tree.LemmaBProofs Tree.LemmaB5a Tree.LemmaB5bDefs
     Tree.LemmaB5bCore Tree.LemmaB5bNav Tree.LemmaB5bSpec Tree.LemmaB5bShape Tree.LemmaB5b
     Tree.LemmaB5b2Defs Tree.LemmaB5b2Core Tree.LemmaB5b2Shape Tree.LemmaB5b2Real Tree.LemmaB5b2 Tree.ScriptExact
     Ident.Escape Ident.EscapeProofs Holder.PathProofs Holder.SortProofs Tree.ProviderProofs.
From SV Require Holder.RefineDefs Holder.RefineGraph Holder.CompDefs Holder.Composition.

(* ================================================================== *)
(** * the specification side: the edges of a UNION statement, branch by branch (membership) *)
Lemma In_src_edges T nm srcs p : In p (src_edges T nm srcs) <-> exists v, In v (flat_map src_vtx srcs) /\ p = (v, (T, nm)).
Proof.
  unfold src_edges. rewrite in_flat_map. split.
  - intros (sr & Hsr & Hp). apply in_map_iff in Hp. destruct Hp as (v & <- & Hv). exists v. split; [apply in_flat_map; exists sr; auto|reflexivity].
  - intros (v & Hv & ->). apply in_flat_map in Hv. destruct Hv as (sr & Hsr & Hv). exists sr. split; [exact Hsr|apply in_map_iff; exists v; auto].
Qed.

Lemma dedup_vtx l v : In v (flat_map src_vtx (dedup_src l [])) <-> In v (flat_map src_vtx l).
Proof.
  rewrite !in_flat_map. split.
  - intros (x & Hx & Hv). exists x. split; [exact (dedup_src_in l [] x Hx)|exact Hv].
  - intros (x & Hx & Hv). destruct (dedup_src_cover l [] x Hx) as (y & [Hy|[]] & [->|E]); [exists y; auto|].
    exists y. split; [exact Hy|]. destruct x as [t0 c0|c0 k0|t0], y as [t1 c1|c1 k1|t1]; cbn [src_eqb] in E; try discriminate; cbn [src_vtx] in *.
    + apply andb_true_iff in E. destruct E as [E1 E2]. apply String.eqb_eq in E1, E2. subst. exact Hv.
    + destruct Hv.
    + apply String.eqb_eq in E. subst. exact Hv.
Qed.

Definition names_edges (T : string) (l : list (string * colspec)) : list (vtx * vtx) :=
  flat_map (fun q : string * colspec => src_edges T (fst q) (snd (snd q))) l.

Lemma zip_edges T : forall names A B, List.length A = List.length B -> forall p,
  In p (names_edges T (combine names (zip_union A B))) <-> In p (names_edges T (combine names A)) \/ In p (names_edges T (combine names B)).
Proof.
  induction names as [|nm names IH]; intros A B Hl p; [cbn; tauto|].
  destruct A as [|[n s] A], B as [|[n' s'] B]; cbn [List.length] in Hl; try discriminate; [cbn; tauto|].
  cbn [zip_union combine]. unfold names_edges. cbn [flat_map fst snd]. fold (names_edges T (combine names (zip_union A B))).
  fold (names_edges T (combine names A)). fold (names_edges T (combine names B)).
  rewrite !in_app_iff, (IH A B ltac:(lia) p), !In_src_edges.
  assert (K : (exists v, In v (flat_map src_vtx (dedup_src (s ++ s') [])) /\ p = (v, (T, nm))) <->
              (exists v, In v (flat_map src_vtx s) /\ p = (v, (T, nm))) \/ (exists v, In v (flat_map src_vtx s') /\ p = (v, (T, nm)))).
  { split.
    - intros (v & Hv & E). apply (proj1 (dedup_vtx _ _)) in Hv. rewrite flat_map_app in Hv. apply in_app_iff in Hv. destruct Hv; [left|right]; exists v; auto.
    - intros [(v & Hv & E)|(v & Hv & E)]; exists v; (split; [apply (proj2 (dedup_vtx _ _)); rewrite flat_map_app; apply in_app_iff; auto|exact E]). }
  rewrite K. tauto.
Qed.

Definition branch_edges (T : string) (sc : list binding) (l : list (item * string)) : list (vtx * vtx) :=
  flat_map (fun ic : item * string => src_edges T (snd ic) (flat_map snd (item_cols sc (fst ic)))) l.

Lemma names_branch_edges T sc : forall items names,
  (forall i, In i items -> exists srcs, item_cols sc i = [(item_name i, srcs)]) -> List.length names = List.length items ->
  names_edges T (combine names (flat_map (item_cols sc) items)) = branch_edges T sc (combine items names).
Proof.
  induction items as [|i r IH]; intros [|c cr] Hs Hlen; cbn [List.length] in Hlen; try discriminate; [reflexivity|].
  destruct (Hs i (or_introl eq_refl)) as (srcs & E). unfold names_edges, branch_edges. cbn [flat_map combine fst snd]. rewrite E.
  cbn [app combine flat_map fst snd]. rewrite app_nil_r. f_equal. apply IH; [intros i' Hi'; apply Hs; right; exact Hi'|lia].
Qed.

Lemma stmt_edges_union ds (s : Spec.stmt) t (names : list string) i1 f1 c1 i2 f2 c2 :
  ((names = map item_name i1 /\
    (s = SInsert t None (uq i1 f1 c1 i2 f2 c2) \/ s = SCtas t (uq i1 f1 c1 i2 f2 c2) \/ s = SView t (uq i1 f1 c1 i2 f2 c2)))
   \/ s = SInsert t (Some names) (uq i1 f1 c1 i2 f2 c2)) ->
  forallb is_rtable f1 = true -> forallb is_rtable f2 = true ->
  List.length i1 = List.length i2 -> List.length names = List.length i1 ->
  (forall i, In i i1 -> exists srcs, item_cols (map (sbind ds) f1) i = [(item_name i, srcs)]) ->
  (forall i, In i i2 -> exists srcs, item_cols (map (sbind ds) f2) i = [(item_name i, srcs)]) ->
  forall p, In p (stmt_edges ds s) <->
            In p (branch_edges (tref_str ds t) (map (sbind ds) f1) (combine i1 names)) \/
            In p (branch_edges (tref_str ds t) (map (sbind ds) f2) (combine i2 names)).
Proof.
  intros Hs R1 R2 Hlen Hln S1 S2 p.
  set (A := flat_map (item_cols (map (sbind ds) f1)) i1). set (B := flat_map (item_cols (map (sbind ds) f2)) i2).
  assert (LA : List.length A = List.length i1) by (apply length_flat_single; intros i Hi; destruct (S1 i Hi) as (x & E); eexists; exact E).
  assert (LB : List.length B = List.length i2) by (apply length_flat_single; intros i Hi; destruct (S2 i Hi) as (x & E); eexists; exact E).
  assert (NA : map fst A = map item_name i1).
  { unfold A. clear -S1. induction i1 as [|i r IH]; [reflexivity|]. cbn [flat_map map]. destruct (S1 i (or_introl eq_refl)) as (x & E). rewrite E.
    cbn [app map fst]. f_equal. apply IH. intros i' Hi'. apply S1. right. exact Hi'. }
  assert (E : stmt_edges ds s = names_edges (tref_str ds t) (combine names (zip_union A B))).
  { destruct Hs as [[En Hs]| ->].
    - assert (Enames : names = map fst (zip_union A B)) by (rewrite zip_union_names, NA; exact En).
      destruct Hs as [->|[->| ->]]; unfold stmt_edges; rewrite (q_cols_uq ds i1 f1 c1 i2 f2 c2 R1 R2); fold A B.
      + rewrite Enames. reflexivity.
      + rewrite Enames. symmetry. apply combine_names_edges.
      + rewrite Enames. symmetry. apply combine_names_edges.
    - unfold stmt_edges. rewrite (q_cols_uq ds i1 f1 c1 i2 f2 c2 R1 R2). fold A B.
      rewrite zip_union_length, LA, Hln, Nat.eqb_refl. reflexivity. }
  rewrite E, (zip_edges _ names A B ltac:(lia) p). unfold A, B.
  rewrite (names_branch_edges _ _ i1 names S1 Hln), (names_branch_edges _ _ i2 names S2 ltac:(lia)). reflexivity.
Qed.

(* ================================================================== *)
(** * the holder of a UNION statement, with what [core_facts] needs *)
Lemma compose_closed gb sub EL :
  (forall x y, has_edge gb x y = true -> has_node gb x = true /\ has_node gb y = true) -> ext gb sub EL ->
  forall x y, has_edge (compose gb sub) x y = true -> has_node (compose gb sub) x = true /\ has_node (compose gb sub) y = true.
Proof.
  intros Hcl X x y Hxy. rewrite has_edge_compose, (ext_edges _ _ _ X) in Hxy. rewrite !has_node_compose.
  destruct (has_edge gb x y) eqn:Eg.
  - destruct (Hcl x y Eg) as [N1 N2]. rewrite N1, N2. auto.
  - cbn [orb] in Hxy. unfold ematch in Hxy. apply existsb_exists in Hxy. destruct Hxy as (p & Hp & E).
    apply andb_true_iff in E. destruct E as [E1 E2]. destruct (ext_new _ _ _ X p Hp) as [N1 N2].
    rewrite (RefineGraph.has_node_cong sub x (fst p) E1), (RefineGraph.has_node_cong sub y (snd p) E2), N1, N2, !orb_true_r. auto.
Qed.

Lemma union_holder_all noise e (s : Spec.stmt) t (cols : option (list string)) i1 f1 c1 i2 f2 c2 :
  noise_ok noise = true -> env_ok e = true ->
  (s = SInsert t cols (uq i1 f1 c1 i2 f2 c2) \/
   (cols = None /\ (s = SCtas t (uq i1 f1 c1 i2 f2 c2) \/ s = SView t (uq i1 f1 c1 i2 f2 c2)))) ->
  tref_ok t = true ->
  match cols with Some cs => forallb id_ok cs = true /\ NoDup cs /\ List.length cs = List.length i1 | None => True end ->
  forallb item_ok i1 = true -> f1 <> [] -> forallb rel_ok f1 = true ->
  forallb item_ok i2 = true -> f2 <> [] -> forallb rel_ok f2 = true ->
  let d := tbl e t None in
  let ts1 := map (tbl_of e) f1 in let ts2 := map (tbl_of e) f2 in
  let xs1 := map xcol_of i1 in let xs2 := map xcol_of i2 in
  let names := match cols with Some cs => cs | None => map xname xs1 end in
  tabs_ok d (ts1 ++ ts2) -> group_ok d ts1 -> group_ok d ts2 -> ts_inj ts1 -> ts_inj ts2 -> names_nodot (ts1 ++ ts2) ->
  (forall x, In x xs1 -> xref_ok_g (ts1 ++ ts2) ts1 x) -> (forall x, In x xs2 -> xref_ok_g (ts1 ++ ts2) ts2 x) ->
  noqual ts1 xs1 -> noqual ts2 xs2 -> cross ts1 xs1 xs2 -> cross ts2 xs2 xs1 ->
  List.length xs1 = List.length xs2 -> NoDup (map xname xs1) ->
  exists G, analyze e false (r_stmt noise s) = Ok G /\ clean_holder G /\
            realises G (flows_of (S_of ts1) (wpairs d xs1 names) ++ flows_of (S_of ts2) (wpairs d xs2 names)) /\
            lits_in (QK (d :: ts1 ++ ts2) (PCe d (ts1 ++ ts2) (UN_of ts1 ts2 xs1 xs2))) G /\
            (forall x y, has_edge G x y = true -> has_node G x = true /\ has_node G y = true).
Proof.
  intros Hn He Hs Ht Hcols Hit1 Hne1 Hrel1 Hit2 Hne2 Hrel2 d ts1 ts2 xs1 xs2 names Hto Hg1 Hg2 Hi1 Hi2 Hnd Hx1 Hx2 Hnq1 Hnq2 Hc12 Hc21 Hlen Hnames.
  assert (Hp : p_truthy (e_provider e) = false) by exact (proj1 (env_facts e He)).
  set (ts := ts1 ++ ts2) in *. set (UN := UN_of ts1 ts2 xs1 xs2). set (PC := PCe d ts UN).
  assert (HPC : forall c, PC c -> col_qk c) by (intros c Hc; exact (PCe_qk d ts UN c Hto eq_refl Hc)).
  pose proof (grp_srcs_1 d ts1 ts2 xs1 xs2 Hto Hg1 Hi1 Hnd Hx1 e) as G1.
  pose proof (grp_srcs_2 d ts1 ts2 xs1 xs2 Hto Hg2 Hi2 Hnd Hx2 e) as G2.
  fold ts UN PC in G1, G2.
  assert (HWc : forall c, PC (Wcol d c)) by (intros c; left; exists d; split; [reflexivity|left; reflexivity]).
  destruct cols as [cs|].
  - destruct Hcols as (Hcs & Hndc & Hlc). destruct Hs as [->|[Hs _]]; [|discriminate Hs].
    pose proof (analyze_insert_cols_union noise Hn e He t cs i1 f1 c1 i2 f2 c2 Ht Hcs Hndc Hit1 Hne1 Hrel1 Hit2 Hne2 Hrel2) as Ea.
    unfold union_holder in Ea. fold d ts1 ts2 xs1 xs2 in Ea.
    assert (Hl1 : List.length xs1 = List.length cs) by (unfold xs1; rewrite map_length; lia).
    assert (Hl2 : List.length xs2 = List.length cs) by lia.
    destruct (union_core_cols_e PC e d ts1 ts2 cs xs1 xs2 (S_of ts1) (S_of ts2) Hp Hto eq_refl HPC Hndc G1 G2 (fun c _ => HWc c) Hl1 Hl2)
      as (sub & Esub & Xsub & Isub).
    rewrite Esub in Ea.
    destruct (gb_facts d cs eq_refl Hndc) as (GA & GB & GC & GD & GO).
    assert (Lb : lits_in (QK (d :: ts) PC) (gb_of d cs)).
    { split.
      * intros n Hn0. rewrite GB in Hn0. destruct Hn0 as [<-|Hn0]; [left; reflexivity|]. apply in_map_iff in Hn0. destruct Hn0 as (c & <- & Hc). apply HWc.
      * intros e0 He0. rewrite GA in He0. destruct (OE_edge d cs e0 He0) as (j & c & Hc & ->). cbn [fst snd QK]. split; [left; reflexivity|apply HWc]. }
    destruct (union_realises_e d ts1 ts2 xs1 xs2 cs Hto Hg1 Hg2 eq_refl Hi1 Hi2 Hx1 Hx2 Hnq1 Hnq2 Hc12 Hc21 Hl1 Hl2 (gb_of d cs) sub) as (C1 & C2 & C3 & C4);
      [exact Lb| | | | |exact Xsub|exact Isub|].
    + exact GD.
    + intros e0 He0. rewrite GA in He0. destruct (OE_edge d cs e0 He0) as (j & c & _ & ->). reflexivity.
    + intros x y Hx. destruct (has_edge (gb_of d cs) x y) eqn:E; [|reflexivity]. apply has_edge_In in E. destruct E as (e0 & He0 & E1 & _).
      rewrite GA in He0. destruct (OE_edge d cs e0 He0) as (j & c & _ & ->). cbn [fst] in E1. destruct x; try discriminate.
    + intros p c Hp0. destruct (has_edge (gb_of d cs) (NData p) (NCol c)) eqn:E; [|reflexivity]. apply has_edge_In in E. destruct E as (e0 & He0 & E1 & _).
      rewrite GA in He0. destruct (OE_edge d cs e0 He0) as (j & c0 & _ & ->). cbn [fst node_eqb] in E1.
      rewrite (to_target _ _ Hto p Hp0) in E1. discriminate.
    + exists (compose (gb_of d cs) sub). split; [exact Ea|]. split; [exact C1|]. split; [exact C3|]. split.
      * apply lits_compose; [exact Lb|exact (si_lits _ _ _ _ Isub)].
      * refine (compose_closed _ _ _ _ Xsub).
        intros x y Hxy. apply has_edge_In in Hxy. destruct Hxy as (e0 & He0 & E1 & E2). rewrite GA in He0.
        destruct (OE_edge d cs e0 He0) as (j & c & Hc & ->). cbn [fst snd] in E1, E2.
        assert (N1 : has_node (gb_of d cs) (NData d) = true).
        { apply has_node_In. exists (NData d). split; [rewrite GB; left; reflexivity|apply node_eqb_refl]. }
        assert (N2 : has_node (gb_of d cs) (NCol (Wcol d c)) = true).
        { apply has_node_In. exists (NCol (Wcol d c)). split; [rewrite GB; right; apply in_map_iff; exists c; auto|apply node_eqb_refl]. }
        rewrite (RefineGraph.has_node_cong _ x _ E1), (RefineGraph.has_node_cong _ y _ E2). auto.
  - assert (Ea : analyze e false (r_stmt noise s) = union_holder e (add_write empty_graph (tbl e t None)) i1 f1 i2 f2).
    { destruct Hs as [->|[_ [->| ->]]].
      - apply analyze_insert_union; assumption.
      - apply (analyze_create_union noise Hn e He false); assumption.
      - apply (analyze_create_union noise Hn e He true); assumption. }
    unfold union_holder in Ea. fold d ts1 ts2 xs1 xs2 in Ea.
    destruct (union_core_own_e PC e d ts1 ts2 xs1 xs2 (S_of ts1) (S_of ts2) Hp Hto eq_refl HPC (PCe_wcol d ts UN Hto eq_refl) G1 G2)
      as (sub & Esub & Xsub & Isub).
    + intros x Hx. split; [exact (proj1 (Hx1 x Hx))|apply HWc].
    + exact Hnames.
    + symmetry. exact Hlen.
    + rewrite Esub in Ea.
      assert (Hl1 : List.length xs1 = List.length (map xname xs1)) by (rewrite map_length; reflexivity).
      assert (Hl2 : List.length xs2 = List.length (map xname xs1)) by (rewrite map_length; symmetry; exact Hlen).
      assert (Lb : lits_in (QK (d :: ts) PC) (add_write empty_graph d)) by (split; [intros n [<-|[]]; left; reflexivity|intros e0 []]).
      destruct (union_realises_e d ts1 ts2 xs1 xs2 (map xname xs1) Hto Hg1 Hg2 eq_refl Hi1 Hi2 Hx1 Hx2 Hnq1 Hnq2 Hc12 Hc21 Hl1 Hl2 (add_write empty_graph d) sub) as (C1 & C2 & C3 & C4);
        [exact Lb
        |intros n a [H|[]]; inversion H; intros [K|[]]; discriminate K
        |intros e0 []|reflexivity|reflexivity|exact Xsub|exact Isub|].
      exists (compose (add_write empty_graph d) sub). split; [exact Ea|]. split; [exact C1|]. split; [exact C3|]. split.
      * apply lits_compose; [exact Lb|exact (si_lits _ _ _ _ Isub)].
      * refine (compose_closed _ _ _ _ Xsub). intros x y Hxy. discriminate Hxy.
Qed.

(* ================================================================== *)
(** * the statement theorem for UNION statements *)
Definition branch_resolved (items : list item) (from : list rel) : bool :=
  match from with
  | [_] => true
  | _ => forallb (fun i => match snd (item_ref i) with Some _ => true | None => false end) items
  end.
(** every reference of either branch is qualified, or its SELECT has exactly one table *)
Definition union_unq_single (s : Spec.stmt) : bool :=
  match stmt_query s with
  | Some (QUnion (QSelect i1 f1 _ _) (QSelect i2 f2 _ _)) => branch_resolved i1 f1 && branch_resolved i2 f2
  | _ => false
  end.

Lemma branch_phi e t from items names :
  forallb rel_ok from = true -> forallb item_ok items = true -> (forall i, In i items -> item_res from i) ->
  map phi (flows_of (S_of (map (tbl_of e) from)) (wpairs (tbl e t None) (map xcol_of items) names)) =
  branch_edges (tref_str (e_cfg e) t) (map (sbind (e_cfg e)) from) (combine items names).
Proof.
  intros Hrel Hit Hres. unfold flows_of, wpairs, branch_edges. rewrite combine_map, flat_map_map', map_flat_map'. cbn [fst snd].
  apply flat_map_ext_in'. intros [i c] Hic'. cbn [fst snd]. pose proof (in_combine_l _ _ _ _ Hic') as Hi.
  rewrite forallb_forall in Hit.
  destruct (item_corr_vn e t from i c Hrel (Hit i Hi) (Hres i Hi)) as (srcs & E1 & E2).
  rewrite E1. cbn [flat_map snd app]. rewrite app_nil_r. symmetry. exact E2.
Qed.

Lemma edges_match_ext G Es Es' : (forall p, In p Es <-> In p Es') -> edges_match G Es -> edges_match G Es'.
Proof.
  intros H HM x y. rewrite (HM x y). split; intros (u & v & Huv & K); exists u, v; (split; [apply H; exact Huv|exact K]).
Qed.

Theorem union_core_statement : forall noise e s,
  noise_ok noise = true -> env_ok e = true ->
  stmt_ok s = true -> sshape s = true -> colshape s = true -> sel_union_syntactic s = true -> union_unq_single s = true ->
  exists G, analyze e false (r_stmt noise s) = Ok G /\
            CompDefs.plain_holder (holder_of G) = true /\ CompDefs.resolved_holder (holder_of G) = true /\
            CompDefs.cwf_holder (holder_of G) = true /\
            edges_match G (stmt_edges (e_cfg e) s).
Proof.
  intros noise e s Hn He Hok Hss Hc Hsy Huq.
  destruct (union_fragment_shape s Hss Hsy) as (t & cols & i1 & f1 & c1 & i2 & f2 & c2 & Hs & [Hrt1 Hd1] & [Hrt2 Hd2]).
  set (q := uq i1 f1 c1 i2 f2 c2) in *.
  assert (Hok' : tref_ok t && frag_query (S (q_size q)) q && names_ok_q (S (q_size q)) [] q = true /\
                 match cols with Some cs => forallb id_ok cs = true | None => True end).
  { destruct Hs as [->|[-> [->| ->]]]; cbn [stmt_ok] in Hok.
    - apply andb_true_iff in Hok. destruct Hok as [Hok Hcs]. split; [exact Hok|]. destruct cols; [exact Hcs|exact I].
    - split; [exact Hok|exact I].
    - split; [exact Hok|exact I]. }
  destruct Hok' as [Hok' Hcs].
  destruct (stmt_ok_union t i1 f1 c1 i2 f2 c2 Hok' Hrt1 Hrt2) as (Ht & (Hit1 & Hne1 & Hrel1) & (Hit2 & Hne2 & Hrel2)).
  assert (Hu : union_stmt_of s t q).
  { destruct Hs as [->|[_ [->| ->]]]; [left; eexists; reflexivity|right; left; reflexivity|right; right; reflexivity]. }
  destruct (colshape_union (e_cfg e) s t i1 f1 c1 i2 f2 c2 Hu Hc Ht Hne1 Hrel1 Hit1 Hd1 Hne2 Hrel2 Hit2 Hd2)
    as ((Tc1 & Ic1 & Nq1) & (Tc2 & Ic2 & Nq2) & Hlen & Hnd & X12 & X21).
  destruct (colshape_union_leak s t i1 f1 c1 i2 f2 c2 Hu Hc Hrel1 Hd1 Hrel2 Hd2) as [Lk12 Lk21].
  assert (Hcols : match cols with Some cs => forallb id_ok cs = true /\ NoDup cs /\ List.length cs = List.length i1 | None => True end).
  { destruct cols as [cs|]; [|exact I]. destruct Hs as [E|[E _]]; [|discriminate E].
    destruct (colshape_union_cols' s t cs i1 f1 c1 i2 f2 c2 E Hc Ht Hne1 Hrel1 Hit1 Hd1 Hne2 Hrel2 Hit2 Hd2) as (A & B & _). auto. }
  assert (Hb : branch_resolved i1 f1 = true /\ branch_resolved i2 f2 = true).
  { assert (K : union_unq_single s = branch_resolved i1 f1 && branch_resolved i2 f2) by (destruct Hs as [->|[_ [->| ->]]]; reflexivity).
    rewrite K in Huq. apply andb_true_iff in Huq. exact Huq. }
  destruct Hb as [Hb1 Hb2].
  pose proof (unq_single_res i1 f1 Hb1 Ic1) as Hres1. pose proof (unq_single_res i2 f2 Hb2 Ic2) as Hres2.
  pose proof (unq_single_unres e i1 f1 Hb1 Hit1) as Hun1. pose proof (unq_single_unres e i2 f2 Hb2 Hit2) as Hun2.
  assert (Hts1 : forall u, In u (map (tbl_of e) f1 ++ map (tbl_of e) f2) -> In u (map (tbl_of e) f1) \/ In u (map (tbl_of e) f2))
    by (intros u Hu0; apply in_app_iff; exact Hu0).
  assert (Hts2 : forall u, In u (map (tbl_of e) f1 ++ map (tbl_of e) f2) -> In u (map (tbl_of e) f2) \/ In u (map (tbl_of e) f1))
    by (intros u Hu0; apply in_app_iff in Hu0; tauto).
  pose proof (group_ok_of e t f1 Hrel1 Tc1) as Hg1. pose proof (group_ok_of e t f2 Hrel2 Tc2) as Hg2.
  pose proof (ts_inj_of e t f1 Hrel1 Tc1) as Hi1. pose proof (ts_inj_of e t f2 Hrel2 Tc2) as Hi2.
  destruct (union_holder_all noise e s t cols i1 f1 c1 i2 f2 c2 Hn He Hs Ht Hcols Hit1 Hne1 Hrel1 Hit2 Hne2 Hrel2
             (tabs_ok_union e t f1 f2 Hrel1 Hrel2 Tc1 Tc2) Hg1 Hg2 Hi1 Hi2 (names_nodot_union e f1 f2 Hrel1 Hrel2)
             (xref_ok_g_of e t f1 f2 i1 _ Hrel1 Hrel2 Hit1 Tc1 Ic1 Lk12 Hts1) (xref_ok_g_of e t f2 f1 i2 _ Hrel2 Hrel1 Hit2 Tc2 Ic2 Lk21 Hts2)
             (noqual_of e f1 i1 Hit1 Nq1) (noqual_of e f2 i2 Hit2 Nq2)
             (cross_of e f1 i1 i2 Hit1 Hit2 X12) (cross_of e f2 i2 i1 Hit2 Hit1 X21)
             ltac:(rewrite !map_length; exact Hlen) ltac:(rewrite (map_xname_items i1 Hit1); exact Hnd))
    as (G & Ea & Hclean & Hreal & Hlits & Hclosed).
  set (d := tbl e t None) in *. set (ts1 := map (tbl_of e) f1) in *. set (ts2 := map (tbl_of e) f2) in *.
  set (xs1 := map xcol_of i1) in *. set (xs2 := map xcol_of i2) in *.
  assert (EUN : UN_of ts1 ts2 xs1 xs2 = []) by (unfold UN_of; rewrite Hun1, Hun2; reflexivity). rewrite EUN in Hlits.
  set (names := match cols with Some cs => cs | None => map xname xs1 end) in *.
  set (FL := flows_of (S_of ts1) (wpairs d xs1 names) ++ flows_of (S_of ts2) (wpairs d xs2 names)) in *.
  assert (CF : core_facts G FL).
  { constructor; [exact Hclean|exact Hreal| |exact Hclosed].
    apply (lits_weaken (QK (d :: ts1 ++ ts2) (PCe d (ts1 ++ ts2) []))); [|exact Hlits].
    intros n Hq. destruct n as [v|c|s0]; [reflexivity| |reflexivity]. cbn [QK] in Hq.
    destruct Hq as [(p & Ep & _)|(grp & nm & [] & _)]. unfold CompDefs.resolvedn. cbn [unresolved]. rewrite Ep. reflexivity. }
  assert (HT : forall f, In f FL -> tcol (fst f) /\ tcol (snd f)).
  { assert (K : forall from items, forallb rel_ok from = true -> group_ok d (map (tbl_of e) from) -> ts_inj (map (tbl_of e) from) ->
                  (forall x, In x (map xcol_of items) -> xref_ok (map (tbl_of e) from) x) ->
                  unres_names (map (tbl_of e) from) (map xcol_of items) = [] ->
                  forall f, In f (flows_of (S_of (map (tbl_of e) from)) (wpairs d (map xcol_of items) names)) -> tcol (fst f) /\ tcol (snd f)).
    { intros from items Hrel Hgo Hinj Hxs Hun f Hf. unfold flows_of in Hf. apply in_flat_map in Hf. destruct Hf as ([x w] & Hp0 & Hf).
      apply in_map_iff in Hf. destruct Hf as (s0 & <- & Hs0). cbn [fst snd] in *. unfold wpairs in Hp0.
      pose proof (in_combine_l _ _ _ _ Hp0) as Hx. apply in_combine_r in Hp0. apply in_map_iff in Hp0. destruct Hp0 as (c & <- & _). split.
      - destruct (S_of_props d _ _ x Hgo Hinj eq_refl Hx (Hxs x Hx)) as (_ & _ & _ & _ & A5). rewrite Hun in A5.
        destruct (A5 s0 Hs0) as [(v & Hv & Ev)|(nm & [] & _)]. exists v. split; [exact Ev|]. exact (ts_tcol e from v Hrel Hv).
      - exists d. split; [reflexivity|]. apply tbl_tcol_parent. }
    intros f Hf. apply in_app_iff in Hf. destruct Hf as [Hf|Hf].
    - exact (K f1 i1 Hrel1 Hg1 Hi1 (xref_ok_of e t f1 i1 Hrel1 Hit1 Tc1 Ic1) Hun1 f Hf).
    - exact (K f2 i2 Hrel2 Hg2 Hi2 (xref_ok_of e t f2 i2 Hrel2 Hit2 Tc2 Ic2) Hun2 f Hf). }
  exists G. split; [exact Ea|]. split; [exact (core_plain G Hclean)|]. split; [exact (core_resolved G (cf_res _ _ CF))|].
  split; [exact (core_cwf G _ CF)|].
  apply (edges_match_ext G (map phi FL)); [|exact (realises_match G _ Hreal HT)].
  intros p. unfold FL. rewrite map_app, in_app_iff. unfold d, ts1, ts2, xs1, xs2.
  rewrite (branch_phi e t f1 i1 names Hrel1 Hit1 Hres1), (branch_phi e t f2 i2 names Hrel2 Hit2 Hres2).
  assert (En : names = match cols with Some cs => cs | None => map item_name i1 end).
  { unfold names, xs1. destruct cols; [reflexivity|apply (map_xname_items i1 Hit1)]. }
  symmetry. apply (stmt_edges_union (e_cfg e) s t names i1 f1 c1 i2 f2 c2).
  - rewrite En. destruct cols as [cs|].
    + right. destruct Hs as [->|[Hs _]]; [reflexivity|discriminate Hs].
    + left. split; [reflexivity|]. destruct Hs as [->|[_ [->| ->]]]; auto.
  - exact Hrt1.
  - exact Hrt2.
  - exact Hlen.
  - rewrite En. destruct cols as [cs|]; [exact (proj2 (proj2 Hcols))|apply map_length].
  - exact (item_cols_single e t f1 i1 Hrel1 Hit1 Tc1 Ic1).
  - exact (item_cols_single e t f2 i2 Hrel2 Hit2 Tc2 Ic2).
Qed.
Print Assumptions union_core_statement.

Corollary holder_of_union_statement_in_c04_hyps noise e s :
  noise_ok noise = true -> env_ok e = true ->
  stmt_ok s = true -> sshape s = true -> colshape s = true -> sel_union_syntactic s = true -> union_unq_single s = true ->
  exists G, analyze e false (r_stmt noise s) = Ok G /\ Composition.c04_hyps [holder_of G] = true.
Proof.
  intros Hn He H1 H2 H3 H4 H5. destruct (union_core_statement noise e s Hn He H1 H2 H3 H4 H5) as (G & Ea & Q1 & Q2 & Q3 & _).
  exists G. split; [exact Ea|]. unfold Composition.c04_hyps. cbn [forallb]. rewrite Q1, Q2, Q3. reflexivity.
Qed.

(* ================================================================== *)
(** * scripts mixing single-SELECT and UNION statements *)
Definition union_stmt_core (s : Spec.stmt) : Prop :=
  stmt_ok s = true /\ sshape s = true /\ colshape s = true /\ sel_union_syntactic s = true /\ union_unq_single s = true.
Definition core_stmt_u (s : Spec.stmt) : Prop := core_stmt s \/ union_stmt_core s.

Lemma core_script_u noise e ss :
  noise_ok noise = true -> env_ok e = true -> Forall core_stmt_u ss ->
  exists Gs, map_res (analyze e false) (map (r_stmt noise) ss) = Ok Gs /\
             Composition.c04_hyps (map holder_of Gs) = true /\
             Forall2 edges_match Gs (map (stmt_edges (e_cfg e)) ss).
Proof.
  intros Hn He H.
  assert (K : exists Gs, map_res (analyze e false) (map (r_stmt noise) ss) = Ok Gs /\
              (forallb CompDefs.plain_holder (map holder_of Gs) = true /\
               forallb CompDefs.resolved_holder (map holder_of Gs) = true /\
               forallb CompDefs.cwf_holder (map holder_of Gs) = true) /\
              Forall2 edges_match Gs (map (stmt_edges (e_cfg e)) ss)).
  { induction H as [|s ss Hs _ IH].
    - exists []. split; [reflexivity|]. split; [auto|constructor].
    - destruct IH as (Gs & Em & (P1 & P2 & P3) & HM).
      assert (St : exists G, analyze e false (r_stmt noise s) = Ok G /\
                   CompDefs.plain_holder (holder_of G) = true /\ CompDefs.resolved_holder (holder_of G) = true /\
                   CompDefs.cwf_holder (holder_of G) = true /\ edges_match G (stmt_edges (e_cfg e) s)).
      { destruct Hs as [(H1 & _ & H3 & H4 & H5)|(H1 & H2 & H3 & H4 & H5)].
        - exact (core_statement noise e s Hn He H1 H3 H4 H5).
        - exact (union_core_statement noise e s Hn He H1 H2 H3 H4 H5). }
      destruct St as (G & Ea & Q1 & Q2 & Q3 & Q4).
      exists (G :: Gs). split; [cbn [map map_res]; rewrite Ea, Em; reflexivity|]. split.
      + cbn [map forallb]. rewrite Q1, Q2, Q3, P1, P2, P3. auto.
      + cbn [map]. constructor; assumption. }
  destruct K as (Gs & Em & (P1 & P2 & P3) & HM). exists Gs. split; [exact Em|]. split; [|exact HM].
  unfold Composition.c04_hyps. rewrite P1, P2, P3. reflexivity.
Qed.

Theorem script_exact_on_core_union : forall noise e ss,
  noise_ok noise = true -> env_ok e = true -> Forall core_stmt_u ss ->
  script_pairs e false [] (map (r_stmt noise) ss) = spec_script_pairs (e_cfg e) ss.
Proof.
  intros noise e ss Hn He H.
  destruct (core_script_u noise e ss Hn He H) as (Gs & Em & Hh & HM).
  destruct (run_statements_core e _ Gs (proj1 (env_facts e He)) Em) as (sess & Er).
  unfold script_pairs, script_graph. rewrite Er. cbn [fst snd].
  set (p := {| p_truthy := p_truthy (e_provider e); p_cols := view_cols sess [] |}).
  destruct (Composition.c04_main p (map holder_of Gs) Hh) as (g & Hb & _). rewrite Hb.
  unfold spec_script_pairs, script_edges. apply us_ext. intros x.
  rewrite (lineage_match Gs (map (stmt_edges (e_cfg e)) ss) HM p g Hh Hb x). rewrite flat_map_concat_map. reflexivity.
Qed.
Print Assumptions script_exact_on_core_union.

Corollary script_graph_col_edges_union noise e ss :
  noise_ok noise = true -> env_ok e = true -> Forall core_stmt_u ss ->
  exists g, script_graph e false [] (map (r_stmt noise) ss) = Ok g /\
    forall x y, CompDefs.col_edge g x y = true <->
                exists u v, In (u, v) (script_edges (e_cfg e) ss) /\ node_eqb x (nu u) = true /\ node_eqb y (nu v) = true.
Proof.
  intros Hn He H.
  destruct (core_script_u noise e ss Hn He H) as (Gs & Em & Hh & HM).
  destruct (run_statements_core e _ Gs (proj1 (env_facts e He)) Em) as (sess & Er).
  unfold script_graph. rewrite Er. cbn [fst snd].
  set (p := {| p_truthy := p_truthy (e_provider e); p_cols := view_cols sess [] |}).
  destruct (Composition.c04_main p (map holder_of Gs) Hh) as (g & Hb & Hu & _). rewrite Hb. exists g. split; [reflexivity|].
  intros x y. rewrite (Hu x y). unfold script_edges. rewrite flat_map_concat_map. apply (union_match Gs _ HM).
Qed.

(** ** executable form of the fragment, non-vacuity *)
Definition core_ok_u (s : Spec.stmt) : bool :=
  core_ok s || (stmt_ok s && sshape s && colshape s && sel_union_syntactic s && union_unq_single s).

Lemma core_ok_u_stmt s : core_ok_u s = true -> core_stmt_u s.
Proof.
  unfold core_ok_u, core_ok. intros H. apply orb_true_iff in H. destruct H as [H|H]; [left|right];
    repeat (apply andb_true_iff in H; destruct H as [H ?]); repeat split; assumption.
Qed.

Corollary script_exact_checked noise e ss :
  noise_ok noise = true -> env_ok e = true -> forallb core_ok_u ss = true ->
  script_pairs e false [] (map (r_stmt noise) ss) = spec_script_pairs (e_cfg e) ss.
Proof.
  intros Hn He H. apply script_exact_on_core_union; [exact Hn|exact He|]. apply Forall_forall. intros s Hs.
  apply core_ok_u_stmt. rewrite forallb_forall in H. exact (H s Hs).
Qed.

(** a script: a UNION (the same table under two aliases, a column list) feeds an intermediate table, which a second
    UNION statement and a single SELECT read *)
Definition su_script : list Spec.stmt :=
  [ SInsert (None, "m") (Some ["k"; "v"])
      (QUnion (sel1 [ci (Some "p") "a"; ci (Some "p") "b"] [tba "t" "p"]) (sel1 [ci (Some "q") "c"; ci (Some "u") "d"] [tba "t" "q"; tb "u"]));
    SCtas (None, "z") (QUnion (sel1 [ci None "k"] [tb "m"]) (sel1 [ci None "e"] [tb "w"]));
    SView (None, "y") (sel1 [cia None "v" "vv"; IStar None] [tb "m"]) ].

Example su_script_hyps : noise_ok [b5_ws] && env_ok b5_e1 && forallb core_ok_u su_script = true.
Proof. vm_compute. reflexivity. Qed.

Example su_script_pairs :
  script_pairs b5_e1 false [] (map (r_stmt [b5_ws]) su_script) =
  ["<default>.m.*><default>.y.*"; "<default>.t.a><default>.z.k"; "<default>.t.b><default>.y.vv"; "<default>.t.c><default>.z.k";
   "<default>.u.d><default>.y.vv"; "<default>.w.e><default>.z.k"].
Proof. rewrite (script_exact_checked [b5_ws] b5_e1 su_script) by (vm_compute; reflexivity). vm_compute. reflexivity. Qed.
