(** Lemma B, step 5b, second round: the same table may be read by both branches under different aliases.
    Stored node objects are then known up to Python equality only (approach of LemmaB5a.v, Part 2).  Shared definitions. *)
From SV Require Import Tree.Render Tree.LemmaA Tree.LemmaAProofs Tree.LemmaB Tree.LemmaBProofs Tree.LemmaB5bDefs Tree.LemmaB5bCore
     Ident.Escape.

(** the tables of the holder (both branches): tables, well formed, none is the target.  No distinctness across branches. *)
Record tabs_ok (d : dataset) (ts : list dataset) : Prop := {
  to_tables : forall v, In v ts -> dk v = KTable;
  to_dok : forall v, In v ts -> data_ok v;
  to_target : forall v, In v ts -> dataset_eqb v d = false
}.

(** the stored object of the unresolved column [nm] of the group [grp]: one parent per table of the group, each a stored
    table object equal (Python equality) to it *)
Definition UPg (ts grp : list dataset) (nm : string) (c : column) : Prop :=
  craw c = nm /\ escape nm = nm /\ 2 <= List.length (cparents c) /\
  (forall p, In p (cparents c) -> In p ts /\ exists w, In w grp /\ dataset_eqb p w = true) /\
  (forall w, In w grp -> exists p, In p (cparents c) /\ dataset_eqb p w = true) /\
  NoDup (map dstr (cparents c)).

(** the column objects of the holder *)
Definition PCe (d : dataset) (ts : list dataset) (UN : list (list dataset * string)) (c : column) : Prop :=
  (exists p, cparents c = [p] /\ In p (d :: ts)) \/ (exists grp nm, In (grp, nm) UN /\ UPg ts grp nm c).

(** a qualifier [q] names the table [v] of the group, and nothing else: no other table of the group by alias, bare name or
    full name, and no alias label [q] left on a table of the group by the other branch (K-C02-4) *)
Definition qual_ok_g (ts grp : list dataset) (q : string) (v : dataset) : Prop :=
  In v grp /\ dalias v = q /\
  (forall w, In w grp -> (dalias w = q \/ draw w = q \/ dstr w = q) -> w = v) /\
  (forall w u, In w grp -> In u ts -> dataset_eqb u w = true -> dalias u = q -> w = v).

Definition xref_ok_g (ts grp : list dataset) (x : xcol) : Prop :=
  cparents (xc x) = [] /\
  exists c qq, xsrc x = [(c, qq)] /\ escape c = c /\
               match qq with
               | Some q => exists v, qual_ok_g ts grp q v
               | None => (exists d1, grp = [d1]) \/ (multi grp /\ c <> "*")
               end.

Lemma xref_ok_g_old ts grp x : xref_ok_g ts grp x -> xref_ok grp x.
Proof.
  intros (H0 & c & qq & Hx & Hc & Hq). split; [exact H0|]. exists c, qq. split; [exact Hx|]. split; [exact Hc|].
  destruct qq as [q|]; [|exact Hq]. destruct Hq as (v & Hv & Eq & Hu & _). exists v. auto.
Qed.

(** the conditions on the syntax behind the last clause of [qual_ok_g]: the relation [r0] of this FROM answers to a name
    that the other FROM [fo] uses as an alias of a table that is also a table [r] of this FROM: then [r] is [r0] *)
Definition leak_free (f fo : list rel) : Prop :=
  forall r0 r r' q, In r0 f -> In r f -> In r' fo -> rname r0 = q -> ralias r' = Some q ->
                    tref_clash (rtref r) (rtref r') = true -> r = r0.
