(** A provider that is not ready (falsy) is never consulted: the analysis of a statement, and of a
    whole script, does not depend on what it would answer (C05, C13). *)
From SV Require Import Tree.Observe.

Definition same_but_cols (e e' : env) : Prop :=
  e_cfg e = e_cfg e' /\ e_icfg e = e_icfg e' /\ e_vertica e = e_vertica e' /\ e_scalar e = e_scalar e' /\
  p_truthy (e_provider e) = false /\ p_truthy (e_provider e') = false.

(** Congruences are stated at the level of functions ([f e = f e']): the environment is never bound
    inside the models, so such equations rewrite under the binders of the folds. *)
Lemma mk_table_cong : forall e e', same_but_cols e e' -> mk_table e = mk_table e'.
Proof.
  intros e e' (Hcfg & Hicfg & Hvert & Hsc & Hp & Hp').
  unfold mk_table. rewrite Hcfg, Hicfg. reflexivity.
Qed.

Lemma table_of_seg_cong : forall e e', same_but_cols e e' -> table_of_seg e = table_of_seg e'.
Proof.
  intros e e' H. pose proof H as (Hcfg & Hicfg & Hvert & Hsc & Hp & Hp').
  unfold table_of_seg. rewrite (mk_table_cong e e' H), Hcfg. reflexivity.
Qed.

Lemma extract_sources_cong : forall fuel e e', same_but_cols e e' -> extract_sources fuel e = extract_sources fuel e'.
Proof.
  intros fuel e e' H. pose proof H as (Hcfg & Hicfg & Hvert & Hsc & Hp & Hp').
  induction fuel as [|k IHk].
  - reflexivity.
  - cbn [extract_sources]. rewrite IHk, Hsc. reflexivity.
Qed.

Lemma get_column_and_alias_cong : forall fuel e e', same_but_cols e e' ->
  get_column_and_alias fuel e = get_column_and_alias fuel e'.
Proof.
  intros fuel e e' H. unfold get_column_and_alias. rewrite (extract_sources_cong fuel e e' H). reflexivity.
Qed.

Lemma column_of_seg_cong : forall fuel e e', same_but_cols e e' -> column_of_seg fuel e = column_of_seg fuel e'.
Proof.
  intros fuel e e' H. unfold column_of_seg.
  rewrite (extract_sources_cong fuel e e' H), (get_column_and_alias_cong fuel e e' H). reflexivity.
Qed.

Lemma to_source_columns_cong : forall e e', same_but_cols e e' -> to_source_columns e = to_source_columns e'.
Proof.
  intros e e' H. unfold to_source_columns. rewrite (mk_table_cong e e' H). reflexivity.
Qed.

Lemma expand_wildcard_cong : forall e e', same_but_cols e e' -> expand_wildcard e = expand_wildcard e'.
Proof.
  intros e e' H. pose proof H as (Hcfg & Hicfg & Hvert & Hsc & Hp & Hp').
  unfold expand_wildcard. rewrite Hp, Hp'. reflexivity.
Qed.

Lemma end_of_query_cleanup_cong : forall e e', same_but_cols e e' -> end_of_query_cleanup e = end_of_query_cleanup e'.
Proof.
  intros e e' H. unfold end_of_query_cleanup. rewrite (to_source_columns_cong e e' H). reflexivity.
Qed.

Lemma find_table_cong : forall e e', same_but_cols e e' -> find_table e = find_table e'.
Proof.
  intros e e' H. unfold find_table. rewrite (table_of_seg_cong e e' H). reflexivity.
Qed.

Lemma add_dataset_from_fee_cong : forall e e', same_but_cols e e' -> add_dataset_from_fee e = add_dataset_from_fee e'.
Proof.
  intros e e' H. unfold add_dataset_from_fee. rewrite (table_of_seg_cong e e' H). reflexivity.
Qed.

Lemma list_tables_one_cong : forall e e', same_but_cols e e' -> list_tables_one e = list_tables_one e'.
Proof.
  intros e e' H. unfold list_tables_one. rewrite (add_dataset_from_fee_cong e e' H). reflexivity.
Qed.

Lemma list_tables_cong : forall e e', same_but_cols e e' -> list_tables e = list_tables e'.
Proof.
  intros e e' H. unfold list_tables. rewrite (list_tables_one_cong e e' H). reflexivity.
Qed.

Lemma handle_swap_partition_cong : forall e e', same_but_cols e e' -> handle_swap_partition e = handle_swap_partition e'.
Proof.
  intros e e' H. pose proof H as (Hcfg & Hicfg & Hvert & Hsc & Hp & Hp').
  unfold handle_swap_partition. rewrite (mk_table_cong e e' H), Hvert. reflexivity.
Qed.

Lemma handle_select_into_cong : forall e e', same_but_cols e e' -> handle_select_into e = handle_select_into e'.
Proof.
  intros e e' H. unfold handle_select_into. rewrite (find_table_cong e e' H). reflexivity.
Qed.

Lemma handle_child_cong : forall fuel e e', same_but_cols e e' -> handle_child fuel e = handle_child fuel e'.
Proof.
  intros fuel e e' H. unfold handle_child.
  rewrite (handle_swap_partition_cong e e' H), (handle_select_into_cong e e' H), (list_tables_cong e e' H),
    (column_of_seg_cong fuel e e' H). reflexivity.
Qed.

Lemma extract_cong : forall fuel e e', same_but_cols e e' -> extract fuel e = extract fuel e'.
Proof.
  intros fuel e e' H. pose proof H as (Hcfg & Hicfg & Hvert & Hsc & Hp & Hp').
  induction fuel as [|f IHf].
  - reflexivity.
  - cbn [extract].
    rewrite IHf, (handle_child_cong f e e' H), (end_of_query_cleanup_cong e e' H), (expand_wildcard_cong e e' H),
      (table_of_seg_cong e e' H), (column_of_seg_cong f e e' H), (list_tables_cong e e' H), (find_table_cong e e' H),
      (to_source_columns_cong e e' H), Hp, Hp'.
    reflexivity.
Qed.

Theorem extract_falsy_provider : forall fuel e e' k s ctx,
  same_but_cols e e' -> extract fuel e k s ctx = extract fuel e' k s ctx.
Proof.
  intros fuel e e' k s ctx H. rewrite (extract_cong fuel e e' H). reflexivity.
Qed.

Lemma extract_merge_cong : forall fuel e e', same_but_cols e e' -> extract_merge fuel e = extract_merge fuel e'.
Proof.
  intros fuel e e' H. unfold extract_merge.
  rewrite (extract_cong fuel e e' H), (find_table_cong e e' H). reflexivity.
Qed.

Lemma extract_copy_cong : forall e e', same_but_cols e e' -> extract_copy e = extract_copy e'.
Proof.
  intros e e' H. unfold extract_copy. rewrite (find_table_cong e e' H). reflexivity.
Qed.

Lemma extract_drop_cong : forall e e', same_but_cols e e' -> extract_drop e = extract_drop e'.
Proof.
  intros e e' H. unfold extract_drop. rewrite (find_table_cong e e' H). reflexivity.
Qed.

Lemma extract_rename_cong : forall e e', same_but_cols e e' -> extract_rename e = extract_rename e'.
Proof.
  intros e e' H. unfold extract_rename. rewrite (find_table_cong e e' H). reflexivity.
Qed.

Theorem analyze_falsy_provider : forall e e' silent s,
  same_but_cols e e' -> analyze e silent s = analyze e' silent s.
Proof.
  intros e e' silent s H. unfold analyze. cbv zeta.
  rewrite (extract_cong _ e e' H), (extract_merge_cong _ e e' H), (extract_copy_cong e e' H),
    (extract_drop_cong e e' H), (extract_rename_cong e e' H).
  reflexivity.
Qed.

Lemma with_cols_same : forall e cols, p_truthy (e_provider e) = false -> same_but_cols (with_cols e cols) e.
Proof.
  intros e cols Hp. unfold same_but_cols, with_cols. cbn [e_cfg e_icfg e_vertica e_scalar e_provider p_truthy].
  repeat split; assumption.
Qed.

(** with a falsy provider a script is analysed statement by statement, each on its own:
    neither the base metadata nor what earlier statements registered matters *)
Theorem run_statements_falsy_provider : forall e silent base stmts session acc,
  p_truthy (e_provider e) = false ->
  match run_statements e silent base stmts session acc, map_res (analyze e silent) stmts with
  | Ok (gs, _), Ok gs' => gs = rev acc ++ gs'
  | Err x, Err y => x = y
  | _, _ => False
  end.
Proof.
  intros e silent base stmts. induction stmts as [|s r IHr]; intros session acc Hp.
  - cbn [run_statements map_res]. rewrite app_nil_r. reflexivity.
  - cbn [run_statements map_res].
    rewrite (analyze_falsy_provider _ e silent s (with_cols_same e (view_cols session base) Hp)).
    destruct (analyze e silent s) as [g|x].
    + specialize (IHr (match registration g with Some kv => kv :: session | None => session end) (g :: acc) Hp).
      destruct (run_statements e silent base r
                  (match registration g with Some kv => kv :: session | None => session end) (g :: acc)) as [[gs sess]|x];
        destruct (map_res (analyze e silent) r) as [gs'|y]; try assumption.
      subst gs. cbn [rev]. rewrite <- app_assoc. reflexivity.
    + reflexivity.
Qed.
