(** L3 -> L4 (continued): parser layout of the statements of Ast/SpecPath.v, with arbitrary trivia between tokens.
    PCopy: postgres / redshift ([copy_statement]); PCopyInto: snowflake ([copy_into_table_statement]);
    PInsertDir: sparksql / hive ([insert_overwrite_directory_hive_fmt_statement]); PSelectFile: sparksql (a
    [file_reference] as table expression).  Validated against the real parser by check_render_path.py. *)
From SV Require Export Ast.SpecPath Tree.Render.

Section RenderPath.
  Variable noise : list seg.

  Definition sq (p : string) : string := ("'" ++ p ++ "'")%string.
  Definition bq (p : string) : string := ("`" ++ p ++ "`")%string.
  Definition r_qlit (p : string) : seg :=
    leaf "literal" "quoted_literal" ["literal"; "quoted_literal"; "raw"; "single_quote"] (sq p).

  Definition r_storage (loc : string) (quoted : bool) : seg :=
    node "storage_location" ["storage_location"]
         [if quoted then leaf "raw" "bucket_path" ["bucket_path"; "raw"] (sq loc)
          else leaf "identifier" "stage_path" ["identifier"; "raw"; "stage_path"] loc].

  Definition r_colsb (cs : list string) : seg :=
    node "bracketed" ["bracketed"] (sep noise (lpar :: intersperse comma (map (r_colref None) cs) ++ [rpar])).

  Definition r_fileref (fmt path : string) : seg :=
    node "file_reference" ["file_reference"]
         [kw fmt; dot; leaf "identifier" "quoted_identifier" ["back_quote"; "identifier"; "quoted_identifier"; "raw"] (bq path)].

  Definition r_pstmt (p : pstmt) : seg :=
    match p with
    | PCopy t cols path =>
        node "copy_statement" ["copy_statement"]
             (sep noise ([kw "copy"; r_tref t] ++ match cols with Some cs => [r_colsb cs] | None => [] end ++ [kw "from"; r_qlit path]))
    | PCopyInto t loc quoted =>
        node "copy_into_table_statement" ["copy_into_table_statement"]
             (sep noise [kw "copy"; kw "into"; r_tref t; kw "from"; r_storage loc quoted])
    | PInsertDir loc path q =>
        node "insert_overwrite_directory_hive_fmt_statement" ["insert_overwrite_directory_hive_fmt_statement"]
             (sep noise ([kw "insert"; kw "overwrite"] ++ (if loc then [kw "local"] else []) ++
                         [kw "directory"; r_qlit path; r_query noise (S (q_size q)) q]))
    | PSelectFile items fmt path al =>
        node "select_statement" ["select_statement"]
             (sep noise [node "select_clause" ["select_clause"] (sep noise (kw "select" :: intersperse comma (map (r_item noise) items)));
                         node "from_clause" ["from_clause"]
                              (sep noise [kw "from";
                                          node "from_expression" ["from_expression"]
                                               [node "from_expression_element" ["from_expression_element"]
                                                     (sep noise (node "table_expression" ["table_expression"] [r_fileref fmt path]
                                                                 :: match al with Some a => [r_alias noise a] | None => [] end))]])])
    end.
End RenderPath.

Definition show_seg_p : nat -> seg -> string :=
  fix show (fuel : nat) (x : seg) : string :=
     match fuel with
     | O => ""
     | S k => (ty x ++ "/" ++ gty x ++ "/" ++ join "," (sort_strings (cls x)) ++
               (match children x with [] => "=" ++ raw x | ch => "(" ++ join " " (map (show k) ch) ++ ")" end))%string
     end.
Definition show_render_p (p : pstmt) : string := show_seg_p 200 (r_pstmt [] p).
