(** Lemma B, step 5d (WITH: one CTE, referenced once, at the top of the statement): shared definitions. *)
From SV Require Import Tree.Render Tree.LemmaA Tree.LemmaAProofs Tree.LemmaB Tree.LemmaBProofs Tree.LemmaB5cPaths Tree.LemmaB5c Ident.Escape.

(** the queries of the fragment *)
Definition cte_q1 (items' : list item) (from' : list rel) (cj' : bool) : query := QSelect items' from' cj' None.
Definition cte_q2 (n : string) (al : option string) (items : list item) (cj : bool) : query := QSelect items [RTable (None, n) al] cj None.
Definition cte_q (n : string) (al : option string) (items' : list item) (from' : list rel) (cj' : bool) (items : list item) (cj : bool) : query :=
  QWith n (cte_q1 items' from' cj') (cte_q2 n al items cj).

(** the SubQuery object of the CTE: the bracketed definition, named after the CTE *)
Definition cte_obj (noise : list seg) (n : string) (al : option string) items' from' cj' items cj : dataset :=
  sqd noise (q_size (cte_q n al items' from' cj' items cj)) (cte_q1 items' from' cj') n.

(** what the extractors compute for INSERT / CTAS / VIEW over [WITH n AS (q1) SELECT items FROM n]:
    [d] the target, [D] the CTE object, [rd] the dataset read by the body (the CTE under its name or alias),
    [ts'], [xs'] the tables and columns of the definition, [xs] the columns of the body *)
Definition cte_body_holder (e : env) (d D rd : dataset) (xs : list xcol) : res graph :=
  do g2 <- end_of_query_cleanup e (add_write (add_cte empty_graph D) d) [rd] xs []; expand_wildcard e g2.
Definition cte_def_holder (e : env) (D : dataset) (ts' : list dataset) (xs' : list xcol) : res graph :=
  do g3 <- end_of_query_cleanup e (add_write (add_cte empty_graph D) D) ts' xs' []; expand_wildcard e g3.
Definition cte_holder (e : env) (d D : dataset) (bsub : graph) (ts' : list dataset) (xs' : list xcol) : res graph :=
  let gI := add_write empty_graph d in
  do sh <- cte_def_holder e D ts' xs';
  Ok (compose gI (compose (compose (add_cte gI D) bsub) (set_attr sh [NData D] "write" false))).
