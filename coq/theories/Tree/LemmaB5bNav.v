(** Lemma B, step 5b: navigation.  What [analyze] computes on the rendering of INSERT / CREATE TABLE AS / CREATE VIEW AS
    over a UNION of two plain SELECTs (no WHERE) over base tables. *)
From SV Require Import Tree.Render Tree.LemmaA Tree.LemmaAProofs Tree.LemmaB Tree.LemmaBProofs Tree.LemmaB5bDefs Ident.Escape Ident.EscapeProofs.
From SV Require TriviaProofs.
Require Import Lia.
Open Scope string_scope.
Open Scope list_scope.

Section NavU.
Variable noise : list seg.
Hypothesis Hnoise : noise_ok noise = true.
Variable e : env.
Hypothesis Henv : env_ok e = true.

Lemma rel_ok_rtable from : forallb rel_ok from = true -> forallb is_rtable from = true.
Proof.
  intros Hrel. rewrite forallb_forall in *. intros r Hr. specialize (Hrel r Hr). destruct r; try discriminate. reflexivity.
Qed.

(** the FROM clause over base tables lists no sub-query *)
Lemma list_subquery_fc_tables k from cj :
  from <> [] -> forallb is_rtable from = true -> list_subquery (r_fc noise k from cj) = Ok [].
Proof.
  intros Hne Hrt. pose proof (sel_subq1_fc_tables noise Hnoise k from cj Hne Hrt) as H.
  unfold sel_subq1 in H. rewrite (ise_fc noise Hnoise) in H.
  destruct (list_subquery (r_fc noise k from cj)) as [a|err]; cbn in H; [|discriminate].
  rewrite app_nil_r in H. exact H.
Qed.

(** the set expression over two table-only SELECTs lists no sub-query *)
Lemma sel_subq1_union_tables k i1 f1 c1 i2 f2 c2 :
  forallb item_ok i1 = true -> f1 <> [] -> forallb is_rtable f1 = true ->
  forallb item_ok i2 = true -> f2 <> [] -> forallb is_rtable f2 = true ->
  sel_subq1 (r_union noise (S k) (QSelect i1 f1 c1 None) (QSelect i2 f2 c2 None)) = Ok [].
Proof.
  intros Hi1 Hn1 Hr1 Hi2 Hn2 Hr2. unfold sel_subq1. set (U := r_union noise (S k) (QSelect i1 f1 c1 None) (QSelect i2 f2 c2 None)).
  assert (E1 : list_subquery U = Ok []).
  { unfold list_subquery. assert (E : get_children U ["from_expression"] = []).
    { unfold U. rewrite r_union_eq, (get_children_sep noise Hnoise) by reflexivity. reflexivity. }
    rewrite E. change (ty_in U ["select_clause"; "from_clause"; "where_clause"]) with false. cbn iota.
    rewrite (is_subquery_other U) by reflexivity. reflexivity. }
  rewrite E1. change (is_set_expression U) with true. cbn iota. unfold U. rewrite (gc_union_subs noise Hnoise). cbn [map concat_res].
  rewrite !(lcs_top_select noise Hnoise). unfold clauses. cbn [r_wh app map concat_res].
  rewrite (list_subquery_sc noise Hnoise i1 Hi1), (list_subquery_sc noise Hnoise i2 Hi2).
  rewrite (list_subquery_fc_tables k f1 c1 Hn1 Hr1), (list_subquery_fc_tables k f2 c2 Hn2 Hr2). reflexivity.
Qed.

(** the clauses of one table-only SELECT: tables and columns are appended, graph and barriers unchanged *)
Lemma clauses_fold_exact f st k items from cj :
  forallb item_ok items = true -> from <> [] -> forallb rel_ok from = true -> sq_cte (s_g st) = [] ->
  fold_left (fun acc sg => do st4 <- acc; handle_child (S f) e st4 sg) (clauses noise items k from cj None) (Ok st) =
  Ok {| s_g := s_g st; s_tables := s_tables st ++ map (tbl_of e) from; s_columns := s_columns st ++ map xcol_of items;
        s_barriers := s_barriers st |}.
Proof.
  intros Hit Hne Hrel Hc. unfold clauses. cbn [r_wh app fold_left].
  rewrite (handle_child_sc_exact noise Hnoise e Henv f st items Hit). rewrite (handle_child_fc noise e Henv).
  cbn [s_g s_tables s_columns s_barriers].
  rewrite (list_tables_exact noise Hnoise e Henv k from cj (s_g st) Hne Hrel Hc). reflexivity.
Qed.

(** a UNION of two SELECTs over tables only, without WHERE: one cleanup over both branches, one barrier *)
Lemma union_tables_extract f stmt i1 f1 c1 i2 f2 c2 k ctx :
  sel_segments stmt = [r_union noise (S k) (QSelect i1 f1 c1 None) (QSelect i2 f2 c2 None)] ->
  forallb item_ok i1 = true -> f1 <> [] -> forallb rel_ok f1 = true ->
  forallb item_ok i2 = true -> f2 <> [] -> forallb rel_ok f2 = true ->
  sq_cte (init_holder ctx) = [] ->
  extract (S (S f)) e XSelect stmt ctx =
  (do g2 <- end_of_query_cleanup e (init_holder ctx) (map (tbl_of e) f1 ++ map (tbl_of e) f2) (map xcol_of i1 ++ map xcol_of i2)
              [(List.length (map xcol_of i1), List.length (map (tbl_of e) f1))];
   expand_wildcard e g2).
Proof.
  intros Hseg Hi1 Hn1 Hr1 Hi2 Hn2 Hr2 Hc. rewrite extract_select_eq, Hseg.
  unfold sel_subqueries. cbn [map concat_res].
  rewrite (sel_subq1_union_tables k i1 f1 c1 i2 f2 c2 Hi1 Hn1 (rel_ok_rtable f1 Hr1) Hi2 Hn2 (rel_ok_rtable f2 Hr2)).
  cbn [app ex_subquery fold_left]. unfold sel_fold. cbn [fold_left]. unfold sel_step.
  rewrite (handle_child_union noise e Henv). cbn [s_g s_tables s_columns s_barriers].
  change (is_set_expression (r_union noise (S k) (QSelect i1 f1 c1 None) (QSelect i2 f2 c2 None))) with true. cbn iota.
  rewrite (gc_union_subs noise Hnoise). cbn [fold_left]. unfold sel_children. rewrite !(lcs_top_select noise Hnoise).
  rewrite (clauses_fold_exact f _ k i1 f1 c1 Hi1 Hn1 Hr1) by exact Hc.
  cbn [s_g s_tables s_columns s_barriers app add_barrier].
  rewrite (clauses_fold_exact f _ k i2 f2 c2 Hi2 Hn2 Hr2) by exact Hc.
  cbn [fst s_g s_tables s_columns s_barriers app]. reflexivity.
Qed.

(** the INSERT / CREATE step on a set expression delegates to the SELECT extractor *)
Lemma ci_union f stmt g k a b :
  ci_step f e stmt (Ok (g, false, false)) (r_query noise (S k) (QUnion a b)) =
  (do g' <- ex_delegate f e XSelect (r_query noise (S k) (QUnion a b)) g true; Ok (g', false, false)).
Proof.
  unfold ci_step. set (Q := r_query noise (S k) (QUnion a b)).
  assert (E : tyis Q "with_compound_statement" = false /\ tyis Q "bracketed" = false /\
              ty_in Q ["select_statement"; "set_expression"] = true) by (unfold Q; rewrite r_query_union; repeat split; reflexivity).
  destruct E as (E1 & E2 & E3). rewrite E1, E2, E3. cbn [andb]. cbn iota.
  destruct (ex_delegate f e XSelect Q g true); reflexivity.
Qed.

Lemma delegate_union_g F stmt g i1 f1 c1 i2 f2 c2 k :
  forallb item_ok i1 = true -> f1 <> [] -> forallb rel_ok f1 = true ->
  forallb item_ok i2 = true -> f2 <> [] -> forallb rel_ok f2 = true ->
  init_holder (dctx g) = g -> sq_cte g = [] ->
  (do r <- ci_step (S (S (S F))) e stmt (Ok (g, false, false)) (r_query noise (S (S k)) (uq i1 f1 c1 i2 f2 c2));
   Ok (fst (fst r))) = union_holder e g i1 f1 i2 f2.
Proof.
  intros Hi1 Hn1 Hr1 Hi2 Hn2 Hr2 Hi Hc. unfold uq. rewrite ci_union. unfold ex_delegate. fold (dctx g).
  rewrite (union_tables_extract (S F) _ i1 f1 c1 i2 f2 c2 k (dctx g)); try assumption.
  - rewrite Hi. unfold union_holder.
    destruct (end_of_query_cleanup e _ _ _ _) as [g2|err]; [|reflexivity]. destruct (expand_wildcard e g2); reflexivity.
  - apply sel_segments_union.
  - rewrite Hi. exact Hc.
Qed.

Lemma uq_size i1 f1 c1 i2 f2 c2 : exists k, q_size (uq i1 f1 c1 i2 f2 c2) = S k.
Proof. eexists. reflexivity. Qed.

Lemma analyze_insert_union t i1 f1 c1 i2 f2 c2 :
  tref_ok t = true ->
  forallb item_ok i1 = true -> f1 <> [] -> forallb rel_ok f1 = true ->
  forallb item_ok i2 = true -> f2 <> [] -> forallb rel_ok f2 = true ->
  analyze e false (r_stmt noise (SInsert t None (uq i1 f1 c1 i2 f2 c2))) =
  union_holder e (add_write empty_graph (tbl e t None)) i1 f1 i2 f2.
Proof.
  intros Ht Hi1 Hn1 Hr1 Hi2 Hn2 Hr2. set (q := uq i1 f1 c1 i2 f2 c2).
  destruct (uq_size i1 f1 c1 i2 f2 c2) as (k & Hk). fold q in Hk.
  set (Q := r_query noise (S (S k)) q).
  set (stmt := node "insert_statement" ["insert_statement"] (sep noise ([kw "insert"; kw "into"; r_tref t] ++ cols_part noise None ++ [Q]))).
  assert (Es : r_stmt noise (SInsert t None q) = stmt) by (unfold stmt, Q; rewrite <- Hk; reflexivity). rewrite Es.
  assert (Ea : analyze e false stmt = extract (S (S (S (S (3 * depth stmt + 6))))) e XCreateInsert stmt empty_ctx).
  { replace (S (S (S (S (3 * depth stmt + 6))))) with (3 * depth stmt + 10) by lia. reflexivity. }
  set (F := 3 * depth stmt + 6) in *.
  rewrite Ea, extract_ci_eq. unfold stmt at 2. rewrite (lcs_node noise Hnoise) by reflexivity.
  rewrite !filter_app. cbn [cols_part filter app]. change (nn (kw "insert")) with true. change (nn (kw "into")) with true.
  change (nn (r_tref t)) with true. unfold Q at 1. rewrite (nn_rq noise). cbn iota. fold Q.
  change (init_holder empty_ctx) with empty_graph. cbn [app fold_left].
  rewrite (ci_kw_target e (S (S (S F))) stmt empty_graph false false "insert" eq_refl), (ci_kw_target e (S (S (S F))) stmt empty_graph true false "into" eq_refl).
  rewrite (ci_tref e Henv), (table_of_seg_exact e Henv t None Ht I).
  unfold Q, q. apply (delegate_union_g F stmt _ i1 f1 c1 i2 f2 c2 k Hi1 Hn1 Hr1 Hi2 Hn2 Hr2); reflexivity.
Qed.

Lemma analyze_create_union (view : bool) t i1 f1 c1 i2 f2 c2 :
  tref_ok t = true ->
  forallb item_ok i1 = true -> f1 <> [] -> forallb rel_ok f1 = true ->
  forallb item_ok i2 = true -> f2 <> [] -> forallb rel_ok f2 = true ->
  analyze e false (r_stmt noise (if view then SView t (uq i1 f1 c1 i2 f2 c2) else SCtas t (uq i1 f1 c1 i2 f2 c2))) =
  union_holder e (add_write empty_graph (tbl e t None)) i1 f1 i2 f2.
Proof.
  intros Ht Hi1 Hn1 Hr1 Hi2 Hn2 Hr2. set (q := uq i1 f1 c1 i2 f2 c2).
  destruct (uq_size i1 f1 c1 i2 f2 c2) as (k & Hk). fold q in Hk.
  set (Q := r_query noise (S (S k)) q).
  set (ty0 := if view then "create_view_statement" else "create_table_statement").
  set (w0 := if view then "view" else "table").
  set (stmt := node ty0 [ty0] (sep noise [kw "create"; kw w0; r_tref t; kw "as"; Q])).
  assert (Es : r_stmt noise (if view then SView t q else SCtas t q) = stmt)
    by (unfold stmt, Q; rewrite <- Hk; destruct view; reflexivity). rewrite Es.
  assert (Ea : analyze e false stmt = extract (S (S (S (S (3 * depth stmt + 6))))) e XCreateInsert stmt empty_ctx).
  { replace (S (S (S (S (3 * depth stmt + 6))))) with (3 * depth stmt + 10) by lia. destruct view; reflexivity. }
  set (F := 3 * depth stmt + 6) in *.
  rewrite Ea, extract_ci_eq. unfold stmt at 2. rewrite (lcs_node noise Hnoise) by (destruct view; reflexivity).
  cbn [filter]. change (nn (kw "create")) with true. change (nn (kw w0)) with true. change (nn (kw "as")) with true.
  change (nn (r_tref t)) with true. unfold Q at 1. rewrite (nn_rq noise). cbn iota. fold Q.
  change (init_holder empty_ctx) with empty_graph. cbn [fold_left].
  rewrite (ci_kw_other e (S (S (S F))) stmt empty_graph false "create" eq_refl eq_refl).
  rewrite (ci_kw_target e (S (S (S F))) stmt empty_graph false false w0) by (destruct view; reflexivity).
  rewrite (ci_tref e Henv), (table_of_seg_exact e Henv t None Ht I).
  rewrite (ci_kw_other e (S (S (S F))) stmt _ false "as" eq_refl eq_refl).
  unfold Q, q. apply (delegate_union_g F stmt _ i1 f1 c1 i2 f2 c2 k Hi1 Hn1 Hr1 Hi2 Hn2 Hr2); reflexivity.
Qed.

Lemma analyze_insert_cols_union t cs i1 f1 c1 i2 f2 c2 :
  tref_ok t = true -> forallb id_ok cs = true -> NoDup cs ->
  forallb item_ok i1 = true -> f1 <> [] -> forallb rel_ok f1 = true ->
  forallb item_ok i2 = true -> f2 <> [] -> forallb rel_ok f2 = true ->
  analyze e false (r_stmt noise (SInsert t (Some cs) (uq i1 f1 c1 i2 f2 c2))) =
  union_holder e (gb_of (tbl e t None) cs) i1 f1 i2 f2.
Proof.
  intros Ht Hcs Hnd Hi1 Hn1 Hr1 Hi2 Hn2 Hr2. set (q := uq i1 f1 c1 i2 f2 c2).
  destruct (uq_size i1 f1 c1 i2 f2 c2) as (k & Hk). fold q in Hk.
  set (Q := r_query noise (S (S k)) q).
  set (stmt := node "insert_statement" ["insert_statement"] (sep noise ([kw "insert"; kw "into"; r_tref t] ++ cols_part noise (Some cs) ++ [Q]))).
  assert (Es : r_stmt noise (SInsert t (Some cs) q) = stmt) by (unfold stmt, Q; rewrite <- Hk; reflexivity). rewrite Es.
  assert (Ea : analyze e false stmt = extract (S (S (S (S (3 * depth stmt + 6))))) e XCreateInsert stmt empty_ctx).
  { replace (S (S (S (S (3 * depth stmt + 6))))) with (3 * depth stmt + 10) by lia. reflexivity. }
  set (F := 3 * depth stmt + 6) in *.
  rewrite Ea, extract_ci_eq. unfold stmt at 2. rewrite (lcs_node noise Hnoise) by reflexivity.
  rewrite !filter_app, (filter_nn_cols noise). cbn [cols_part filter app]. change (nn (kw "insert")) with true. change (nn (kw "into")) with true.
  change (nn (r_tref t)) with true. unfold Q at 1. rewrite (nn_rq noise). cbn iota. fold Q.
  change (init_holder empty_ctx) with empty_graph. cbn [app fold_left].
  rewrite (ci_kw_target e (S (S (S F))) stmt empty_graph false false "insert" eq_refl), (ci_kw_target e (S (S (S F))) stmt empty_graph true false "into" eq_refl).
  rewrite (ci_tref e Henv), (table_of_seg_exact e Henv t None Ht I).
  rewrite (ci_cols_exact noise Hnoise e (S (S F)) stmt _ cs Hcs).
  change (add_write_column (add_write empty_graph (tbl e t None)) (cl_of cs)) with (gb_of (tbl e t None) cs).
  unfold Q, q.
  assert (Hd : dk (tbl e t None) = KTable) by reflexivity.
  destruct (gb_facts (tbl e t None) cs Hd Hnd) as (_ & _ & C & _).
  apply (delegate_union_g F stmt (gb_of (tbl e t None) cs) i1 f1 c1 i2 f2 c2 k Hi1 Hn1 Hr1 Hi2 Hn2 Hr2 (init_delegate_cols _ cs Hd Hnd)).
  unfold sq_cte. rewrite C. reflexivity.
Qed.
End NavU.

Print Assumptions analyze_insert_union.
Print Assumptions analyze_create_union.
Print Assumptions analyze_insert_cols_union.

(** non-vacuity: a concrete instance satisfying all hypotheses (non-empty noise, schema-qualified and aliased tables,
    aliased and qualified columns, a wildcard), and the conclusion computed on it *)
Definition nvn_noise : list seg :=
  [Seg "whitespace" "whitespace" ["whitespace"] " " true false false []; Seg "inline_comment" "comment" ["comment"] "-- c" false true false []].
Definition nvn_e : env := mk_env "ansi" "" "" {| p_truthy := false; p_cols := [] |} [].
Definition nvn_t : tref := (Some "s", "tgt").
Definition nvn_i1 : list item := [ci None "a"; cia (Some "x") "b" "bb"; IStar None].
Definition nvn_f1 : list rel := [tba "t1" "x"].
Definition nvn_i2 : list item := [ci None "a"; ci None "d"; ci (Some "t2") "c"].
Definition nvn_f2 : list rel := [tb "t1"; tbs "s2" "t2" None].
Definition nvn_cs : list string := ["p"; "q"; "r"].

Example nav_union_nonvacuous :
  noise_ok nvn_noise = true /\ env_ok nvn_e = true /\ tref_ok nvn_t = true /\ forallb id_ok nvn_cs = true /\ NoDup nvn_cs /\
  forallb item_ok nvn_i1 = true /\ nvn_f1 <> [] /\ forallb rel_ok nvn_f1 = true /\
  forallb item_ok nvn_i2 = true /\ nvn_f2 <> [] /\ forallb rel_ok nvn_f2 = true.
Proof.
  repeat (split; [vm_compute; first [reflexivity|discriminate]|]).
  split; [repeat constructor; cbn; intuition discriminate|].
  repeat (split; [vm_compute; first [reflexivity|discriminate]|]). vm_compute; reflexivity.
Qed.

Example nav_union_instances :
  (exists g, analyze nvn_e false (r_stmt nvn_noise (SInsert nvn_t None (uq nvn_i1 nvn_f1 false nvn_i2 nvn_f2 true))) = Ok g /\
             union_holder nvn_e (add_write empty_graph (tbl nvn_e nvn_t None)) nvn_i1 nvn_f1 nvn_i2 nvn_f2 = Ok g) /\
  (exists g, analyze nvn_e false (r_stmt nvn_noise (SView nvn_t (uq nvn_i1 nvn_f1 false nvn_i2 nvn_f2 true))) = Ok g /\
             union_holder nvn_e (add_write empty_graph (tbl nvn_e nvn_t None)) nvn_i1 nvn_f1 nvn_i2 nvn_f2 = Ok g) /\
  (exists g, analyze nvn_e false (r_stmt nvn_noise (SInsert nvn_t (Some nvn_cs) (uq nvn_i1 nvn_f1 false nvn_i2 nvn_f2 true))) = Ok g /\
             union_holder nvn_e (gb_of (tbl nvn_e nvn_t None) nvn_cs) nvn_i1 nvn_f1 nvn_i2 nvn_f2 = Ok g).
Proof. split; [|split]; eexists; split; vm_compute; reflexivity. Qed.
