(** C05 - a script is analysed as exactly the sequence of its statements. *)
From SV Require Import Split.Tokens Split.Proofs Tree.Observe Tree.ProviderProofs.

(** The statements reported for a script are exactly its non-empty statements, in order, for every
    separator variant: ';', ';;', blanks, newlines, line and block comments (which may contain ';'),
    string literals containing ';' (code tokens), leading and trailing comment-only pieces. *)
Theorem c05_split : forall lead items,
  forallb Tokens.is_trivia lead = true -> items_ok items ->
  map code_of (Tokens.split (lead ++ assemble items)) = map (fun p => code_of (fst p)) items.
Proof. exact split_assemble. Qed.
Print Assumptions c05_split.

Theorem c05_split_open : forall lead items last_body trail,
  forallb Tokens.is_trivia lead = true -> items_ok items -> stmt_ok last_body ->
  forallb Tokens.is_trivia trail = true ->
  map code_of (Tokens.split (lead ++ assemble items ++ last_body ++ trail)) =
  map (fun p => code_of (fst p)) items ++ [code_of last_body].
Proof. exact split_assemble_open. Qed.
Print Assumptions c05_split_open.

(** Every reported statement, analysed on its own, is a single statement. *)
Theorem c05_split_idem : forall lead items p,
  forallb Tokens.is_trivia lead = true -> items_ok items ->
  In p (Tokens.split (lead ++ assemble items)) -> Tokens.split p = [p].
Proof. exact split_idem_assembled. Qed.
Print Assumptions c05_split_idem.

(** Metadata-free analysis of a script is the combination of each statement's analysis on its own:
    with a falsy provider the statement loop never consults the provider, so the per-statement holders
    are those of the statements analysed in isolation (the assembly is [build] of exactly these). *)
Theorem c05_statements_on_their_own : forall e silent base stmts session acc,
  p_truthy (e_provider e) = false ->
  match run_statements e silent base stmts session acc, map_res (analyze e silent) stmts with
  | Ok (gs, _), Ok gs' => gs = rev acc ++ gs'
  | Err x, Err y => x = y
  | _, _ => False
  end.
Proof. exact run_statements_falsy_provider. Qed.
Print Assumptions c05_statements_on_their_own.

Theorem c05_falsy_provider_never_read : forall e e' silent s,
  same_but_cols e e' -> analyze e silent s = analyze e' silent s.
Proof. exact analyze_falsy_provider. Qed.
Print Assumptions c05_falsy_provider_never_read.

(** Non-vacuity: two statements, a comment containing ';', a literal containing ';', a double ';'. *)
Example c05_nonvacuous :
  let s1 := [TCode "select"; TWs " "; TCode "'a;b'"] in
  let s2 := [TCode "insert"; TWs " "; TLParen; TCode "x"; TRParen] in
  items_ok [(s1, [TWs " "; TLineComment "-- c; d
"; TSemi; TNl "
"]); (s2, [TBlockComment "/* ; */"])] /\
  show_split (assemble [(s1, [TWs " "; TLineComment "-- c; d
"; TSemi; TNl "
"]); (s2, [TBlockComment "/* ; */"])]) =
  "select 'a;b'; -- c; d
<|>
insert (x);".
Proof.
  cbn zeta. split; [|reflexivity].
  unfold items_ok. repeat (apply Forall_cons; [split; [split; [reflexivity|split; [vm_compute; discriminate|reflexivity]]|reflexivity]|]).
  apply Forall_nil.
Qed.

(** * T-SQL without semicolons (Tree/TsqlSplit.v: model of _list_specific_statement_segment on the file tree, split_tsql with its
    raw-text keyed cache, the statement loop through the cache; Tree/TsqlSplitProofs.v) *)
From SV Require Import Tree.Render Tree.LemmaA Tree.TsqlSplit Tree.TsqlSplitProofs.

(** the statements listed for a no-semicolon batch are exactly its statements, in order - none lost, none invented; any trivia *)
Theorem c05_tsql_statement_list : forall noise ss, noise_ok noise = true ->
  list_statements (r_file_tsql noise ss) = Ok (map (r_stmt noise) ss).
Proof. intros noise ss H. apply list_statements_tsql. exact H. Qed.
Print Assumptions c05_tsql_statement_list.

Theorem c05_tsql_statement_list_go_batches : forall noise bs, noise_ok noise = true ->
  list_statements (r_file_tsql_go noise bs) = Ok (map (r_stmt noise) (List.concat bs)).
Proof. intros noise bs H. apply list_statements_tsql_go. exact H. Qed.
Print Assumptions c05_tsql_statement_list_go_batches.

(** the cache keyed by raw text returns, for every text handed out, the LAST segment with that text *)
Theorem c05_tsql_cache_lookup : forall q segs d0,
  dict_get q (build_cache segs d0) = last_with_raw q segs (dict_get q d0).
Proof. exact cache_lookup. Qed.
Print Assumptions c05_tsql_cache_lookup.

(** the C05 clause: with a provider without metadata a no-semicolon T-SQL script is analysed as each statement on its own -
    provided statements with equal raw text are equal trees ([raw_determines]; needed: c05_tsql_needs_raw_determines) *)
Theorem c05_tsql_script_is_its_statements : forall noise e silent base ss,
  noise_ok noise = true -> p_truthy (e_provider e) = false -> raw_determines (map (r_stmt noise) ss) ->
  match run_tsql e silent base (r_file_tsql noise ss), map_res (analyze e silent) (map (r_stmt noise) ss) with
  | Ok (gs, _), Ok gs' => gs = gs' | Err x, Err y => x = y | _, _ => False end.
Proof. intros. apply c05_tsql_no_semicolon; assumption. Qed.
Print Assumptions c05_tsql_script_is_its_statements.

Theorem c05_tsql_raw_determines_refuted :
  ~ (forall ss, forallb stmt_ok ss = true -> raw_determines (map (r_stmt []) ss)).
Proof. exact raw_determines_rendered_refuted. Qed.
Print Assumptions c05_tsql_raw_determines_refuted.
