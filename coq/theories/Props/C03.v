(** C03 - script summary roles follow from per-statement reads and writes. *)
From SV Require Import Holder.TableLevel.

(** Known finding K-C03-1: a RENAME statement with chained pairs is order dependent
    (the pairs are iterated in set order by the implementation). *)
Definition ins_z_a : astmt :=
  {| hnodes := ["T:s.z"; "T:s.a"]; reads := ["T:s.z"]; writes := ["T:s.a"]; drops := []; renames := []; wired := ["T:s.z"] |}.
Definition chain (ps : list (tbl * tbl)) : astmt :=
  {| hnodes := ["T:s.a"; "T:s.b"; "T:s.c"]; reads := []; writes := []; drops := []; renames := ps; wired := [] |}.

Theorem c03_rename_refuted :
  (exists s, build [ins_z_a; chain [("T:s.a", "T:s.b"); ("T:s.b", "T:s.c")]] = Ok s /\ targets s = ["T:s.c"]) /\
  build [ins_z_a; chain [("T:s.b", "T:s.c"); ("T:s.a", "T:s.b")]] = ErrNetworkX.
Proof. split; [eexists; split; reflexivity|reflexivity]. Qed.
Print Assumptions c03_rename_refuted.
