(** C03 - script summary roles follow from per-statement reads and writes. *)
From SV Require Import Holder.TableLevel Holder.TableProofs.

(** Scripts without DROP / RENAME never fail, and their dataset graph has an edge
    r -> w exactly when some statement reads r and writes w. *)
Theorem c03_plain_ok : forall hs, Forall plain hs -> exists s, build hs = Ok s.
Proof. exact build_plain_ok. Qed.
Print Assumptions c03_plain_ok.

Theorem c03_edges : forall hs s r w,
  Forall plain hs -> build hs = Ok s -> (mem_pair (r, w) (te s) = true <-> spec_edge hs r w).
Proof. exact build_plain_edges. Qed.
Print Assumptions c03_edges.

(** The three accessors are exactly the classification the property states. *)
Theorem c03_roles_source : forall hs s t,
  Forall plain hs -> Forall wf hs -> build hs = Ok s -> (is_source s t = true <-> spec_source hs t).
Proof. exact roles_source. Qed.
Print Assumptions c03_roles_source.

Theorem c03_roles_target : forall hs s t,
  Forall plain hs -> Forall wf hs -> build hs = Ok s -> (is_target s t = true <-> spec_target hs t).
Proof. exact roles_target. Qed.
Print Assumptions c03_roles_target.

Theorem c03_roles_intermediate : forall hs s t,
  Forall plain hs -> Forall wf hs -> build hs = Ok s -> (is_intermediate s t = true <-> spec_intermediate hs t).
Proof. exact roles_intermediate. Qed.
Print Assumptions c03_roles_intermediate.

(** Statement order and repetition do not matter. *)
Theorem c03_order_dup_invariant : forall hs hs' s s' t,
  Forall plain hs -> Forall wf hs -> Forall plain hs' -> Forall wf hs' ->
  (forall h, In h hs <-> In h hs') ->
  build hs = Ok s -> build hs' = Ok s' ->
  is_source s t = is_source s' t /\ is_target s t = is_target s' t /\
  is_intermediate s t = is_intermediate s' t /\
  (forall r w, mem_pair (r, w) (te s) = mem_pair (r, w) (te s')).
Proof. exact order_dup_invariant. Qed.
Print Assumptions c03_order_dup_invariant.

(** DROP removes a dropped table iff it is present and isolated (nothing read from it,
    nothing wired to it), and never touches edges, other tables or their tags. *)
Theorem c03_drop : forall s h,
  drops h <> [] ->
  exists s', step s h = Ok s' /\
    te s' = te (compose s h) /\
    (forall t, ~ In t (drops h) -> mem t (tn s') = mem t (tn (compose s h)) /\
                                   mem t (tso s') = mem t (tso s) /\ mem t (tto s') = mem t (tto s)) /\
    (forall t, In t (drops h) ->
       mem t (tn s') = mem t (tn (compose s h)) && negb (isolated (compose s h) t)).
Proof. exact drop_step. Qed.
Print Assumptions c03_drop.

(** RENAME x TO y with x untagged and y fresh puts y exactly in x's place. *)
Theorem c03_rename_single : forall s x y hn,
  x <> y -> In x (tn s) -> ~ In y (tn s) -> NoDup (tn s) ->
  mem x (tso s) = false -> mem x (tto s) = false ->
  mem_pair (x, x) (te s) = false ->
  negb (isolated s x) = true ->
  (forall e, In e (te s) -> In (fst e) (tn s) /\ In (snd e) (tn s)) ->
  let h := {| hnodes := hn; reads := []; writes := []; drops := []; renames := [(x, y)]; wired := [] |} in
  (forall t, In t hn -> t = x \/ t = y) ->
  exists s', step s h = Ok s' /\
    (forall t, mem t (tn s') = mem t (map (rn x y) (tn s))) /\
    (forall a b, mem_pair (a, b) (te s') = mem_pair (a, b) (map (fun e => (rn x y (fst e), rn x y (snd e))) (te s))) /\
    mem x (tn s') = false.
Proof. exact rename_single. Qed.
Print Assumptions c03_rename_single.

(** Non-vacuity: a three-statement script (chain + read-only statement) satisfies the hypotheses,
    and the executable specification agrees with the model on it. *)
Definition rw (rs : list tbl) (ws : list tbl) : astmt :=
  {| hnodes := rs ++ ws; reads := rs; writes := ws; drops := []; renames := []; wired := rs |}.
Example c03_nonvacuous :
  let hs := [rw ["T:a"] ["T:b"]; rw ["T:b"; "T:c"] ["T:d"]; rw ["T:d"] []] in
  Forall plain hs /\ Forall wf hs /\
  show_build hs = show_spec hs /\
  show_build hs = "S=T:a,T:c,T:d;T=T:d;I=T:b;E=T:a>T:b,T:b>T:d,T:c>T:d;N=T:a,T:b,T:c,T:d".
Proof.
  cbn zeta. split; [repeat constructor|]. split.
  - repeat (apply Forall_cons; [split; cbn; intros t Ht; intuition|]). apply Forall_nil.
  - split; reflexivity.
Qed.

(** Known finding K-C03-1: a RENAME statement with chained pairs is order dependent
    (the pairs are iterated in set order by the implementation). *)
Definition ins_z_a : astmt :=
  {| hnodes := ["T:s.z"; "T:s.a"]; reads := ["T:s.z"]; writes := ["T:s.a"]; drops := []; renames := []; wired := ["T:s.z"] |}.
Definition chain (ps : list (tbl * tbl)) : astmt :=
  {| hnodes := ["T:s.a"; "T:s.b"; "T:s.c"]; reads := []; writes := []; drops := []; renames := ps; wired := [] |}.

Theorem c03_rename_refuted :
  (exists s, build [ins_z_a; chain [("T:s.a", "T:s.b"); ("T:s.b", "T:s.c")]] = Ok s /\ targets s = ["T:s.c"]) /\
  build [ins_z_a; chain [("T:s.b", "T:s.c"); ("T:s.a", "T:s.b")]] = ErrNetworkX.
Proof. split; [eexists; split; reflexivity|reflexivity]. Qed.
Print Assumptions c03_rename_refuted.

(** * Transfer to the full graph model.
    Holder/TableLevel.v (about which the theorems above speak) is the dataset-level projection of the full model of
    SQLLineageHolder._build_digraph (Holder/Build.v on NX/Graph.v, the one tied to the implementation's graphs and used
    by C04 C06 C11 C18): one step simulates one step, hence whole scripts, and the three role accessors agree
    (Holder/Refinement.v; [abs_holder] is the abstraction the harness applies to real holders, now defined and proved in
    Coq).  [all_wf] (executable; evaluated on the implementation's holders on every run) states what the correspondence
    needs; each condition is justified by a counterexample in Holder/RefineDefs.v. *)
From SV Require Holder.Refinement.
Module R := SV.Holder.Refinement.
Module RD := SV.Holder.RefineDefs.
Module B := SV.Holder.Build.

Theorem c03_full_model_refines : forall p hs, R.all_wf hs ->
  match B.build p hs, build (map RD.abs_holder hs) with
  | B.BOk g, Ok s =>
      map RD.key (B.source_tables g) = sources s /\
      map RD.key (B.target_tables g) = targets s /\
      map RD.key (B.intermediate_tables g) = intermediates s
  | B.ErrNetworkX, ErrNetworkX => True
  | _, _ => False
  end.
Proof. exact R.roles_refine. Qed.
Print Assumptions c03_full_model_refines.

(** e.g. the source classification of the property, now about the full model *)
Theorem c03_roles_source_full_model : forall p hs g t,
  R.all_wf hs ->
  Forall plain (map RD.abs_holder hs) -> Forall wf (map RD.abs_holder hs) ->
  B.build p hs = B.BOk g ->
  (In t (map RD.key (B.source_tables g)) <-> spec_source (map RD.abs_holder hs) t).
Proof. exact R.transfer_roles_source. Qed.
Print Assumptions c03_roles_source_full_model.

(** * End to end on the tree model (Tree/HolderInv.v, Tree/ScriptRoles.v): the roles the whole pipeline reports for a script equal
    the roles computed from the SPECIFIED reads and writes of its statements (Ast/Spec.v) by the property's own definition
    (source: read and never written, or self-reading, or only read by a statement that writes nothing; target symmetrically;
    intermediate: both, not self-reading).  Proved in full for scripts of the core fragment (INSERT [cols] / CTAS / VIEW over one
    SELECT from base tables, plain SELECTs, no-data statements), any trivia; for the WHOLE fragment of Lemma A (derived tables,
    unions, WHERE-IN, CTEs, any nesting) the same conclusion is proved from ONE remaining closed statement about the extractor,
    [extract_HI_statement] (every holder the extractor returns satisfies the structural invariant HI: attribute keys, edge
    types, no dataset-to-dataset edge, closed targets - each extractor operation is proved to preserve it in Tree/HolderInv.v;
    the induction through [extract] itself is not done); its consequence [wf_holder] is evaluated on every real holder of the tie. *)
From SV Require Import Tree.Observe Tree.Render Tree.LemmaA Tree.LemmaAProofs Tree.LemmaB Tree.LemmaBProofs Tree.ScriptExact Tree.ScriptExactExt Tree.HolderInv Tree.ScriptRoles.

Theorem c03_script_roles_exact_on_core : forall noise e ss,
  noise_ok noise = true -> env_ok e = true ->
  Forall (fun s => core_stmt_ext s /\ stmt_ok s = true /\ sshape s = true) ss ->
  script_sources e false [] (map (r_stmt noise) ss) = spec_sources (e_cfg e) ss /\
  script_targets e false [] (map (r_stmt noise) ss) = spec_targets (e_cfg e) ss /\
  script_intermediates e false [] (map (r_stmt noise) ss) = spec_intermediates (e_cfg e) ss.
Proof. exact script_roles_exact_on_core_ext. Qed.
Print Assumptions c03_script_roles_exact_on_core.

Theorem c03_script_roles_exact_on_lemma_A_fragment_partial : extract_HI_statement -> forall noise e ss,
  noise_ok noise = true -> env_ok e = true ->
  Forall (fun s => stmt_ok s = true /\ sshape s = true) ss ->
  script_sources e false [] (map (r_stmt noise) ss) = spec_sources (e_cfg e) ss /\
  script_targets e false [] (map (r_stmt noise) ss) = spec_targets (e_cfg e) ss /\
  script_intermediates e false [] (map (r_stmt noise) ss) = spec_intermediates (e_cfg e) ss.
Proof. exact script_roles_exact_on_core_partial. Qed.
Print Assumptions c03_script_roles_exact_on_lemma_A_fragment_partial.

(** ... and unconditionally for the WHOLE fragment of Lemma A (Tree/ExtractInv.v proves [extract_HI_statement] for all trees,
    all extractor kinds and all contexts): derived tables, unions, WHERE-IN, CTEs at any nesting depth, any trivia. *)
From SV Require Import Tree.ExtractInv.

Theorem c03_script_roles_exact_on_lemma_A_fragment : forall noise e ss,
  noise_ok noise = true -> env_ok e = true ->
  Forall (fun s => stmt_ok s = true /\ sshape s = true) ss ->
  script_sources e false [] (map (r_stmt noise) ss) = spec_sources (e_cfg e) ss /\
  script_targets e false [] (map (r_stmt noise) ss) = spec_targets (e_cfg e) ss /\
  script_intermediates e false [] (map (r_stmt noise) ss) = spec_intermediates (e_cfg e) ss.
Proof. exact script_roles_exact_on_core. Qed.
Print Assumptions c03_script_roles_exact_on_lemma_A_fragment.

(** every holder the extractor returns - for ANY tree - is well formed in the sense the refinement theorem needs *)
Theorem c03_extracted_holders_are_well_formed : forall fuel e k stmt ctx g, extract fuel e k stmt ctx = Ok g ->
  HIb g = true /\ RefineDefs.wf_holder (holder_of g) = true /\ CompDefs.plain_holder (holder_of g) = true.
Proof. exact extract_wf. Qed.
Print Assumptions c03_extracted_holders_are_well_formed.

(** * Scripts that mix Lemma-A-fragment statements with UPDATE / MERGE / SELECT .. INTO (Tree/ScriptRolesDml.v): the sources, targets
    and intermediates the pipeline reports are those the property's definition computes from the SPECIFIED reads and writes.  Needed
    a new invariant theorem for the MERGE extractor (extract_merge_HI: any tree). *)
From SV Require Import Ast.SpecDml Tree.RenderDml Tree.LemmaADmlDefs Tree.ScriptExactDml Tree.ScriptRolesDml.
Theorem c03_script_roles_exact_with_update_merge_select_into : forall noise e xs,
  noise_ok noise = true -> env_ok e = true ->
  Forall (fun x => match x with
                   | SS s => stmt_ok s = true /\ sshape s = true
                   | SD d => dml_ok d = true end) xs ->
  script_sources e false [] (map (r_sstmt_a noise) xs) = spec_sources_xd (e_cfg e) xs /\
  script_targets e false [] (map (r_sstmt_a noise) xs) = spec_targets_xd (e_cfg e) xs /\
  script_intermediates e false [] (map (r_sstmt_a noise) xs) = spec_intermediates_xd (e_cfg e) xs.
Proof. exact script_roles_exact_xd. Qed.
Print Assumptions c03_script_roles_exact_with_update_merge_select_into.

Theorem c03_merge_holders_are_well_formed : forall fuel e stmt g, extract_merge fuel e stmt = Ok g -> HI g.
Proof. exact extract_merge_HI. Qed.
Print Assumptions c03_merge_holders_are_well_formed.
