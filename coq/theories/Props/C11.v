(** C11 - analysis is deterministic.
    Sets of tables / columns are iterated in hash order by the implementation; in the model every such
    iteration is over a list.  Proved: the accessors' canonical (sorted) outputs do not depend on that
    order; at dataset level the whole assembled result of a script without DROP/RENAME is a function of
    the *set* of statements' reads and writes (C03), hence of no iteration order. *)
From SV Require Import Holder.Build Holder.SortProofs Holder.TableLevel Holder.TableProofs.
From Coq Require Import Permutation.

Theorem c11_sorted_accessors : forall l l', Permutation l l' -> show_names l = show_names l'.
Proof. exact show_names_canonical. Qed.
Print Assumptions c11_sorted_accessors.

Theorem c11_sorted_paths : forall ps ps', Permutation ps ps' -> show_paths ps = show_paths ps'.
Proof. exact show_paths_canonical. Qed.
Print Assumptions c11_sorted_paths.

Theorem c11_sort_canonical : forall l l', Permutation l l' -> sort_strings l = sort_strings l'.
Proof. exact sort_strings_canonical. Qed.
Print Assumptions c11_sort_canonical.

(** dataset level: the result only depends on which statements there are (membership), so neither the
    order in which read / write sets are iterated nor statement order matters *)
Theorem c11_dataset_level : forall hs hs' s s' t,
  Forall plain hs -> Forall TableProofs.wf hs -> Forall plain hs' -> Forall TableProofs.wf hs' ->
  (forall h, In h hs <-> In h hs') ->
  TableLevel.build hs = TableLevel.Ok s -> TableLevel.build hs' = TableLevel.Ok s' ->
  is_source s t = is_source s' t /\ is_target s t = is_target s' t /\
  is_intermediate s t = is_intermediate s' t /\
  (forall r w, mem_pair (r, w) (te s) = mem_pair (r, w) (te s')).
Proof. exact order_dup_invariant. Qed.
Print Assumptions c11_dataset_level.
