(** C11 - analysis is deterministic.
    Sets of tables / columns are iterated in hash order by the implementation; in the model every such
    iteration is over a list.  Proved: the accessors' canonical (sorted) outputs do not depend on that
    order; at dataset level the whole assembled result of a script without DROP/RENAME is a function of
    the *set* of statements' reads and writes (C03), hence of no iteration order. *)
From SV Require Import Holder.Build Holder.SortProofs Holder.TableLevel Holder.TableProofs.
From Coq Require Import Permutation.

Theorem c11_sorted_accessors : forall l l', Permutation l l' -> show_names l = show_names l'.
Proof. exact show_names_canonical. Qed.
Print Assumptions c11_sorted_accessors.

Theorem c11_sorted_paths : forall ps ps', Permutation ps ps' -> show_paths ps = show_paths ps'.
Proof. exact show_paths_canonical. Qed.
Print Assumptions c11_sorted_paths.

Theorem c11_sort_canonical : forall l l', Permutation l l' -> sort_strings l = sort_strings l'.
Proof. exact sort_strings_canonical. Qed.
Print Assumptions c11_sort_canonical.

(** dataset level: the result only depends on which statements there are (membership), so neither the
    order in which read / write sets are iterated nor statement order matters *)
Theorem c11_dataset_level : forall hs hs' s s' t,
  Forall plain hs -> Forall TableProofs.wf hs -> Forall plain hs' -> Forall TableProofs.wf hs' ->
  (forall h, In h hs <-> In h hs') ->
  TableLevel.build hs = TableLevel.Ok s -> TableLevel.build hs' = TableLevel.Ok s' ->
  is_source s t = is_source s' t /\ is_target s t = is_target s' t /\
  is_intermediate s t = is_intermediate s' t /\
  (forall r w, mem_pair (r, w) (te s) = mem_pair (r, w) (te s')).
Proof. exact order_dup_invariant. Qed.
Print Assumptions c11_dataset_level.

(** * Order-independence of the FULL graph model (Holder/OrderFree.v, corollaries of the composition theorem and of the
    refinement theorem).  "Every iteration order of a hash-ordered set" is, in the model, every insertion order of the same
    nodes and edges and every order / repetition of the statements. *)
From SV Require Import Holder.CompDefs Holder.Refinement Holder.Composition Holder.OrderFree.

(** the printed end-to-end column pairs do not depend on the order or repetition of the statements ... *)
Theorem c11_column_pairs_statement_order_free : forall p hs hs',
  c04_hyps hs = true -> (forall h, In h hs <-> In h hs') -> pairs_of p hs = pairs_of p hs'.
Proof. exact pairs_of_statement_order_free. Qed.
Print Assumptions c11_column_pairs_statement_order_free.

(** ... nor on the order in which the nodes and edges of the statement graphs were inserted *)
Theorem c11_column_pairs_insertion_order_free : forall p hs hs',
  Forall2 holder_equiv_lit hs hs' -> c04_hyps hs = true -> pairs_of p hs = pairs_of p hs'.
Proof. exact pairs_of_insertion_order_free. Qed.
Print Assumptions c11_column_pairs_insertion_order_free.

Theorem c11_permuted_graphs_are_equivalent : forall h h', Permutation (gnodes (hg h)) (gnodes (hg h')) ->
  Permutation (gedges (hg h)) (gedges (hg h')) -> Permutation (h_renames h) (h_renames h') -> holder_equiv_lit h h'.
Proof. exact permuted_equiv_lit. Qed.
Print Assumptions c11_permuted_graphs_are_equivalent.

(** table roles of the full model: the same statements in any order, with any repetition, print the same role lists *)
Theorem c11_roles_full_model_order_free : forall p hs hs',
  all_wf hs -> all_plain hs -> (forall h, In h hs <-> In h hs') ->
  exists g g', build p hs = BOk g /\ build p hs' = BOk g' /\ printed_roles g = printed_roles g'.
Proof. exact roles_full_model_statement_order_free. Qed.
Print Assumptions c11_roles_full_model_order_free.

(** the hypotheses are needed: with Python-equal column objects that differ in their candidate parents the stored object
    depends on insertion order (and so does the print-out), and a chained RENAME depends on the order of its pairs *)
Theorem c11_resolved_hypothesis_needed :
  holder_equiv (h_res x_none x_ab) (h_res x_ab x_none) /\
  resolved_holder (h_res x_none x_ab) = true /\ resolved_holder (h_res x_ab x_none) = false.
Proof. exact resolved_not_invariant. Qed.
Print Assumptions c11_resolved_hypothesis_needed.
