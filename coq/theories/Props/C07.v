(** C07 - lineage is invariant under layout, comments and letter case.
    Proved: (a) the identifier laws - unquoted identifiers are case-insensitive, quoting an
    already lower-case identifier changes nothing; (b) separators - blanks, comments and extra
    semicolons between statements do not change the statement list; (c) the navigation layer of the
    extractors commutes with erasing whitespace / comment / meta segments, on well-formed trees.
    Not proved: invariance of the whole extractor (it reads the raw text of sub-queries and of
    un-aliased expressions; only the latter is exempted by the property) - decided by correspondence
    (tie T2) plus the metamorphic comparison on the implementation on every run. *)
From SV Require Import Ident.Escape Ident.EscapeProofs Split.Tokens Split.Proofs Tree.Utils Tree.TriviaProofs.

Theorem c07_identifier_case : forall s s',
  plain s -> plain s' -> same_modulo_case s s' -> escape s = escape s'.
Proof. exact escape_case_insensitive. Qed.
Print Assumptions c07_identifier_case.

(** quoting an identifier that is already lower-case (and has no quote characters) changes nothing *)
Theorem c07_quote_lower : forall s,
  clean s -> bracketed s = false -> no_upper s = true ->
  escape (String """"%char (s ++ """")) = escape s /\ escape (String "`"%char (s ++ "`")) = escape s.
Proof.
  intros s Hc Hb Hu. rewrite escape_double_quoted, escape_backticked by exact Hc.
  assert (E : escape s = s).
  { apply escape_stable. unfold stable. unfold clean in Hc. rewrite Hc, Hb, Hu. reflexivity. }
  rewrite E. split; reflexivity.
Qed.
Print Assumptions c07_quote_lower.

Theorem c07_separators : forall lead items,
  forallb Tokens.is_trivia lead = true -> items_ok items ->
  map code_of (Tokens.split (lead ++ assemble items)) = map (fun p => code_of (fst p)) items.
Proof. exact split_assemble. Qed.
Print Assumptions c07_separators.

(** navigation commutes with erasing trivia *)
Theorem c07_children_of_type : forall s ts,
  (forall c, In c (children s) -> TriviaProofs.is_trivia c = true -> is_type c ts = false) ->
  get_children (strip s) ts = map strip (get_children s ts).
Proof. exact get_children_strip_in. Qed.
Print Assumptions c07_children_of_type.

Theorem c07_crawl : forall ts b s,
  wf s -> not_trivia_types_in s ts -> crawl ts b (strip s) = map strip (crawl ts b s).
Proof. exact crawl_strip_wf. Qed.
Print Assumptions c07_crawl.

Theorem c07_list_child_segments : forall s b,
  wf s -> trivia_types_ok s -> list_child_segments (strip s) b = map strip (list_child_segments s b).
Proof. exact list_child_segments_strip_wf. Qed.
Print Assumptions c07_list_child_segments.

Theorem c07_negligible : forall s, wf s -> is_negligible (strip s) = is_negligible s.
Proof. exact is_negligible_strip. Qed.
Print Assumptions c07_negligible.

Theorem c07_strip_idem : forall s, strip (strip s) = strip s.
Proof. exact strip_idem. Qed.
Print Assumptions c07_strip_idem.

(** (d) whole-extractor layout invariance at table level on the core fragment (corollary of Lemma A,
    Tree/LemmaAProofs.v): whatever trivia (whitespace, newlines, comments, meta segments) is put at any of the
    gaps of a statement of the fragment, the tables read and written are the same. *)
From SV Require Import Tree.Render Tree.LemmaA Tree.LemmaAProofs.

Theorem c07_tables_layout_invariant_on_core : forall n1 n2 e s,
  noise_ok n1 = true -> noise_ok n2 = true -> env_ok e = true -> stmt_ok s = true -> sshape s = true ->
  stmt_reads (analyze e false (r_stmt n1 s)) = stmt_reads (analyze e false (r_stmt n2 s)) /\
  stmt_writes (analyze e false (r_stmt n1 s)) = stmt_writes (analyze e false (r_stmt n2 s)).
Proof.
  intros n1 n2 e s H1 H2 He Hs Hq.
  destruct (lemma_A_tables_restricted n1 e s H1 He Hs Hq) as [R1 W1].
  destruct (lemma_A_tables_restricted n2 e s H2 He Hs Hq) as [R2 W2].
  split; congruence.
Qed.
Print Assumptions c07_tables_layout_invariant_on_core.

(** (e) whole-pipeline layout invariance at COLUMN level on the single-SELECT fragment (corollary of Lemma B,
    Tree/LemmaBCorollaries.v): the end-to-end column pairs of INSERT / CTAS / VIEW over one SELECT from base tables do not
    depend on the trivia between tokens. *)
From SV Require Import Tree.LemmaB Tree.LemmaBProofs Tree.LemmaBCorollaries.

Theorem c07_columns_layout_invariant_on_single_select : forall n1 n2 e s,
  noise_ok n1 = true -> noise_ok n2 = true -> env_ok e = true ->
  stmt_ok s = true -> sshape s = true -> colshape s = true -> sel_tables_syntactic s = true ->
  script_pairs e false [] [r_stmt n1 s] = script_pairs e false [] [r_stmt n2 s].
Proof. exact cols_layout_invariant_on_single_select. Qed.
Print Assumptions c07_columns_layout_invariant_on_single_select.

(** (f) SPELLING (Tree/RenderSpell.v, Tree/LemmaASpell.v, 3 600 lines): the renderer is parameterised by a spelling [sp] of every
    identifier leaf and a spelling [kwf] of every keyword leaf.  A spelling is admissible when it normalises back
    ([escape (sp x) = x], no dot inside) - the identity, ANY function that changes only letter case, wrapping in double quotes,
    backticks or brackets are proved admissible; a keyword spelling is admissible iff it changes only letter case.  Then the
    whole extractor reports the specified tables for every admissible spelling (Lemma A under spelling), hence the same tables
    for any two spellings and trivia lists; and on the single-SELECT fragment the whole pipeline reports the specified COLUMN
    pairs (the statement holders are even equal).  This is the case / quoting clause of C07 (and C16's "one entity however
    spelled") for the whole extractor.  Modelling limit: a quoted identifier keeps the leaf type naked_identifier of
    Tree/Render.v where the parser says quoted_identifier (no function of the model mentions either type); the parser's own
    trees of re-spelled text are covered by the tie and the metamorphic suite. *)
From SV Require Import Tree.RenderSpell Tree.LemmaASpell.

Theorem c07_tables_spelling_invariant_on_core : forall sp1 kw1 noise1 sp2 kw2 noise2 e s,
  sp_ok sp1 -> kw_ok kw1 -> noise_ok noise1 = true ->
  sp_ok sp2 -> kw_ok kw2 -> noise_ok noise2 = true ->
  env_ok e = true -> stmt_ok s = true -> sshape s = true ->
  stmt_reads (analyze e false (r_stmt_sp sp1 kw1 noise1 s)) = stmt_reads (analyze e false (r_stmt_sp sp2 kw2 noise2 s)) /\
  stmt_writes (analyze e false (r_stmt_sp sp1 kw1 noise1 s)) = stmt_writes (analyze e false (r_stmt_sp sp2 kw2 noise2 s)).
Proof. exact spelling_invariance. Qed.
Print Assumptions c07_tables_spelling_invariant_on_core.

Theorem c07_exact_under_any_spelling : forall sp kwf noise e s,
  sp_ok sp -> kw_ok kwf -> noise_ok noise = true -> env_ok e = true -> stmt_ok s = true -> sshape s = true ->
  stmt_reads (analyze e false (r_stmt_sp sp kwf noise s)) = sort_strings (spec_reads (e_cfg e) s) /\
  stmt_writes (analyze e false (r_stmt_sp sp kwf noise s)) = sort_strings (spec_writes (e_cfg e) s).
Proof. exact lemma_A_spelling. Qed.
Print Assumptions c07_exact_under_any_spelling.

Theorem c07_columns_exact_under_any_spelling_on_single_select : forall sp kwf noise e s,
  sp_ok sp -> kw_ok kwf -> noise_ok noise = true -> env_ok e = true ->
  stmt_ok s = true -> sshape s = true -> colshape s = true -> single_select_fragment s = true ->
  script_pairs e false [] [r_stmt_sp sp kwf noise s] = spec_pairs (e_cfg e) s.
Proof. exact lemma_B_spelling_single_select. Qed.
Print Assumptions c07_columns_exact_under_any_spelling_on_single_select.

Theorem c07_case_changes_and_quoting_are_admissible :
  (forall f, case_only f -> sp_ok f) /\ sp_ok sp_dq /\ sp_ok sp_bt /\ sp_ok sp_br /\ (forall f, kw_ok f <-> case_only f).
Proof. split; [exact sp_ok_case_only|]. split; [exact sp_ok_dq|]. split; [exact sp_ok_bt|]. split; [exact sp_ok_br|exact kw_ok_iff]. Qed.
Print Assumptions c07_case_changes_and_quoting_are_admissible.
