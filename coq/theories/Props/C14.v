(** C14 - a default schema equals explicit qualification (refutation witness). *)
From SV Require Import Tree.Observe Ident.Escape Props.Witness.

(** Regression witness for fix F5: before it, a qualifier that names no relation in scope became Table(qualifier)
    whose schema was the default argument evaluated at import time ([e_icfg]), not the default schema in force
    ([e_cfg]); the model keeps the two apart so that the old behaviour stays expressible. *)
Theorem c14_refuted_dangling_qualifier :
  script_pairs (mk_env "ansi" "ods" "" {| p_truthy := false; p_cols := [] |} []) false [] [w_dangling_qualifier]
  = ["<default>.zz.a>ods.x.a"].
Proof. vm_compute. reflexivity. Qed.
Print Assumptions c14_refuted_dangling_qualifier.

(** the placeholder is used when no default schema is set; a set default is used for unqualified names only *)
Theorem c14_schema_of : forall cfg n,
  schema_of cfg (Some n) = (if negb (String.eqb n "") then escape n
                            else if negb (String.eqb cfg "") then escape cfg else escape placeholder) /\
  schema_of "" None = "<default>".
Proof. intros. split; reflexivity. Qed.
Print Assumptions c14_schema_of.

(** after the fix both coincide and the dangling qualifier gets the schema in force *)
Theorem c14_dangling_qualifier_fixed :
  script_pairs (mk_env "ansi" "ods" "ods" {| p_truthy := false; p_cols := [] |} []) false [] [w_dangling_qualifier]
  = ["ods.zz.a>ods.x.a"].
Proof. vm_compute. reflexivity. Qed.
Print Assumptions c14_dangling_qualifier_fixed.

(** Table level, on the specification: analysing with default schema [ds] is analysing the explicitly qualified
    statement ([qual_stmt]: every unqualified table name that is not a CTE reference is written ds.name). *)
From SV Require Import Ast.Qualify Tree.Render Tree.LemmaA Tree.LemmaAProofs.

Theorem c14_spec_default_is_qualification : forall ds s, ds <> "" ->
  spec_reads "" (qual_stmt ds s) = spec_reads ds s /\ spec_writes "" (qual_stmt ds s) = spec_writes ds s.
Proof. exact spec_default_is_qualification. Qed.
Print Assumptions c14_spec_default_is_qualification.

(** ... and, with Lemma A, on the tree model itself for the core fragment: the walker under default schema [ds] reports
    for [s] what the walker without a default reports for the qualified statement, whatever the trivia. *)
Theorem c14_default_is_qualification_on_core : forall n1 n2 e e0 s,
  noise_ok n1 = true -> noise_ok n2 = true -> env_ok e = true -> env_ok e0 = true ->
  e_cfg e <> "" -> e_cfg e0 = "" ->
  stmt_ok s = true -> sshape s = true ->
  stmt_ok (qual_stmt (e_cfg e) s) = true -> sshape (qual_stmt (e_cfg e) s) = true ->
  stmt_reads (analyze e false (r_stmt n1 s)) = stmt_reads (analyze e0 false (r_stmt n2 (qual_stmt (e_cfg e) s))) /\
  stmt_writes (analyze e false (r_stmt n1 s)) = stmt_writes (analyze e0 false (r_stmt n2 (qual_stmt (e_cfg e) s))).
Proof.
  intros n1 n2 e e0 s H1 H2 He He0 Hds H0 Hs Hq Hs' Hq'.
  destruct (lemma_A_tables_restricted n1 e s H1 He Hs Hq) as [R1 W1].
  destruct (lemma_A_tables_restricted n2 e0 _ H2 He0 Hs' Hq') as [R2 W2].
  destruct (spec_default_is_qualification (e_cfg e) s Hds) as [SR SW].
  rewrite R1, R2, W1, W2, H0, SR, SW. split; reflexivity.
Qed.
Print Assumptions c14_default_is_qualification_on_core.

Example c14_on_core_nonvacuous :
  let s := SInsert (None, "o") None (QSelect [IStar None] [RTable (None, "a") None; RDerived (QSelect [IStar None] [RTable (Some "x", "b") (Some "p")] false None) "d"] false None) in
  let e := mk_env "ansi" "dw" "dw" {| p_truthy := false; p_cols := [] |} [] in
  env_ok e && stmt_ok s && sshape s && stmt_ok (qual_stmt "dw" s) && sshape (qual_stmt "dw" s) = true
  /\ stmt_reads (analyze e false (r_stmt [] s)) = ["dw.a"; "x.b"].
Proof. split; vm_compute; reflexivity. Qed.

(** Column level.  On the specification, for ALL statements (Ast/QualifyCols.v): the column flows of the explicitly
    qualified statement - under ANY default - are the flows of the statement under the default [ds]. *)
From SV Require Import Ast.QualifyCols Tree.LemmaB Tree.LemmaBProofs Tree.LemmaBCorollaries.

Theorem c14_spec_flows_default_is_qualification : forall ds0 ds s, ds <> "" ->
  spec_flows ds0 (qual_stmt ds s) = spec_flows ds s.
Proof. exact spec_flows_qualified_any_default. Qed.
Print Assumptions c14_spec_flows_default_is_qualification.

(** ... and on the tree model (whole pipeline, end-to-end column pairs) for the single-SELECT fragment of Lemma B; the
    guards are needed on [s] only (they are preserved by qualification) *)
Theorem c14_columns_default_is_qualification_on_single_select : forall n1 n2 e e0 s,
  noise_ok n1 = true -> noise_ok n2 = true -> env_ok e = true -> env_ok e0 = true -> e_cfg e <> "" ->
  stmt_ok s = true -> sshape s = true -> colshape s = true -> sel_tables_syntactic s = true ->
  script_pairs e false [] [r_stmt n1 s] = script_pairs e0 false [] [r_stmt n2 (qual_stmt (e_cfg e) s)].
Proof. exact cols_default_is_qualification_on_single_select_strong. Qed.
Print Assumptions c14_columns_default_is_qualification_on_single_select.

(** * the fragments added in round 6 (Tree/QualifyNew.v): UPDATE / MERGE / SELECT .. INTO and statements with expression items.
    As in c14_default_is_qualification_on_core the guards of the qualified statement are hypotheses (their preservation by
    qualification is proved only for the single-SELECT fragment); the non-vacuity example of the file satisfies them. *)
From SV Require Import Ast.SpecDml Tree.RenderDml Tree.LemmaADmlDefs Tree.LemmaAMeta Tree.LemmaADmlMeta Tree.RenderExpr Tree.LemmaAExpr Tree.QualifyNew.
Theorem c14_spec_default_is_qualification_update_merge : forall ds d, ds <> "" ->
  dml_reads "" (qualify_dml ds d) = dml_reads ds d /\ dml_writes "" (qualify_dml ds d) = dml_writes ds d.
Proof. exact dml_default_is_qualification. Qed.
Print Assumptions c14_spec_default_is_qualification_update_merge.

Theorem c14_default_is_qualification_update_merge : forall n1 n2 e e0 d,
  noise_ok n1 = true -> noise_ok n2 = true -> env_ok_md e = true -> env_ok_md e0 = true ->
  e_cfg e <> "" -> e_cfg e0 = "" ->
  dml_ok d = true -> dml_ok (qualify_dml (e_cfg e) d) = true ->
  stmt_reads (analyze e false (r_dml n1 d)) = stmt_reads (analyze e0 false (r_dml n2 (qualify_dml (e_cfg e) d))) /\
  stmt_writes (analyze e false (r_dml n1 d)) = stmt_writes (analyze e0 false (r_dml n2 (qualify_dml (e_cfg e) d))).
Proof. exact dml_default_is_qualification_on_model. Qed.
Print Assumptions c14_default_is_qualification_update_merge.

Theorem c14_default_is_qualification_with_expressions : forall n1 n2 e e0 s,
  noise_ok n1 = true -> noise_ok n2 = true -> env_ok e = true -> env_ok e0 = true ->
  e_cfg e <> "" -> e_cfg e0 = "" ->
  stmt_ok_a s = true -> LemmaAProofs.sshape s = true ->
  stmt_ok_a (qual_stmt (e_cfg e) s) = true -> LemmaAProofs.sshape (qual_stmt (e_cfg e) s) = true ->
  stmt_reads (analyze e false (r_stmt_x n1 s)) = stmt_reads (analyze e0 false (r_stmt_x n2 (qual_stmt (e_cfg e) s))) /\
  stmt_writes (analyze e false (r_stmt_x n1 s)) = stmt_writes (analyze e0 false (r_stmt_x n2 (qual_stmt (e_cfg e) s))).
Proof. exact default_is_qualification_x. Qed.
Print Assumptions c14_default_is_qualification_with_expressions.
