(** C14 - a default schema equals explicit qualification (refutation witness). *)
From SV Require Import Tree.Observe Ident.Escape Props.Witness.

(** Regression witness for fix F5: before it, a qualifier that names no relation in scope became Table(qualifier)
    whose schema was the default argument evaluated at import time ([e_icfg]), not the default schema in force
    ([e_cfg]); the model keeps the two apart so that the old behaviour stays expressible. *)
Theorem c14_refuted_dangling_qualifier :
  script_pairs (mk_env "ansi" "ods" "" {| p_truthy := false; p_cols := [] |} []) false [] [w_dangling_qualifier]
  = ["<default>.zz.a>ods.x.a"].
Proof. vm_compute. reflexivity. Qed.
Print Assumptions c14_refuted_dangling_qualifier.

(** the placeholder is used when no default schema is set; a set default is used for unqualified names only *)
Theorem c14_schema_of : forall cfg n,
  schema_of cfg (Some n) = (if negb (String.eqb n "") then escape n
                            else if negb (String.eqb cfg "") then escape cfg else escape placeholder) /\
  schema_of "" None = "<default>".
Proof. intros. split; reflexivity. Qed.
Print Assumptions c14_schema_of.

(** after the fix both coincide and the dangling qualifier gets the schema in force *)
Theorem c14_dangling_qualifier_fixed :
  script_pairs (mk_env "ansi" "ods" "ods" {| p_truthy := false; p_cols := [] |} []) false [] [w_dangling_qualifier]
  = ["ods.zz.a>ods.x.a"].
Proof. vm_compute. reflexivity. Qed.
Print Assumptions c14_dangling_qualifier_fixed.
