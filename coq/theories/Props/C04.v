(** C04 - column lineage chains across statements. *)
From SV Require Import Holder.Build Holder.PathProofs Provider.Session Provider.SessionProofs.

(** the reported paths are exactly the simple paths of the combined graph: sound ... *)
Theorem c04_paths_sound : forall g s t p,
  In p (all_simple_paths g s t) ->
  exists r, p = s :: r /\ chain g p /\ simple p /\ node_eqb (last p s) t = true.
Proof. exact all_simple_paths_sound. Qed.
Print Assumptions c04_paths_sound.

(** ... and complete (every duplicate-free chain of stored successors that first reaches the target at
    its end, within the fuel, is enumerated; all_simple_paths uses fuel = number of nodes) *)
Theorem c04_paths_complete : forall g p fuel visited cur tgt,
  p <> [] -> List.length p <= fuel ->
  schain g (cur :: p) -> simple p ->
  (forall x, In x p -> memn x visited = false) ->
  node_eqb (last p cur) tgt = true ->
  (forall x, In x (removelast p) -> node_eqb x tgt = false) ->
  In p (paths_from g fuel visited cur tgt).
Proof. exact paths_from_complete. Qed.
Print Assumptions c04_paths_complete.

(** what later statements of the same script know about a table written earlier: the columns of the
    last statement that wrote it with at least one column, else the base metadata *)
Theorem c04_session : forall payload p a t',
  view (after_stmt payload p a) t' =
  match a_write payload a, a_cols payload a with
  | Some t, _ :: _ => if String.eqb t' t then a_cols payload a else view p t'
  | _, _ => view p t'
  end.
Proof. exact after_stmt_view. Qed.
Print Assumptions c04_session.

(** * Relational composition (the statement of C04 itself), proved about the full graph model (Holder/Composition.v).
    For every provider and every list of statement holders without DROP/RENAME whose columns are resolved at statement
    level and whose graphs are closed ([c04_hyps], executable): the script-level graph exists, its column->column edges are
    exactly the union of the statements' edges, and a pair (s, t) is reported exactly when s is fed by no statement, t is
    consumed by no statement (and owned by a table when sub-query ends are excluded), and t is reachable from s by a
    non-empty composition of per-statement dataflows - in any order, with repetition: columns that are not consumed
    downstream end at the intermediate table.  No acyclicity hypothesis (columns on a cycle are never roots or leaves:
    K-C04-2 is what the theorem says about cycles).  Each hypothesis is justified by a counterexample in
    Holder/CompDefs.v; unresolved columns that get resolved at script level are outside (union false by nature: K-C04-1). *)
From SV Require Import Holder.CompDefs Holder.Composition.

Theorem c04_pairs_are_the_composition : forall p hs, c04_hyps hs = true ->
  exists g, build p hs = BOk g /\
    (forall a b, col_edge g a b = true <-> exists h, In h hs /\ col_edge (hg h) a b = true) /\
    forall b s t,
      reports g b s t <->
      ~ fed hs s /\ ~ consumed hs t /\ (b = true -> parent_is KTable t = true) /\ composed hs s t.
Proof. exact c04_main. Qed.
Print Assumptions c04_pairs_are_the_composition.

(** * The property itself, end to end, on the tree model (Tree/ScriptExact.v): Lemma B composed with the composition theorem.
    For every SCRIPT (any number of statements, any order, cycles allowed) of statements of the Lemma-B fragment with
    resolved column references, analysed without metadata, with any trivia between tokens: the whole pipeline of the model
    - extractors on the rendered trees, statement loop with session registration, assembly, path enumeration - reports
    exactly the pairs (a, b) where b is reachable from a through one or more of the statements' specified column flows
    ([spec_flows], Ast/Spec.v), a is written by no statement's flow and b is read by none.  Corollaries: the two-statement
    chain of the property text, the dead end at the intermediate table, statement order is irrelevant, and a script whose
    every source column is also a target reports nothing (K-C04-2 is what the composition says about cycles).
    [resolved_only] is needed: [Tree.ScriptExact.Examples.unq_single_needed] (K-C04-1). *)
From SV Require Import Tree.Render Tree.LemmaA Tree.LemmaAProofs Tree.LemmaB Tree.LemmaBProofs Tree.ScriptExact.
From Coq Require Import Permutation.

Theorem c04_script_exact_on_core : forall noise e ss,
  noise_ok noise = true -> env_ok e = true ->
  Forall (fun s => stmt_ok s = true /\ sshape s = true /\ colshape s = true /\ sel_tables_syntactic s = true /\ resolved_only s = true) ss ->
  script_pairs e false [] (map (r_stmt noise) ss) = spec_script_pairs (e_cfg e) ss.
Proof. exact script_exact_on_core. Qed.
Print Assumptions c04_script_exact_on_core.

Theorem c04_script_pair_iff : forall noise e ss x,
  noise_ok noise = true -> env_ok e = true -> Forall core_stmt ss ->
  let E := script_edges (e_cfg e) ss in
  In x (script_pairs e false [] (map (r_stmt noise) ss)) <->
  exists a b, ~ In a (map snd E) /\ ~ In b (map fst E) /\ tcv E a b /\ x = (show_vtx a ++ ">" ++ show_vtx b)%string.
Proof. exact script_pair_iff. Qed.
Print Assumptions c04_script_pair_iff.

Theorem c04_chain_of_two_statements : forall noise e s1 s2 a b c,
  noise_ok noise = true -> env_ok e = true -> core_stmt s1 -> core_stmt s2 ->
  let E := script_edges (e_cfg e) [s1; s2] in
  In (a, b) (stmt_edges (e_cfg e) s1) -> In (b, c) (stmt_edges (e_cfg e) s2) ->
  ~ In a (map snd E) -> ~ In c (map fst E) ->
  In (show_vtx a ++ ">" ++ show_vtx c)%string (script_pairs e false [] [r_stmt noise s1; r_stmt noise s2]).
Proof. exact chain_two. Qed.
Print Assumptions c04_chain_of_two_statements.

Theorem c04_dead_end_at_intermediate_table : forall noise e s1 s2 a b,
  noise_ok noise = true -> env_ok e = true -> core_stmt s1 -> core_stmt s2 ->
  let E := script_edges (e_cfg e) [s1; s2] in
  In (a, b) (stmt_edges (e_cfg e) s1) -> ~ In a (map snd E) -> ~ In b (map fst E) ->
  In (show_vtx a ++ ">" ++ show_vtx b)%string (script_pairs e false [] [r_stmt noise s1; r_stmt noise s2]).
Proof. exact dead_end_two. Qed.
Print Assumptions c04_dead_end_at_intermediate_table.

(** ... extended to scripts that also contain UNION statements (Tree/ScriptExactUnion.v): the holder of a UNION of two plain
    SELECTs satisfies the hypotheses of the composition theorem and its column edges are the specified flows *)
From SV Require Import Tree.LemmaB5b Tree.LemmaB5b2 Tree.ScriptExactUnion.

Theorem c04_script_exact_on_core_with_unions : forall noise e ss,
  noise_ok noise = true -> env_ok e = true -> Forall core_stmt_u ss ->
  script_pairs e false [] (map (r_stmt noise) ss) = spec_script_pairs (e_cfg e) ss.
Proof. exact script_exact_on_core_union. Qed.
Print Assumptions c04_script_exact_on_core_with_unions.

(** ... and to scripts that also contain plain SELECTs and statements that move no data (Tree/ScriptExactExt.v) *)
From SV Require Import Tree.ScriptExactExt.
Theorem c04_script_exact_on_core_ext : forall noise e ss,
  noise_ok noise = true -> env_ok e = true -> Forall core_stmt_ext ss ->
  script_pairs e false [] (map (r_stmt noise) ss) = spec_script_pairs (e_cfg e) ss.
Proof. exact script_exact_on_core_ext. Qed.
Print Assumptions c04_script_exact_on_core_ext.

(** ... to scripts containing statements with WHERE c IN (sub-query) (Tree/ScriptExactWhere.v).  Here the unguarded statement is
    FALSE, and the counterexample is the recorded defect K-C04-3 seen at script level: a column that an earlier statement writes
    and that is only consumed inside a sub-query (a dead end there) stops being a leaf, so the pair ending at it is hidden:
    [insert into u select b from v; insert into x select a from t where a in (select b from u)] reports t.a>x.a only.  The
    executable guard [dead_ends_okb] (every sub-query source column that some flow of the script writes is also read by a
    flow of the script) is the weakest simple condition under which the theorem holds. *)
From SV Require Import Tree.ScriptExactWhere.

Theorem c04_script_exact_on_core_with_where_in : forall noise e ss,
  noise_ok noise = true -> env_ok e = true -> Forall core_stmt_w ss -> dead_ends_okb (e_cfg e) ss = true ->
  script_pairs e false [] (map (r_stmt noise) ss) = spec_script_pairs (e_cfg e) ss.
Proof. exact script_exact_on_core_wherein. Qed.
Print Assumptions c04_script_exact_on_core_with_where_in.

Theorem c04_dead_end_in_sub_query_hides_pair_refuted :
  ~ (forall noise e ss, noise_ok noise = true -> env_ok e = true -> Forall core_stmt_w ss ->
       script_pairs e false [] (map (r_stmt noise) ss) = spec_script_pairs (e_cfg e) ss).
Proof. exact script_exact_on_core_wherein_unguarded_refuted. Qed.
Print Assumptions c04_dead_end_in_sub_query_hides_pair_refuted.

(** * The session clause (Tree/LemmaC04Session.v): what a later statement knows about a table created earlier in the script.
    CREATE TABLE t AS SELECT items FROM .. ; INSERT INTO x SELECT * FROM t  under a provider with ANY catalog [base] (it may know
    nothing about t, or hold an OLD definition of t - the script's definition wins; it may know the sources): the star expands
    to exactly the columns the first statement gave t, and the script reports the composed pairs.  Any trivia, any plain items,
    any FROM of distinct tables with resolved references. *)
From SV Require Import Tree.LemmaAMeta Tree.LemmaBMeta Tree.LemmaC04Session Ast.SpecMeta.

Theorem c04_created_table_is_known_to_later_star : forall noise e base t items from cj x cj',
  let s1 := SCtas t (QSelect items from cj None) in
  let s2 := SInsert x None (QSelect [IStar None] [RTable t None] cj' None) in
  noise_ok noise = true -> env_ok_md e = true -> p_truthy (e_provider e) = true ->
  stmt_ok s1 = true -> sshape s1 = true -> colshape s1 = true -> sel_tables_syntactic s1 = true -> unq_single s1 = true ->
  items_plain_b items = true -> items <> [] ->
  stmt_ok s2 = true -> sshape s2 = true -> colshape s2 = true ->
  is_known base (tref_str (e_cfg e) x) = false ->
  script_pairs e false base [r_stmt noise s1; r_stmt noise s2] =
  uniq_sorted (sort_strings (pairs_of (stmt_edges (e_cfg e) s1 ++
     map (fun nm => ((tref_str (e_cfg e) t, nm), (tref_str (e_cfg e) x, nm))) (map item_name items)))).
Proof. exact c04_created_table_known_to_later_star. Qed.
Print Assumptions c04_created_table_is_known_to_later_star.

(** * Scripts whose statements have EXPRESSION items (Tree/ScriptExactExpr.v: lemma_Bx composed with the composition theorem):
    any number of INSERT [cols] / CTAS / VIEW statements over one SELECT with star / column / aliased expression items of any
    depth (resolved references), any order, cycles allowed, any trivia: the pipeline reports exactly spec_script_pairs. *)
From SV Require Import Tree.RenderExpr Tree.LemmaBExpr Tree.ScriptExactExpr.
Theorem c04_script_exact_on_core_with_expressions : forall noise e ss,
  noise_ok noise = true -> env_ok e = true ->
  Forall (fun s => (stmt_ok_x s = true /\ colshape s = true /\ resolved_x s = true) \/ is_nodata s = true) ss ->
  script_pairs e false [] (map (r_stmt_x noise) ss) = spec_script_pairs (e_cfg e) ss.
Proof. exact script_exact_on_core_x. Qed.
Print Assumptions c04_script_exact_on_core_with_expressions.

(** * Scripts that also contain UPDATE / MERGE statements and plain SELECTs with expression items (Tree/ScriptExactDml.v) *)
From SV Require Import Ast.SpecDml Ast.SpecDmlCols Tree.RenderDml Tree.LemmaBDml Tree.ScriptExactDml.
Theorem c04_script_exact_with_update_and_merge : forall noise e xs,
  noise_ok noise = true -> env_ok e = true ->
  Forall (fun x => match x with
     | SS s => ((stmt_ok_x s = true /\ colshape s = true /\ resolved_x s = true) \/ is_nodata s = true) \/ plain_query_x s = true
     | SD d => dml_cols_ok d = true /\ dml_resolved d = true end) xs ->
  script_pairs e false [] (map (r_sstmt noise) xs) = spec_script_pairs_xd (e_cfg e) xs.
Proof. exact script_exact_on_core_xd. Qed.
Print Assumptions c04_script_exact_with_update_and_merge.
