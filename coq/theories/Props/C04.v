(** C04 - column lineage chains across statements. *)
From SV Require Import Holder.Build Holder.PathProofs Provider.Session Provider.SessionProofs.

(** the reported paths are exactly the simple paths of the combined graph: sound ... *)
Theorem c04_paths_sound : forall g s t p,
  In p (all_simple_paths g s t) ->
  exists r, p = s :: r /\ chain g p /\ simple p /\ node_eqb (last p s) t = true.
Proof. exact all_simple_paths_sound. Qed.
Print Assumptions c04_paths_sound.

(** ... and complete (every duplicate-free chain of stored successors that first reaches the target at
    its end, within the fuel, is enumerated; all_simple_paths uses fuel = number of nodes) *)
Theorem c04_paths_complete : forall g p fuel visited cur tgt,
  p <> [] -> List.length p <= fuel ->
  schain g (cur :: p) -> simple p ->
  (forall x, In x p -> memn x visited = false) ->
  node_eqb (last p cur) tgt = true ->
  (forall x, In x (removelast p) -> node_eqb x tgt = false) ->
  In p (paths_from g fuel visited cur tgt).
Proof. exact paths_from_complete. Qed.
Print Assumptions c04_paths_complete.

(** what later statements of the same script know about a table written earlier: the columns of the
    last statement that wrote it with at least one column, else the base metadata *)
Theorem c04_session : forall payload p a t',
  view (after_stmt payload p a) t' =
  match a_write payload a, a_cols payload a with
  | Some t, _ :: _ => if String.eqb t' t then a_cols payload a else view p t'
  | _, _ => view p t'
  end.
Proof. exact after_stmt_view. Qed.
Print Assumptions c04_session.
