(** C15 - configuration overrides are scoped and thread-local.
    Only statements; every proof is [exact <lemma of Config/Proofs.v>]. *)
From SV Require Import Config.Model Config.Model0 Config.Proofs.

(** Non-interference, every interleaving, every operation history. *)
Theorem c15_local : forall s h t,
  view t (fst (run s h)) = view t (fst (run s (filter (is_of t) h))) /\
  outs_of t (snd (run s h)) = outs_of t (snd (run s (filter (is_of t) h))).
Proof. exact run_local. Qed.
Print Assumptions c15_local.

(** A rejected operation (unknown key, nested scope, assignment) changes nothing. *)
Theorem c15_reject : forall s o e, snd (step s o) = ORaise e -> fst (step s o) = s.
Proof. exact step_reject. Qed.
Print Assumptions c15_reject.

Theorem c15_assign_refused : forall s t k, step s (Assign t k) = (s, ORaise ConfigExc).
Proof. exact assign_refused. Qed.
Print Assumptions c15_assign_refused.

(** Scope semantics of one thread, including exceptional exits and identifier reuse
    (the thread ends [clean], so a later thread with the same identifier starts clean). *)
Theorem c15_scope : forall t p s,
  clean t s ->
  map snd (snd (exec_top t p s)) = spec_top s p /\
  clean t (fst (exec_top t p s)) /\
  same_base (fst (exec_top t p s)) s /\
  (forall t', t' <> t -> sees_same t' (fst (exec_top t p s)) s).
Proof. exact scope_spec. Qed.
Print Assumptions c15_scope.

(** ... and under every interleaving with arbitrary operations of other threads. *)
Theorem c15_interleaving : forall s h t p,
  clean t s ->
  filter (is_of t) h = map fst (snd (exec_top t p s)) ->
  outs_of t (snd (run s h)) = spec_top s p /\ view t (fst (run s h)) = view t s.
Proof. exact interleaving_spec. Qed.
Print Assumptions c15_interleaving.

(** Values are coerced to the key's type. *)
Theorem c15_coerce_type : forall k r,
  match coerce k r with VBool _ => is_bool_key k = true | VStr _ => is_bool_key k = false end.
Proof. intros k r. unfold coerce. destruct (is_bool_key k); [|reflexivity].
  destruct r as [s|z|b]; [destruct (py_int_of_string s)|..]; reflexivity. Qed.
Print Assumptions c15_coerce_type.

(** Regression witnesses: the unrepaired [__call__] violates the property. *)
Definition s_init : state := {| tcfg := []; inctx := []; env := []; dirdef := "/data" |}.

Theorem c15_refuted_mixed_keys :
  exists s kw, snd (step0 s (Call 0 kw)) = ORaise ConfigExc /\
               view 0 (fst (step0 s (Call 0 kw))) <> view 0 s.
Proof.
  exists s_init, [(Known DEFAULT_SCHEMA, RStr "keep"); (Unknown "BOGUS", RInt 1)].
  split; [reflexivity|]. vm_compute. discriminate.
Qed.
Print Assumptions c15_refuted_mixed_keys.

Theorem c15_refuted_nested_overwrite :
  exists h, outs_of 0 (snd (run0 s_init h)) =
            [ODone; ODone; ODone; ORaise ConfigExc; OVal (VStr "inner")].
Proof.
  exists [Call 0 [(Known DEFAULT_SCHEMA, RStr "outer")]; Enter 0;
          Call 0 [(Known DEFAULT_SCHEMA, RStr "inner")]; Enter 0; Read 0 DEFAULT_SCHEMA].
  reflexivity.
Qed.
Print Assumptions c15_refuted_nested_overwrite.

(** Non-vacuity: a two-thread history with a nested (refused) scope and an
    exceptional exit meets the hypotheses of [c15_interleaving]. *)
Definition prog0 : list item :=
  [IWith [(Known DEFAULT_SCHEMA, RStr "a"); (Known LCAR, RStr " On ")]
     (ICons (IRead DEFAULT_SCHEMA) (ICons (IRead LCAR)
        (ICons (IWith [(Known DEFAULT_SCHEMA, RStr "b")] INil)
           (ICons (IRead DIRECTORY) INil))));
   IRead DEFAULT_SCHEMA].
Example c15_nonvacuous :
  clean 0 s_init /\
  let h := [Call 1 [(Known DEFAULT_SCHEMA, RStr "z")];
            Call 0 [(Known DEFAULT_SCHEMA, RStr "a"); (Known LCAR, RStr " On ")];
            Enter 1; Enter 0; Read 1 DEFAULT_SCHEMA; Read 0 DEFAULT_SCHEMA; Read 0 LCAR;
            Call 0 [(Known DEFAULT_SCHEMA, RStr "b")]; Exit 1; Exit 0; Read 1 LCAR;
            Read 0 DEFAULT_SCHEMA] in
  filter (is_of 0) h = map fst (snd (exec_top 0 prog0 s_init)) /\
  spec_top s_init prog0 =
    [ODone; ODone; OVal (VStr "a"); OVal (VBool true); ORaise ConfigExc; ODone; OVal (VStr "")].
Proof. split; [split; reflexivity|]. split; reflexivity. Qed.
