(** C09 - dialects and both parsers agree on core SQL. *)
From SV Require Import Tree.Observe Tree.BasicProofs.

(** The extractors see the dialect only through the test  dialect == "vertica":
    for two other dialects the analysis of the same tree is the same function. *)
Theorem c09_dialect_parametric : forall d d' cfg icfg p sc silent t,
  String.eqb d "vertica" = false -> String.eqb d' "vertica" = false ->
  analyze (mk_env d cfg icfg p sc) silent t = analyze (mk_env d' cfg icfg p sc) silent t.
Proof.
  intros d d' cfg icfg p sc silent t H H'.
  rewrite (env_dialect_parametric d d' cfg icfg p sc) by congruence. reflexivity.
Qed.
Print Assumptions c09_dialect_parametric.

Theorem c09_script_dialect_parametric : forall d d' cfg icfg p sc silent base stmts,
  String.eqb d "vertica" = false -> String.eqb d' "vertica" = false ->
  show_script (mk_env d cfg icfg p sc) silent base stmts = show_script (mk_env d' cfg icfg p sc) silent base stmts.
Proof.
  intros d d' cfg icfg p sc silent base stmts H H'.
  rewrite (env_dialect_parametric d d' cfg icfg p sc) by congruence. reflexivity.
Qed.
Print Assumptions c09_script_dialect_parametric.

(** * Agreement across dialects on the core fragment, as a consequence of exactness.
    Two dialects differ in the trivia their lexers produce (whitespace / comment / meta segments: [noise]), possibly in the
    default schema handling (none: same [e_cfg]) - and in tree shape, which is the parser's business: suite T3-render of
    this check compares, per dialect, the parser's tree of every generated statement of the fragment with [r_stmt] and reports
    per dialect how many agree.  For every dialect (other than vertica, whose extra extractor branch [env_ok] excludes) that lays
    a statement of the fragment out as [r_stmt] does, the reads and writes are the SPECIFIED ones (Lemma A), hence the same
    under any two such dialects; likewise the end-to-end column pairs on the single-SELECT fragment (Lemma B). *)
From SV Require Import Tree.Render Tree.LemmaA Tree.LemmaAProofs Tree.LemmaB Tree.LemmaBProofs.

Theorem c09_core_tables_agree_across_dialects : forall noise1 noise2 e1 e2 s,
  noise_ok noise1 = true -> noise_ok noise2 = true -> env_ok e1 = true -> env_ok e2 = true -> e_cfg e1 = e_cfg e2 ->
  stmt_ok s = true -> sshape s = true ->
  stmt_reads (analyze e1 false (r_stmt noise1 s)) = stmt_reads (analyze e2 false (r_stmt noise2 s)) /\
  stmt_writes (analyze e1 false (r_stmt noise1 s)) = stmt_writes (analyze e2 false (r_stmt noise2 s)).
Proof.
  intros n1 n2 e1 e2 s Hn1 Hn2 He1 He2 Hc Hs Hq.
  destruct (lemma_A_tables_restricted n1 e1 s Hn1 He1 Hs Hq) as [R1 W1].
  destruct (lemma_A_tables_restricted n2 e2 s Hn2 He2 Hs Hq) as [R2 W2].
  rewrite R1, R2, W1, W2, Hc. split; reflexivity.
Qed.
Print Assumptions c09_core_tables_agree_across_dialects.

Theorem c09_single_select_columns_agree_across_dialects : forall noise1 noise2 e1 e2 s,
  noise_ok noise1 = true -> noise_ok noise2 = true -> env_ok e1 = true -> env_ok e2 = true -> e_cfg e1 = e_cfg e2 ->
  stmt_ok s = true -> sshape s = true -> colshape s = true -> sel_tables_syntactic s = true ->
  script_pairs e1 false [] [r_stmt noise1 s] = script_pairs e2 false [] [r_stmt noise2 s].
Proof.
  intros n1 n2 e1 e2 s Hn1 Hn2 He1 He2 Hc Hs Hq Hcs Hsy.
  rewrite (lemma_B_tables_colshape n1 e1 s Hn1 He1 Hs Hq Hcs Hsy), (lemma_B_tables_colshape n2 e2 s Hn2 He2 Hs Hq Hcs Hsy), Hc.
  reflexivity.
Qed.
Print Assumptions c09_single_select_columns_agree_across_dialects.

(** non-vacuity: two environments naming different dialects satisfy the hypotheses *)
Example c09_two_dialects_nonvacuous :
  env_ok (mk_env "postgres" "" "" {| p_truthy := false; p_cols := [] |} []) = true /\
  env_ok (mk_env "mysql" "" "" {| p_truthy := false; p_cols := [] |} []) = true.
Proof. split; reflexivity. Qed.
