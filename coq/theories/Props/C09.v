(** C09 - dialects and both parsers agree on core SQL. *)
From SV Require Import Tree.Observe Tree.BasicProofs.

(** The extractors see the dialect only through the test  dialect == "vertica":
    for two other dialects the analysis of the same tree is the same function. *)
Theorem c09_dialect_parametric : forall d d' cfg icfg p sc silent t,
  String.eqb d "vertica" = false -> String.eqb d' "vertica" = false ->
  analyze (mk_env d cfg icfg p sc) silent t = analyze (mk_env d' cfg icfg p sc) silent t.
Proof.
  intros d d' cfg icfg p sc silent t H H'.
  rewrite (env_dialect_parametric d d' cfg icfg p sc) by congruence. reflexivity.
Qed.
Print Assumptions c09_dialect_parametric.

Theorem c09_script_dialect_parametric : forall d d' cfg icfg p sc silent base stmts,
  String.eqb d "vertica" = false -> String.eqb d' "vertica" = false ->
  show_script (mk_env d cfg icfg p sc) silent base stmts = show_script (mk_env d' cfg icfg p sc) silent base stmts.
Proof.
  intros d d' cfg icfg p sc silent base stmts H H'.
  rewrite (env_dialect_parametric d d' cfg icfg p sc) by congruence. reflexivity.
Qed.
Print Assumptions c09_script_dialect_parametric.
