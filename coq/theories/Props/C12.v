(** C12 - runs are isolated from one another.
    Statements about the provider/session/runner model for an *arbitrary* per-statement
    analysis function (the sqlfluff and sqlparse analyzers are instances: they reach the
    provider only through its lookups). *)
From SV Require Import Provider.Session Provider.SessionProofs Provider.Abstract.

(** Table definitions learned during a run are forgotten when it ends, however it ends
    (the result [None] is a run that raised part-way). *)
Theorem c12_clean_after : forall stmt payload analyze p ss,
  session (fst (eval stmt payload analyze p ss)) = [] /\
  base (fst (eval stmt payload analyze p ss)) = base p.
Proof. exact eval_clean. Qed.
Print Assumptions c12_clean_after.

(** ... so a provider reused for the next run answers exactly as a fresh one. *)
Theorem c12_reused_as_fresh : forall stmt payload analyze p ss t,
  view (fst (eval stmt payload analyze p ss)) t = view {| base := base p; session := [] |} t.
Proof. exact eval_view_fresh. Qed.
Print Assumptions c12_reused_as_fresh.

(** History independence: the outcome of a run does not depend on the runs, successful
    or failed, that used the same provider before it. *)
Theorem c12_history_independent : forall stmt payload analyze p history ss,
  session p = [] ->
  snd (eval stmt payload analyze (fst (runs stmt payload analyze p history)) ss) =
  snd (eval stmt payload analyze p ss).
Proof. exact history_independent. Qed.
Print Assumptions c12_history_independent.

(** What later statements of the same run know (used by C04): registration overrides
    the base metadata for exactly the registered table. *)
Theorem c12_register_view : forall p t cols t',
  view (register p t cols) t' = if String.eqb t' t then cols else view p t'.
Proof. exact register_view. Qed.
Print Assumptions c12_register_view.

(** Non-vacuity: a history with a failing run in the middle. *)
Example c12_nonvacuous :
  show_history true [("s.t1", ["a"; "b"])]
    [[CopyStar "s.t2" "s.t1"; CopyStar "s.t3" "s.t2"];
     [Cols "s.t1" ["z"]; Fail; NoWrite];
     [CopyStar "s.t3" "s.t1"]] ["s.t1"; "s.t2"]
  = "a,b|a,b#RAISED#a,b@@s.t1=a,b;s.t2=".
Proof. reflexivity. Qed.

(** * Concurrent runs, each with its own provider (Provider/Interleave.v).
    One run is a small-step machine over its own provider (one micro-step per statement, one for the session's
    __exit__); a world is a list of such runs; a schedule says which run moves next.  Running one machine to its end is
    [eval]; at ANY point of ANY schedule every run is where it would be had it run alone for as many steps as it got
    (isolation invariant); hence under every complete schedule - every interleaving - each run ends with the provider
    state and the result [eval] gives, which is what every sequential order gives.  With ONE provider shared by the runs
    the statement is false (two witnesses), which is why the property asks for "its own provider". *)
From SV Require Import Provider.Interleave.

Theorem c12_small_steps_are_eval : forall stmt payload analyze p ss k, S (List.length ss) <= k ->
  steps stmt payload analyze k (init stmt payload p ss) =
  (fst (eval stmt payload analyze p ss), Done stmt payload (snd (eval stmt payload analyze p ss))).
Proof. exact run_small_steps_eval. Qed.
Print Assumptions c12_small_steps_are_eval.

Theorem c12_isolation_at_any_point : forall stmt payload analyze sched w i,
  nth_error (exec stmt payload analyze w sched) i =
  option_map (steps stmt payload analyze (count i sched)) (nth_error w i).
Proof. exact prefix_isolation. Qed.
Print Assumptions c12_isolation_at_any_point.

Theorem c12_every_interleaving_is_sequential : forall stmt payload analyze jobs sched,
  complete stmt payload (init_world stmt payload jobs) sched = true ->
  exec stmt payload analyze (init_world stmt payload jobs) sched =
  map (fun j => finished stmt payload (eval stmt payload analyze (fst j) (snd j))) jobs.
Proof. exact interleaving_world_is_sequential. Qed.
Print Assumptions c12_every_interleaving_is_sequential.

Theorem c12_interleaving_equals_any_sequential_order : forall stmt payload analyze jobs sched order,
  complete stmt payload (init_world stmt payload jobs) sched = true ->
  (forall i, i < List.length jobs -> In i order) ->
  exec stmt payload analyze (init_world stmt payload jobs) sched =
  exec stmt payload analyze (init_world stmt payload jobs) (sequential stmt payload (init_world stmt payload jobs) order).
Proof. exact interleaving_equals_any_sequential_order. Qed.
Print Assumptions c12_interleaving_equals_any_sequential_order.

(** with ONE provider shared by two concurrent runs an interleaving gives a result no sequential order gives *)
Theorem c12_shared_provider_refuted :
  let w := init_shared Abstract.astmt (list string) PS [scriptA; scriptB] in
  results (exec_shared _ _ (Abstract.analyze true) w [0; 1; 0; 1; 0; 1]) <> results (exec_shared _ _ (Abstract.analyze true) w [0; 0; 0; 1; 1; 1]) /\
  results (exec_shared _ _ (Abstract.analyze true) w [0; 1; 0; 1; 0; 1]) <> results (exec_shared _ _ (Abstract.analyze true) w [1; 1; 1; 0; 0; 0]).
Proof. vm_compute. split; discriminate. Qed.
Print Assumptions c12_shared_provider_refuted.
