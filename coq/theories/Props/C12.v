(** C12 - runs are isolated from one another.
    Statements about the provider/session/runner model for an *arbitrary* per-statement
    analysis function (the sqlfluff and sqlparse analyzers are instances: they reach the
    provider only through its lookups). *)
From SV Require Import Provider.Session Provider.SessionProofs Provider.Abstract.

(** Table definitions learned during a run are forgotten when it ends, however it ends
    (the result [None] is a run that raised part-way). *)
Theorem c12_clean_after : forall stmt payload analyze p ss,
  session (fst (eval stmt payload analyze p ss)) = [] /\
  base (fst (eval stmt payload analyze p ss)) = base p.
Proof. exact eval_clean. Qed.
Print Assumptions c12_clean_after.

(** ... so a provider reused for the next run answers exactly as a fresh one. *)
Theorem c12_reused_as_fresh : forall stmt payload analyze p ss t,
  view (fst (eval stmt payload analyze p ss)) t = view {| base := base p; session := [] |} t.
Proof. exact eval_view_fresh. Qed.
Print Assumptions c12_reused_as_fresh.

(** History independence: the outcome of a run does not depend on the runs, successful
    or failed, that used the same provider before it. *)
Theorem c12_history_independent : forall stmt payload analyze p history ss,
  session p = [] ->
  snd (eval stmt payload analyze (fst (runs stmt payload analyze p history)) ss) =
  snd (eval stmt payload analyze p ss).
Proof. exact history_independent. Qed.
Print Assumptions c12_history_independent.

(** What later statements of the same run know (used by C04): registration overrides
    the base metadata for exactly the registered table. *)
Theorem c12_register_view : forall p t cols t',
  view (register p t cols) t' = if String.eqb t' t then cols else view p t'.
Proof. exact register_view. Qed.
Print Assumptions c12_register_view.

(** Non-vacuity: a history with a failing run in the middle. *)
Example c12_nonvacuous :
  show_history true [("s.t1", ["a"; "b"])]
    [[CopyStar "s.t2" "s.t1"; CopyStar "s.t3" "s.t2"];
     [Cols "s.t1" ["z"]; Fail; NoWrite];
     [CopyStar "s.t3" "s.t1"]] ["s.t1"; "s.t2"]
  = "a,b|a,b#RAISED#a,b@@s.t1=a,b;s.t2=".
Proof. reflexivity. Qed.
