(** C17 - the visualisation server only discloses files under its roots. *)
From SV Require Import Web.PathModel Web.Proofs Web.History.

(** POST (after fix F2): whatever a request that passes the root check makes its
    route read - the file for /script and /lineage, the listed folder for
    /directory (the parent of f, or d) - lies under the resolved root, for every
    root, working directory and spelling of the paths. *)
Theorem c17_post_contained : forall cwd root r t,
  post cwd root r = DPass t -> touched_contained cwd root t.
Proof. exact post_contained. Qed.
Print Assumptions c17_post_contained.

(** GET: a PATH_INFO without a ".." substring is served from under the static folder. *)
Theorem c17_get_contained : forall static pinfo q,
  normal static ->
  get static pinfo = GServe q ->
  exists tail, q = static ++ tail /\ normal tail /\
               resolve_segs [] q = q /\ list_prefix static (resolve_segs [] q).
Proof. exact get_contained. Qed.
Print Assumptions c17_get_contained.

(** Lexical resolution produces a normal form (no "", ".", ".."), is idempotent,
    and cancels "x/.." wherever it occurs. *)
Theorem c17_resolve_normal : forall cwd p, normal (resolve cwd p).
Proof. exact resolve_normal. Qed.
Print Assumptions c17_resolve_normal.

Theorem c17_resolve_idem : forall cwd p,
  resolve cwd {| is_abs := true; segs := resolve cwd p |} = resolve cwd p.
Proof. exact resolve_idem. Qed.
Print Assumptions c17_resolve_idem.

Theorem c17_resolve_cancel : forall a x b acc,
  normal_seg x -> resolve_segs acc (a ++ x :: ".." :: b) = resolve_segs acc (a ++ b).
Proof. intros; apply resolve_segs_cancel; assumption. Qed.
Print Assumptions c17_resolve_cancel.

(** Histories: the application object serves many requests, and its root ([app.root_path]) and the process
    working directory may be re-assigned between them.  Whatever any request of any history may read lies under
    the root configured when THAT request arrives (resolved against the working directory of that moment) - an
    earlier root grants nothing. *)
Theorem c17_history_contained : forall s ops st t,
  In (st, DPass t) (wrun s ops) ->
  touched_contained (w_cwd st) (w_root st) t /\
  exists pre r rest, ops = pre ++ WPost r :: rest /\ st = wstate_after s pre.
Proof. exact history_contained. Qed.
Print Assumptions c17_history_contained.

Theorem c17_history_answers_are_stateless : forall s pre r rest,
  exists before after,
    wrun s (pre ++ WPost r :: rest) =
      before ++ (wstate_after s pre, post (w_cwd (wstate_after s pre)) (w_root (wstate_after s pre)) r) :: after
    /\ before = wrun s pre.
Proof. exact history_answers_are_stateless. Qed.
Print Assumptions c17_history_answers_are_stateless.

(** Non-vacuity: a request with dot segments that passes, and what it touches. *)
Example c17_nonvacuous :
  post ["srv"] (parse "root") {| rt := RDirectory; pf := Some "root/sub/../a.sql/../sub/b.sql"; pd := Some "/srv/root/." |}
  = DPass (TDir (parent (parse "root/sub/../a.sql/../sub/b.sql"))) /\
  resolve ["srv"] (parent (parse "root/sub/../a.sql/../sub/b.sql")) = ["srv"; "root"; "sub"].
Proof. split; reflexivity. Qed.

(** Regression witnesses: the handler before fix F2 (string prefix of the
    un-normalised absolute path) lets these through; [post0] is that handler. *)
Definition cwd0 : list seg := ["srv"].
Definition root0 : path := parse "/srv/root".

Theorem c17_refuted_dotdot :
  exists r, post0 cwd0 root0 r = DPass (TFile (parse "/srv/root/../../etc/hostname")) /\
            resolve cwd0 (parse "/srv/root/../../etc/hostname") = ["etc"; "hostname"] /\
            post cwd0 root0 r = D403.
Proof.
  exists {| rt := RScript; pf := Some "/srv/root/../../etc/hostname"; pd := None |}.
  repeat split; reflexivity.
Qed.
Print Assumptions c17_refuted_dotdot.

Theorem c17_refuted_sibling :
  exists r, post0 cwd0 root0 r = DPass (TFile (parse "root_sibling/x.sql")) /\
            resolve cwd0 (parse "root_sibling/x.sql") = ["srv"; "root_sibling"; "x.sql"] /\
            post cwd0 root0 r = D403.
Proof.
  exists {| rt := RScript; pf := Some "root_sibling/x.sql"; pd := None |}.
  repeat split; reflexivity.
Qed.
Print Assumptions c17_refuted_sibling.

Theorem c17_refuted_parent_listing :
  exists r, post0 cwd0 root0 r = DPass (TDir (parent (parse "/srv/root"))) /\
            resolve cwd0 (parent (parse "/srv/root")) = ["srv"] /\
            post cwd0 root0 r = D403.
Proof.
  exists {| rt := RDirectory; pf := Some "/srv/root"; pd := None |}.
  repeat split; reflexivity.
Qed.
Print Assumptions c17_refuted_parent_listing.
