(** C18 - the graph export is faithful to the lineage graph. *)
From SV Require Import Holder.Build Holder.ExportProofs.

(** Every edge endpoint is the id of an exported node (both export levels). *)
Theorem c18_edges_ref_column : forall g e,
  closed g -> In e (snd (to_cytoscape_compound g)) ->
  In (cy_src e) (ids (to_cytoscape_compound g)) /\ In (cy_tgt e) (ids (to_cytoscape_compound g)).
Proof. exact compound_edges_ref. Qed.
Print Assumptions c18_edges_ref_column.

Theorem c18_edges_ref_table : forall g e,
  closed g -> In e (snd (to_cytoscape_plain g)) ->
  In (cy_src e) (ids (to_cytoscape_plain g)) /\ In (cy_tgt e) (ids (to_cytoscape_plain g)).
Proof. exact plain_edges_ref. Qed.
Print Assumptions c18_edges_ref_table.

(** Every column node carries a parent reference, and every parent reference is the id of an exported node. *)
Theorem c18_parent_ref : forall g n p,
  In n (fst (to_cytoscape_compound g)) -> cy_parent n = Some p -> In p (ids (to_cytoscape_compound g)).
Proof. exact compound_parent_ref. Qed.
Print Assumptions c18_parent_ref.

Theorem c18_parent_total : forall g n,
  In n (fst (to_cytoscape_compound g)) -> cy_type n = "Column" -> exists p, cy_parent n = Some p.
Proof. exact compound_parent_total. Qed.
Print Assumptions c18_parent_total.

(** Exactness: one exported node per graph node (plus, at column level, one per distinct owner), one exported edge per graph edge. *)
Theorem c18_exact_table : forall g,
  ids (to_cytoscape_plain g) = map (fun p => node_str (fst p)) (gnodes g) /\
  map (fun e => (cy_src e, cy_tgt e)) (snd (to_cytoscape_plain g)) =
  map (fun e => (node_str (fst (fst e)), node_str (snd (fst e)))) (gedges g).
Proof. exact plain_exact. Qed.
Print Assumptions c18_exact_table.

Theorem c18_exact_column : forall g,
  exists parents,
    ids (to_cytoscape_compound g) = map (fun p => node_str (fst p)) (gnodes g) ++ parents /\
    (forall q, In q parents <-> exists n, In n (map fst (gnodes g)) /\
                                  pd_get (node_parent n) (fold_left (fun l n => pd_upsert (node_parent n) l) (map fst (gnodes g)) []) = Some q) /\
    map (fun e => (cy_src e, cy_tgt e)) (snd (to_cytoscape_compound g)) =
    map (fun e => (node_str (fst (fst e)), node_str (snd (fst e)))) (gedges g).
Proof. exact compound_exact. Qed.
Print Assumptions c18_exact_column.

(** Owners are exported once each (up to Python equality). *)
Theorem c18_owners_once : forall ns,
  let pd := fold_left (fun l n => pd_upsert (node_parent n) l) ns [] in
  forall i j p q, nth_error (map fst pd) i = Some p -> nth_error (map fst pd) j = Some q ->
                  opt_dataset_eqb p q = true -> i = j.
Proof. exact pd_keys_distinct. Qed.
Print Assumptions c18_owners_once.

(** Node ids are unique whenever printing is injective on what is exported. *)
Theorem c18_unique_table_partial : forall g,
  NoDup (map (fun p => node_str (fst p)) (gnodes g)) -> NoDup (ids (to_cytoscape_plain g)).
Proof. exact plain_unique. Qed.
Print Assumptions c18_unique_table_partial.

Theorem c18_unique_column_partial : forall g,
  let ns := map fst (gnodes g) in
  let pd := fold_left (fun l n => pd_upsert (node_parent n) l) ns [] in
  NoDup (map node_str ns ++ map (fun e => fst (snd e)) pd) ->
  NoDup (ids (to_cytoscape_compound g)).
Proof. exact compound_unique. Qed.
Print Assumptions c18_unique_column_partial.

(** The text summary prints each role list sorted, with the same members. *)
Theorem c18_summary_sorted : forall l, sorted (sort_strings l).
Proof. exact sort_strings_sorted. Qed.
Print Assumptions c18_summary_sorted.

Theorem c18_summary_members : forall l x, In x (sort_strings l) <-> In x l.
Proof. exact sort_strings_perm. Qed.
Print Assumptions c18_summary_members.

(** Known finding K-C18-1: two derived tables with different text but the same alias
    (here in two UNION branches) print alike, so node ids are not unique. *)
Definition sq1 : dataset := {| dk := KSubq; deq := "select x from s.a"; dstr := "t"; dschema := ""; draw := ""; dalias := ""; dquery := None |}.
Definition sq2 : dataset := {| dk := KSubq; deq := "select y from s.b"; dstr := "t"; dschema := ""; draw := ""; dalias := ""; dquery := None |}.
Definition dupg : graph :=
  {| gnodes := [(NCol {| craw := "x"; cparents := [sq1] |}, []); (NCol {| craw := "y"; cparents := [sq2] |}, [])];
     gedges := [] |}.
Theorem c18_refuted_dup :
  map cy_id (fst (to_cytoscape_compound dupg)) = ["t.x"; "t.y"; "t"; "t"].
Proof. reflexivity. Qed.
Print Assumptions c18_refuted_dup.
