(** C01 - single-statement table lineage is exact.
    M = the tree model Tree/Extract.v (tied to the extractors on the parser's own trees);
    S = the denotational specification Ast/Spec.v ([spec_reads], [spec_writes]).
    What is proved here about M: statements that move no data report nothing, unsupported
    statements are refused or skipped, and the refutation witnesses (known findings).
    Lemma A ([c01_exact_on_rendered_core]): on the rendered core fragment ([stmt_ok], [sshape]) with
    arbitrary trivia between tokens, M = S, for every statement of unbounded size and nesting depth.  The rendering function
    Tree/Render.v is tied to the parser on every run (suite T3-render: same tree as the parser's, up
    to trivia).  Outside that fragment (expressions, join groups, other dialect shapes) exactness
    M = S is checked by correspondence on generated statements on every run, not proved. *)
From SV Require Import Tree.Observe Tree.BasicProofs Ast.Spec Ast.SpecRec Props.Witness.
From SV Require Import Tree.Render Tree.LemmaA Tree.LemmaAProofs.

Theorem c01_nodata : forall e silent t g c r w cm mt ch,
  In t NOOP_TYPES -> analyze e silent (Seg t g c r w cm mt ch) = Ok empty_graph.
Proof. exact analyze_noop. Qed.
Print Assumptions c01_nodata.

Theorem c01_unsupported : forall e silent s,
  mem_string (ty s) SUPPORTED_TYPES = false ->
  analyze e silent s = if silent then Ok empty_graph else Err EUnsupported.
Proof. exact analyze_unsupported. Qed.
Print Assumptions c01_unsupported.

Definition env0 : env := mk_env "ansi" "" "" {| p_truthy := false; p_cols := [] |} [].

(** Known findings (the witnesses are the parser's trees of the SQL quoted in Props/Witness.v). *)
Theorem c01_refuted_mixed_join :
  stmt_reads (analyze env0 false w_mixed_join) = ["<default>.a"; "<default>.c"].   (* b is lost *)
Proof. vm_compute. reflexivity. Qed.
Print Assumptions c01_refuted_mixed_join.

Theorem c01_refuted_scalar_subquery :
  stmt_reads (analyze (mk_env "ansi" "" "" {| p_truthy := false; p_cols := [] |}
                              [("(select max(z) from q)", [("z", Some "q")])]) false w_scalar_subquery)
  = ["<default>.a"].                                                             (* q is lost *)
Proof. vm_compute. reflexivity. Qed.
Print Assumptions c01_refuted_scalar_subquery.

Theorem c01_refuted_having :
  stmt_reads (analyze env0 false w_having_subquery) = ["<default>.a"].           (* q is lost *)
Proof. vm_compute. reflexivity. Qed.
Print Assumptions c01_refuted_having.

Theorem c01_refuted_in_list :
  stmt_reads (analyze env0 false w_in_list) = ["<default>.a"; "s.t1"].            (* s.t2 is lost: parsed as an IN-list *)
Proof. vm_compute. reflexivity. Qed.
Print Assumptions c01_refuted_in_list.

(** Non-vacuity of the specification: a statement with a CTE, a derived table and a WHERE-IN sub-query. *)
Example c01_nonvacuous :
  show_tables "" (SInsert (Some "s3", "out1") None
     (QWith "c1" (QSelect [IExpr (EColRef None "x") None] [RTable (Some "s1", "t1") None] false None)
        (QSelect [IExpr (EColRef (Some "d") "x") None]
                 [RTable (None, "c1") None; RDerived (QSelect [IStar None] [RTable (None, "t4") None] false None) "d"]
                 false (Some ("x", QSelect [IExpr (EColRef None "k") None] [RTable (Some "s2", "t3") (Some "p")] false None)))))
  = "R=<default>.t4,s1.t1,s2.t3;W=s3.out1".
Proof. reflexivity. Qed.

(** WITH RECURSIVE: the specification used for statements printed with RECURSIVE ([spec_reads_rec], a CTE's
    name is visible in its own body) is conservative over the plain one: they agree whenever no CTE body
    makes use of its own name. *)
Theorem c01_recursive_conservative : forall fuel ds ctes q,
  self_free fuel ds ctes q -> q_reads_rec fuel ds ctes q = q_reads fuel ds ctes q.
Proof. exact q_reads_rec_self_free. Qed.
Print Assumptions c01_recursive_conservative.

(** Lemma A (tables).  For every trivia list, every metadata-free non-vertica environment, and every
    statement of the core fragment (INSERT [with column list] / CREATE TABLE AS / CREATE VIEW AS / bare query over
    SELECTs with column or star items, base tables with optional schema and alias, derived tables,
    WHERE-IN sub-queries and unions nested to any depth, an outermost WITH) the tree walker reports exactly
    the tables the specification prescribes. *)
Theorem c01_exact_on_rendered_core : forall noise e s,
  noise_ok noise = true -> env_ok e = true -> stmt_ok s = true -> sshape s = true ->
  stmt_reads (analyze e false (r_stmt noise s)) = sort_strings (spec_reads (e_cfg e) s) /\
  stmt_writes (analyze e false (r_stmt noise s)) = sort_strings (spec_writes (e_cfg e) s).
Proof. exact lemma_A_tables_restricted. Qed.
Print Assumptions c01_exact_on_rendered_core.

(** the hypotheses are satisfiable by a non-trivial statement *)
Example c01_lemma_A_nonvacuous :
  let s := SInsert (Some "s3", "out1") (Some ["c0"])
             (QWith "c1" (QSelect [IExpr (EColRef None "x") None] [RTable (Some "s1", "t1") None] false None)
                (QSelect [IExpr (EColRef (Some "d") "x") None]
                   [RTable (None, "c1") None; RDerived (QUnion (QSelect [IStar None] [RTable (None, "t4") None] false None)
                                                               (QSelect [IStar None] [RTable (Some "db1.s4", "t6") (Some "z")] false None)) "d"]
                   false (Some ("x", QSelect [IExpr (EColRef None "k") None] [RTable (Some "s2", "t3") (Some "p")] false None)))) in
  stmt_ok s && sshape s && env_ok env0 = true
  /\ spec_reads "" s = ["s1.t1"; "<default>.t4"; "db1.s4.t6"; "s2.t3"].
Proof. split; vm_compute; reflexivity. Qed.

(** Without [sshape] the statement is false of the model: the proof attempt produced counterexamples, two of which
    are defects of the implementation (recorded as K-C01-5, K-C01-6 and replayed against it on every run). *)
Theorem c01_lemma_A_unrestricted_refuted : ~ lemma_A_tables_statement.
Proof. exact lemma_A_tables_statement_refuted. Qed.
Print Assumptions c01_lemma_A_unrestricted_refuted.

(** * UPDATE, MERGE, SELECT ... INTO (the other statement kinds C01 lists).
    [Ast/SpecDml.v] gives their syntax ([dml]) and specification ([dml_reads]: the base tables of the FROM list / USING source /
    query at any depth, never the target unless it is also read; [dml_writes]: the target); [Tree/RenderDml.v] the parser's layout
    (validated against the real parser on every run, suite T3-render-dml).  For every trivia, every statement size and nesting
    depth of the embedded queries the tree walker reports exactly the specified tables - except for an UPDATE whose WHERE
    contains a sub-query: the extractor never looks at the WHERE clause of an UPDATE (recorded as K-C01-7), so there the
    theorem says what is reported instead (the FROM tables), and the exact condition under which that is the specification. *)
From SV Require Import Ast.SpecDml Tree.RenderDml Tree.LemmaADmlDefs Tree.LemmaADml.

Theorem c01_exact_on_update_merge_select_into : forall noise e d,
  noise_ok noise = true -> env_ok e = true -> dml_ok d = true ->
  stmt_reads (analyze e false (r_dml noise d)) = sort_strings (dml_reads (e_cfg e) d) /\
  stmt_writes (analyze e false (r_dml noise d)) = sort_strings (dml_writes (e_cfg e) d).
Proof. exact lemma_A_dml. Qed.
Print Assumptions c01_exact_on_update_merge_select_into.

(** the weakest repair: an UPDATE with a WHERE-IN sub-query is exact iff the sub-query reads nothing the FROM list does not read *)
Theorem c01_update_where_exact_iff : forall noise e t al sets from cj wh,
  noise_ok noise = true -> env_ok e = true -> dml_ok_base (DUpdate t al sets from cj wh) = true ->
  (stmt_reads (analyze e false (r_dml noise (DUpdate t al sets from cj wh))) = sort_strings (dml_reads (e_cfg e) (DUpdate t al sets from cj wh))
   <-> upd_where_ok (e_cfg e) (DUpdate t al sets from cj wh) = true).
Proof. exact lemma_A_update_where_iff. Qed.
Print Assumptions c01_update_where_exact_iff.

(** what the code reports for EVERY update of the fragment: the FROM tables at any depth, the WHERE clause ignored *)
Theorem c01_update_reports_from_tables_only : forall noise e t al sets from cj wh,
  noise_ok noise = true -> env_ok e = true -> dml_ok_base (DUpdate t al sets from cj wh) = true ->
  stmt_reads (analyze e false (r_dml noise (DUpdate t al sets from cj wh))) = sort_strings (upd_impl_reads (e_cfg e) (DUpdate t al sets from cj wh)) /\
  stmt_writes (analyze e false (r_dml noise (DUpdate t al sets from cj wh))) = sort_strings (dml_writes (e_cfg e) (DUpdate t al sets from cj wh)).
Proof. exact lemma_A_update_impl. Qed.
Print Assumptions c01_update_reports_from_tables_only.

(** K-C01-7: [update t set a = b from u where c in (select c from v)] - reported reads [u], specified reads [u; v] *)
Theorem c01_refuted_update_where_subquery : ~ lemma_A_dml_statement dml_ok_base.
Proof. exact lemma_A_dml_where_refuted. Qed.
Print Assumptions c01_refuted_update_where_subquery.

Theorem c01_update_where_witness :
  stmt_reads (analyze e_dml false (r_dml [] upd_where_cx)) = ["<default>.u"] /\
  sort_strings (dml_reads "" upd_where_cx) = ["<default>.u"; "<default>.v"].
Proof. split; apply update_where_in_known_finding. Qed.
Print Assumptions c01_update_where_witness.

(** * Lemma A with expression select items (functions, arithmetic, CASE, CAST, window functions; aliased or not; any depth; in
    every SELECT at every nesting level): the whole Lemma-A fragment rendered by [r_stmt_x] (Tree/RenderExpr.v, layout validated
    against the parser by suite T3-render-expr of check C02) reports exactly the specified tables. *)
From SV Require Import Tree.RenderExpr Tree.LemmaAExpr.
Theorem c01_exact_on_rendered_core_with_expressions : forall noise e s,
  noise_ok noise = true -> env_ok e = true -> stmt_ok_a s = true -> LemmaAProofs.sshape s = true ->
  stmt_reads (analyze e false (r_stmt_x noise s)) = sort_strings (spec_reads (e_cfg e) s) /\
  stmt_writes (analyze e false (r_stmt_x noise s)) = sort_strings (spec_writes (e_cfg e) s).
Proof. exact lemma_A_tables_x. Qed.
Print Assumptions c01_exact_on_rendered_core_with_expressions.

(** * COPY and file paths (C01: "the base tables and file paths the statement reads") - Ast/SpecPath.v, Tree/RenderPath.v,
    Tree/LemmaAPath.v: COPY t [(cols)] FROM 'path' (postgres / redshift layout), COPY INTO t FROM @stage | 's3://..' (snowflake),
    SELECT .. FROM fmt.`path` (sparksql file reference).  Exact under [pstmt_ok], whose path clause [path_ok] is the weakest
    possible: the proof attempt found that a path is normalised like an identifier, TWICE, so upper-case letters are lost
    (K-C01-8: copy t from '/tmp/Data/X.CSV' reports /tmp/data/x.csv).  INSERT OVERWRITE DIRECTORY: tested, not proved. *)
From SV Require Import Ast.SpecPath Tree.RenderPath Tree.LemmaAPathDefs Tree.LemmaAPath.
Theorem c01_exact_on_copy_and_file_references : forall noise e p,
  noise_ok noise = true -> env_ok e = true -> pstmt_ok p = true -> is_insert_dir p = false ->
  stmt_reads (analyze e false (r_pstmt noise p)) = sort_strings (p_reads (e_cfg e) p) /\
  stmt_writes (analyze e false (r_pstmt noise p)) = sort_strings (p_writes (e_cfg e) p).
Proof. exact lemma_A_path. Qed.
Print Assumptions c01_exact_on_copy_and_file_references.

Theorem c01_refuted_path_case : ~ lemma_A_path_statement pstmt_ok_nopath.
Proof. exact lemma_A_path_case_refuted. Qed.
Print Assumptions c01_refuted_path_case.

(** * CTE chains of any length (one WITH clause with several comma-separated CTEs, as the parser lays it out: Tree/RenderChain.v),
    over definitions and a body of the WITH-free fragment with expression items.  The guards exclude two disagreements found by the
    proof attempt, both replayed on the implementation: a definition reading a table called like a LATER CTE (K-C01-9: every name is
    resolved against all CTEs of the clause) and two CTEs with the same text (K-C01-10: the second one's name is reported as a table). *)
From SV Require Import Tree.RenderChain Tree.LemmaAChain.
Theorem c01_exact_on_cte_chains : forall noise e s,
  noise_ok noise = true -> env_ok e = true -> stmt_ok_c noise s = true ->
  stmt_reads (analyze e false (r_stmt_c noise s)) = sort_strings (spec_reads (e_cfg e) s) /\
  stmt_writes (analyze e false (r_stmt_c noise s)) = sort_strings (spec_writes (e_cfg e) s).
Proof. exact lemma_A_tables_chain. Qed.
Print Assumptions c01_exact_on_cte_chains.

Theorem c01_cte_chains_unguarded_refuted : ~ lemma_Ac_unguarded.
Proof. exact lemma_Ac_unguarded_refuted. Qed.
Print Assumptions c01_cte_chains_unguarded_refuted.

(** * Parenthesised join groups (Tree/RenderGroup.v): the table-level statement is FALSE - in a comma-separated FROM the table joined
    inside a group is lost (K-C01-11, same SQL-89 branch as K-C01-1); the guarded statement is tested, not proved. *)
From SV Require Import Tree.RenderGroup Tree.LemmaAGroup.
Theorem c01_join_groups_refuted : ~ lemma_A_group_statement.
Proof. exact lemma_A_group_statement_refuted. Qed.
Print Assumptions c01_join_groups_refuted.

(** join groups in the JOIN spelling (group as JOIN operand or first element; Tree/LemmaAGroup3.v): exact *)
From SV Require Import Tree.LemmaAGroup2 Tree.LemmaAGroup3.
Theorem c01_exact_on_join_groups_join_spelling : forall noise e s,
  noise_ok noise = true -> env_ok e = true -> stmt_ok_g_join s = true ->
  stmt_reads (analyze e false (r_stmt_g noise s)) = sort_strings (spec_reads (e_cfg e) s) /\
  stmt_writes (analyze e false (r_stmt_g noise s)) = sort_strings (spec_writes (e_cfg e) s).
Proof. exact lemma_A_group_join. Qed.
Print Assumptions c01_exact_on_join_groups_join_spelling.
