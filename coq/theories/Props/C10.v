(** C10 - total error contract; silent mode skips unsupported statements. *)
From SV Require Import Tree.Observe Tree.BasicProofs Props.Witness.

(** silent mode: a statement of an unsupported type becomes an empty holder ... *)
Theorem c10_silent_unsupported : forall e s,
  mem_string (ty s) SUPPORTED_TYPES = false -> analyze e true s = Ok empty_graph.
Proof. intros e s H. rewrite (analyze_unsupported e true s H). reflexivity. Qed.
Print Assumptions c10_silent_unsupported.

(** ... otherwise the library's own exception *)
Theorem c10_unsupported_raises : forall e s,
  mem_string (ty s) SUPPORTED_TYPES = false -> analyze e false s = Err EUnsupported.
Proof. intros e s H. rewrite (analyze_unsupported e false s H). reflexivity. Qed.
Print Assumptions c10_unsupported_raises.

(** ... and an empty holder leaves the assembled result as it is without it, at any position *)
Theorem c10_silent_skip : forall p hs hs', build p (hs ++ empty_holder :: hs') = build p (hs ++ hs').
Proof. exact build_skip_empty. Qed.
Print Assumptions c10_silent_skip.

(** Known findings: internal errors escape on parser-reachable trees. *)
Theorem c10_refuted_merge_values :
  analyze (mk_env "ansi" "" "" {| p_truthy := false; p_cols := [] |} []) false w_merge_values = Err EIndex.
Proof. vm_compute. reflexivity. Qed.
Print Assumptions c10_refuted_merge_values.

Theorem c10_refuted_vertica_swap :
  analyze (mk_env "vertica" "" "" {| p_truthy := false; p_cols := [] |} []) false w_vertica_swap = Err EIndex.
Proof. vm_compute. reflexivity. Qed.
Print Assumptions c10_refuted_vertica_swap.
