(** C10 - total error contract; silent mode skips unsupported statements. *)
From SV Require Import Tree.Observe Tree.BasicProofs Props.Witness.

(** silent mode: a statement of an unsupported type becomes an empty holder ... *)
Theorem c10_silent_unsupported : forall e s,
  mem_string (ty s) SUPPORTED_TYPES = false -> analyze e true s = Ok empty_graph.
Proof. intros e s H. rewrite (analyze_unsupported e true s H). reflexivity. Qed.
Print Assumptions c10_silent_unsupported.

(** ... otherwise the library's own exception *)
Theorem c10_unsupported_raises : forall e s,
  mem_string (ty s) SUPPORTED_TYPES = false -> analyze e false s = Err EUnsupported.
Proof. intros e s H. rewrite (analyze_unsupported e false s H). reflexivity. Qed.
Print Assumptions c10_unsupported_raises.

(** ... and an empty holder leaves the assembled result as it is without it, at any position *)
Theorem c10_silent_skip : forall p hs hs', build p (hs ++ empty_holder :: hs') = build p (hs ++ hs').
Proof. exact build_skip_empty. Qed.
Print Assumptions c10_silent_skip.

(** Regression witnesses for fixes F6 / F7: these parser-reachable trees used to make the extractors index
    past the end of a list (IndexError); the analysis now returns a holder. *)
Theorem c10_merge_values_no_error :
  exists g, analyze (mk_env "ansi" "" "" {| p_truthy := false; p_cols := [] |} []) false w_merge_values = Ok g.
Proof. eexists. vm_compute. reflexivity. Qed.
Print Assumptions c10_merge_values_no_error.

Theorem c10_vertica_swap_no_error :
  analyze (mk_env "vertica" "" "" {| p_truthy := false; p_cols := [] |} []) false w_vertica_swap = Ok empty_graph.
Proof. vm_compute. reflexivity. Qed.
Print Assumptions c10_vertica_swap_no_error.

(** On the core fragment of Lemma A the analysis never ends in an error value - in particular in none of the internal
    ones (index, key, type, assertion) the tree model makes explicit - whatever the trivia and whatever the metadata
    provider holds (Tree/LemmaAMeta.v). *)
From SV Require Import Tree.Render Tree.LemmaA Tree.LemmaAProofs Tree.LemmaAMeta.

Theorem c10_core_never_fails : forall noise e s,
  noise_ok noise = true -> env_ok_md e = true -> stmt_ok s = true -> sshape s = true ->
  exists g, analyze e false (r_stmt noise s) = Ok g.
Proof. intros noise e s Hn He Hs Hq. destruct (analysis_succeeds_any_provider noise e s Hn He Hs Hq) as [g [H _]]. exists g. exact H. Qed.
Print Assumptions c10_core_never_fails.

(** * The contract on ALL segment trees (not only rendered ones), every statement type, every environment, both modes.
    [escape_free] is an executable conjunction of seven local shape conditions (Tree/TotalDefs.v; one counterexample tree
    per condition in Tree/TotalTop.v); the harness evaluates it on every tree the real parser produces.  Partial in one
    respect: [Err EValue] (add_edge(None, ..) when a target column has two candidate parents) is not excluded. *)
From SV Require Import Tree.TotalDefs Tree.TotalTop.
Theorem c10_total_on_all_trees_partial : forall e silent t,
  escape_free t = true ->
  match analyze e silent t with Ok _ => True | Err k => allowed_err k = true \/ k = EValue end.
Proof. exact TotalTop.c10_total_on_all_trees_partial. Qed.
Print Assumptions c10_total_on_all_trees_partial.

Theorem c10_never_out_of_fuel : forall f e k stmt,
  escape_free stmt = true -> depth stmt <= f -> extract f e k stmt empty_ctx <> Err EFuel.
Proof. exact TotalTop.extract_never_out_of_fuel. Qed.
Print Assumptions c10_never_out_of_fuel.

(** each escape condition is needed: a tree violating only it ends in IndexError *)
Theorem c10_escape_conditions_needed :
  (analyze TotalTop.env0 false cx_L1 = Err EIndex /\ escape_free cx_L1 = false) /\
  (analyze TotalTop.env0 false cx_L2 = Err EIndex /\ escape_free cx_L2 = false) /\
  (analyze TotalTop.env0 false cx_L4 = Err EIndex /\ escape_free cx_L4 = false) /\
  (analyze TotalTop.env0 false cx_L5 = Err EIndex /\ escape_free cx_L5 = false) /\
  (analyze TotalTop.env0 false cx_L6 = Err EIndex /\ escape_free cx_L6 = false).
Proof. repeat split; first [apply cx_L1_escapes|apply cx_L2_escapes|apply cx_L4_escapes|apply cx_L5_escapes|apply cx_L6_escapes]. Qed.
Print Assumptions c10_escape_conditions_needed.

(** regression witness of fix F11: the MERGE tree without an identified target, which used to end in IndexError, is analysed *)
Theorem c10_merge_without_target_repaired : (exists g, analyze TotalTop.env0 false cx_L7a = Ok g) /\ escape_free cx_L7a = true.
Proof. exact cx_L7a_repaired. Qed.
Print Assumptions c10_merge_without_target_repaired.

(** * Script level: the statement loop (session metadata, silent mode) and the assembly (DROP / RENAME handling) *)
From SV Require Import Tree.TotalScript Tree.TotalValue.

(** the assembly never raises KeyError, for any statement holders *)
Theorem c10_build_no_key_error : forall p hs, build p hs <> ErrKey.
Proof. exact build_no_key. Qed.
Print Assumptions c10_build_no_key_error.

(** whole scripts: every tree escape-free, and in every RENAME statement no later pair starts from or ends in the old name of an
    earlier pair ([script_rn_ok], executable; it is trivially true of every non-RENAME statement: extract_holder_rn_ok) - then the
    script-level result is a graph or an allowed error, in both modes, for every environment *)
Theorem c10_script_total_partial : forall e silent base stmts,
  Forall (fun t => escape_free t = true) stmts -> script_rn_ok e silent base stmts = true ->
  match script_graph e silent base stmts with Ok _ => True | Err k => allowed_err k = true \/ k = EValue end.
Proof. exact script_total. Qed.
Print Assumptions c10_script_total_partial.

(** without the RENAME guard the only additional outcome is NetworkXError (K-C10-5), and it does occur *)
Theorem c10_script_total_unguarded : forall e silent base stmts,
  Forall (fun t => escape_free t = true) stmts ->
  match script_graph e silent base stmts with Ok _ => True
  | Err k => allowed_err k = true \/ k = EValue \/ k = "NetworkXError" end.
Proof. exact script_total_unguarded. Qed.
Print Assumptions c10_script_total_unguarded.

(** statement types outside the lineage extractors (COPY, DROP, ALTER/RENAME, no-op and unsupported types): no EValue either *)
Theorem c10_total_strict_outside_lineage_types : forall e silent t,
  escape_free t = true -> mem_string (ty t) LINEAGE_TYPES = false ->
  match analyze e silent t with Ok _ => True | Err k => allowed_err k = true end.
Proof. exact TotalValue.c10_total_strict_outside_lineage_types. Qed.
Print Assumptions c10_total_strict_outside_lineage_types.

(** * No ValueError either, for query statements without a nested write site: a purely structural invariant (every has_column edge
    has a single parent equal to its source; the written datasets of a holder chain are pairwise equal) is maintained by the SELECT /
    WITH extractors - which covers every holder an INSERT / CREATE delegates to.  [nw] (executable): no SELECT .. INTO, no INSERT /
    UPDATE nested under WITH, no vertica swap function.  Top-level INSERT / CREATE / UPDATE / MERGE stay under the theorem with the
    EValue disjunct. *)
From SV Require Import Tree.TotalV2Base Tree.TotalValue2.
Theorem c10_total_queries_strict : forall e silent t,
  escape_free t = true -> nw t = true -> mem_string (ty t) QUERY_TYPES = true ->
  match analyze e silent t with Ok _ => True | Err k => allowed_err k = true end.
Proof. exact c10_total_queries_partial. Qed.
Print Assumptions c10_total_queries_strict.

(** * The contract WITHOUT the ValueError disjunct, every statement type (Tree/TotalValue3.v): under [escape_free] and the
    executable guard [nw_inner] (no SELECT .. INTO, no INSERT / UPDATE below the top-level write statement other than as the direct
    child of a top-level WITH, no vertica swap function, at most one written target in an INSERT / CREATE) analysis ends in a result
    or one of the library's own exceptions.  No tree with ValueError is known for the excluded shapes; they stay under
    c10_total_on_all_trees_partial. *)
From SV Require Import Tree.TotalValue3.
Theorem c10_total_on_all_trees_strict : forall e silent t,
  escape_free t = true -> nw_inner t = true ->
  match analyze e silent t with Ok _ => True | Err k => allowed_err k = true end.
Proof. exact TotalValue3.c10_total_on_all_trees_strict. Qed.
Print Assumptions c10_total_on_all_trees_strict.

(** script level, strict (Tree/TotalScript2.v) *)
From SV Require Import Tree.TotalScript2.
Theorem c10_script_total_strict : forall e silent base stmts,
  Forall (fun t => escape_free t = true /\ nw_inner t = true) stmts -> script_rn_ok e silent base stmts = true ->
  match script_graph e silent base stmts with Ok _ => True | Err k => allowed_err k = true end.
Proof. exact script_total_strict. Qed.
Print Assumptions c10_script_total_strict.
