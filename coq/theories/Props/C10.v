(** C10 - total error contract; silent mode skips unsupported statements. *)
From SV Require Import Tree.Observe Tree.BasicProofs Props.Witness.

(** silent mode: a statement of an unsupported type becomes an empty holder ... *)
Theorem c10_silent_unsupported : forall e s,
  mem_string (ty s) SUPPORTED_TYPES = false -> analyze e true s = Ok empty_graph.
Proof. intros e s H. rewrite (analyze_unsupported e true s H). reflexivity. Qed.
Print Assumptions c10_silent_unsupported.

(** ... otherwise the library's own exception *)
Theorem c10_unsupported_raises : forall e s,
  mem_string (ty s) SUPPORTED_TYPES = false -> analyze e false s = Err EUnsupported.
Proof. intros e s H. rewrite (analyze_unsupported e false s H). reflexivity. Qed.
Print Assumptions c10_unsupported_raises.

(** ... and an empty holder leaves the assembled result as it is without it, at any position *)
Theorem c10_silent_skip : forall p hs hs', build p (hs ++ empty_holder :: hs') = build p (hs ++ hs').
Proof. exact build_skip_empty. Qed.
Print Assumptions c10_silent_skip.

(** Regression witnesses for fixes F6 / F7: these parser-reachable trees used to make the extractors index
    past the end of a list (IndexError); the analysis now returns a holder. *)
Theorem c10_merge_values_no_error :
  exists g, analyze (mk_env "ansi" "" "" {| p_truthy := false; p_cols := [] |} []) false w_merge_values = Ok g.
Proof. eexists. vm_compute. reflexivity. Qed.
Print Assumptions c10_merge_values_no_error.

Theorem c10_vertica_swap_no_error :
  analyze (mk_env "vertica" "" "" {| p_truthy := false; p_cols := [] |} []) false w_vertica_swap = Ok empty_graph.
Proof. vm_compute. reflexivity. Qed.
Print Assumptions c10_vertica_swap_no_error.

(** On the core fragment of Lemma A the analysis never ends in an error value - in particular in none of the internal
    ones (index, key, type, assertion) the tree model makes explicit - whatever the trivia and whatever the metadata
    provider holds (Tree/LemmaAMeta.v). *)
From SV Require Import Tree.Render Tree.LemmaA Tree.LemmaAProofs Tree.LemmaAMeta.

Theorem c10_core_never_fails : forall noise e s,
  noise_ok noise = true -> env_ok_md e = true -> stmt_ok s = true -> sshape s = true ->
  exists g, analyze e false (r_stmt noise s) = Ok g.
Proof. intros noise e s Hn He Hs Hq. destruct (analysis_succeeds_any_provider noise e s Hn He Hs Hq) as [g [H _]]. exists g. exact H. Qed.
Print Assumptions c10_core_never_fails.

