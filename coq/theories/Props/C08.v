(** C08 - lineage is invariant under renaming of statement-local names.
    S-level theorem: the denotational specification (tables and column flows) of a statement does not
    change under an admissible renaming of its table aliases, derived-table aliases and CTE names.
    The first, naive formulation of admissibility was refuted by proof search (a new name may capture a
    dangling qualifier or coincide with the printed name of an un-aliased table); [admissible_cols] adds
    exactly the three missing side conditions, each shown necessary by a counterexample in
    Ast/RenameProofs.v.  The implementation is compared with the specification (C01/C02) and with itself
    under renamings on every run (metamorphic check). *)
From SV Require Import Ast.Rename Ast.RenameProofs.

Theorem c08_spec_alpha_tables : forall rho ds s, admissible rho s ->
  show_tables ds (rename_stmt rho (stmt_locals s) s) = show_tables ds s.
Proof. exact spec_alpha_tables. Qed.
Print Assumptions c08_spec_alpha_tables.

Theorem c08_spec_alpha : forall rho ds s, admissible rho s -> admissible_cols rho ds s ->
  show_spec ds (rename_stmt rho (stmt_locals s) s) = show_spec ds s.
Proof. exact spec_alpha_fixed. Qed.
Print Assumptions c08_spec_alpha.

(** the side conditions cannot be dropped *)
Theorem c08_naive_statement_refuted : ~ spec_alpha_statement.
Proof. exact spec_alpha_statement_false. Qed.
Print Assumptions c08_naive_statement_refuted.
