(** C08 - lineage is invariant under renaming of statement-local names.
    S-level theorem: the denotational specification (tables and column flows) of a statement does not
    change under an admissible renaming of its table aliases, derived-table aliases and CTE names.
    The first, naive formulation of admissibility was refuted by proof search (a new name may capture a
    dangling qualifier or coincide with the printed name of an un-aliased table); [admissible_cols] adds
    exactly the three missing side conditions, each shown necessary by a counterexample in
    Ast/RenameProofs.v.  The implementation is compared with the specification (C01/C02) and with itself
    under renamings on every run (metamorphic check). *)
From SV Require Import Ast.Rename Ast.RenameProofs.

Theorem c08_spec_alpha_tables : forall rho ds s, admissible rho s ->
  show_tables ds (rename_stmt rho (stmt_locals s) s) = show_tables ds s.
Proof. exact spec_alpha_tables. Qed.
Print Assumptions c08_spec_alpha_tables.

Theorem c08_spec_alpha : forall rho ds s, admissible rho s -> admissible_cols rho ds s ->
  show_spec ds (rename_stmt rho (stmt_locals s) s) = show_spec ds s.
Proof. exact spec_alpha_fixed. Qed.
Print Assumptions c08_spec_alpha.

(** the side conditions cannot be dropped *)
Theorem c08_naive_statement_refuted : ~ spec_alpha_statement.
Proof. exact spec_alpha_statement_false. Qed.
Print Assumptions c08_naive_statement_refuted.

(** M-level corollary (with Lemma A, Tree/LemmaAProofs.v): on the core fragment the tree walker itself reports the
    same tables for a statement and for its admissibly renamed variant, whatever trivia surrounds the tokens. *)
From SV Require Import Tree.Render Tree.LemmaA Tree.LemmaAProofs.

Theorem c08_tables_alpha_on_core : forall rho n1 n2 e s,
  admissible rho s ->
  noise_ok n1 = true -> noise_ok n2 = true -> env_ok e = true ->
  stmt_ok s = true -> sshape s = true ->
  stmt_ok (rename_stmt rho (stmt_locals s) s) = true -> sshape (rename_stmt rho (stmt_locals s) s) = true ->
  stmt_reads (analyze e false (r_stmt n1 (rename_stmt rho (stmt_locals s) s))) = stmt_reads (analyze e false (r_stmt n2 s)) /\
  stmt_writes (analyze e false (r_stmt n1 (rename_stmt rho (stmt_locals s) s))) = stmt_writes (analyze e false (r_stmt n2 s)).
Proof.
  intros rho n1 n2 e s Ha H1 H2 He Hs Hq Hs' Hq'.
  destruct (lemma_A_tables_restricted n1 e _ H1 He Hs' Hq') as [R1 W1].
  destruct (lemma_A_tables_restricted n2 e s H2 He Hs Hq) as [R2 W2].
  rewrite R1, R2, W1, W2, (spec_reads_alpha rho (e_cfg e) s Ha), spec_writes_rename. split; reflexivity.
Qed.
Print Assumptions c08_tables_alpha_on_core.

(** ... and at COLUMN level on the single-SELECT fragment (Lemma B + alpha-equivalence of the specification's flows,
    Tree/LemmaBCorollaries.v): the renamed statement needs no guard of its own beyond "the new names are plain identifiers". *)
From SV Require Import Tree.LemmaB Tree.LemmaBProofs Tree.LemmaBCorollaries Ident.Escape.

Theorem c08_columns_alpha_on_single_select : forall rho n1 n2 e s,
  admissible rho s -> admissible_cols rho (e_cfg e) s ->
  (forall a, In a (stmt_locals s) -> id_ok (rho a) = true) ->
  noise_ok n1 = true -> noise_ok n2 = true -> env_ok e = true ->
  stmt_ok s = true -> sshape s = true -> colshape s = true -> sel_tables_syntactic s = true ->
  script_pairs e false [] [r_stmt n1 (rename_stmt rho (stmt_locals s) s)] = script_pairs e false [] [r_stmt n2 s].
Proof. exact cols_alpha_on_single_select_strong. Qed.
Print Assumptions c08_columns_alpha_on_single_select.
