(** C02 - single-statement column lineage is exact.
    M = Tree/Extract.v + Holder/Build.v (tied on the parser's own trees); S = Ast/Spec.v [spec_flows].
    Proved here: the refutation witnesses of the recorded defect classes, evaluated on M.
    M = S on the guarded core grammar is checked by correspondence on every run, not proved. *)
From SV Require Import Tree.Observe Ast.Spec Props.Witness.

Definition env0 : env := mk_env "ansi" "" "" {| p_truthy := false; p_cols := [] |} [].

(** K-C02-1: a set-operation branch with an item that has no source column shifts positions *)
Theorem c02_refuted_union_literal :
  script_pairs env0 false [] [w_union_literal] =
  ["<default>.t1.a><default>.x.a"; "<default>.t2.b><default>.x.b"; "<default>.t2.c><default>.x.b"].
Proof. vm_compute. reflexivity. Qed.
Print Assumptions c02_refuted_union_literal.

(** K-C02-3: an alias is overridden by another table's bare name *)
Theorem c02_refuted_alias_shadow :
  script_pairs env0 false [] [w_alias_shadow] = ["s2.t.a><default>.x.a"].
Proof. vm_compute. reflexivity. Qed.
Print Assumptions c02_refuted_alias_shadow.

(** K-C02-2: a statement that reads its own target reports no column lineage *)
Theorem c02_refuted_self_insert : script_pairs env0 false [] [w_self_insert] = [].
Proof. vm_compute. reflexivity. Qed.
Print Assumptions c02_refuted_self_insert.

(** K-C02-4: an alias reused in another branch of a set operation captures the reference *)
Theorem c02_refuted_union_alias_reuse :
  script_pairs env0 false [] [w_union_alias_reuse] = ["<default>.t4.k><default>.x.k"; "<default>.t4.z><default>.x.k"].
Proof. vm_compute. reflexivity. Qed.
Print Assumptions c02_refuted_union_alias_reuse.

(** K-C02-6: the first relation of a parenthesised join group loses its alias *)
Theorem c02_refuted_group_alias : script_pairs env0 false [] [w_group_alias] = ["<default>.r.x><default>.o.x"].
Proof. vm_compute. reflexivity. Qed.
Print Assumptions c02_refuted_group_alias.

(** K-C02-5: an unqualified column with two relations in scope is attributed to one of them because
    that table's column of the same name is referenced elsewhere *)
Theorem c02_refuted_guess :
  script_pairs env0 false [] [w_guess] = ["s.a.k><default>.x.k"; "s.a.k><default>.x.k2"].
Proof. vm_compute. reflexivity. Qed.
Print Assumptions c02_refuted_guess.

(** the specification on the same statements (what the property prescribes) *)
Example c02_spec_on_witnesses :
  show_flows "" (SInsert (None, "x") None
     (QUnion (QSelect [IExpr ELit None; IExpr (EColRef None "a") None] [RTable (None, "t1") None] false None)
             (QSelect [IExpr (EColRef None "b") None; IExpr (EColRef None "c") None] [RTable (None, "t2") None] false None)))
  = "<default>.t1.a><default>.x.a;<default>.t2.b><default>.x.<expr>;<default>.t2.c><default>.x.a" /\
  show_flows "" (SInsert (None, "x") None
     (QSelect [IExpr (EColRef (Some "t") "a") None] [RTable (Some "s1", "t") (Some "t"); RTable (Some "s2", "t") (Some "u")] false None))
  = "s1.t.a><default>.x.a" /\
  show_flows "" (SInsert (None, "x") None
     (QSelect [IExpr (EColRef None "k") None; IExpr (EColRef (Some "p") "k") (Some "k2")]
              [RTable (Some "s", "a") (Some "p"); RTable (Some "s", "b") (Some "q")] false None))
  = "k{s.a,s.b}><default>.x.k;s.a.k><default>.x.k2".
Proof. repeat split. Qed.
Print Assumptions c02_spec_on_witnesses.

(** * Lemma B (columns), steps 1-4: exactness of the end-to-end column pairs on single-SELECT statements.
    For every trivia list, every metadata-free environment and every INSERT (with or without column list) /
    CREATE TABLE AS / CREATE VIEW AS over ONE SELECT without WHERE from any number of distinct base tables (explicit or comma
    joins), with any number of items - column references qualified or not, stars, item aliases - inside the guards
    [stmt_ok], [colshape] (executable; Tree/LemmaB.v) the whole pipeline of the model (extractors, statement loop,
    assembly, path enumeration: [script_pairs]) reports exactly the pairs the specification [spec_flows] prescribes.
    Proof: Tree/LemmaBProofs.v (3 800 lines).  The unguarded statement is refuted by 18 counterexample classes kept there
    ([cxB_*]): 8 are recorded defects of the implementation (three of them new: K-C02-9/10/11), the rest invalid SQL or
    artefacts of the specification; [colshape] excludes exactly those.  Not proved: derived tables, WITH, UNION, WHERE-IN
    at column level (checked by correspondence on every run). *)
From SV Require Import Tree.Render Tree.LemmaA Tree.LemmaAProofs Tree.LemmaB Tree.LemmaBProofs.

Theorem c02_exact_on_single_select : forall noise e s,
  noise_ok noise = true -> env_ok e = true -> stmt_ok s = true -> sshape s = true -> colshape s = true ->
  sel_tables_syntactic s = true ->
  script_pairs e false [] [r_stmt noise s] = spec_pairs (e_cfg e) s.
Proof. exact lemma_B_tables_colshape. Qed.
Print Assumptions c02_exact_on_single_select.

Theorem c02_unguarded_refuted : ~ lemma_B_unguarded.
Proof. exact lemma_B_statement_refuted. Qed.
Print Assumptions c02_unguarded_refuted.

Example c02_lemma_B_nonvacuous :
  let s := SInsert (Some "s3", "out1") (Some ["c0"; "c1"; "c2"])
             (QSelect [IExpr (EColRef (Some "p") "x") None; IExpr (EColRef None "u1") (Some "k"); IExpr (EColRef (Some "t2") "y") (Some "z")]
                      [RTable (Some "s1", "t1") (Some "p"); RTable (None, "t2") None] false None) in
  stmt_ok s && sshape s && colshape s && sel_tables_syntactic s && env_ok env0 = true
  /\ spec_pairs "" s = ["<default>.t2.y>s3.out1.c2"; "s1.t1.x>s3.out1.c0"; "u1{<default>.t2,s1.t1}>s3.out1.c1"].
Proof. split; vm_compute; reflexivity. Qed.

(** * Lemma B, step 5a (partial): a SELECT with WHERE c IN (sub-query) (Tree/LemmaB5a.v, 1 700 lines).
    The sub-query's tables are read, its holder is composed into the statement's holder (shared tables are stored once,
    with the sub-query's alias labels), and it contributes no end-to-end column pair - as the specification says.  Proved
    for arbitrary trivia, any number of items and tables in both scopes, shared tables under equal or different aliases,
    under the executable syntactic guard [wherein1_shape] (the conditions of steps 1-4 for both scopes; no unresolved column
    in the sub-query; K-C02-8 and K-C02-5 across scopes in executable form).  NOT yet proved: that [colshape] implies
    [wherein1_shape] (checked on 16 instances), INSERT column lists, nested WHERE. *)
From SV Require Import Tree.LemmaB5a Tree.LemmaB5a2 Tree.LemmaB5a3.

Theorem c02_exact_on_select_where_in_partial : forall noise e s,
  noise_ok noise = true -> env_ok e = true -> stmt_ok s = true -> wherein1_shape s = true ->
  script_pairs e false [] [r_stmt noise s] = spec_pairs (e_cfg e) s.
Proof. exact lemma_B_wherein1_restricted. Qed.
Print Assumptions c02_exact_on_select_where_in_partial.

(** ... and as an instance of [lemma_B_statement]: under [colshape] on the purely syntactic fragment
    [sel_wherein1c_syntactic] (INSERT with or without column list / CTAS / VIEW over SELECT from distinct base tables WHERE c IN
    (SELECT from distinct base tables), the sub-query's unqualified references over one table only); all other conditions
    are derived from [colshape] (Tree/LemmaB5a2.v) *)
Theorem c02_exact_on_select_where_in : forall noise e s,
  noise_ok noise = true -> env_ok e = true -> stmt_ok s = true -> sshape s = true -> colshape s = true ->
  sel_wherein1c_syntactic s = true ->
  script_pairs e false [] [r_stmt noise s] = spec_pairs (e_cfg e) s.
Proof. exact lemma_B_wherein1c_colshape. Qed.
Print Assumptions c02_exact_on_select_where_in.

(** ... and without the restriction on the sub-query's references (unresolved columns in both scopes), on the purely
    syntactic shape [wherein1_syntactic] (INSERT without column list / CTAS / VIEW): the unconditional instance of
    [lemma_B_statement] for one level of WHERE .. IN (Tree/LemmaB5a4.v) *)
From SV Require Import Tree.LemmaB5a4.
Theorem c02_exact_on_select_where_in_any_references : forall noise e s,
  noise_ok noise = true -> env_ok e = true -> stmt_ok s = true -> sshape s = true -> colshape s = true ->
  wherein1_syntactic s = true ->
  script_pairs e false [] [r_stmt noise s] = spec_pairs (e_cfg e) s.
Proof. exact lemma_B_wherein1u_colshape. Qed.
Print Assumptions c02_exact_on_select_where_in_any_references.

(** * Lemma B, step 5c (partial): a derived table (Tree/LemmaB5cPaths.v, Tree/LemmaB5c.v, 1 900 lines).
    Part P is generalised from bipartite flows to any ranked (layered, acyclic) flow set: the reported pairs are the ends of
    the maximal chains; a chain that ends in a sub-query column (a column of the derived table that the outer query does not
    select) contributes nothing.  With it: INSERT / CTAS / VIEW over SELECT items FROM (SELECT items' FROM base tables) d -
    any number of inner tables joined any way, inner items qualified, unqualified (unresolved) or aliased, outer items d.c
    or c, dead ends, any trivia - reports exactly the specified pairs (composition by substitution).
    The unguarded [lemma_B_statement] is REFUTED by a rendering artefact: with empty trivia two different sub-queries can
    have the same raw text ("(selectaasbfromt)"), and sub-query nodes are compared by raw text; the real parser always
    leaves whitespace between keyword tokens, so this is not a defect of the implementation; the repair is the
    executable guard [sq_raw_distinct].  NOT yet proved: several relations in FROM next to a derived table, nesting,
    INSERT column lists with derived tables, the link from [colshape] to [one_derived_shape]. *)
From SV Require Import Tree.LemmaB5cPaths Tree.LemmaB5c.

Theorem c02_exact_on_one_derived_table_partial : forall noise e s,
  noise_ok noise = true -> env_ok e = true -> one_derived_shape s = true ->
  script_pairs e false [] [r_stmt noise s] = spec_pairs (e_cfg e) s.
Proof. exact lemma_B_one_derived_restricted. Qed.
Print Assumptions c02_exact_on_one_derived_table_partial.

Theorem c02_lemma_B_statement_needs_distinct_subquery_text : ~ lemma_B_statement.
Proof. exact lemma_B_statement_refuted_5c. Qed.
Print Assumptions c02_lemma_B_statement_needs_distinct_subquery_text.

(** * Lemma B, step 5b (partial): UNION of two plain SELECTs (Tree/LemmaB5b*.v, 6 files).
    INSERT with or without column list / CTAS / VIEW over q1 UNION [ALL] q2, each branch a SELECT from any number of
    distinct base tables (joins, comma joins, qualified / unqualified / unresolved references, stars, item aliases), any
    trivia: the first branch creates the target columns, the second is matched to them by position, and the reported pairs
    are those of the specification's [zip_union].  Extra hypothesis [union_alias_coherent] (a table read in both branches
    carries the same alias in both) is a limit of the proof technique, not of the statement: exhaustive enumeration of 52 400
    union statements (coq/extra/LemmaB5bEnum.v) finds no failing instance inside [colshape]. *)
From SV Require Import Tree.LemmaB5b Tree.LemmaB5b2.

Theorem c02_exact_on_union_partial : forall noise e s,
  noise_ok noise = true -> env_ok e = true -> stmt_ok s = true -> sshape s = true -> colshape s = true ->
  sel_union_syntactic s = true -> union_alias_coherent s = true ->
  script_pairs e false [] [r_stmt noise s] = spec_pairs (e_cfg e) s.
Proof. exact lemma_B_union_partial. Qed.
Print Assumptions c02_exact_on_union_partial.

(** ... and without the extra hypothesis (Tree/LemmaB5b2*.v: the alias mapping and the source columns are redone up to
    Python equality of datasets, so the same table may be read by both branches under different aliases; K-C02-4 is derived
    from [colshape] at Prop level): the full instance of [lemma_B_statement] for UNION of two plain SELECTs. *)
Theorem c02_exact_on_union : forall noise e s,
  noise_ok noise = true -> env_ok e = true -> stmt_ok s = true -> sshape s = true -> colshape s = true ->
  sel_union_syntactic s = true ->
  script_pairs e false [] [r_stmt noise s] = spec_pairs (e_cfg e) s.
Proof. exact lemma_B_union. Qed.
Print Assumptions c02_exact_on_union.

(** ... step 5c continued (Tree/LemmaB5c2.v): FROM lists of ANY number of relations, each a base table or a depth-1 derived
    table (SELECT plain columns FROM base tables), comma joins or explicit JOINs, any trivia; induction over the sub-query
    list with an invariant on the statement holder.  Executable guard [derived_flat_shape] (contains [sq_raw_distinct];
    each base table occurs once; outer items qualified; no unresolved inner columns; inner JOIN clauses do not leak into an
    outer explicit JOIN; no INSERT column list) - stronger than [colshape], see the file's open list. *)
From SV Require Import Tree.LemmaB5c2.

Theorem c02_exact_on_flat_derived_tables_partial : forall noise e s,
  noise_ok noise = true -> env_ok e = true -> derived_flat_shape noise s = true ->
  script_pairs e false [] [r_stmt noise s] = spec_pairs (e_cfg e) s.
Proof. exact lemma_B_derived_flat_restricted. Qed.
Print Assumptions c02_exact_on_flat_derived_tables_partial.

(** ... step 5c, third part (Tree/LemmaB5c3.v): the one-derived-table case as an UNCONDITIONAL instance of the (repaired)
    [lemma_B_statement] - all conditions derived from [colshape]; the only extra clause is the one [sel_tables_syntactic]
    also has (no base table twice inside the derived table) - and the flat fragment with unresolved inner columns. *)
From SV Require Import Tree.LemmaB5c3.

Theorem c02_exact_on_one_derived_table : forall noise e s,
  noise_ok noise = true -> env_ok e = true -> stmt_ok s = true -> sshape s = true -> colshape s = true ->
  one_derived_syntactic2 s = true -> script_pairs e false [] [r_stmt noise s] = spec_pairs (e_cfg e) s.
Proof. exact lemma_B_one_derived_colshape. Qed.
Print Assumptions c02_exact_on_one_derived_table.

Theorem c02_exact_on_flat_derived_tables_unresolved_partial : forall noise e s,
  noise_ok noise = true -> env_ok e = true -> derived_flat_shape_u noise s = true ->
  script_pairs e false [] [r_stmt noise s] = spec_pairs (e_cfg e) s.
Proof. exact lemma_B_derived_flat_u_restricted. Qed.
Print Assumptions c02_exact_on_flat_derived_tables_unresolved_partial.

(** one level of WHERE .. IN, closed: INSERT with or without column list / CTAS / VIEW, unresolved columns in both scopes -
    the unconditional instance of [lemma_B_statement] on the pure shape [wherein1c_syntactic] (Tree/LemmaB5a5.v) *)
From SV Require Import Tree.LemmaB5a5.
Theorem c02_exact_on_select_where_in_full : forall noise e s,
  noise_ok noise = true -> env_ok e = true -> stmt_ok s = true -> sshape s = true -> colshape s = true ->
  wherein1c_syntactic s = true -> script_pairs e false [] [r_stmt noise s] = spec_pairs (e_cfg e) s.
Proof. exact lemma_B_wherein1cu_colshape. Qed.
Print Assumptions c02_exact_on_select_where_in_full.

(** * Lemma B, step 5d (partial): a CTE (Tree/LemmaB5d*.v).  INSERT without column list / CTAS / VIEW over
    WITH n AS (SELECT plain columns FROM distinct base tables) SELECT columns FROM n [AS a] - the CTE with item aliases, joins,
    unresolved columns, dead-end columns, duplicate output names; outer items n.col, a.col or col; any trivia.  The holder is
    composed in the reverse order of a derived table's (the body is delegated before the definition is extracted), and with an
    alias the body reads a second SubQuery object equal to the definition's as a graph node.  K-C02-9 (star over a CTE) is
    excluded by [colshape].  Not proved: INSERT column list, the CTE joined with base tables or referenced twice, stars. *)
From SV Require Import Tree.LemmaB5d.

Theorem c02_exact_on_one_cte_partial : forall noise e s,
  noise_ok noise = true -> env_ok e = true -> one_cte_shape s = true ->
  script_pairs e false [] [r_stmt noise s] = spec_pairs (e_cfg e) s.
Proof. exact lemma_B_one_cte. Qed.
Print Assumptions c02_exact_on_one_cte_partial.

(** * Expression items: functions, arithmetic, CASE, CAST, window functions, nested to any depth
    ([Tree/RenderExpr.v]: the parser's layout of the expression forms, validated against the real parser on every run -
    suite T3-render-expr; [Tree/ExprItem.v], [Tree/LemmaBExpr.v], [Tree/LemmaBExpr2.v]). *)
From SV Require Import Tree.RenderExpr Tree.ExprItem Tree.LemmaBExpr Tree.LemmaBExpr2.

(** one select item: an aliased expression of ANY depth yields the column named by the alias whose sources are exactly the
    column references of the expression ([ops_srcs]: the model's list, with its order and duplicates; as a set = [col_refs]) *)
Theorem c02_expression_item_sources : forall noise e f ex a,
  noise_ok noise = true -> env_ok e = true -> expr_ok ex = true -> id_ok a = true -> expr_fuel ex <= f ->
  column_of_seg (S f) e (r_item_x noise (IExpr ex (Some a))) = Ok (mk_xcol a (ops_srcs ex) true).
Proof. exact column_of_seg_expr_exact. Qed.
Print Assumptions c02_expression_item_sources.

Theorem c02_expression_sources_are_its_column_references : forall ex x,
  In x (ops_srcs ex) <-> In x (map swap_ref (col_refs ex)).
Proof. exact ops_srcs_set. Qed.
Print Assumptions c02_expression_sources_are_its_column_references.

(** whole pipeline: INSERT (with or without column list) / CTAS / VIEW over one SELECT from base tables whose items are stars,
    column references or ALIASED expressions: the end-to-end column pairs are the specified ones, for any trivia, any number of
    tables and items, expressions of any depth *)
From SV Require Import Tree.LemmaBExpr3.
Theorem c02_exact_on_single_select_with_expressions : forall noise e s,
  noise_ok noise = true -> env_ok e = true -> stmt_ok_x s = true -> colshape s = true ->
  script_pairs e false [] [r_stmt_x noise s] = spec_pairs (e_cfg e) s.
Proof. exact lemma_Bx. Qed.
Print Assumptions c02_exact_on_single_select_with_expressions.

(** without [colshape] it is false (a qualified and an unqualified reference to the same name in one expression) *)
Theorem c02_expressions_unguarded_refuted : ~ lemma_Bx_unguarded.
Proof. exact lemma_Bx_unguarded_refuted. Qed.
Print Assumptions c02_expressions_unguarded_refuted.

(** * UPDATE and MERGE at column level (Ast/SpecDmlCols.v: the dataflow of an UPDATE is that of CREATE TABLE t AS SELECT [q.]b AS a ..
    FROM the FROM list; of a MERGE that of SELECT set items ++ insert columns := values FROM the USING source; Tree/LemmaBDml.v).
    For any trivia, any number of assignments and tables.  Partial: MERGE with a derived-table source and UPDATE over derived
    tables are tested, not proved.  The unguarded statement is refuted by five classes; two are defects of the implementation found
    by this proof attempt (K-C02-12: the alias of an UPDATE target is not resolved; K-C02-13: MERGE ignores the qualifier of a
    source column). *)
From SV Require Import Ast.SpecDml Ast.SpecDmlCols Tree.RenderDml Tree.LemmaADmlDefs Tree.LemmaBDml.

Theorem c02_exact_on_update_and_merge_partial : forall noise e d,
  noise_ok noise = true -> env_ok e = true -> dml_cols_ok d = true ->
  script_pairs e false [] [r_dml noise d] = dml_pairs (e_cfg e) d.
Proof. exact lemma_B_dml. Qed.
Print Assumptions c02_exact_on_update_and_merge_partial.

Theorem c02_update_merge_unguarded_refuted : ~ lemma_B_dml_unguarded.
Proof. exact lemma_B_dml_unguarded_refuted. Qed.
Print Assumptions c02_update_merge_unguarded_refuted.

(** MERGE with a derived-table source (Tree/LemmaBDmlDerived.v): proved on the model side (model_pairs_merge_derived); the equation
    with the specification is PARTIAL - it takes the semantic side conditions of the one-derived-table theorem as hypotheses *)
From SV Require Import Tree.LemmaBDmlDerived Tree.LemmaBDmlDerived2.
Theorem c02_exact_on_update_and_merge_incl_derived_source : forall noise e d,
  noise_ok noise = true -> env_ok e = true -> dml_cols_ok2 d = true ->
  script_pairs e false [] [r_dml noise d] = dml_pairs (e_cfg e) d.
Proof. exact lemma_B_dml2. Qed.
Print Assumptions c02_exact_on_update_and_merge_incl_derived_source.

(** SELECT .. INTO at column level = the CTAS with the same select (Tree/LemmaBInto.v) *)
From SV Require Import Tree.LemmaBInto.
Theorem c02_exact_on_select_into : forall noise e t items from cj,
  noise_ok noise = true -> env_ok e = true ->
  let s := SCtas t (QSelect items from cj None) in
  stmt_ok s = true -> sshape s = true -> colshape s = true -> sel_tables_syntactic s = true ->
  script_pairs e false [] [r_dml noise (DSelectInto t items from cj None)] = spec_pairs (e_cfg e) s.
Proof. exact lemma_B_select_into. Qed.
Print Assumptions c02_exact_on_select_into.

(** CTE chains at column level (Tree/LemmaBChain{,2}.v): length 1 proved through the chain renderer; the general statement under
    chain_cols_ok is REFUTED (K-C02-14: a literal item of a CTE definition is reported as an end-to-end source) and repaired by the
    guard defs_have_sources, which is tested (lengths 2-4), not proved *)
From SV Require Import Tree.RenderChain Tree.LemmaAChain Tree.LemmaBChain Tree.LemmaBChain2.
Theorem c02_exact_on_one_cte_chain_rendering : forall noise e s,
  noise_ok noise = true -> env_ok e = true -> one_cte_shape s = true ->
  script_pairs e false [] [r_stmt_c noise s] = spec_pairs (e_cfg e) s.
Proof. exact lemma_B_chain_one. Qed.
Print Assumptions c02_exact_on_one_cte_chain_rendering.

Theorem c02_cte_chain_columns_refuted : ~ lemma_B_chain_statement.
Proof. exact lemma_B_chain_statement_refuted. Qed.
Print Assumptions c02_cte_chain_columns_refuted.
