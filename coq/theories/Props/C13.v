(** C13 - metadata only refines column attribution (refutation witnesses; see also Props of C05). *)
From SV Require Import Tree.Observe Props.Witness.

Definition env_md : env := mk_env "ansi" "" "" {| p_truthy := true; p_cols := [] |} [].
Definition env_none : env := mk_env "ansi" "" "" {| p_truthy := false; p_cols := [] |} [].

(** K-C13-1: with the target's metadata known, an explicit INSERT column list does not win *)
Theorem c13_refuted_explicit_list :
  script_pairs env_md false [("s.x", ["c1"; "c2"])] [w_explicit_list] = ["s.t1.a>s.x.a"; "s.t1.b>s.x.b"] /\
  script_pairs env_none false [] [w_explicit_list] = ["s.t1.a>s.x.p"; "s.t1.b>s.x.q"].
Proof. split; vm_compute; reflexivity. Qed.
Print Assumptions c13_refuted_explicit_list.

(** K-C13-2: metadata changes table-level lineage through DROP's degree test *)
Theorem c13_refuted_drop :
  script_targets env_md false [("s.t", ["a"])] [w_insert_values; w_drop] = ["s.t"] /\
  script_targets env_none false [] [w_insert_values; w_drop] = [].
Proof. split; vm_compute; reflexivity. Qed.
Print Assumptions c13_refuted_drop.

(** A provider that has no metadata (it is falsy) is never consulted: whatever it would answer, the
    analysis is the same (this is the "unknown tables get the same answer" clause for a provider that
    knows nothing at all; for a provider that knows other tables it is checked by correspondence). *)
From SV Require Import Tree.ProviderProofs.
Theorem c13_no_metadata_same : forall e e' silent s,
  same_but_cols e e' -> analyze e silent s = analyze e' silent s.
Proof. exact analyze_falsy_provider. Qed.
Print Assumptions c13_no_metadata_same.

(** "Supplying table metadata never changes table-level lineage", proved on the core fragment of Lemma A for an
    ARBITRARY provider (any tables, any column lists - no well-formedness of the catalog is needed), any trivia,
    statements of any size (Tree/LemmaAMeta.v).  Outside the fragment the clause is refuted in general
    ([c13_refuted_drop] above: DROP with metadata). *)
From SV Require Import Tree.Render Tree.LemmaA Tree.LemmaAProofs Tree.LemmaAMeta.

Theorem c13_metadata_never_changes_tables_on_core : forall noise e p s,
  noise_ok noise = true -> env_ok_md e = true -> stmt_ok s = true -> sshape s = true ->
  stmt_reads (analyze (with_provider e p) false (r_stmt noise s)) = stmt_reads (analyze e false (r_stmt noise s)) /\
  stmt_writes (analyze (with_provider e p) false (r_stmt noise s)) = stmt_writes (analyze e false (r_stmt noise s)).
Proof.
  intros noise e p s Hn He Hs Hq.
  destruct (metadata_never_changes_tables noise e (with_provider e p) s eq_refl eq_refl eq_refl eq_refl Hn He Hs Hq) as [R W].
  split; symmetry; assumption.
Qed.
Print Assumptions c13_metadata_never_changes_tables_on_core.

(** ... and the table lineage is the specified one, and the analysis does not fail, whatever the catalog says *)
Theorem c13_exact_tables_any_provider : forall noise e s,
  noise_ok noise = true -> env_ok_md e = true -> stmt_ok s = true -> sshape s = true ->
  stmt_reads (analyze e false (r_stmt noise s)) = sort_strings (spec_reads (e_cfg e) s) /\
  stmt_writes (analyze e false (r_stmt noise s)) = sort_strings (spec_writes (e_cfg e) s).
Proof. exact lemma_A_tables_any_provider. Qed.
Print Assumptions c13_exact_tables_any_provider.

Theorem c13_analysis_succeeds_any_provider : forall noise e s,
  noise_ok noise = true -> env_ok_md e = true -> stmt_ok s = true -> sshape s = true ->
  exists g, analyze e false (r_stmt noise s) = Ok g.
Proof. intros noise e s Hn He Hs Hq. destruct (analysis_succeeds_any_provider noise e s Hn He Hs Hq) as [g [H _]]. exists g. exact H. Qed.
Print Assumptions c13_analysis_succeeds_any_provider.

(** * Column level with a provider (Ast/SpecMeta.v: the specification with a catalog; Tree/LemmaBMeta.v, 1 900 lines).
    On the single-SELECT fragment of Lemma B, for an arbitrary catalog [base], any trivia, any number of items and tables:
    (d) when the catalog knows none of the statement's tables the whole pipeline reports what it reports without metadata
        (and that is the specification);
    (c) an INSERT without column list into a table whose columns the catalog knows reports what the same INSERT with the
        catalog's columns as explicit list reports (the catalog names the positions);
    the unguarded column-level statement with metadata is refuted (16 counterexample classes in Tree/LemmaBMeta.v, module
    CxMd; the ones that are defects of the implementation are K-C13-1/3/4 and K-C11-1, replayed on every run).
    NOT proved: clause (a) star expansion against the specification ([c13_star_expands_statement], tested on 7 680 instances),
    the specification side of clause (b) (the model side is [c13_unqualified_attribution]). *)
From SV Require Import Ast.SpecMeta Tree.LemmaB Tree.LemmaBProofs Tree.LemmaBMeta.

Theorem c13_unknown_tables_same_answer : forall noise e base s,
  noise_ok noise = true -> env_ok_md e = true -> stmt_ok s = true -> sshape s = true -> colshape s = true ->
  sel_tables_syntactic s = true -> md_unknown (e_cfg e) base s = true ->
  script_pairs e false base [r_stmt noise s] = script_pairs (LemmaAMeta.strip e) false [] [r_stmt noise s] /\
  script_pairs e false base [r_stmt noise s] = spec_pairs_md (e_cfg e) base s.
Proof.
  intros noise e base s Hn He Hok Hss Hc Hsh Hu. split.
  - exact (c13_unknown_tables_same noise e base s Hn He Hok Hss Hc Hsh Hu).
  - exact (lemma_B_md_unknown noise e base s Hn He Hok Hss Hc Hsh Hu).
Qed.
Print Assumptions c13_unknown_tables_same_answer.

Theorem c13_known_target_names_positions : forall noise e base t tc items from cj,
  let s1 := SInsert t None (QSelect items from cj None) in
  let s2 := SInsert t (Some tc) (QSelect items from cj None) in
  noise_ok noise = true -> env_ok_md e = true -> p_truthy (e_provider e) = true ->
  stmt_ok s2 = true -> sshape s2 = true -> colshape s2 = true -> sel_tables_syntactic s2 = true ->
  items_plain_b items = true ->
  known base (tref_str (e_cfg e) t) = Some tc ->
  script_pairs e false base [r_stmt noise s1] = script_pairs e false (remove_key (tref_str (e_cfg e) t) base) [r_stmt noise s2].
Proof. exact c13_insert_positions. Qed.
Print Assumptions c13_known_target_names_positions.

Theorem c13_columns_with_metadata_unguarded_refuted : ~ lemma_B_md_unguarded.
Proof. exact lemma_B_md_unguarded_refuted. Qed.
Print Assumptions c13_columns_with_metadata_unguarded_refuted.

(** (a) SELECT * / q.* over a table whose columns the catalog knows contributes exactly the catalog's columns
    (Tree/LemmaBMeta2.v: the exact holder after end_of_query_cleanup + expand_wildcard incl. the two node removals) *)
From SV Require Import Tree.LemmaBMeta2 Ident.Escape.

Theorem c13_star_expands_to_catalog_columns : forall noise e base (s : stmt) t qq from cj,
  noise_ok noise = true -> env_ok_md e = true -> p_truthy (e_provider e) = true ->
  (s = SInsert t None (QSelect [IStar qq] from cj None) /\ is_known base (tref_str (e_cfg e) t) = false
   \/ s = SCtas t (QSelect [IStar qq] from cj None) \/ s = SView t (QSelect [IStar qq] from cj None)) ->
  stmt_ok s = true -> sshape s = true -> colshape s = true -> sel_tables_syntactic s = true ->
  (forall r, In r from -> match qq with Some q => rname r = q | None => True end ->
             exists cols, rel_known (e_cfg e) base r = Some cols /\ forallb id_ok cols = true) ->
  script_pairs e false base [r_stmt noise s] = spec_pairs_md (e_cfg e) base s.
Proof. exact c13_star_expands. Qed.
Print Assumptions c13_star_expands_to_catalog_columns.

(** (c) against the specification: INSERT without column list into a known target from unknown sources reports the
    specified pairs (the catalog names the positions) *)
Theorem c13_known_target_names_positions_spec : forall noise e base t tc items from cj,
  let s1 := SInsert t None (QSelect items from cj None) in let s2 := SInsert t (Some tc) (QSelect items from cj None) in
  noise_ok noise = true -> env_ok_md e = true -> p_truthy (e_provider e) = true ->
  stmt_ok s2 = true -> sshape s2 = true -> colshape s2 = true -> sel_tables_syntactic s2 = true ->
  items_plain_b items = true -> known base (tref_str (e_cfg e) t) = Some tc ->
  forallb (fun r => negb (rel_is_known (e_cfg e) base r)) from = true ->
  script_pairs e false base [r_stmt noise s1] = spec_pairs_md (e_cfg e) base s1.
Proof. exact c13_insert_positions_spec. Qed.
Print Assumptions c13_known_target_names_positions_spec.

(** (b) + (c) against the specification for every statement of the fragment whose select items are plain column references
    (Tree/LemmaBMeta3.v): an unqualified column over several tables is attributed to exactly the in-scope tables whose
    catalog entry lists it (unknown tables are dropped once somebody lists it; if nobody lists it, it stays unresolved),
    a known target names the positions, explicit column lists, and all combinations - with an arbitrary catalog inside the
    executable guard [md_ok] (which excludes exactly the recorded classes K-C13-1/3/4, K-C11-1 and invalid arities). *)
From SV Require Import Tree.LemmaBMeta3.
Theorem c13_columns_exact_with_metadata_plain_items : forall noise e base s,
  noise_ok noise = true -> env_ok_md e = true -> p_truthy (e_provider e) = true ->
  stmt_ok s = true -> sshape s = true -> colshape s = true -> sel_tables_syntactic s = true ->
  md_ok (e_cfg e) base s = true -> items_plain_s s = true ->
  script_pairs e false base [r_stmt noise s] = spec_pairs_md (e_cfg e) base s.
Proof. exact lemma_B_md_plain. Qed.
Print Assumptions c13_columns_exact_with_metadata_plain_items.

(** * UPDATE / MERGE / SELECT .. INTO under an ARBITRARY metadata provider (Tree/LemmaADmlMeta.v): the table-level answer is the
    specified one whatever the catalog holds, and two environments that differ only in the provider report the same tables. *)
From SV Require Import Ast.SpecDml Tree.RenderDml Tree.LemmaADmlDefs Tree.LemmaADmlMeta.
Theorem c13_exact_tables_any_provider_update_merge_select_into : lemma_A_dml_md_statement dml_ok.
Proof. exact lemma_A_dml_any_provider. Qed.
Print Assumptions c13_exact_tables_any_provider_update_merge_select_into.

Theorem c13_metadata_never_changes_tables_of_update_merge : forall noise e e' d,
  e_cfg e' = e_cfg e -> e_icfg e' = e_icfg e -> e_vertica e' = e_vertica e -> e_scalar e' = e_scalar e ->
  noise_ok noise = true -> env_ok_md e = true -> dml_ok_base d = true ->
  stmt_reads (analyze e false (r_dml noise d)) = stmt_reads (analyze e' false (r_dml noise d)) /\
  stmt_writes (analyze e false (r_dml noise d)) = stmt_writes (analyze e' false (r_dml noise d)).
Proof. exact metadata_never_changes_dml. Qed.
Print Assumptions c13_metadata_never_changes_tables_of_update_merge.

(** * the expression fragment (functions, arithmetic, CASE, CAST, window items at every nesting level; Tree/LemmaAExprMeta.v) under an
    ARBITRARY provider: table-level lineage is the specified one, and does not depend on the provider *)
From SV Require Import Tree.RenderExpr Tree.LemmaAExprMeta.
Theorem c13_exact_tables_any_provider_with_expressions : forall noise e s,
  noise_ok noise = true -> env_ok_md e = true -> XMd.stmt_ok_a s = true -> LemmaAProofs.sshape s = true ->
  stmt_reads (analyze e false (r_stmt_x noise s)) = sort_strings (spec_reads (e_cfg e) s) /\
  stmt_writes (analyze e false (r_stmt_x noise s)) = sort_strings (spec_writes (e_cfg e) s).
Proof. exact lemma_A_tables_x_any_provider. Qed.
Print Assumptions c13_exact_tables_any_provider_with_expressions.

Theorem c13_metadata_never_changes_tables_with_expressions : forall noise e p s,
  noise_ok noise = true -> env_ok_md e = true -> XMd.stmt_ok_a s = true -> LemmaAProofs.sshape s = true ->
  stmt_reads (analyze (with_provider e p) false (r_stmt_x noise s)) = stmt_reads (analyze e false (r_stmt_x noise s)) /\
  stmt_writes (analyze (with_provider e p) false (r_stmt_x noise s)) = stmt_writes (analyze e false (r_stmt_x noise s)).
Proof. exact metadata_never_changes_tables_x_with_provider. Qed.
Print Assumptions c13_metadata_never_changes_tables_with_expressions.
