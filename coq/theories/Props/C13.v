(** C13 - metadata only refines column attribution (refutation witnesses; see also Props of C05). *)
From SV Require Import Tree.Observe Props.Witness.

Definition env_md : env := mk_env "ansi" "" "" {| p_truthy := true; p_cols := [] |} [].
Definition env_none : env := mk_env "ansi" "" "" {| p_truthy := false; p_cols := [] |} [].

(** K-C13-1: with the target's metadata known, an explicit INSERT column list does not win *)
Theorem c13_refuted_explicit_list :
  script_pairs env_md false [("s.x", ["c1"; "c2"])] [w_explicit_list] = ["s.t1.a>s.x.a"; "s.t1.b>s.x.b"] /\
  script_pairs env_none false [] [w_explicit_list] = ["s.t1.a>s.x.p"; "s.t1.b>s.x.q"].
Proof. split; vm_compute; reflexivity. Qed.
Print Assumptions c13_refuted_explicit_list.

(** K-C13-2: metadata changes table-level lineage through DROP's degree test *)
Theorem c13_refuted_drop :
  script_targets env_md false [("s.t", ["a"])] [w_insert_values; w_drop] = ["s.t"] /\
  script_targets env_none false [] [w_insert_values; w_drop] = [].
Proof. split; vm_compute; reflexivity. Qed.
Print Assumptions c13_refuted_drop.

(** A provider that has no metadata (it is falsy) is never consulted: whatever it would answer, the
    analysis is the same (this is the "unknown tables get the same answer" clause for a provider that
    knows nothing at all; for a provider that knows other tables it is checked by correspondence). *)
From SV Require Import Tree.ProviderProofs.
Theorem c13_no_metadata_same : forall e e' silent s,
  same_but_cols e e' -> analyze e silent s = analyze e' silent s.
Proof. exact analyze_falsy_provider. Qed.
Print Assumptions c13_no_metadata_same.

(** "Supplying table metadata never changes table-level lineage", proved on the core fragment of Lemma A for an
    ARBITRARY provider (any tables, any column lists - no well-formedness of the catalog is needed), any trivia,
    statements of any size (Tree/LemmaAMeta.v).  Outside the fragment the clause is refuted in general
    ([c13_refuted_drop] above: DROP with metadata). *)
From SV Require Import Tree.Render Tree.LemmaA Tree.LemmaAProofs Tree.LemmaAMeta.

Theorem c13_metadata_never_changes_tables_on_core : forall noise e p s,
  noise_ok noise = true -> env_ok_md e = true -> stmt_ok s = true -> sshape s = true ->
  stmt_reads (analyze (with_provider e p) false (r_stmt noise s)) = stmt_reads (analyze e false (r_stmt noise s)) /\
  stmt_writes (analyze (with_provider e p) false (r_stmt noise s)) = stmt_writes (analyze e false (r_stmt noise s)).
Proof.
  intros noise e p s Hn He Hs Hq.
  destruct (metadata_never_changes_tables noise e (with_provider e p) s eq_refl eq_refl eq_refl eq_refl Hn He Hs Hq) as [R W].
  split; symmetry; assumption.
Qed.
Print Assumptions c13_metadata_never_changes_tables_on_core.

(** ... and the table lineage is the specified one, and the analysis does not fail, whatever the catalog says *)
Theorem c13_exact_tables_any_provider : forall noise e s,
  noise_ok noise = true -> env_ok_md e = true -> stmt_ok s = true -> sshape s = true ->
  stmt_reads (analyze e false (r_stmt noise s)) = sort_strings (spec_reads (e_cfg e) s) /\
  stmt_writes (analyze e false (r_stmt noise s)) = sort_strings (spec_writes (e_cfg e) s).
Proof. exact lemma_A_tables_any_provider. Qed.
Print Assumptions c13_exact_tables_any_provider.

Theorem c13_analysis_succeeds_any_provider : forall noise e s,
  noise_ok noise = true -> env_ok_md e = true -> stmt_ok s = true -> sshape s = true ->
  exists g, analyze e false (r_stmt noise s) = Ok g.
Proof. intros noise e s Hn He Hs Hq. destruct (analysis_succeeds_any_provider noise e s Hn He Hs Hq) as [g [H _]]. exists g. exact H. Qed.
Print Assumptions c13_analysis_succeeds_any_provider.
