(** C13 - metadata only refines column attribution (refutation witnesses; see also Props of C05). *)
From SV Require Import Tree.Observe Props.Witness.

Definition env_md : env := mk_env "ansi" "" "" {| p_truthy := true; p_cols := [] |} [].
Definition env_none : env := mk_env "ansi" "" "" {| p_truthy := false; p_cols := [] |} [].

(** K-C13-1: with the target's metadata known, an explicit INSERT column list does not win *)
Theorem c13_refuted_explicit_list :
  script_pairs env_md false [("s.x", ["c1"; "c2"])] [w_explicit_list] = ["s.t1.a>s.x.a"; "s.t1.b>s.x.b"] /\
  script_pairs env_none false [] [w_explicit_list] = ["s.t1.a>s.x.p"; "s.t1.b>s.x.q"].
Proof. split; vm_compute; reflexivity. Qed.
Print Assumptions c13_refuted_explicit_list.

(** K-C13-2: metadata changes table-level lineage through DROP's degree test *)
Theorem c13_refuted_drop :
  script_targets env_md false [("s.t", ["a"])] [w_insert_values; w_drop] = ["s.t"] /\
  script_targets env_none false [] [w_insert_values; w_drop] = [].
Proof. split; vm_compute; reflexivity. Qed.
Print Assumptions c13_refuted_drop.

(** A provider that has no metadata (it is falsy) is never consulted: whatever it would answer, the
    analysis is the same (this is the "unknown tables get the same answer" clause for a provider that
    knows nothing at all; for a provider that knows other tables it is checked by correspondence). *)
From SV Require Import Tree.ProviderProofs.
Theorem c13_no_metadata_same : forall e e' silent s,
  same_but_cols e e' -> analyze e silent s = analyze e' silent s.
Proof. exact analyze_falsy_provider. Qed.
Print Assumptions c13_no_metadata_same.
