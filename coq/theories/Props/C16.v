(** C16 - identifiers denote the same entity wherever they appear. *)
From SV Require Import Ident.Escape Ident.EscapeProofs Ident.Positions.

(** Unquoted identifiers compare case-insensitively. *)
Theorem c16_case : forall s s',
  plain s -> plain s' -> same_modulo_case s s' -> escape s = escape s'.
Proof. exact escape_case_insensitive. Qed.
Print Assumptions c16_case.

(** Quoted identifiers keep their case and lose only the quotes. *)
Theorem c16_double_quoted : forall s, clean s -> escape (String """"%char (s ++ """")) = s.
Proof. exact escape_double_quoted. Qed.
Print Assumptions c16_double_quoted.

Theorem c16_backticked : forall s, clean s -> escape (String "`"%char (s ++ "`")) = s.
Proof. exact escape_backticked. Qed.
Print Assumptions c16_backticked.

Theorem c16_bracketed : forall s,
  clean s -> first_is "["%char s = false -> first_is "]"%char s = false ->
  last_is "["%char s = false -> last_is "]"%char s = false ->
  escape (String "["%char (s ++ "]")) = s.
Proof. exact escape_bracketed. Qed.
Print Assumptions c16_bracketed.

(** A dotted name splits at its last dot into qualifier and table; more than three parts is an error. *)
Theorem c16_last_dot : forall cfg icfg a b al,
  count_dots b = 0 -> count_dots a <= 1 ->
  table_of cfg icfg (a ++ "." ++ b) None al =
  TOk {| t_schema := schema_of cfg (Some a); t_raw := escape b;
         t_alias := escape (match al with Some x => x | None => escape b end) |}.
Proof. exact table_last_dot. Qed.
Print Assumptions c16_last_dot.

Theorem c16_too_many_parts : forall cfg icfg a b sa al,
  count_dots b = 0 -> 2 <= count_dots a -> table_of cfg icfg (a ++ "." ++ b) sa al = TErr.
Proof. exact table_too_many_parts. Qed.
Print Assumptions c16_too_many_parts.

(** One normalisation per position: whenever the once-normalised name is stable
    (no quote characters left, not bracketed, no upper-case letter) every position
    reports the same name, and a column written under a spelling is found again
    when read under the same spelling. *)
Theorem c16_positions_partial : forall sp,
  stable (escape sp) = true ->
  (forall p, reported p sp = norm sp) /\ chain_found sp = true.
Proof.
  intros sp H. assert (E : escape (escape sp) = escape sp) by (apply escape_stable; exact H).
  split.
  - intros []; unfold reported, norm; cbn [escapes_at escape_n]; congruence.
  - unfold chain_found, reported; cbn [escapes_at escape_n]. rewrite E. apply String.eqb_refl.
Qed.
Print Assumptions c16_positions_partial.

Theorem c16_idem_plain : forall s, plain s -> escape (escape s) = escape s.
Proof. exact escape_idem_plain. Qed.
Print Assumptions c16_idem_plain.

(** Entities that compare equal hash equally: equality of Schema / Table / Path /
    SubQuery / Column is equality of the printed form (plus the owner for Column) and
    the hash is a function [H] of the printed form, whatever [H] is. *)
Theorem c16_eq_hash : forall (H : string -> nat) (x y : table),
  table_str x = table_str y -> H (table_str x) = H (table_str y).
Proof. intros H x y E. rewrite E. reflexivity. Qed.
Print Assumptions c16_eq_hash.

(** Non-vacuity of the guard. *)
Example c16_nonvacuous :
  stable (escape "MyTab") = true /\ stable (escape """mytab""") = true /\ stable (escape "[my_tab]") = true /\
  plain "MyTab" /\ clean "My Tab".
Proof. repeat split. Qed.

(** Known findings: a quoted identifier containing upper-case letters is normalised
    twice at some positions, so the same spelling denotes different entities. *)
Theorem c16_idem_refuted : escape (escape """Ab""") <> escape """Ab""".
Proof. vm_compute. discriminate. Qed.
Print Assumptions c16_idem_refuted.

Theorem c16_positions_refuted_column :
  reported PColTarget """MyCol""" = "MyCol" /\ reported PColSource """MyCol""" = "mycol" /\
  chain_found """MyCol""" = false.
Proof. repeat split. Qed.
Print Assumptions c16_positions_refuted_column.

Theorem c16_positions_refuted_schema :
  reported PSchema """MySch""" = "mysch" /\ reported PTargetTable """MyTab""" = "MyTab".
Proof. split; reflexivity. Qed.
Print Assumptions c16_positions_refuted_schema.

(** The whole extractor sees one entity however an identifier is spelled (Tree/LemmaASpell.v; see Props/C07.v (f)): with a
    DIFFERENT admissible spelling for every syntactic role of an identifier (table, alias, column, qualifier, star qualifier,
    CTE name, schema) the reads and writes are the specified ones - e.g. a CTE defined as `c` and used as C. *)
From SV Require Import Tree.Observe Tree.Render Tree.LemmaA Tree.LemmaAProofs Tree.RenderSpell Tree.LemmaASpell.

Theorem c16_one_entity_per_identifier_in_every_position : forall sp kwf noise e s,
  spr_ok sp -> kw_ok kwf -> noise_ok noise = true -> env_ok e = true -> stmt_ok s = true -> sshape s = true ->
  stmt_reads (analyze e false (r_stmt_spr sp kwf noise s)) = sort_strings (spec_reads (e_cfg e) s) /\
  stmt_writes (analyze e false (r_stmt_spr sp kwf noise s)) = sort_strings (spec_writes (e_cfg e) s).
Proof. exact lemma_A_spelling_roles. Qed.
Print Assumptions c16_one_entity_per_identifier_in_every_position.
