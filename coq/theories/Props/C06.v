(** C06 - column lineage is well-formed and consistent with table lineage. *)
From SV Require Import Holder.Build Holder.PathProofs.

(** Every reported column path (after fix F4) has at least one hop, is a chain of
    direct dependencies without repetition, starts at a column nothing feeds and ends
    at a column that feeds nothing - a column of a table when sub-query endings are excluded. *)
Theorem c06_paths_wf : forall g b p,
  In p (column_lineage g b false) ->
  2 <= List.length p /\ chain g p /\ simple p /\
  (exists s r, p = s :: r /\ is_column s = true /\ indeg (column_graph g) s = 0) /\
  (is_column (last p (NStr "")) = true /\ outdeg (column_graph g) (last p (NStr "")) = 0 /\
   (b = true -> parent_is KTable (last p (NStr "")) = true)).
Proof. exact column_lineage_wf. Qed.
Print Assumptions c06_paths_wf.

Theorem c06_min_length : forall g b c p, In p (column_lineage g b c) -> 2 <= List.length p.
Proof. exact column_lineage_min_length. Qed.
Print Assumptions c06_min_length.

(** Every node of the graph is retrievable by (Python) equality; equality is an equivalence. *)
Theorem c06_retrievable : forall g n, In n (map fst (gnodes g)) -> has_node g n = true.
Proof. exact node_retrievable. Qed.
Print Assumptions c06_retrievable.

Theorem c06_eq_equivalence :
  (forall n, node_eqb n n = true) /\ (forall a b, node_eqb a b = node_eqb b a) /\
  (forall a b c, node_eqb a b = true -> node_eqb b c = true -> node_eqb a c = true).
Proof. repeat split; [exact node_eqb_refl|exact node_eqb_sym|exact node_eqb_trans]. Qed.
Print Assumptions c06_eq_equivalence.

(** A resolved column has exactly one owner, and equal columns print (hence hash) alike. *)
Theorem c06_one_owner : forall c d, col_parent c = Some d -> cparents c = [d].
Proof. intros c d H. unfold col_parent in H. destruct (cparents c) as [|x [|y r]]; congruence. Qed.
Print Assumptions c06_one_owner.

Theorem c06_eq_same_name : forall a b, col_eqb a b = true -> col_str a = col_str b.
Proof. intros a b H. unfold col_eqb in H. apply andb_prop in H. destruct H as [H _]. apply String.eqb_eq. exact H. Qed.
Print Assumptions c06_eq_same_name.

(** Regression witness for fix F4: a column that nothing feeds and that feeds nothing was
    reported as a one-node path by all_simple_paths; the filter [1 < length] removes it. *)
Definition tx : dataset := {| dk := KTable; deq := "<default>.x"; dstr := "<default>.x"; dschema := "<default>"; draw := ""; dalias := ""; dquery := None |}.
Definition lonely : graph :=
  {| gnodes := [(NData tx, [("write", true)]); (NCol {| craw := "q"; cparents := [tx] |}, [])];
     gedges := [(NData tx, NCol {| craw := "q"; cparents := [tx] |}, {| etype := "has_column"; eindex := Some 1 |})] |}.
Theorem c06_one_node_path_witness :
  all_simple_paths lonely (NCol {| craw := "q"; cparents := [tx] |}) (NCol {| craw := "q"; cparents := [tx] |})
    = [[NCol {| craw := "q"; cparents := [tx] |}]] /\
  column_lineage lonely true false = [].
Proof. split; reflexivity. Qed.
Print Assumptions c06_one_node_path_witness.
