(** C06 - column lineage is well-formed and consistent with table lineage. *)
From SV Require Import Holder.Build Holder.PathProofs.

(** Every reported column path (after fix F4) has at least one hop, is a chain of
    direct dependencies without repetition, starts at a column nothing feeds and ends
    at a column that feeds nothing - a column of a table when sub-query endings are excluded. *)
Theorem c06_paths_wf : forall g b p,
  In p (column_lineage g b false) ->
  2 <= List.length p /\ chain g p /\ simple p /\
  (exists s r, p = s :: r /\ is_column s = true /\ indeg (column_graph g) s = 0) /\
  (is_column (last p (NStr "")) = true /\ outdeg (column_graph g) (last p (NStr "")) = 0 /\
   (b = true -> parent_is KTable (last p (NStr "")) = true)).
Proof. exact column_lineage_wf. Qed.
Print Assumptions c06_paths_wf.

Theorem c06_min_length : forall g b c p, In p (column_lineage g b c) -> 2 <= List.length p.
Proof. exact column_lineage_min_length. Qed.
Print Assumptions c06_min_length.

(** Every node of the graph is retrievable by (Python) equality; equality is an equivalence. *)
Theorem c06_retrievable : forall g n, In n (map fst (gnodes g)) -> has_node g n = true.
Proof. exact node_retrievable. Qed.
Print Assumptions c06_retrievable.

Theorem c06_eq_equivalence :
  (forall n, node_eqb n n = true) /\ (forall a b, node_eqb a b = node_eqb b a) /\
  (forall a b c, node_eqb a b = true -> node_eqb b c = true -> node_eqb a c = true).
Proof. repeat split; [exact node_eqb_refl|exact node_eqb_sym|exact node_eqb_trans]. Qed.
Print Assumptions c06_eq_equivalence.

(** A resolved column has exactly one owner, and equal columns print (hence hash) alike. *)
Theorem c06_one_owner : forall c d, col_parent c = Some d -> cparents c = [d].
Proof. intros c d H. unfold col_parent in H. destruct (cparents c) as [|x [|y r]]; congruence. Qed.
Print Assumptions c06_one_owner.

Theorem c06_eq_same_name : forall a b, col_eqb a b = true -> col_str a = col_str b.
Proof. intros a b H. unfold col_eqb in H. apply andb_prop in H. destruct H as [H _]. apply String.eqb_eq. exact H. Qed.
Print Assumptions c06_eq_same_name.

(** Regression witness for fix F4: a column that nothing feeds and that feeds nothing was
    reported as a one-node path by all_simple_paths; the filter [1 < length] removes it. *)
Definition tx : dataset := {| dk := KTable; deq := "<default>.x"; dstr := "<default>.x"; dschema := "<default>"; draw := ""; dalias := ""; dquery := None |}.
Definition lonely : graph :=
  {| gnodes := [(NData tx, [("write", true)]); (NCol {| craw := "q"; cparents := [tx] |}, [])];
     gedges := [(NData tx, NCol {| craw := "q"; cparents := [tx] |}, {| etype := "has_column"; eindex := Some 1 |})] |}.
Theorem c06_one_node_path_witness :
  all_simple_paths lonely (NCol {| craw := "q"; cparents := [tx] |}) (NCol {| craw := "q"; cparents := [tx] |})
    = [[NCol {| craw := "q"; cparents := [tx] |}]] /\
  column_lineage lonely true false = [].
Proof. split; reflexivity. Qed.
Print Assumptions c06_one_node_path_witness.

(** * Projection onto table lineage, proved about the full graph model (Holder/Composition.v).
    Under [c06_hyps] (executable: holders without DROP/RENAME, columns resolved, graphs closed, no pre-set script tags,
    and [owners_dir]: on every column edge of a statement the source's table is read and the target's table is written
    by that statement - exactly what fails for a scalar sub-query in a select item, K-C06-2) every column of a reported path
    but the first is owned by a target or intermediate table of the script, and every column but the last is owned by a
    dataset some statement reads.  False with DROP/RENAME (K-C06-1; counterexamples [cx_drop], [cx_rename]). *)
From SV Require Import Holder.CompDefs Holder.Composition.

Theorem c06_paths_project_onto_tables : forall p hs, c06_hyps hs = true ->
  exists g, build p hs = BOk g /\
    forall b path, In path (column_lineage g b false) ->
      (forall n, In n (tl path) -> owner_in n (target_tables g ++ intermediate_tables g) = true) /\
      (forall n, In n (removelast path) -> exists h, In h hs /\ owner_in n (h_read h) = true).
Proof. exact c06_main. Qed.
Print Assumptions c06_paths_project_onto_tables.

(** ... in the property's own terms (Tree/ScriptWellFormedExt.v): under [c06_hyps] every reported path has at least two
    nodes, every column but the first is owned by a target or intermediate table of the script and every column but the
    last by a SOURCE or intermediate table of the script (a dataset read by some statement of a DROP/RENAME-free script is
    a source or an intermediate table). *)
From SV Require Import Tree.Observe Tree.Render Tree.LemmaA Tree.LemmaAProofs Tree.LemmaB Tree.LemmaBProofs Tree.ScriptExact Tree.ScriptWellFormed Tree.ScriptExactExt Tree.ScriptWellFormedExt.

Theorem c06_paths_between_source_and_target_tables : forall p hs, c06_hyps hs = true ->
  exists g, build p hs = BOk g /\
    forall b path, In path (column_lineage g b false) ->
      2 <= List.length path /\
      (forall n, In n (tl path) -> owner_in n (target_tables g ++ intermediate_tables g) = true) /\
      (forall n, In n (removelast path) -> owner_in n (source_tables g ++ intermediate_tables g) = true).
Proof. exact M2.c06_sources. Qed.
Print Assumptions c06_paths_between_source_and_target_tables.

(** * End to end on the tree model: for every script of statements of the core fragment (INSERT / CTAS / VIEW over one SELECT
    from base tables with resolved references, plain SELECTs, statements that move no data), any trivia, no metadata, the
    hypotheses above HOLD for the holders the extractors produce (tags, owners_dir, closedness are proved of the extractor's
    operations), so the script graph exists and every reported path is well formed and projects onto the script's own
    source / intermediate / target tables. *)
Theorem c06_script_paths_well_formed_on_core : forall noise e ss,
  noise_ok noise = true -> env_ok e = true -> Forall core_stmt_ext ss ->
  exists g, script_graph e false [] (map (r_stmt noise) ss) = Ok g /\
    forall b path, In path (column_lineage g b false) ->
      2 <= List.length path /\
      (forall n, In n (tl path) -> CompDefs.owner_in n (target_tables g ++ intermediate_tables g) = true) /\
      (forall n, In n (removelast path) -> CompDefs.owner_in n (source_tables g ++ intermediate_tables g) = true).
Proof. exact script_paths_well_formed_on_core_ext. Qed.
Print Assumptions c06_script_paths_well_formed_on_core.

(** * the same for scripts of statements with expression items (Tree/ScriptExactExpr.v) *)
From SV Require Import Tree.RenderExpr Tree.LemmaBExpr Tree.ScriptExactExpr.
Theorem c06_script_paths_well_formed_with_expressions : forall noise e ss,
  noise_ok noise = true -> env_ok e = true -> Forall core_stmt_x ss ->
  exists g, script_graph e false [] (map (r_stmt_x noise) ss) = Ok g /\
    forall b path, In path (column_lineage g b false) ->
      2 <= List.length path /\
      (forall n, In n (tl path) -> CompDefs.owner_in n (target_tables g ++ intermediate_tables g) = true) /\
      (forall n, In n (removelast path) -> CompDefs.owner_in n (source_tables g ++ intermediate_tables g) = true).
Proof. exact script_paths_well_formed_on_core_x. Qed.
Print Assumptions c06_script_paths_well_formed_with_expressions.

(** scripts that also contain UPDATE / MERGE statements (Tree/ScriptWellFormedDml.v).  Partial: per DML statement two extra executable
    guards - [dml_ok] (no sub-query in an UPDATE's WHERE) and [edges_in_rw] (every specified flow goes from a specified read table to
    the written table: true of every instance tried, not proved in general) *)
From SV Require Import Ast.SpecDml Tree.RenderDml Tree.ScriptExactDml Tree.ScriptWellFormedDml.
Theorem c06_script_paths_well_formed_with_update_and_merge_partial : forall noise e xs,
  noise_ok noise = true -> env_ok e = true -> Forall (core_sstmt6 (e_cfg e)) xs ->
  exists g, script_graph e false [] (map (r_sstmt noise) xs) = Ok g /\
    forall b path, In path (column_lineage g b false) ->
      2 <= List.length path /\
      (forall n, In n (tl path) -> CompDefs.owner_in n (target_tables g ++ intermediate_tables g) = true) /\
      (forall n, In n (removelast path) -> CompDefs.owner_in n (source_tables g ++ intermediate_tables g) = true).
Proof. exact script_paths_well_formed_on_core_xd. Qed.
Print Assumptions c06_script_paths_well_formed_with_update_and_merge_partial.

(** the same without the [edges_in_rw] guard (proved in general: Tree/ScriptWellFormedDml2.v edges_in_rw_ok) *)
From SV Require Import Tree.LemmaADmlDefs Tree.LemmaBDml Tree.ScriptExactDml Tree.ScriptWellFormedDml2.
Theorem c06_script_paths_well_formed_with_update_and_merge : forall noise e xs,
  noise_ok noise = true -> env_ok e = true ->
  Forall (fun x => match x with
                   | SS s => (stmt_ok_x s = true /\ colshape s = true /\ resolved_x s = true) \/ is_nodata s = true
                   | SD d => dml_cols_ok d = true /\ dml_resolved d = true /\ dml_ok d = true
                   end) xs ->
  exists g, script_graph e false [] (map (r_sstmt noise) xs) = Ok g /\
    forall b path, In path (column_lineage g b false) ->
      2 <= List.length path /\
      (forall n, In n (tl path) -> CompDefs.owner_in n (target_tables g ++ intermediate_tables g) = true) /\
      (forall n, In n (removelast path) -> CompDefs.owner_in n (source_tables g ++ intermediate_tables g) = true).
Proof. exact script_paths_well_formed_on_core_xd2. Qed.
Print Assumptions c06_script_paths_well_formed_with_update_and_merge.
