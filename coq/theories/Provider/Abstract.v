(** A concrete, table-driven instance of the statement analysis, used to run the
    Provider/Session.v model against real scripts: each abstract statement stands for a
    SQL statement whose target columns are known in advance or depend on the provider
    view only through one table (CREATE TABLE w AS SELECT * FROM r). *)
From SV Require Export Provider.Session.

Inductive astmt :=
| CopyStar (w r : tname)              (* create table w as select * from r *)
| Cols (w : tname) (cs : list string) (* create table w as select c1, c2 from r *)
| Fail                                (* a statement the analyzer rejects *)
| NoWrite.                            (* a bare select *)

(** [truthy]: bool(provider); a falsy provider is never consulted *)
Definition analyze (truthy : bool) (v : tname -> list string) (s : astmt) : option (analysis (list string)) :=
  match s with
  | CopyStar w r =>
      let cs := if truthy then v r else [] in
      Some {| a_write := Some w; a_cols := cs; a_payload := cs |}
  | Cols w cs => Some {| a_write := Some w; a_cols := cs; a_payload := cs |}
  | Fail => None
  | NoWrite => Some {| a_write := None; a_cols := []; a_payload := [] |}
  end.

Definition show_run (r : option (list (list string))) : string :=
  match r with
  | None => "RAISED"
  | Some ps => join "|" (map (join ",") ps)
  end.

Definition show_mdmap (m : mdmap) : string :=
  join ";" (map (fun kv => (fst kv ++ "=" ++ join "," (snd kv))%string) m).

(** a history of runs on one provider: per-run results, then the session left behind and
    the provider's answers for the listed tables *)
Definition show_history (truthy : bool) (b : mdmap) (scripts : list (list astmt)) (tables : list tname) : string :=
  let '(p, rs) := runs astmt (list string) (analyze truthy) {| base := b; session := [] |} scripts in
  join "#" (map show_run rs) ++ "@" ++ show_mdmap (session p) ++ "@" ++
  join ";" (map (fun t => (t ++ "=" ++ join "," (view p t))%string) tables).
