(** Model of sqllineage/core/metadata_provider.py (MetaDataProvider, MetaDataSession)
    and of the statement loop of LineageRunner._eval (runner.py).

    The per-statement analysis is a parameter of the section: [analyze view stmt]
    may consult the provider only through its read-only [view] (the combined
    session + base metadata) and either fails or returns, abstractly, the table the
    statement writes together with the columns the holder reports for it, plus an
    opaque payload (the holder itself). *)
From SV Require Export Base.Util.

Definition tname := string.
Definition mdmap := list (tname * list string).

Fixpoint md_get (t : tname) (m : mdmap) : option (list string) :=
  match m with [] => None | (k, v) :: r => if String.eqb t k then Some v else md_get t r end.
Fixpoint md_set (t : tname) (v : list string) (m : mdmap) : mdmap :=
  match m with
  | [] => [(t, v)]
  | (k, w) :: r => if String.eqb t k then (k, v) :: r else (k, w) :: md_set t v r
  end.

(** provider = immutable base metadata + mutable session metadata *)
Record provider := { base : mdmap; session : mdmap }.

(** get_table_columns: session first, then the base *)
Definition view (p : provider) (t : tname) : list string :=
  match md_get t (session p) with
  | Some c => c
  | None => match md_get t (base p) with Some c => c | None => [] end
  end.

Definition register (p : provider) (t : tname) (cols : list string) : provider :=
  {| base := base p; session := md_set t cols (session p) |}.
Definition deregister (p : provider) : provider := {| base := base p; session := [] |}.

Section Runner.
  Variable stmt : Type.
  Variable payload : Type.
  (** result of analysing one statement under a provider view *)
  Record analysis := { a_write : option tname; a_cols : list string; a_payload : payload }.
  Variable analyze : (tname -> list string) -> stmt -> option analysis.   (* None = raises *)

  (** one iteration of the statement loop: analyse, then register the written table's columns *)
  Definition after_stmt (p : provider) (a : analysis) : provider :=
    match a_write a, a_cols a with
    | Some t, _ :: _ => register p t (a_cols a)
    | _, _ => p
    end.

  (** the loop inside [with provider.session() as session]; returns the provider state at the
      point where the loop stopped and the payloads, or None for the payloads if a statement raised *)
  Fixpoint loop (p : provider) (ss : list stmt) (acc : list payload) : provider * option (list payload) :=
    match ss with
    | [] => (p, Some (rev acc))
    | s :: r =>
        match analyze (view p) s with
        | None => (p, None)
        | Some a => loop (after_stmt p a) r (a_payload a :: acc)
        end
    end.

  (** _eval: the session's __exit__ deregisters on every path *)
  Definition eval (p : provider) (ss : list stmt) : provider * option (list payload) :=
    let '(p1, r) := loop p ss [] in (deregister p1, r).

  (** a history of runs on the same provider object *)
  Fixpoint runs (p : provider) (scripts : list (list stmt)) : provider * list (option (list payload)) :=
    match scripts with
    | [] => (p, [])
    | ss :: rest =>
        let '(p1, r) := eval p ss in
        let '(p2, rs) := runs p1 rest in (p2, r :: rs)
    end.

  (** the provider view the k-th statement is analysed under *)
  Fixpoint view_before (p : provider) (ss : list stmt) (k : nat) : option provider :=
    match k, ss with
    | O, _ => Some p
    | S k', s :: r =>
        match analyze (view p) s with
        | None => None
        | Some a => view_before (after_stmt p a) r k'
        end
    | S _, [] => None
    end.
End Runner.
