From SV Require Import Provider.Session.

Section Proofs.
  Variable stmt : Type.
  Variable payload : Type.
  Variable analyze : (tname -> list string) -> stmt -> option (analysis payload).
  (** the analysis depends on the provider only through what it can look up *)
  Hypothesis analyze_ext : forall v v' s, (forall t, v t = v' t) -> analyze v s = analyze v' s.

  Notation eval := (eval stmt payload analyze).
  Notation runs := (runs stmt payload analyze).
  Notation loop := (loop stmt payload analyze).

  (** ** learned definitions are forgotten when a run ends, however it ends *)
  Lemma after_stmt_base p a : base (after_stmt payload p a) = base p.
  Proof.
    unfold after_stmt.
    destruct (a_write payload a) as [t|]; [destruct (a_cols payload a) as [|c cs]|]; reflexivity.
  Qed.

  Lemma loop_base ss : forall p acc, base (fst (loop p ss acc)) = base p.
  Proof.
    induction ss as [|s r IH]; intros p acc; cbn.
    - reflexivity.
    - destruct (analyze (view p) s) as [a|] eqn:Ea; cbn.
      + rewrite IH. apply after_stmt_base.
      + reflexivity.
  Qed.

  Theorem eval_clean p ss : session (fst (eval p ss)) = [] /\ base (fst (eval p ss)) = base p.
  Proof.
    unfold Session.eval.
    pose proof (loop_base ss p []) as Hb.
    destruct (loop p ss []) as [p1 r]. cbn in *. split; [reflexivity | exact Hb].
  Qed.

  Theorem runs_clean p scripts :
    session p = [] -> session (fst (runs p scripts)) = [] /\ base (fst (runs p scripts)) = base p.
  Proof.
    revert p. induction scripts as [|ss rest IH]; intros p Hs; cbn.
    - split; [exact Hs | reflexivity].
    - pose proof (eval_clean p ss) as [Hc1 Hc2].
      destruct (eval p ss) as [p1 r] eqn:Ee. cbn in Hc1, Hc2.
      pose proof (IH p1 Hc1) as [Hr1 Hr2].
      destruct (runs p1 rest) as [p2 rs] eqn:Er. cbn in *.
      split; [exact Hr1 | congruence].
  Qed.

  (** a provider reused for the next run answers exactly as a fresh one *)
  Theorem eval_view_fresh p ss t :
    view (fst (eval p ss)) t = view {| base := base p; session := [] |} t.
  Proof.
    pose proof (eval_clean p ss) as [Hc1 Hc2].
    unfold view. rewrite Hc1, Hc2. reflexivity.
  Qed.

  (** ** history independence: the result of a run does not depend on the runs before it
      (successful or failed) on the same provider *)
  Theorem history_independent p history ss :
    session p = [] ->
    snd (eval (fst (runs p history)) ss) = snd (eval p ss).
  Proof.
    intros Hs.
    pose proof (runs_clean p history Hs) as [Hr1 Hr2].
    assert (Heq : fst (runs p history) = p).
    { destruct (fst (runs p history)) as [b1 s1]. destruct p as [b0 s0].
      cbn in *. subst. reflexivity. }
    rewrite Heq. reflexivity.
  Qed.

  (** ** what later statements know: the view before statement k maps t to the columns of the
      last earlier statement that wrote t with at least one column, else to the base metadata *)
  Lemma md_get_set t v m t' :
    md_get t' (md_set t v m) = if String.eqb t' t then Some v else md_get t' m.
  Proof.
    induction m as [|[k w] r IH]; cbn.
    - destruct (String.eqb t' t); reflexivity.
    - destruct (String.eqb t k) eqn:E1; cbn.
      + apply String.eqb_eq in E1. subst k.
        destruct (String.eqb t' t); reflexivity.
      + rewrite IH.
        destruct (String.eqb t' k) eqn:E2; destruct (String.eqb t' t) eqn:E3; try reflexivity.
        apply String.eqb_eq in E2. apply String.eqb_eq in E3. subst.
        rewrite String.eqb_refl in E1. discriminate E1.
  Qed.

  Theorem register_view p t cols t' :
    view (register p t cols) t' = if String.eqb t' t then cols else view p t'.
  Proof.
    unfold view, register. cbn. rewrite md_get_set.
    destruct (String.eqb t' t); reflexivity.
  Qed.

  Theorem after_stmt_view p a t' :
    view (after_stmt payload p a) t' =
    match a_write payload a, a_cols payload a with
    | Some t, _ :: _ => if String.eqb t' t then a_cols payload a else view p t'
    | _, _ => view p t'
    end.
  Proof.
    unfold after_stmt.
    destruct (a_write payload a) as [t|]; [|reflexivity].
    destruct (a_cols payload a) as [|c cs] eqn:Ec; [reflexivity|].
    apply register_view.
  Qed.
End Proofs.
