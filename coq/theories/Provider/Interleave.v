(** Concurrency clause of C12: runs executed concurrently, each with ITS OWN provider, give
    the same final provider states and the same results as the same runs executed one
    after another (in any order); with ONE provider shared by the runs this is false.

    Model.  One run of [LineageRunner._eval] (Provider/Session.v: [eval]) is cut into
    micro-steps, the granularity at which threads can be interleaved:
      - [StepStmt]: analyse the next statement under [view p]; if the analysis raises the run
        becomes [Failed], otherwise [after_stmt] registers what the statement wrote;
      - [StepExit]: when no statement remains, or after a failure, the session's [__exit__]
        runs: [deregister], and the run is [Done] with its result.
    A world is a list of runs, the i-th with its own provider; a schedule is the list of
    run ids in the order in which they take micro-steps. *)
From SV Require Import Provider.Session Provider.SessionProofs Provider.Abstract.

(** number of micro-steps a schedule gives to run [i] *)
Fixpoint count (i : nat) (sched : list nat) : nat :=
  match sched with
  | [] => 0
  | j :: r => if Nat.eqb j i then S (count i r) else count i r
  end.

Lemma count_app i s1 s2 : count i (s1 ++ s2) = count i s1 + count i s2.
Proof.
  induction s1 as [|j r IH]; cbn; [reflexivity|].
  destruct (Nat.eqb j i); rewrite IH; reflexivity.
Qed.

Lemma count_repeat_same i k : count i (repeat i k) = k.
Proof. induction k as [|k IH]; cbn; [reflexivity|]. rewrite Nat.eqb_refl, IH. reflexivity. Qed.

Lemma count_repeat_other i j k : j <> i -> count i (repeat j k) = 0.
Proof.
  intros Hn. induction k as [|k IH]; cbn; [reflexivity|].
  destruct (Nat.eqb j i) eqn:E; [apply Nat.eqb_eq in E; contradiction | exact IH].
Qed.

Lemma nth_error_ext_eq {A} : forall (l1 l2 : list A),
  (forall i, nth_error l1 i = nth_error l2 i) -> l1 = l2.
Proof.
  induction l1 as [|x r IH]; intros [|y s] H.
  - reflexivity.
  - specialize (H 0). discriminate H.
  - specialize (H 0). discriminate H.
  - pose proof (H 0) as H0. cbn in H0. injection H0 as ->.
    f_equal. apply IH. intros i. exact (H (S i)).
Qed.

Section Interleave.
  Variable stmt : Type.
  Variable payload : Type.
  Variable analyze : (tname -> list string) -> stmt -> option (analysis payload).

  Notation eval := (eval stmt payload analyze).
  Notation runs := (runs stmt payload analyze).
  Notation loop := (loop stmt payload analyze).

  (** ** 1. one run as a state machine over its own provider *)

  (** [Running todo acc]: statements still to analyse, payloads so far (reversed, as in [loop]);
      [Failed]: a statement raised, the session's [__exit__] has not run yet;
      [Done res]: [_eval] has returned ([Some payloads]) or re-raised ([None]). *)
  Inductive runstate :=
  | Running (todo : list stmt) (acc : list payload)
  | Failed
  | Done (res : option (list payload)).

  (** a component of the world: a provider and the run using it *)
  Definition comp := (provider * runstate)%type.

  Definition step_stmt (p : provider) (s : stmt) (rest : list stmt) (acc : list payload) : comp :=
    match analyze (view p) s with
    | None => (p, Failed)
    | Some a => (after_stmt payload p a, Running rest (a_payload payload a :: acc))
    end.

  Definition step_exit (p : provider) (res : option (list payload)) : comp :=
    (deregister p, Done res).

  (** the micro-step a component takes when it is scheduled *)
  Definition step1 (c : comp) : comp :=
    match c with
    | (p, Running (s :: rest) acc) => step_stmt p s rest acc        (* StepStmt *)
    | (p, Running [] acc) => step_exit p (Some (rev acc))            (* StepExit, normal *)
    | (p, Failed) => step_exit p None                                (* StepExit, after a failure *)
    | (p, Done _) => c                                               (* finished: no-op *)
    end.

  (** k micro-steps of a run alone *)
  Fixpoint steps (k : nat) (c : comp) : comp :=
    match k with
    | O => c
    | S k' => steps k' (step1 c)
    end.

  Definition init (p : provider) (ss : list stmt) : comp := (p, Running ss []).

  (** what [_eval] leaves behind: the provider and the result *)
  Definition finished (e : provider * option (list payload)) : comp := (fst e, Done (snd e)).

  (** an upper bound on the number of micro-steps a run still needs *)
  Definition steps_needed (c : comp) : nat :=
    match snd c with
    | Running todo _ => S (List.length todo)
    | Failed => 1
    | Done _ => 0
    end.

  (** the state a run reaches when it is run alone to completion *)
  Definition run_to_end (c : comp) : comp :=
    match c with
    | (p, Running ss acc) => (deregister (fst (loop p ss acc)), Done (snd (loop p ss acc)))
    | (p, Failed) => (deregister p, Done None)
    | (p, Done _) => c
    end.

  Lemma steps_add a b c : steps (a + b) c = steps b (steps a c).
  Proof. revert c. induction a as [|a IH]; intros c; cbn; [reflexivity | apply IH]. Qed.

  Lemma steps_done k p r : steps k (p, Done r) = (p, Done r).
  Proof. induction k as [|k IH]; cbn; [reflexivity | exact IH]. Qed.

  Lemma steps_loop ss : forall p acc k, S (List.length ss) <= k ->
    steps k (p, Running ss acc) = (deregister (fst (loop p ss acc)), Done (snd (loop p ss acc))).
  Proof.
    induction ss as [|s r IH]; intros p acc k Hk.
    - destruct k as [|k]; [cbn in Hk; lia|]. cbn. unfold step_exit. apply steps_done.
    - destruct k as [|k]; [cbn in Hk; lia|]. cbn [steps step1 Session.loop List.length] in *.
      unfold step_stmt.
      destruct (analyze (view p) s) as [a|] eqn:Ea.
      + apply IH. lia.
      + destruct k as [|k]; [lia|]. cbn. unfold step_exit. apply steps_done.
  Qed.

  Lemma steps_saturate c k : steps_needed c <= k -> steps k c = run_to_end c.
  Proof.
    destruct c as [p [ss acc| |r]]; unfold steps_needed; cbn [snd run_to_end]; intros Hk.
    - apply steps_loop. exact Hk.
    - destruct k as [|k]; [lia|]. cbn. unfold step_exit. apply steps_done.
    - apply steps_done.
  Qed.

  Lemma run_to_end_init p ss : run_to_end (init p ss) = finished (eval p ss).
  Proof.
    unfold init, finished, Session.eval. cbn [run_to_end].
    destruct (loop p ss []) as [p1 r]. reflexivity.
  Qed.

  (** The machine run to completion computes exactly [eval]: after [length ss + 1] micro-steps,
      and after any larger number, the provider is [fst (eval p ss)] and the run is [Done]
      with result [snd (eval p ss)]. *)
  Theorem run_small_steps_eval : forall p ss k, S (List.length ss) <= k ->
    steps k (init p ss) = (fst (eval p ss), Done (snd (eval p ss))).
  Proof.
    intros p ss k Hk. rewrite steps_saturate by exact Hk. apply run_to_end_init.
  Qed.

  (** ... and a finished run does not move any more *)
  Theorem finished_is_final : forall e, step1 (finished e) = finished e.
  Proof. intros [p r]. reflexivity. Qed.

  (** it does not finish earlier than it should: while statements remain to be analysed and
      none has raised, the run is not [Done] (so [Done] is reached by [StepExit] only) *)
  Lemma step1_done_inv c r : snd (step1 c) = Done r ->
    (exists p acc, c = (p, Running [] acc) /\ r = Some (rev acc)) \/
    (exists p, c = (p, Failed) /\ r = None) \/
    snd c = Done r.
  Proof.
    destruct c as [p [[|s rest] acc| |r0]]; cbn; unfold step_stmt, step_exit; cbn.
    - intros H. injection H as <-. left. eauto.
    - destruct (analyze (view p) s); cbn; discriminate.
    - intros H. injection H as <-. right. left. eauto.
    - intros H. right. right. exact H.
  Qed.

  (** ** 2. a world of runs, each with its own provider *)
  Definition world := list comp.

  (** run [i] takes one micro-step; an id that is out of range is a no-op *)
  Fixpoint step_at (i : nat) (w : world) : world :=
    match w, i with
    | [], _ => []
    | c :: r, O => step1 c :: r
    | c :: r, S i' => c :: step_at i' r
    end.

  Definition exec (w : world) (sched : list nat) : world :=
    fold_left (fun w i => step_at i w) sched w.

  Definition init_world (jobs : list (provider * list stmt)) : world :=
    map (fun j => init (fst j) (snd j)) jobs.

  (** a schedule is complete for a world when every run gets at least as many micro-steps as it
      can need: (number of its remaining statements) + 1 *)
  Fixpoint complete_from (i : nat) (w : world) (sched : list nat) : bool :=
    match w with
    | [] => true
    | c :: r => Nat.leb (steps_needed c) (count i sched) && complete_from (S i) r sched
    end.
  Definition complete (w : world) (sched : list nat) : bool := complete_from 0 w sched.

  Lemma exec_cons w i sched : exec w (i :: sched) = exec (step_at i w) sched.
  Proof. reflexivity. Qed.

  Lemma exec_app w s1 s2 : exec w (s1 ++ s2) = exec (exec w s1) s2.
  Proof. unfold exec. apply fold_left_app. Qed.

  Lemma step_at_length i : forall w, List.length (step_at i w) = List.length w.
  Proof.
    induction i as [|i IH]; intros [|c r]; cbn; try reflexivity.
    rewrite IH. reflexivity.
  Qed.

  Lemma exec_length sched : forall w, List.length (exec w sched) = List.length w.
  Proof.
    induction sched as [|i r IH]; intros w; [reflexivity|].
    rewrite exec_cons, IH. apply step_at_length.
  Qed.

  Lemma nth_error_step_at : forall i w j,
    nth_error (step_at i w) j =
    if Nat.eqb i j then option_map step1 (nth_error w j) else nth_error w j.
  Proof.
    induction i as [|i IH]; intros [|c r] [|j]; cbn; try reflexivity.
    - destruct (Nat.eqb i j); reflexivity.
    - apply IH.
  Qed.

  (** ** 3. theorems *)

  (** steps of different runs commute: each touches only its own component *)
  Lemma step_at_commute : forall i j w, i <> j -> step_at i (step_at j w) = step_at j (step_at i w).
  Proof.
    induction i as [|i IH]; intros [|j] [|c r] Hn; cbn; try reflexivity.
    - f_equal. apply IH. intros ->. apply Hn. reflexivity.
  Qed.

  Theorem steps_commute : forall w i j, i <> j -> exec w [i; j] = exec w [j; i].
  Proof. intros w i j Hn. cbn. apply step_at_commute. intros ->. apply Hn. reflexivity. Qed.

  (** The invariant.  At ANY point of ANY schedule, component [i] of the world is exactly the
      state run [i] reaches when it runs alone for as many micro-steps as the schedule has
      given it so far: nothing any other run did is visible in it. *)
  Theorem prefix_isolation : forall sched w i,
    nth_error (exec w sched) i = option_map (steps (count i sched)) (nth_error w i).
  Proof.
    induction sched as [|j r IH]; intros w i.
    - cbn. destruct (nth_error w i); reflexivity.
    - rewrite exec_cons, IH, nth_error_step_at. cbn [count].
      destruct (Nat.eqb j i); [|reflexivity].
      destruct (nth_error w i); reflexivity.
  Qed.

  (** ... in particular at every prefix of a schedule *)
  Corollary prefix_isolation_at_any_point : forall w s1 s2 i p ss,
    nth_error w i = Some (init p ss) ->
    nth_error (exec w s1) i = Some (steps (count i s1) (init p ss)) /\
    nth_error (exec w (s1 ++ s2)) i = Some (steps (count i s2) (steps (count i s1) (init p ss))).
  Proof.
    intros w s1 s2 i p ss H. split.
    - rewrite prefix_isolation, H. reflexivity.
    - rewrite prefix_isolation, H, count_app. cbn [option_map]. rewrite steps_add. reflexivity.
  Qed.

  (** the world reached depends on the schedule only through how many steps each run got *)
  Corollary schedule_order_irrelevant : forall w s1 s2,
    (forall i, i < List.length w -> count i s1 = count i s2) -> exec w s1 = exec w s2.
  Proof.
    intros w s1 s2 H. apply nth_error_ext_eq. intros i.
    rewrite !prefix_isolation.
    destruct (nth_error w i) as [c|] eqn:E; [|reflexivity].
    rewrite H; [reflexivity|]. apply nth_error_Some. congruence.
  Qed.

  Lemma complete_from_nth : forall w b sched i c,
    complete_from b w sched = true -> nth_error w i = Some c ->
    steps_needed c <= count (b + i) sched.
  Proof.
    induction w as [|c0 r IH]; intros b sched i c Hc Hn.
    - destruct i; discriminate Hn.
    - cbn in Hc. apply andb_true_iff in Hc. destruct Hc as [H1 H2].
      destruct i as [|i]; cbn in Hn.
      + injection Hn as <-. apply Nat.leb_le in H1. rewrite Nat.add_0_r. exact H1.
      + replace (b + S i) with (S b + i) by lia. eapply IH; eassumption.
  Qed.

  Lemma complete_nth w sched i c :
    complete w sched = true -> nth_error w i = Some c -> steps_needed c <= count i sched.
  Proof. intros Hc Hn. exact (complete_from_nth w 0 sched i c Hc Hn). Qed.

  (** under a complete schedule every run ends where it ends when run alone (from any world,
      also one in which some runs are already under way, failed or finished) *)
  Theorem complete_schedule_runs_each_to_end : forall w sched,
    complete w sched = true ->
    forall i c, nth_error w i = Some c -> nth_error (exec w sched) i = Some (run_to_end c).
  Proof.
    intros w sched Hc i c Hn.
    rewrite prefix_isolation, Hn. cbn. f_equal.
    apply steps_saturate. eapply complete_nth; eassumption.
  Qed.

  Corollary complete_schedule_world : forall w sched,
    complete w sched = true -> exec w sched = map run_to_end w.
  Proof.
    intros w sched Hc. apply nth_error_ext_eq. intros i.
    destruct (nth_error w i) as [c|] eqn:E.
    - rewrite (complete_schedule_runs_each_to_end w sched Hc i c E).
      symmetry. apply map_nth_error. exact E.
    - rewrite prefix_isolation, E. cbn. symmetry.
      apply nth_error_None. rewrite map_length. apply nth_error_None. exact E.
  Qed.

  (** MAIN THEOREM.  n runs, run i on its own provider [p_i] with script [ss_i], interleaved by
      ANY complete schedule: the final provider state and the result of every run are exactly
      those of [eval p_i ss_i], i.e. of the run executed alone - hence those of the runs
      executed one after another, in any order. *)
  Theorem interleaving_is_sequential : forall jobs sched,
    complete (init_world jobs) sched = true ->
    forall i p ss, nth_error jobs i = Some (p, ss) ->
      nth_error (exec (init_world jobs) sched) i = Some (fst (eval p ss), Done (snd (eval p ss))).
  Proof.
    intros jobs sched Hc i p ss Hn.
    assert (Hw : nth_error (init_world jobs) i = Some (init p ss)).
    { unfold init_world. rewrite (map_nth_error _ _ _ Hn). reflexivity. }
    rewrite (complete_schedule_runs_each_to_end _ _ Hc _ _ Hw).
    rewrite run_to_end_init. reflexivity.
  Qed.

  (** the same for the whole world at once *)
  Theorem interleaving_world_is_sequential : forall jobs sched,
    complete (init_world jobs) sched = true ->
    exec (init_world jobs) sched = map (fun j => finished (eval (fst j) (snd j))) jobs.
  Proof.
    intros jobs sched Hc. rewrite (complete_schedule_world _ _ Hc).
    unfold init_world. rewrite map_map. apply map_ext. intros [p ss]. apply run_to_end_init.
  Qed.

  (** any two complete schedules agree *)
  Corollary complete_schedules_agree : forall w s1 s2,
    complete w s1 = true -> complete w s2 = true -> exec w s1 = exec w s2.
  Proof. intros w s1 s2 H1 H2. rewrite !complete_schedule_world by assumption. reflexivity. Qed.

  (** *** the sequential executions are among the complete schedules *)

  (** run the runs listed in [order] one after another, each to its end *)
  Fixpoint sequential (w : world) (order : list nat) : list nat :=
    match order with
    | [] => []
    | i :: r =>
        repeat i (match nth_error w i with Some c => steps_needed c | None => 0 end) ++ sequential w r
    end.

  Lemma count_sequential_ge w order i c :
    In i order -> nth_error w i = Some c -> steps_needed c <= count i (sequential w order).
  Proof.
    intros Hin Hn. induction order as [|j r IH]; [destruct Hin|].
    cbn [sequential]. rewrite count_app.
    destruct (Nat.eq_dec j i) as [->|Hne].
    - rewrite Hn, count_repeat_same. lia.
    - destruct Hin as [->|Hin]; [contradiction|]. specialize (IH Hin). lia.
  Qed.

  Lemma complete_from_intro sched : forall w b,
    (forall i c, nth_error w i = Some c -> steps_needed c <= count (b + i) sched) ->
    complete_from b w sched = true.
  Proof.
    induction w as [|c r IH]; intros b H; [reflexivity|].
    cbn. apply andb_true_iff. split.
    - apply Nat.leb_le. specialize (H 0 c eq_refl). rewrite Nat.add_0_r in H. exact H.
    - apply IH. intros i c' Hn. replace (S b + i) with (b + S i) by lia. apply H. exact Hn.
  Qed.

  Theorem sequential_complete : forall w order,
    (forall i, i < List.length w -> In i order) -> complete w (sequential w order) = true.
  Proof.
    intros w order Hall. apply complete_from_intro. intros i c Hn. cbn.
    apply count_sequential_ge; [|exact Hn].
    apply Hall. apply nth_error_Some. congruence.
  Qed.

  (** hence: ANY complete interleaving = running the runs one after another in ANY order *)
  Corollary interleaving_equals_any_sequential_order : forall jobs sched order,
    complete (init_world jobs) sched = true ->
    (forall i, i < List.length jobs -> In i order) ->
    exec (init_world jobs) sched = exec (init_world jobs) (sequential (init_world jobs) order).
  Proof.
    intros jobs sched order Hc Hall. apply complete_schedules_agree; [exact Hc|].
    apply sequential_complete. unfold init_world. rewrite map_length. exact Hall.
  Qed.

  (** ** 4. the contrast: ONE provider shared by all runs *)
  Definition sworld := (provider * list runstate)%type.

  Fixpoint sstep_at (i : nat) (p : provider) (rs : list runstate) : sworld :=
    match rs, i with
    | [], _ => (p, [])
    | r :: rest, O => let '(p', r') := step1 (p, r) in (p', r' :: rest)
    | r :: rest, S i' => let '(p', rest') := sstep_at i' p rest in (p', r :: rest')
    end.

  Definition exec_shared (w : sworld) (sched : list nat) : sworld :=
    fold_left (fun w i => sstep_at i (fst w) (snd w)) sched w.

  Definition init_shared (p : provider) (scripts : list (list stmt)) : sworld :=
    (p, map (fun ss => Running ss []) scripts).

  (** the runs one after another in the order 0, 1, 2, ..., run number b first *)
  Fixpoint in_turn (b : nat) (scripts : list (list stmt)) : list nat :=
    match scripts with
    | [] => []
    | ss :: r => repeat b (S (List.length ss)) ++ in_turn (S b) r
    end.

  Lemma exec_shared_app w s1 s2 : exec_shared w (s1 ++ s2) = exec_shared (exec_shared w s1) s2.
  Proof. unfold exec_shared. apply fold_left_app. Qed.

  Lemma sstep_at_mid : forall pre p r post,
    sstep_at (List.length pre) p (pre ++ r :: post) =
    (fst (step1 (p, r)), pre ++ snd (step1 (p, r)) :: post).
  Proof.
    induction pre as [|x pre IH]; intros p r post.
    - cbn [List.length app sstep_at]. destruct (step1 (p, r)) as [p' r']. reflexivity.
    - cbn [List.length app sstep_at]. rewrite IH. reflexivity.
  Qed.

  Lemma exec_shared_repeat_mid : forall k pre p r post,
    exec_shared (p, pre ++ r :: post) (repeat (List.length pre) k) =
    (fst (steps k (p, r)), pre ++ snd (steps k (p, r)) :: post).
  Proof.
    induction k as [|k IH]; intros pre p r post.
    - reflexivity.
    - cbn [repeat]. unfold exec_shared. cbn [fold_left fst snd].
      rewrite sstep_at_mid. fold (exec_shared (fst (step1 (p, r)), pre ++ snd (step1 (p, r)) :: post)
                                              (repeat (List.length pre) k)).
      rewrite IH. cbn [steps]. destruct (step1 (p, r)) as [p' r']. reflexivity.
  Qed.

  (** executed one after another, the shared-provider model is the history [runs] of Session.v *)
  Theorem shared_in_turn_is_runs : forall scripts p dones,
    exec_shared (p, dones ++ map (fun ss => Running ss []) scripts) (in_turn (List.length dones) scripts) =
    (fst (runs p scripts), dones ++ map Done (snd (runs p scripts))).
  Proof.
    induction scripts as [|ss rest IH]; intros p dones.
    - reflexivity.
    - cbn [map in_turn Session.runs]. rewrite exec_shared_app, exec_shared_repeat_mid.
      pose proof (run_small_steps_eval p ss (S (List.length ss)) (le_n _)) as Hs.
      unfold init in Hs. rewrite Hs. cbn [fst snd].
      destruct (eval p ss) as [p1 r1]. cbn [fst snd].
      specialize (IH p1 (dones ++ [Done r1])).
      rewrite app_length in IH. cbn [List.length] in IH. rewrite Nat.add_1_r in IH.
      rewrite <- !app_assoc in IH. cbn [app] in IH. rewrite IH.
      destruct (runs p1 rest) as [p2 rs]. reflexivity.
  Qed.

  Corollary shared_sequential_is_runs : forall p scripts,
    exec_shared (init_shared p scripts) (in_turn 0 scripts) =
    (fst (runs p scripts), map Done (snd (runs p scripts))).
  Proof. intros p scripts. exact (shared_in_turn_is_runs scripts p []). Qed.
End Interleave.

Print Assumptions run_small_steps_eval.
Print Assumptions steps_commute.
Print Assumptions prefix_isolation.
Print Assumptions schedule_order_irrelevant.
Print Assumptions complete_schedule_runs_each_to_end.
Print Assumptions interleaving_is_sequential.
Print Assumptions interleaving_world_is_sequential.
Print Assumptions interleaving_equals_any_sequential_order.
Print Assumptions shared_sequential_is_runs.

(** * Concrete instance: the table-driven analysis of Provider/Abstract.v *)
Local Notation Stmt := astmt.
Local Notation Payload := (list string).
Local Notation Analyze := (Abstract.analyze true).
Local Arguments Running {stmt payload} todo acc.
Local Arguments Failed {stmt payload}.
Local Arguments Done {stmt payload} res.

Definition P0 : provider := {| base := [("s.t1", ["a"; "b"])]; session := [] |}.
Definition P1 : provider := {| base := [("s.t1", ["k"])]; session := [] |}.

(** ** non-vacuity of the main theorem: two runs, three statements each, the second run fails
    in the middle; both write the same table names, each in its own provider *)
Definition jobs2 : list (provider * list Stmt) :=
  [ (P0, [Cols "s.t2" ["x"]; CopyStar "s.t3" "s.t2"; CopyStar "s.t4" "s.t1"]);
    (P1, [CopyStar "s.t2" "s.t1"; Fail; NoWrite]) ].
Definition sched2 : list nat := [1; 0; 0; 1; 7; 0; 1; 0; 1; 1].

Example interleaving_nonvacuous :
  complete Stmt Payload (init_world Stmt Payload jobs2) sched2 = true /\
  exec Stmt Payload Analyze (init_world Stmt Payload jobs2) sched2 =
    [ (P0, Done (Some [["x"]; ["x"]; ["a"; "b"]])); (P1, Done None) ] /\
  map (fun j => eval Stmt Payload Analyze (fst j) (snd j)) jobs2 =
    [ (P0, Some [["x"]; ["x"]; ["a"; "b"]]); (P1, None) ] /\
  (* the schedule is a genuine interleaving: half-way both runs are under way and both
     sessions are populated, each with its own definition of s.t2 *)
  exec Stmt Payload Analyze (init_world Stmt Payload jobs2) [1; 0; 0] =
    [ ({| base := base P0; session := [("s.t2", ["x"]); ("s.t3", ["x"])] |},
       Running [CopyStar "s.t4" "s.t1"] [["x"]; ["x"]]);
      ({| base := base P1; session := [("s.t2", ["k"])] |},
       Running [Fail; NoWrite] [["k"]]) ] /\
  (* the failed run before its exit *)
  nth_error (exec Stmt Payload Analyze (init_world Stmt Payload jobs2) [1; 0; 0; 1]) 1 =
    Some ({| base := base P1; session := [("s.t2", ["k"])] |}, Failed).
Proof. vm_compute. repeat split; reflexivity. Qed.

(** the instance of the main theorem for that example, obtained from the theorem *)
Example interleaving_nonvacuous_by_theorem :
  exec Stmt Payload Analyze (init_world Stmt Payload jobs2) sched2 =
  map (fun j => finished Stmt Payload (eval Stmt Payload Analyze (fst j) (snd j))) jobs2.
Proof. apply interleaving_world_is_sequential. vm_compute. reflexivity. Qed.

(** non-vacuity of [steps_commute] and of [sequential_complete] *)
Example steps_commute_nonvacuous :
  exec Stmt Payload Analyze (init_world Stmt Payload jobs2) [0; 1] =
  exec Stmt Payload Analyze (init_world Stmt Payload jobs2) [1; 0] /\
  exec Stmt Payload Analyze (init_world Stmt Payload jobs2) [0; 1] <> init_world Stmt Payload jobs2.
Proof. split; [vm_compute; reflexivity | vm_compute; discriminate]. Qed.

Example sequential_nonvacuous :
  sequential Stmt Payload (init_world Stmt Payload jobs2) [1; 0] = [1; 1; 1; 1; 0; 0; 0; 0] /\
  complete Stmt Payload (init_world Stmt Payload jobs2) [1; 1; 1; 1; 0; 0; 0; 0] = true /\
  complete Stmt Payload (init_world Stmt Payload jobs2) [1; 1; 1; 1; 0; 0; 0] = false.
Proof. vm_compute. repeat split; reflexivity. Qed.

(** non-vacuity of the corollaries: schedules with the same counts; two complete schedules;
    a complete interleaving against the sequential execution in the order 1, 0 *)
Example schedule_order_irrelevant_nonvacuous :
  (forall i, i < List.length (init_world Stmt Payload jobs2) ->
     count i [0; 1; 0; 1; 1] = count i [1; 1; 0; 0; 1]) /\
  exec Stmt Payload Analyze (init_world Stmt Payload jobs2) [0; 1; 0; 1; 1] =
  exec Stmt Payload Analyze (init_world Stmt Payload jobs2) [1; 1; 0; 0; 1].
Proof.
  split; [|vm_compute; reflexivity].
  intros [|[|i]] Hi; [reflexivity | reflexivity | cbn in Hi; lia].
Qed.

Example any_sequential_order_nonvacuous :
  complete Stmt Payload (init_world Stmt Payload jobs2) sched2 = true /\
  (forall i, i < List.length jobs2 -> In i [1; 0]) /\
  exec Stmt Payload Analyze (init_world Stmt Payload jobs2) sched2 =
  exec Stmt Payload Analyze (init_world Stmt Payload jobs2)
       (sequential Stmt Payload (init_world Stmt Payload jobs2) [1; 0]).
Proof.
  split; [vm_compute; reflexivity|]. split; [|vm_compute; reflexivity].
  intros [|[|i]] Hi; cbn; [tauto | tauto | cbn in Hi; lia].
Qed.

(** ** the hypothesis "each run has its own provider" is necessary *)
Definition PS : provider := {| base := []; session := [] |}.
Definition scriptA : list Stmt := [Cols "s.t" ["a"]; CopyStar "s.u" "s.t"].
Definition scriptB : list Stmt := [Cols "s.t" ["b"]; CopyStar "s.u" "s.t"].

Definition results (w : sworld Stmt Payload) : list (option (option (list Payload))) :=
  map (fun r => match r with Done res => Some res | _ => None end) (snd w).

(** Two runs sharing one provider.  Executed one after the other, in either order, run A
    reports columns [a] for both statements and run B [b].  Under the interleaving
    A, B, A, ... run A's second statement sees B's definition of s.t: all runs finish, the
    provider ends clean, and the results differ from those of both sequential orders. *)
Theorem shared_provider_interleaving_refuted :
  let w := init_shared Stmt Payload PS [scriptA; scriptB] in
  let interleaved := exec_shared Stmt Payload Analyze w [0; 1; 0; 1; 0; 1] in
  let seq01 := exec_shared Stmt Payload Analyze w [0; 0; 0; 1; 1; 1] in
  let seq10 := exec_shared Stmt Payload Analyze w [1; 1; 1; 0; 0; 0] in
  results seq01 = [Some (Some [["a"]; ["a"]]); Some (Some [["b"]; ["b"]])] /\
  results seq10 = [Some (Some [["a"]; ["a"]]); Some (Some [["b"]; ["b"]])] /\
  results interleaved = [Some (Some [["a"]; ["b"]]); Some (Some [["b"]; ["b"]])] /\
  results interleaved <> results seq01 /\ results interleaved <> results seq10 /\
  fst interleaved = PS /\
  (* the sequential schedules are the histories of Session.v *)
  seq01 = (PS, map Done (snd (runs Stmt Payload Analyze PS [scriptA; scriptB]))) /\
  (* with a provider each, the very same schedule is harmless *)
  exec Stmt Payload Analyze (init_world Stmt Payload [(PS, scriptA); (PS, scriptB)]) [0; 1; 0; 1; 0; 1] =
    [(PS, Done (Some [["a"]; ["a"]])); (PS, Done (Some [["b"]; ["b"]]))].
Proof. vm_compute. repeat split; try reflexivity; discriminate. Qed.
Print Assumptions shared_provider_interleaving_refuted.

(** A second way to go wrong: the exit of one run wipes the shared session under the feet of the
    other one (here run 1 has nothing to do but to leave its session). *)
Theorem shared_provider_exit_refuted :
  let w := init_shared Stmt Payload PS [scriptA; []] in
  let interleaved := exec_shared Stmt Payload Analyze w [0; 1; 0; 0] in
  let seq01 := exec_shared Stmt Payload Analyze w [0; 0; 0; 1] in
  let seq10 := exec_shared Stmt Payload Analyze w [1; 0; 0; 0] in
  results seq01 = [Some (Some [["a"]; ["a"]]); Some (Some [])] /\
  results seq10 = results seq01 /\
  results interleaved = [Some (Some [["a"]; []]); Some (Some [])] /\
  results interleaved <> results seq01.
Proof. vm_compute. repeat split; try reflexivity; discriminate. Qed.
Print Assumptions shared_provider_exit_refuted.
