(** Model of sqllineage/utils/helpers.py:escape_identifier_name and of the
    identifier handling of the entity constructors in sqllineage/core/models.py
    (Schema, Table, Path, Column), on ASCII strings. *)
From SV Require Export Base.Util.

Definition is_bt (c : ascii) : bool := Ascii.eqb c "`"%char.
Definition is_dq (c : ascii) : bool := Ascii.eqb c """"%char.
Definition is_sq (c : ascii) : bool := Ascii.eqb c "'"%char.
Definition is_quote (c : ascii) : bool := is_bt c || is_dq c || is_sq c.
Definition is_bracket (c : ascii) : bool := Ascii.eqb c "["%char || Ascii.eqb c "]"%char.

Definition has_quote (s : string) : bool := sexists is_quote s.

Definition first_is (c : ascii) (s : string) : bool :=
  match s with String a _ => Ascii.eqb a c | EmptyString => false end.
Fixpoint last_is (c : ascii) (s : string) : bool :=
  match s with
  | EmptyString => false
  | String a EmptyString => Ascii.eqb a c
  | String _ r => last_is c r
  end.
Definition bracketed (s : string) : bool := first_is "["%char s && last_is "]"%char s.

(** escape_identifier_name *)
Definition escape (s : string) : string :=
  if has_quote s then strip is_sq (strip is_dq (strip is_bt s))
  else if bracketed s then strip is_bracket s
  else lower s.

(** ** Entities *)
Definition placeholder : string := "<default>".

(** Schema(name): [cfg] is SQLLineageConfig.DEFAULT_SCHEMA at the time of the call *)
Definition schema_of (cfg : string) (name : option string) : string :=
  match name with
  | Some n => if negb (String.eqb n "") then escape n
              else if negb (String.eqb cfg "") then escape cfg else escape placeholder
  | None => if negb (String.eqb cfg "") then escape cfg else escape placeholder
  end.

Definition is_dot (c : ascii) : bool := Ascii.eqb c "."%char.

(** str.rsplit(".", 1): (before the last dot, after it); None when there is no dot *)
Fixpoint rsplit_dot (s : string) : option (string * string) :=
  match s with
  | EmptyString => None
  | String c r =>
      match rsplit_dot r with
      | Some (a, b) => Some (String c a, b)
      | None => if is_dot c then Some (EmptyString, r) else None
      end
  end.

Fixpoint count_dots (s : string) : nat :=
  match s with
  | EmptyString => 0
  | String c r => (if is_dot c then 1 else 0) + count_dots r
  end.

Record table := { t_schema : string; t_raw : string; t_alias : string }.

Inductive tresult := TOk (t : table) | TErr.

(** Table(name, schema, alias=...): [schema_arg] is the raw_name of the Schema object
    passed by the caller, or None when the caller omits it - then the *default
    argument* applies, which Python evaluated once, at import time, with the
    configuration of that moment ([import_cfg]). *)
Definition table_of (cfg import_cfg : string) (name : string) (schema_arg : option string)
           (alias : option string) : tresult :=
  match rsplit_dot name with
  | None =>
      let sch := match schema_arg with Some s => s | None => schema_of import_cfg None end in
      let raw := escape name in
      TOk {| t_schema := sch; t_raw := raw;
             t_alias := escape (match alias with Some a => a | None => raw end) |}
  | Some (sname, tname) =>
      if Nat.ltb 1 (count_dots sname) then TErr
      else
        let raw := escape tname in
        TOk {| t_schema := schema_of cfg (Some sname); t_raw := raw;
               t_alias := escape (match alias with Some a => a | None => raw end) |}
  end.

Definition table_str (t : table) : string := t_schema t ++ "." ++ t_raw t.

(** what a position of a statement does to the spelling of an identifier: the
    number of times escape is applied on the way to the reported name *)
Fixpoint escape_n (n : nat) (s : string) : string :=
  match n with O => s | S k => escape (escape_n k s) end.

(** the reading the property prescribes for one identifier spelling *)
Definition norm (s : string) : string := escape s.

(** spellings for which applying escape again changes nothing *)
Definition no_upper (s : string) : bool := sforall (fun c => negb (is_upper c)) s.
Definition stable (s : string) : bool := negb (has_quote s) && negb (bracketed s) && no_upper s.

Definition show_table (r : tresult) : string :=
  match r with
  | TOk t => table_str t ++ "|" ++ t_alias t
  | TErr => "ERR"
  end.
