From SV Require Import Ident.Escape.

(** letters only differ in case *)
Definition same_modulo_case (s s' : string) : Prop := lower s = lower s'.
Definition plain (s : string) : Prop := has_quote s = false /\ bracketed s = false.


(** * Auxiliary facts *)
Lemma to_lower_idem c : to_lower (to_lower c) = to_lower c.
Proof. destruct c as [[] [] [] [] [] [] [] []]; vm_compute; reflexivity. Qed.

Lemma is_quote_to_lower c : is_quote (to_lower c) = is_quote c.
Proof. destruct c as [[] [] [] [] [] [] [] []]; vm_compute; reflexivity. Qed.

Lemma eqb_lb_to_lower c : Ascii.eqb (to_lower c) "["%char = Ascii.eqb c "["%char.
Proof. destruct c as [[] [] [] [] [] [] [] []]; vm_compute; reflexivity. Qed.

Lemma eqb_rb_to_lower c : Ascii.eqb (to_lower c) "]"%char = Ascii.eqb c "]"%char.
Proof. destruct c as [[] [] [] [] [] [] [] []]; vm_compute; reflexivity. Qed.

Lemma to_lower_not_upper c : is_upper c = false -> to_lower c = c.
Proof. intros H. unfold to_lower. rewrite H. reflexivity. Qed.

Lemma lower_lower s : lower (lower s) = lower s.
Proof.
  induction s as [|c r IH].
  - reflexivity.
  - unfold lower in *. cbn [smap]. rewrite to_lower_idem, IH. reflexivity.
Qed.

Lemma lower_no_upper s : no_upper s = true -> lower s = s.
Proof.
  unfold no_upper, lower. induction s as [|c r IH]; intros H.
  - reflexivity.
  - cbn [sforall] in H. apply andb_true_iff in H. destruct H as [Hc Hr].
    apply negb_true_iff in Hc. cbn [smap].
    rewrite (to_lower_not_upper c Hc), (IH Hr). reflexivity.
Qed.

Lemma has_quote_lower s : has_quote (lower s) = has_quote s.
Proof.
  unfold has_quote, lower. induction s as [|c r IH].
  - reflexivity.
  - cbn [smap sexists]. rewrite is_quote_to_lower, IH. reflexivity.
Qed.

Lemma last_is_lower_lb s : last_is "["%char (lower s) = last_is "["%char s.
Proof.
  unfold lower. induction s as [|c r IH].
  - reflexivity.
  - destruct r as [|d r'].
    + cbn. apply eqb_lb_to_lower.
    + cbn [smap last_is] in *. exact IH.
Qed.

Lemma last_is_lower_rb s : last_is "]"%char (lower s) = last_is "]"%char s.
Proof.
  unfold lower. induction s as [|c r IH].
  - reflexivity.
  - destruct r as [|d r'].
    + cbn. apply eqb_rb_to_lower.
    + cbn [smap last_is] in *. exact IH.
Qed.

Lemma bracketed_lower s : bracketed (lower s) = bracketed s.
Proof.
  unfold bracketed. rewrite last_is_lower_rb. f_equal.
  destruct s as [|c r].
  - reflexivity.
  - unfold lower. cbn [smap first_is]. apply eqb_lb_to_lower.
Qed.

Lemma sexists_weaken (p q : ascii -> bool) s :
  (forall c, p c = false -> q c = false) -> sexists p s = false -> sexists q s = false.
Proof.
  intros Hpq. induction s as [|c r IH]; intros H.
  - reflexivity.
  - cbn [sexists] in *. apply orb_false_iff in H. destruct H as [Hc Hr].
    rewrite (Hpq c Hc), (IH Hr). reflexivity.
Qed.

Lemma sexists_app p a b : sexists p (a ++ b) = sexists p a || sexists p b.
Proof.
  induction a as [|c r IH].
  - reflexivity.
  - change ((String c r ++ b)%string) with (String c (r ++ b)).
    cbn [sexists]. rewrite IH. apply orb_assoc.
Qed.

Lemma lstrip_none p s : sexists p s = false -> lstrip p s = s.
Proof.
  destruct s as [|c r]; intros H.
  - reflexivity.
  - cbn [sexists] in H. apply orb_false_iff in H. destruct H as [Hc _].
    cbn [lstrip]. rewrite Hc. reflexivity.
Qed.

Lemma rstrip_none p s : sexists p s = false -> rstrip p s = s.
Proof.
  induction s as [|c r IH]; intros H.
  - reflexivity.
  - cbn [sexists] in H. apply orb_false_iff in H. destruct H as [Hc Hr].
    cbn [rstrip]. rewrite (IH Hr), Hc. destruct r; reflexivity.
Qed.

Lemma strip_none p s : sexists p s = false -> strip p s = s.
Proof.
  intros H. unfold strip. rewrite (lstrip_none p s H). apply rstrip_none. exact H.
Qed.

Lemma rstrip_snoc p s c : p c = true -> rstrip p (s ++ String c "") = rstrip p s.
Proof.
  intros Hc. induction s as [|a r IH].
  - cbn. rewrite Hc. reflexivity.
  - change ((String a r ++ String c "")%string) with (String a (r ++ String c "")).
    cbn [rstrip]. rewrite IH. reflexivity.
Qed.

Lemma rstrip_snoc_keep p s c : p c = false -> rstrip p (s ++ String c "") = (s ++ String c "")%string.
Proof.
  intros Hc. induction s as [|a r IH].
  - cbn. rewrite Hc. reflexivity.
  - change ((String a r ++ String c "")%string) with (String a (r ++ String c "")).
    cbn [rstrip]. rewrite IH. destruct r; reflexivity.
Qed.

(** a string wrapped in a character the predicate does not match is untouched *)
Lemma strip_other p c s :
  p c = false -> strip p (String c (s ++ String c "")) = String c (s ++ String c "").
Proof.
  intros Hc. unfold strip. cbn [lstrip]. rewrite Hc.
  change (String c (s ++ String c "")) with ((String c s) ++ String c "")%string.
  apply rstrip_snoc_keep. exact Hc.
Qed.

(** a clean string wrapped in a matching character loses exactly the wrapping *)
Lemma strip_wrapped p c s :
  sexists p s = false -> p c = true -> strip p (String c (s ++ String c "")) = s.
Proof.
  intros Hs Hc. unfold strip. cbn [lstrip]. rewrite Hc.
  destruct s as [|a r].
  - cbn. rewrite Hc. reflexivity.
  - change ((String a r ++ String c "")%string) with (String a (r ++ String c "")).
    pose proof Hs as Hs'.
    cbn [sexists] in Hs'. apply orb_false_iff in Hs'. destruct Hs' as [Ha _].
    cbn [lstrip]. rewrite Ha.
    change (String a (r ++ String c "")) with ((String a r) ++ String c "")%string.
    rewrite (rstrip_snoc p (String a r) c Hc). apply rstrip_none. exact Hs.
Qed.

Lemma last_is_snoc c s : last_is c (s ++ String c "") = true.
Proof.
  induction s as [|a r IH].
  - cbn. apply Ascii.eqb_refl.
  - change ((String a r ++ String c "")%string) with (String a (r ++ String c "")).
    destruct r as [|b r'].
    + cbn. apply Ascii.eqb_refl.
    + change ((String b r' ++ String c "")%string) with (String b (r' ++ String c "")) in *.
      cbn [last_is] in *. exact IH.
Qed.

Lemma rstrip_bracket_last s :
  last_is "["%char s = false -> last_is "]"%char s = false -> rstrip is_bracket s = s.
Proof.
  induction s as [|a r IH]; intros H1 H2.
  - reflexivity.
  - destruct r as [|b r'].
    + cbn in H1, H2. cbn. unfold is_bracket. rewrite H1, H2. reflexivity.
    + change (last_is "["%char (String a (String b r'))) with (last_is "["%char (String b r')) in H1.
      change (last_is "]"%char (String a (String b r'))) with (last_is "]"%char (String b r')) in H2.
      change (rstrip is_bracket (String a (String b r'))) with
        (match rstrip is_bracket (String b r') with
         | EmptyString => if is_bracket a then EmptyString else String a EmptyString
         | r0 => String a r0 end).
      rewrite (IH H1 H2). reflexivity.
Qed.

Lemma rsplit_dot_none_aux s : count_dots s = 0 -> rsplit_dot s = None.
Proof.
  induction s as [|c r IH]; intros H.
  - reflexivity.
  - cbn [count_dots] in H. cbn [rsplit_dot].
    destruct (is_dot c).
    + discriminate H.
    + rewrite IH by exact H. reflexivity.
Qed.

(** unquoted identifiers: lower-cased, hence compared case-insensitively *)
Lemma escape_plain s : plain s -> escape s = lower s.
Proof.
  intros [Hq Hb]. unfold escape. rewrite Hq, Hb. reflexivity.
Qed.

Theorem escape_case_insensitive s s' :
  plain s -> plain s' -> same_modulo_case s s' -> escape s = escape s'.
Proof.
  intros Hp Hp' Hc. rewrite (escape_plain s Hp), (escape_plain s' Hp'). exact Hc.
Qed.

(** quoted identifiers keep their case and lose only the quotes *)
Definition clean (s : string) : Prop := has_quote s = false.

Theorem escape_double_quoted s : clean s -> escape (String """"%char (s ++ """")) = s.
Proof.
  intros Hc. unfold clean, has_quote in Hc.
  unfold escape.
  replace (has_quote (String """"%char (s ++ """"))) with true by reflexivity.
  change (String """"%char (s ++ """")) with (String """"%char (s ++ String """"%char "")).
  rewrite (strip_other is_bt """"%char s) by reflexivity.
  rewrite (strip_wrapped is_dq """"%char s).
  - apply strip_none. apply (sexists_weaken is_quote); [|exact Hc].
    intros c Hq. unfold is_quote in Hq. apply orb_false_iff in Hq. tauto.
  - apply (sexists_weaken is_quote); [|exact Hc].
    intros c Hq. unfold is_quote in Hq. apply orb_false_iff in Hq.
    destruct Hq as [Hq _]. apply orb_false_iff in Hq. tauto.
  - reflexivity.
Qed.

Theorem escape_backticked s : clean s -> escape (String "`"%char (s ++ "`")) = s.
Proof.
  intros Hc. unfold clean, has_quote in Hc.
  assert (Hbt : sexists is_bt s = false).
  { apply (sexists_weaken is_quote); [|exact Hc].
    intros c Hq. unfold is_quote in Hq. apply orb_false_iff in Hq.
    destruct Hq as [Hq _]. apply orb_false_iff in Hq. tauto. }
  assert (Hdq : sexists is_dq s = false).
  { apply (sexists_weaken is_quote); [|exact Hc].
    intros c Hq. unfold is_quote in Hq. apply orb_false_iff in Hq.
    destruct Hq as [Hq _]. apply orb_false_iff in Hq. tauto. }
  assert (Hsq : sexists is_sq s = false).
  { apply (sexists_weaken is_quote); [|exact Hc].
    intros c Hq. unfold is_quote in Hq. apply orb_false_iff in Hq. tauto. }
  unfold escape.
  replace (has_quote (String "`"%char (s ++ "`"))) with true by reflexivity.
  change (String "`"%char (s ++ "`")) with (String "`"%char (s ++ String "`"%char "")).
  rewrite (strip_wrapped is_bt "`"%char s Hbt) by reflexivity.
  rewrite (strip_none is_dq s Hdq). apply strip_none. exact Hsq.
Qed.

Theorem escape_bracketed s :
  clean s -> first_is "["%char s = false -> first_is "]"%char s = false ->
  last_is "["%char s = false -> last_is "]"%char s = false ->
  escape (String "["%char (s ++ "]")) = s.
Proof.
  intros Hc Hf1 Hf2 Hl1 Hl2. unfold clean, has_quote in Hc.
  unfold escape.
  assert (Hq : has_quote (String "["%char (s ++ "]")) = false).
  { unfold has_quote. cbn [sexists]. rewrite sexists_app, Hc. reflexivity. }
  rewrite Hq.
  assert (Hb : bracketed (String "["%char (s ++ "]")) = true).
  { unfold bracketed. cbn [first_is]. rewrite Ascii.eqb_refl. cbn [andb].
    change (String "["%char (s ++ "]")) with ((String "["%char s) ++ String "]"%char "")%string.
    apply last_is_snoc. }
  rewrite Hb.
  unfold strip. cbn [lstrip]. replace (is_bracket "["%char) with true by reflexivity.
  destruct s as [|a r].
  - reflexivity.
  - cbn [first_is] in Hf1, Hf2.
    change ((String a r ++ "]")%string) with (String a (r ++ "]")).
    assert (Ha : is_bracket a = false).
    { unfold is_bracket. rewrite Hf1, Hf2. reflexivity. }
    cbn [lstrip]. rewrite Ha.
    change (String a (r ++ "]")) with (String a r ++ String "]"%char "")%string.
    rewrite rstrip_snoc by reflexivity.
    apply rstrip_bracket_last; assumption.
Qed.

(** applying escape twice: harmless exactly on stable results *)
Theorem escape_stable s : stable s = true -> escape s = s.
Proof.
  unfold stable. intros H.
  apply andb_true_iff in H. destruct H as [H Hu].
  apply andb_true_iff in H. destruct H as [Hq Hb].
  apply negb_true_iff in Hq. apply negb_true_iff in Hb.
  unfold escape. rewrite Hq, Hb. apply lower_no_upper. exact Hu.
Qed.

Theorem escape_idem_plain s : plain s -> escape (escape s) = escape s.
Proof.
  intros Hp. rewrite (escape_plain s Hp).
  destruct Hp as [Hq Hb].
  rewrite escape_plain.
  - apply lower_lower.
  - split.
    + rewrite has_quote_lower. exact Hq.
    + rewrite bracketed_lower. exact Hb.
Qed.

Theorem escape_n_stable n s : stable (escape s) = true -> escape_n (S n) s = escape s.
Proof.
  intros Hs. induction n as [|k IH].
  - reflexivity.
  - change (escape_n (S (S k)) s) with (escape (escape_n (S k) s)).
    rewrite IH. apply escape_stable. exact Hs.
Qed.

(** a dotted name splits at its last dot *)
Theorem rsplit_dot_spec a b :
  count_dots b = 0 -> rsplit_dot (a ++ "." ++ b) = Some (a, b).
Proof.
  intros Hb. induction a as [|c a IH].
  - change (("" ++ "." ++ b)%string) with (String "."%char b).
    cbn [rsplit_dot]. rewrite (rsplit_dot_none_aux b Hb). reflexivity.
  - change ((String c a ++ "." ++ b)%string) with (String c (a ++ "." ++ b)).
    cbn [rsplit_dot]. rewrite IH. reflexivity.
Qed.

Theorem rsplit_dot_none s : count_dots s = 0 -> rsplit_dot s = None.
Proof. apply rsplit_dot_none_aux. Qed.

Theorem table_last_dot cfg icfg a b al :
  count_dots b = 0 -> count_dots a <= 1 ->
  table_of cfg icfg (a ++ "." ++ b) None al =
  TOk {| t_schema := schema_of cfg (Some a); t_raw := escape b;
         t_alias := escape (match al with Some x => x | None => escape b end) |}.
Proof.
  intros Hb Ha. unfold table_of. rewrite (rsplit_dot_spec a b Hb).
  replace (Nat.ltb 1 (count_dots a)) with false.
  - reflexivity.
  - symmetry. apply Nat.ltb_ge. exact Ha.
Qed.

Theorem table_too_many_parts cfg icfg a b sa al :
  count_dots b = 0 -> 2 <= count_dots a -> table_of cfg icfg (a ++ "." ++ b) sa al = TErr.
Proof.
  intros Hb Ha. unfold table_of. rewrite (rsplit_dot_spec a b Hb).
  replace (Nat.ltb 1 (count_dots a)) with true.
  - reflexivity.
  - symmetry. apply Nat.ltb_lt. exact Ha.
Qed.
