(** How many times escape_identifier_name is applied to an identifier on its way
    from a syntactic position of a statement to the name reported in the result
    (read from sqlfluff/models.py + core/models.py + holders.py; tied by suite T0-SQL). *)
From SV Require Export Ident.Escape.

Inductive pos :=
| PSourceTable      (* FROM t                      : SqlFluffTable.of -> Table(name)           *)
| PTargetTable      (* INSERT INTO t               : the same                                   *)
| PSchema           (* FROM s.t, qualifier part    : escaped per part, joined, Schema() again   *)
| PColTarget        (* select item name / alias    : Column(name)                               *)
| PColSource        (* column referenced in an item: Column(source_columns) then Column(name)   *)
| PColList          (* INSERT INTO t (c)           : Column(name)                               *)
| PWildcardExpanded (* column copied through '*'   : Column(src.raw_name) of an escaped name    *).

Definition escapes_at (p : pos) : nat :=
  match p with
  | PSchema | PColSource | PWildcardExpanded => 2
  | _ => 1
  end.

Definition reported (p : pos) (spelling : string) : string := escape_n (escapes_at p) spelling.

(** a column written by one statement (target position) is found again by the next
    statement reading it (source position) iff the two reported names coincide *)
Definition chain_found (spelling : string) : bool :=
  String.eqb (reported PColTarget spelling) (reported PColSource spelling).

Definition show_pos (p : pos) (s : string) : string := reported p s.
