(** Statements about all_simple_paths / get_column_lineage as modelled in Holder/Build.v (C04, C06). *)
From SV Require Import Holder.Build.

(** consecutive nodes of a path are joined by edges of the graph *)
Fixpoint chain (g : graph) (p : list node) : Prop :=
  match p with
  | a :: ((b :: _) as r) => memn b (successors g a) = true /\ chain g r
  | _ => True
  end.

(** no node occurs twice (up to Python equality) *)
Fixpoint simple (p : list node) : Prop :=
  match p with
  | [] => True
  | a :: r => memn a r = false /\ simple r
  end.

Lemma dkind_beq_refl k : dkind_beq k k = true.
Proof. destruct k; reflexivity. Qed.

Lemma dkind_beq_sym a b : dkind_beq a b = dkind_beq b a.
Proof. destruct a, b; reflexivity. Qed.

Lemma dkind_beq_eq a b : dkind_beq a b = true -> a = b.
Proof. destruct a, b; cbn; intros H; try reflexivity; discriminate H. Qed.

Lemma dataset_eqb_refl d : dataset_eqb d d = true.
Proof. unfold dataset_eqb. rewrite dkind_beq_refl, String.eqb_refl. reflexivity. Qed.

Lemma dataset_eqb_sym a b : dataset_eqb a b = dataset_eqb b a.
Proof. unfold dataset_eqb. rewrite (dkind_beq_sym (dk a)), (String.eqb_sym (deq a)). reflexivity. Qed.

Lemma dataset_eqb_trans a b c : dataset_eqb a b = true -> dataset_eqb b c = true -> dataset_eqb a c = true.
Proof.
  unfold dataset_eqb. intros Hab Hbc.
  apply andb_true_iff in Hab. destruct Hab as [Hk1 Hs1].
  apply andb_true_iff in Hbc. destruct Hbc as [Hk2 Hs2].
  apply dkind_beq_eq in Hk1. apply dkind_beq_eq in Hk2.
  apply String.eqb_eq in Hs1. apply String.eqb_eq in Hs2.
  rewrite Hk1, Hk2, Hs1, Hs2, dkind_beq_refl, String.eqb_refl. reflexivity.
Qed.

Lemma opt_dataset_eqb_refl o : opt_dataset_eqb o o = true.
Proof. destruct o as [d|]; cbn; [apply dataset_eqb_refl|reflexivity]. Qed.

Lemma opt_dataset_eqb_sym a b : opt_dataset_eqb a b = opt_dataset_eqb b a.
Proof. destruct a as [x|], b as [y|]; cbn; try reflexivity. apply dataset_eqb_sym. Qed.

Lemma opt_dataset_eqb_trans a b c :
  opt_dataset_eqb a b = true -> opt_dataset_eqb b c = true -> opt_dataset_eqb a c = true.
Proof.
  destruct a as [x|], b as [y|], c as [z|]; cbn; intros H1 H2; try reflexivity; try discriminate.
  exact (dataset_eqb_trans _ _ _ H1 H2).
Qed.

Lemma col_eqb_refl c : col_eqb c c = true.
Proof. unfold col_eqb. rewrite String.eqb_refl, opt_dataset_eqb_refl. reflexivity. Qed.

Lemma col_eqb_sym a b : col_eqb a b = col_eqb b a.
Proof.
  unfold col_eqb. rewrite (String.eqb_sym (col_str a)), (opt_dataset_eqb_sym (col_parent a)). reflexivity.
Qed.

Lemma col_eqb_trans a b c : col_eqb a b = true -> col_eqb b c = true -> col_eqb a c = true.
Proof.
  unfold col_eqb. intros Hab Hbc.
  apply andb_true_iff in Hab. destruct Hab as [Hs1 Hp1].
  apply andb_true_iff in Hbc. destruct Hbc as [Hs2 Hp2].
  apply String.eqb_eq in Hs1. apply String.eqb_eq in Hs2.
  rewrite Hs1, Hs2, String.eqb_refl, (opt_dataset_eqb_trans _ _ _ Hp1 Hp2). reflexivity.
Qed.

Lemma node_eqb_refl n : node_eqb n n = true.
Proof.
  destruct n as [d|c|s]; cbn [node_eqb].
  - apply dataset_eqb_refl.
  - apply col_eqb_refl.
  - apply String.eqb_refl.
Qed.

Lemma node_eqb_sym a b : node_eqb a b = node_eqb b a.
Proof.
  destruct a as [x|x|x], b as [y|y|y]; cbn [node_eqb]; try reflexivity.
  - apply dataset_eqb_sym.
  - apply col_eqb_sym.
  - apply String.eqb_sym.
Qed.

Lemma node_eqb_trans a b c : node_eqb a b = true -> node_eqb b c = true -> node_eqb a c = true.
Proof.
  destruct a as [x|x|x], b as [y|y|y], c as [z|z|z]; cbn [node_eqb]; intros H1 H2;
    try discriminate.
  - exact (dataset_eqb_trans _ _ _ H1 H2).
  - exact (col_eqb_trans _ _ _ H1 H2).
  - apply String.eqb_eq in H1. apply String.eqb_eq in H2. subst. apply String.eqb_refl.
Qed.

(** auxiliary facts *)
Lemma node_eqb_cong_l a b x : node_eqb a b = true -> node_eqb a x = node_eqb b x.
Proof.
  intros Hab.
  destruct (node_eqb a x) eqn:Hax; destruct (node_eqb b x) eqn:Hbx; try reflexivity.
  - rewrite node_eqb_sym in Hab. rewrite (node_eqb_trans _ _ _ Hab Hax) in Hbx. discriminate Hbx.
  - rewrite (node_eqb_trans _ _ _ Hab Hbx) in Hax. discriminate Hax.
Qed.

Lemma memn_cons_false x a l : memn x (a :: l) = false -> node_eqb x a = false /\ memn x l = false.
Proof. unfold memn; cbn [existsb]. intros H. apply orb_false_iff in H. exact H. Qed.

Lemma memn_false_all x l : (forall y, In y l -> node_eqb x y = false) -> memn x l = false.
Proof.
  unfold memn. induction l as [|a l IHl]; intros H; cbn [existsb].
  - reflexivity.
  - rewrite (H a (or_introl eq_refl)). cbn [orb]. apply IHl. intros y Hy. apply H. right. exact Hy.
Qed.

Lemma memn_in_refl x l : In x l -> memn x l = true.
Proof.
  intros H. unfold memn. apply existsb_exists. exists x. split; [exact H|apply node_eqb_refl].
Qed.

Lemma last_cons_indep (p : list node) : forall a d d', last (a :: p) d = last (a :: p) d'.
Proof.
  induction p as [|b p IHp]; intros a d d'.
  - reflexivity.
  - change (last (b :: p) d = last (b :: p) d'). apply IHp.
Qed.

Lemma last_cons (p : list node) a d : last (a :: p) d = last p a.
Proof.
  destruct p as [|b p].
  - reflexivity.
  - change (last (b :: p) d = last (b :: p) a). apply last_cons_indep.
Qed.

(** every node of the graph is retrievable by equality *)
Theorem node_retrievable g n : In n (map fst (gnodes g)) -> has_node g n = true.
Proof.
  unfold has_node. induction (gnodes g) as [|[m a] l IHl]; cbn [map fst In has_node_l]; intros H.
  - contradiction.
  - destruct H as [H|H].
    + subst m. rewrite node_eqb_refl. reflexivity.
    + rewrite (IHl H). apply orb_true_r.
Qed.

(** ** soundness of the path enumeration *)
Theorem paths_from_sound g fuel : forall visited cur tgt p,
  In p (paths_from g fuel visited cur tgt) ->
  p <> [] /\ chain g (cur :: p) /\ simple p /\
  (forall x, In x p -> memn x visited = false) /\
  (exists q, p = q ++ [last p cur] /\ node_eqb (last p cur) tgt = true /\
             forall x, In x q -> node_eqb x tgt = false).
Proof.
  induction fuel as [|k IH]; intros visited cur tgt p Hin.
  - cbn [paths_from] in Hin. contradiction.
  - cbn [paths_from] in Hin. apply in_flat_map in Hin. destruct Hin as [nx [Hnx Hin]].
    destruct (memn nx visited) eqn:Hvis; [contradiction|].
    destruct (node_eqb nx tgt) eqn:Htgt.
    + destruct Hin as [Hp|[]]. subst p.
      split; [discriminate|]. split.
      { cbn [chain]. split; [apply memn_in_refl; exact Hnx|exact I]. }
      split.
      { cbn [simple]. split; [reflexivity|exact I]. }
      split.
      { intros x [Hx|[]]. subst x. exact Hvis. }
      exists []. cbn [last app]. split; [reflexivity|]. split; [exact Htgt|]. intros x [].
    + apply in_map_iff in Hin. destruct Hin as [p' [Hp Hin']]. subst p.
      apply IH in Hin'. destruct Hin' as [Hne [Hch [Hsimp [Hvis' [q [Hq [Hlast Hqf]]]]]]].
      split; [discriminate|]. split.
      { change (memn nx (successors g cur) = true /\ chain g (nx :: p')).
        split; [apply memn_in_refl; exact Hnx|exact Hch]. }
      split.
      { cbn [simple]. split; [|exact Hsimp].
        apply memn_false_all. intros y Hy. rewrite node_eqb_sym.
        exact (proj1 (memn_cons_false _ _ _ (Hvis' y Hy))). }
      split.
      { intros x [Hx|Hx].
        - subst x. exact Hvis.
        - exact (proj2 (memn_cons_false _ _ _ (Hvis' x Hx))). }
      exists (nx :: q). rewrite last_cons. split.
      { cbn [app]. f_equal. exact Hq. }
      split; [exact Hlast|].
      intros x [Hx|Hx]; [subst x; exact Htgt|exact (Hqf x Hx)].
Qed.

Theorem all_simple_paths_sound g s t p :
  In p (all_simple_paths g s t) ->
  exists r, p = s :: r /\ chain g p /\ simple p /\ node_eqb (last p s) t = true.
Proof.
  unfold all_simple_paths. intros Hin.
  destruct (node_eqb s t) eqn:Hst.
  - destruct Hin as [Hp|[]]. subst p. exists []. split; [reflexivity|].
    split; [exact I|]. split; [cbn [simple]; split; [reflexivity|exact I]|].
    cbn [last]. exact Hst.
  - apply in_map_iff in Hin. destruct Hin as [p' [Hp Hin]]. subst p.
    apply paths_from_sound in Hin.
    destruct Hin as [Hne [Hch [Hsimp [Hvis [q [Hq [Hlast Hqf]]]]]]].
    exists p'. split; [reflexivity|]. split; [exact Hch|]. split.
    + cbn [simple]. split; [|exact Hsimp].
      apply memn_false_all. intros y Hy. rewrite node_eqb_sym.
      exact (proj1 (memn_cons_false _ _ _ (Hvis y Hy))).
    + rewrite last_cons. exact Hlast.
Qed.

(** ** completeness, for paths that fit in the fuel (fuel = number of nodes, see all_simple_paths);
    [schain]: each node is literally one of the stored successors of the previous one *)
Fixpoint schain (g : graph) (p : list node) : Prop :=
  match p with
  | a :: ((b :: _) as r) => In b (successors g a) /\ schain g r
  | _ => True
  end.

Theorem paths_from_complete g : forall p fuel visited cur tgt,
  p <> [] -> List.length p <= fuel ->
  schain g (cur :: p) -> simple p ->
  (forall x, In x p -> memn x visited = false) ->
  node_eqb (last p cur) tgt = true ->
  (forall x, In x (removelast p) -> node_eqb x tgt = false) ->
  In p (paths_from g fuel visited cur tgt).
Proof.
  induction p as [|x1 p' IH]; intros fuel visited cur tgt Hne Hlen Hsch Hsimp Hvis Hlast Hrl.
  - contradiction Hne. reflexivity.
  - destruct fuel as [|k]; [cbn [List.length] in Hlen; lia|].
    cbn [paths_from]. apply in_flat_map. exists x1.
    assert (Hsucc : In x1 (successors g cur)).
    { destruct p'; exact (proj1 Hsch). }
    split; [exact Hsucc|].
    rewrite (Hvis x1 (or_introl eq_refl)).
    destruct (node_eqb x1 tgt) eqn:Htgt.
    + destruct p' as [|x2 p''].
      * left. reflexivity.
      * exfalso. assert (Hx : node_eqb x1 tgt = false).
        { apply Hrl. change (In x1 (x1 :: removelast (x2 :: p''))). left. reflexivity. }
        rewrite Hx in Htgt. discriminate Htgt.
    + apply in_map_iff. exists p'. split; [reflexivity|].
      assert (Hne' : p' <> []).
      { intros He. subst p'. cbn [last] in Hlast. rewrite Hlast in Htgt. discriminate Htgt. }
      cbn [simple] in Hsimp. destruct Hsimp as [Hx1 Hsimp'].
      apply IH.
      * exact Hne'.
      * cbn [List.length] in Hlen. lia.
      * destruct p' as [|x2 p'']; [exact I|]. exact (proj2 Hsch).
      * exact Hsimp'.
      * intros x Hx. unfold memn. cbn [existsb].
        change (node_eqb x x1 || memn x visited = false).
        rewrite (Hvis x (or_intror Hx)). rewrite orb_false_r.
        rewrite node_eqb_sym.
        unfold memn in Hx1.
        destruct (node_eqb x1 x) eqn:Hxx; [|reflexivity].
        assert (Hex : existsb (node_eqb x1) p' = true).
        { apply existsb_exists. exists x. split; [exact Hx|exact Hxx]. }
        rewrite Hex in Hx1. discriminate Hx1.
      * rewrite last_cons in Hlast. exact Hlast.
      * intros x Hx. apply Hrl. destruct p' as [|x2 p'']; [contradiction Hne'; reflexivity|].
        change (In x (x1 :: removelast (x2 :: p''))). right. exact Hx.
Qed.

(** ** reported column paths are well formed (after fix F4): at least one hop, a chain of
    direct dependencies, from a column nothing feeds to a column that feeds nothing *)
Lemma is_column_eqb a b : node_eqb a b = true -> is_column a = is_column b.
Proof. destruct a, b; cbn [node_eqb is_column]; intros H; try reflexivity; discriminate H. Qed.

Lemma outdeg_eqb g a b : node_eqb a b = true -> outdeg g a = outdeg g b.
Proof.
  intros Hab. unfold outdeg, out_edges. f_equal. apply filter_ext.
  intros e. apply node_eqb_cong_l. exact Hab.
Qed.

Lemma parent_is_eqb k a b : node_eqb a b = true -> parent_is k a = parent_is k b.
Proof.
  destruct a as [x|x|x], b as [y|y|y]; cbn [node_eqb parent_is]; intros H;
    try reflexivity; try discriminate H.
  unfold col_eqb in H. apply andb_true_iff in H. destruct H as [_ H].
  destruct (col_parent x) as [dx|], (col_parent y) as [dy|]; cbn [opt_dataset_eqb] in H;
    try reflexivity; try discriminate H.
  unfold dataset_eqb in H. apply andb_true_iff in H. destruct H as [H _].
  apply dkind_beq_eq in H. rewrite H. reflexivity.
Qed.

Theorem column_lineage_wf g b p :
  In p (column_lineage g b false) ->
  2 <= List.length p /\ chain g p /\ simple p /\
  (exists s r, p = s :: r /\ is_column s = true /\ indeg (column_graph g) s = 0) /\
  (is_column (last p (NStr "")) = true /\ outdeg (column_graph g) (last p (NStr "")) = 0 /\
   (b = true -> parent_is KTable (last p (NStr "")) = true)).
Proof.
  unfold column_lineage. cbv zeta. intros Hin.
  apply in_flat_map in Hin. destruct Hin as [s [Hs Hin]].
  apply in_flat_map in Hin. destruct Hin as [t [Ht Hin]].
  apply in_flat_map in Hin. destruct Hin as [path [Hpath Hin]].
  destruct (Nat.ltb 1 (List.length path)) eqn:Hlen; [|contradiction].
  destruct Hin as [Hp|[]]. subst path.
  apply Nat.ltb_lt in Hlen.
  apply all_simple_paths_sound in Hpath. destruct Hpath as [r [Hp [Hch [Hsimp Hlast]]]].
  apply filter_In in Hs. destruct Hs as [Hscol Hsdeg]. apply Nat.eqb_eq in Hsdeg.
  assert (Hcols : forall n, In n (map fst (gnodes (column_graph g))) -> is_column n = true).
  { intros n Hn. apply in_map_iff in Hn. destruct Hn as [[n' a] [Hn Hn']]. cbn [fst] in Hn. subst n'.
    unfold column_graph, subgraph in Hn'. cbn [gnodes] in Hn'. apply filter_In in Hn'.
    exact (proj2 Hn'). }
  assert (Ht' : In t (filter (fun n => Nat.eqb (outdeg (column_graph g) n) 0)
                             (map fst (gnodes (column_graph g)))) /\
                (b = true -> parent_is KTable t = true)).
  { destruct b.
    - apply filter_In in Ht. destruct Ht as [Ht Hpt]. split; [exact Ht|]. intros _. exact Hpt.
    - split; [exact Ht|]. intros Hb. discriminate Hb. }
  destruct Ht' as [Ht0 Hpar]. apply filter_In in Ht0. destruct Ht0 as [Htcol Htdeg].
  apply Nat.eqb_eq in Htdeg.
  assert (Hl : last p (NStr "") = last p s).
  { rewrite Hp. apply last_cons_indep. }
  rewrite Hl.
  split; [lia|]. split; [exact Hch|]. split; [exact Hsimp|]. split.
  { exists s, r. split; [exact Hp|]. split; [exact (Hcols s Hscol)|exact Hsdeg]. }
  split.
  { rewrite (is_column_eqb _ _ Hlast). exact (Hcols t Htcol). }
  split.
  { rewrite (outdeg_eqb _ _ _ Hlast). exact Htdeg. }
  intros Hb. rewrite (parent_is_eqb _ _ _ Hlast). exact (Hpar Hb).
Qed.

Theorem column_lineage_min_length g b c p :
  In p (column_lineage g b c) -> 2 <= List.length p.
Proof.
  unfold column_lineage. cbv zeta. intros Hin.
  apply in_flat_map in Hin. destruct Hin as [s [Hs Hin]].
  apply in_flat_map in Hin. destruct Hin as [t [Ht Hin]].
  apply in_flat_map in Hin. destruct Hin as [path [Hpath Hin]].
  match type of Hin with In _ (if Nat.ltb 1 (List.length ?q) then _ else _) =>
    destruct (Nat.ltb 1 (List.length q)) eqn:Hlen; [|contradiction] end.
  destruct Hin as [Hp|[]]. subst p.
  apply Nat.ltb_lt in Hlen. lia.
Qed.
