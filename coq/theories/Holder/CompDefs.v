(** Composition (C04) and projection (C06) of column lineage, part 1: definitions, the
    executable checkers, the test scripts and the counterexamples that justify every
    hypothesis of the theorems of Holder/Composition.v. *)
From SV Require Export Holder.RefineDefs.

(** * Column-to-column edges, up to Python equality of the end points *)
Definition col_edge (g : graph) (a b : node) : bool := is_column a && is_column b && has_edge g a b.

(** * Hypotheses on statement holders (all executable) *)

(** no DROP tag, no RENAME pair *)
Definition is_nil {A} (l : list A) : bool := match l with [] => true | _ => false end.
Definition plain_holder (h : holder) : bool := is_nil (h_drop h) && is_nil (h_renames h).

(** weaker forms: DROP allowed; DROP and RENAME of datasets allowed (union and composition only) *)
Definition norename_holder (h : holder) : bool := is_nil (h_renames h).
Definition rename_ok (h : holder) : bool :=
  forallb (fun pr : node * node => is_dataset (fst pr) && is_dataset (snd pr)) (h_renames h).

(** no unresolved column (a column object with several candidate parents) among the node
    objects and the edge sources of the holder graph *)
Definition resolvedn (n : node) : bool := is_none (unresolved n).
Definition resolved_graph (g : graph) : bool :=
  forallb (fun p => resolvedn (fst p)) (gnodes g) && forallb (fun e => resolvedn (esrc e)) (gedges g).
Definition resolved_holder (h : holder) : bool := resolved_graph (hg h).

(** every edge source is a node (with [closed_tgt]: what a networkx DiGraph guarantees) *)
Definition closed_src (g : graph) : bool := forallb (fun e => has_node g (esrc e)) (gedges g).
(** edges that leave a column lead to a column *)
Definition col_out_closed (g : graph) : bool :=
  forallb (fun e => negb (is_column (esrc e)) || is_column (etgt e)) (gedges g).

(** well-formedness used by the composition theorem *)
Definition cwf_graph (g : graph) : bool := closed_src g && closed_tgt g && col_out_closed g.
Definition cwf_holder (h : holder) : bool := cwf_graph (hg h).

(** * [resolve_all]: when is it silent? *)
Definition pending (g : graph) : list (column * node) :=
  flat_map (fun e => match unresolved (fst (fst e)) with Some u => [(u, snd (fst e))] | None => [] end) (gedges g).
Definition resolve_srcs (p : provider) (g : graph) (u : column) : list column :=
  let in_g := candidates_in_graph g u in
  match in_g with
  | [] => if p_truthy p then candidates_in_metadata p u else []
  | _ => in_g
  end.
(** every unresolved edge source stays unresolved: no candidate in the graph, none in the metadata *)
Definition resolve_quiet (p : provider) (g : graph) : bool :=
  forallb (fun ut => is_nil (resolve_srcs p g (fst ut))) (pending g).

(** * Owners (C06) *)
Definition owner (n : node) : option dataset :=
  match n with NCol c => col_parent c | _ => None end.
(** the owner, when it is a Table or a Path (sub-queries are not datasets) *)
Definition ds_owner (n : node) : option node :=
  match owner n with
  | Some d => if is_dataset (NData d) then Some (NData d) else None
  | None => None
  end.
Definition owner_in (n : node) (l : list node) : bool :=
  match ds_owner n with Some d => memn d l | None => true end.

(** the condition as first proposed: every column node owned by a dataset has that dataset
    among the datasets the statement reads or writes *)
Definition owners_ok (h : holder) : bool :=
  forallb (fun p => negb (is_column (fst p)) || owner_in (fst p) (h_read h ++ h_write h)) (gnodes (hg h)).
(** the condition that is actually needed (directed): along every column -> column edge of the
    statement the source column belongs to a dataset the statement reads and the target column to
    one it writes *)
Definition is_cc (e : node * node * eattrs) : bool := is_column (esrc e) && is_column (etgt e).
Definition owners_dir (h : holder) : bool :=
  forallb (fun e => negb (is_cc e) || (owner_in (esrc e) (h_read h) && owner_in (etgt e) (h_write h)))
          (gedges (hg h)).

(** * Executable checkers *)
Definition holder_nodes (h : holder) : list node :=
  map fst (gnodes (hg h)) ++ flat_map (fun e => [esrc e; etgt e]) (gedges (hg h)).
Fixpoint dedupn (l seen : list node) : list node :=
  match l with
  | [] => []
  | x :: r => if memn x seen then dedupn r seen else x :: dedupn r (x :: seen)
  end.
Definition universe (hs : list holder) (g : graph) : list node :=
  dedupn (filter is_column (map fst (gnodes g) ++ flat_map (fun e => [esrc e; etgt e]) (gedges g) ++ flat_map holder_nodes hs)) [].

(** the union of the per-statement dataflows *)
Definition uE (hs : list holder) (a b : node) : bool := existsb (fun h => col_edge (hg h) a b) hs.

(** (2) union *)
Definition union_check (p : provider) (hs : list holder) : bool :=
  match build p hs with
  | BOk g => let U := universe hs g in
             forallb (fun a => forallb (fun b => Bool.eqb (col_edge g a b) (uE hs a b)) U) U
  | _ => false
  end.

(** (3) composition: reachability by breadth-first sets, independent of [paths_from] *)
Definition step_set (E : node -> node -> bool) (U F : list node) : list node :=
  filter (fun c => existsb (fun a => E a c) F) U.
Fixpoint reach_set (E : node -> node -> bool) (U : list node) (fuel : nat) (F : list node) : list node :=
  match fuel with
  | O => []
  | S k => let F' := step_set E U F in F' ++ reach_set E U k F'
  end.
Definition reachb (E : node -> node -> bool) (U : list node) (a b : node) : bool :=
  memn b (reach_set E U (List.length U) [a]).
Definition rootb (E : node -> node -> bool) (U : list node) (s : node) : bool := forallb (fun x => negb (E x s)) U.
Definition leafb (E : node -> node -> bool) (U : list node) (t : node) : bool := forallb (fun y => negb (E t y)) U.

Definition ends (p : list node) : node * node := (hd (NStr "") p, last p (NStr "")).
Definition reported (g : graph) (b : bool) (s t : node) : bool :=
  existsb (fun pr => node_eqb s (fst pr) && node_eqb t (snd pr)) (map ends (column_lineage g b false)).
Definition expected (hs : list holder) (U : list node) (b : bool) (s t : node) : bool :=
  rootb (uE hs) U s && leafb (uE hs) U t && (negb b || parent_is KTable t) && reachb (uE hs) U s t.
(** the same with the reachable set computed once per start *)
Definition expected_row (hs : list holder) (U : list node) (b : bool) (s : node) : list bool :=
  let rs := rootb (uE hs) U s in
  let R := if rs then reach_set (uE hs) U (List.length U) [s] else [] in
  map (fun t => rs && leafb (uE hs) U t && (negb b || parent_is KTable t) && memn t R) U.
Fixpoint blist_eqb (l1 l2 : list bool) : bool :=
  match l1, l2 with
  | [], [] => true
  | x :: r1, y :: r2 => Bool.eqb x y && blist_eqb r1 r2
  | _, _ => false
  end.

Definition comp_check (p : provider) (hs : list holder) : bool :=
  match build p hs with
  | BOk g => let U := universe hs g in
             forallb (fun b => forallb (fun s =>
               blist_eqb (map (reported g b s) U) (expected_row hs U b s)) U) [true; false]
  | _ => false
  end.

(** (4) projection: on every reported path, every column that is not the first one belongs to a
    target or intermediate table, every column that is not the last one to a dataset that some
    statement reads *)
Definition all_reads (hs : list holder) : list node := flat_map h_read hs.
Definition proj_path (hs : list holder) (g : graph) (path : list node) : bool :=
  forallb (fun n => owner_in n (target_tables g ++ intermediate_tables g)) (tl path) &&
  forallb (fun n => owner_in n (all_reads hs)) (removelast path).
Definition proj_check (p : provider) (hs : list holder) : bool :=
  match build p hs with
  | BOk g => forallb (fun b => forallb (proj_path hs g) (column_lineage g b false)) [true; false]
  | _ => false
  end.

Definition hyps (hs : list holder) : list bool :=
  [forallb plain_holder hs; forallb resolved_holder hs;
   forallb (fun h => closed_src (hg h)) hs; forallb (fun h => closed_tgt (hg h)) hs;
   forallb (fun h => col_out_closed (hg h)) hs; forallb (fun h => tag_free (hg h)) hs;
   forallb owners_dir hs; forallb owners_ok hs].
Definition checks (p : provider) (hs : list holder) : list bool :=
  [union_check p hs; comp_check p hs; proj_check p hs].

(** * Test material *)
Definition colpar (n : node) : list node :=
  match owner n with Some d => [NData d] | None => [] end.
(** a statement reading [rs], writing [ws], with the column lineage [ces]; alias edges for the
    datasets read and has_column edges for every resolved column, as the extractor adds them *)
Definition stmt (rs ws : list node) (ces : list (node * node)) : holder :=
  mk (map (fun r => (r, R)) rs ++ map (fun w => (w, W)) ws)
     (map (fun r => (r, NStr (node_str r), e_alias)) rs ++
      flat_map (fun ce => map (fun d => (d, fst ce, e_col)) (colpar (fst ce)) ++
                          map (fun d => (d, snd ce, e_col)) (colpar (snd ce)) ++
                          [(fst ce, snd ce, lineage_edge)]) ces) [].
(** the same without the has_column edges *)
Definition stmt_bare (rs ws : list node) (ces : list (node * node)) : holder :=
  mk (map (fun r => (r, R)) rs ++ map (fun w => (w, W)) ws)
     (map (fun ce => (fst ce, snd ce, lineage_edge)) ces) [].

Definition t_ := tb "t". Definition r_ := tb "r".
Definition cx (t : node) : node := col "x" [t].
Definition cy (t : node) : node := col "y" [t].
Definition cz (t : node) : node := col "z" [t].
Definition sub := sq "select x from a" "sub".

Definition ctests : list (list holder) :=
  [ (* 1 chain through an intermediate table *)
    [stmt [a] [b] [(cx a, cx b)]; stmt [b] [c] [(cx b, cx c)]];
    (* 2 a column that is not consumed downstream ends at the intermediate table *)
    [stmt [a] [b] [(cx a, cx b); (cy a, cy b)]; stmt [b] [c] [(cx b, cx c)]];
    (* 3 the table is read before it is written (statement order is irrelevant) *)
    [stmt [b] [c] [(cx b, cx c)]; stmt [a] [b] [(cx a, cx b)]];
    (* 4 self insert, same column *)
    [stmt [a] [a] [(cx a, cx a)]];
    (* 5 self insert, other column *)
    [stmt [a] [a] [(cx a, cy a)]; stmt [a] [b] [(cy a, cy b)]];
    (* 6 diamond *)
    [stmt [a] [b; c] [(cx a, cx b); (cx a, cx c)]; stmt [b; c] [d] [(cx b, cx d); (cx c, cx d)]];
    (* 7 a cycle of two statements: no root, no leaf, nothing reported *)
    [stmt [a] [b] [(cx a, cx b)]; stmt [b] [a] [(cx b, cx a)]];
    (* 8 a cycle with an entry and an exit *)
    [stmt [r_] [a] [(cx r_, cx a)]; stmt [a] [b] [(cx a, cx b)]; stmt [b] [a] [(cx b, cx a)];
     stmt [b] [t_] [(cx b, cx t_)]];
    (* 9 sub-query columns *)
    [stmt [a; sub] [sub; c] [(cx a, cx sub); (cx sub, cx c)]; stmt [c] [d] [(cx c, cx d)]];
    (* 10 the sub-query holder of RefineDefs *)
    [with_subq; stmt [c] [a] [(cx c, cy a)]];
    (* 11 a statement without a dataset to read: target_only *)
    [stmt [sub] [sub; t_] [(cx sub, cx t_)]];
    (* 12 two statements write the same table *)
    [stmt [a] [c] [(cx a, cx c)]; stmt [b] [c] [(cx b, cx c); (cy b, cy c)]; stmt [c] [d] [(cx c, cy d); (cy c, cy d)]];
    (* 13 Path datasets *)
    [stmt [pa "s3://in"] [a] [(cx (pa "s3://in"), cx a)]; stmt [a] [pa "s3://out"] [(cx a, cx (pa "s3://out"))]];
    (* 14 three statements, two merge into one column and fan out *)
    [stmt [a; b] [c] [(cx a, cz c); (cy b, cz c)]; stmt [c] [d; t_] [(cz c, cx d); (cz c, cx t_)]];
    (* 15 no column lineage at all *)
    [rw [a] [b]; rw [b] [c]];
    (* 16 a source-only statement in the middle *)
    [stmt [a] [b] [(cx a, cx b)]; rw [b] []; stmt [b] [c] [(cx b, cx c)]]
  ].


(** ** the tests: under the hypotheses the three statements hold (with and without provider) *)
Definition all_true (l : list bool) : bool := forallb (fun b => b) l.
Example ctests_hyps : forallb (fun hs => all_true (hyps hs)) ctests = true.
Proof. vm_compute. reflexivity. Qed.
Example ctests_p0 : map (checks p0) ctests = map (fun _ => [true; true; true]) ctests.
Proof. vm_compute. reflexivity. Qed.
Example ctests_p1 : map (checks p1) ctests = map (fun _ => [true; true; true]) ctests.
Proof. vm_compute. reflexivity. Qed.
(** the tests are not vacuous: what is reported *)
Example ctests_reported :
  map (fun hs => match build p0 hs with BOk g => show_paths (column_lineage g true false) | _ => "ERR" end) (firstn 8 ctests) =
  ["C:a.x{T:a}<C:b.x{T:b}<C:c.x{T:c}";
   "C:a.x{T:a}<C:b.x{T:b}<C:c.x{T:c};C:a.y{T:a}<C:b.y{T:b}";
   "C:a.x{T:a}<C:b.x{T:b}<C:c.x{T:c}";
   "";
   "C:a.x{T:a}<C:a.y{T:a}<C:b.y{T:b}";
   "C:a.x{T:a}<C:b.x{T:b}<C:d.x{T:d};C:a.x{T:a}<C:c.x{T:c}<C:d.x{T:d}";
   "";
   "C:r.x{T:r}<C:a.x{T:a}<C:b.x{T:b}<C:t.x{T:t}"].
Proof. vm_compute. reflexivity. Qed.

(** * Counterexamples: every hypothesis is needed.
    [hyps] = [plain; resolved; closed_src; closed_tgt; col_out_closed; tag_free; owners_dir; owners_ok],
    [checks] = [union; composition; projection].  In each example exactly one of the first
    seven hypotheses fails and one of the three statements is false. *)
Definition raw (ns : list (node * nattrs)) (es : list (node * node * eattrs)) : holder :=
  {| hg := {| gnodes := ns; gedges := es |}; h_renames := [] |}.

(** resolved: the unresolved column y{a,b} of [with_cols] is attributed to a.y, the edge
    y{a,b} > c.y of the statement is replaced: union and composition fail. *)
Definition cx_unresolved : list holder := [with_cols; rw [c] [d]].
Example cx_unresolved_fails :
  hyps cx_unresolved = [true; false; true; true; true; true; true; true] /\
  checks p0 cx_unresolved = [false; false; true].
Proof. vm_compute. split; reflexivity. Qed.

(** plain (no RENAME): INSERT INTO b SELECT x FROM a; ALTER TABLE b RENAME TO c.  The column
    path still ends in b.x, but b is no longer a table of the script: projection fails (union and
    composition still hold). *)
Definition cx_rename : list holder := [stmt [a] [b] [(cx a, cx b)]; ren [(b, c)]].
Example cx_rename_fails :
  hyps cx_rename = [false; true; true; true; true; true; true; true] /\
  checks p0 cx_rename = [true; true; false].
Proof. vm_compute. split; reflexivity. Qed.

(** plain (no DROP): a statement that reads no dataset tags its target t target_only; if t has
    no has_column / alias edge its degree is zero and DROP TABLE t removes the node. *)
Definition cx_drop : list holder := [stmt_bare [sub] [sub; t_] [(cx sub, cx t_)]; drop [t_]].
Example cx_drop_fails :
  hyps cx_drop = [false; true; true; true; true; true; true; true] /\
  checks p0 cx_drop = [true; true; false].
Proof. vm_compute. split; reflexivity. Qed.
(** ... with the has_column edge the extractor adds, DROP is harmless *)
Example cx_drop_wired : checks p0 [stmt [sub] [sub; t_] [(cx sub, cx t_)]; drop [t_]] = [true; true; true].
Proof. vm_compute. reflexivity. Qed.

(** col_out_closed: an edge from a column to a table.  [all_simple_paths] runs on the whole
    graph: a.x > b > c.x is reported although no statement relates a.x and c.x ... *)
Definition cx_col_out : list holder := [mk [(a, R); (c, W)] [(cx a, b, lineage_edge); (b, cx c, e_col)] []].
Example cx_col_out_fails :
  hyps cx_col_out = [true; true; true; true; false; true; true; true] /\
  checks p0 cx_col_out = [true; false; true].
Proof. vm_compute. split; reflexivity. Qed.
(** ... and its last column may then belong to a table that is only read *)
Definition cx_col_out' : list holder := [mk [(a, R); (c, R); (d, W)] [(cx a, b, lineage_edge); (b, cx c, e_col)] []].
Example cx_col_out'_fails :
  hyps cx_col_out' = [true; true; true; true; false; true; true; true] /\
  checks p0 cx_col_out' = [true; false; false].
Proof. vm_compute. split; reflexivity. Qed.

(** closed_src / closed_tgt: an edge whose source (target) is not a node of the statement graph
    ([compose] does not create it): the column is not among the candidates for a start (end). *)
Definition cx_closed_src : list holder := [raw [(a, R); (b, W); (cx b, [])] [(cx a, cx b, lineage_edge)]].
Definition cx_closed_tgt : list holder := [raw [(a, R); (b, W); (cx a, [])] [(cx a, cx b, lineage_edge)]].
Example cx_closed_fail :
  hyps cx_closed_src = [true; true; false; true; true; true; true; true] /\
  checks p0 cx_closed_src = [true; false; true] /\
  hyps cx_closed_tgt = [true; true; true; false; true; true; true; true] /\
  checks p0 cx_closed_tgt = [true; false; true].
Proof. vm_compute. repeat split; reflexivity. Qed.

(** owners: the undirected condition [owners_ok] is not enough.  The statement reads a, writes b
    and relates a.x > a.y: a.y ends a path and belongs to a table that is only read. *)
Definition cx_owners : list holder := [stmt_bare [a] [b] [(cx a, cy a)]].
Example cx_owners_fails :
  hyps cx_owners = [true; true; true; true; true; true; false; true] /\
  checks p0 cx_owners = [true; true; false].
Proof. vm_compute. split; reflexivity. Qed.
(** the known finding (scalar sub-query): INSERT INTO t SELECT (SELECT max(x) FROM r) FROM a -
    the column lineage r.x > t.x is there, r is not among the datasets the statement reads *)
Definition cx_scalar : list holder := [stmt [a] [t_] [(cx r_, cx t_)]].
Example cx_scalar_fails :
  hyps cx_scalar = [true; true; true; true; true; true; false; false] /\
  checks p0 cx_scalar = [true; true; false].
Proof. vm_compute. split; reflexivity. Qed.

(** tag_free (W3 of RefineDefs): a statement graph that carries target_only = False clears the tag *)
Definition cx_tag_free : list holder :=
  [stmt_bare [sub] [sub; t_] [(cx sub, cx t_)]; mk [(t_, [("target_only", false)])] [] []].
Example cx_tag_free_fails :
  hyps cx_tag_free = [true; true; true; true; true; false; true; true] /\
  checks p0 cx_tag_free = [true; true; false].
Proof. vm_compute. split; reflexivity. Qed.

(** ** [resolve_all]: unresolved, but quiet *)
Definition quiet_check (p : provider) (hs : list holder) : bool :=
  match fold_steps empty_graph hs with
  | BOk g0 => resolve_quiet p (set_attr g0 (selfloop_nodes g0) "selfloop" true)
  | _ => false
  end.
Definition tbs (sch n : string) : node :=
  NData {| dk := KTable; deq := sch ++ "." ++ n; dstr := sch ++ "." ++ n; dschema := sch; draw := n; dalias := n; dquery := None |}.
Definition sa := tbs "s" "a". Definition sb := tbs "s" "b".
(** y{s.a,s.b} > c.y, no has_column edge for s.a.y / s.b.y: without provider nothing happens;
    a provider that knows s.a.y resolves the column and replaces the edge *)
Definition cx_quiet : list holder :=
  [mk [(sa, R); (sb, R); (c, W)] [(col "y" [sa; sb], cy c, lineage_edge); (c, cy c, e_col)] []].
Definition p2 : provider := {| p_truthy := true; p_cols := [("s.a", ["x"; "y"])] |}.
Example cx_quiet_p0 : quiet_check p0 cx_quiet = true /\ union_check p0 cx_quiet = true.
Proof. vm_compute. split; reflexivity. Qed.
Example cx_quiet_p2 : quiet_check p2 cx_quiet = false /\ union_check p2 cx_quiet = false.
Proof. vm_compute. split; reflexivity. Qed.

(** resolved is also needed for projection (with the condition [owners_dir], which does not look
    at the candidate parents of an unresolved column): the statement reads c only, the
    resolution attributes y{a,b} to a.y, a table nobody reads *)
Definition cx_unresolved_proj : list holder :=
  [mk [(c, R); (d, W); (a, [])] [(a, cy a, e_col); (col "y" [a; b], cy d, lineage_edge); (d, cy d, e_col)] []].
Example cx_unresolved_proj_fails :
  firstn 7 (hyps cx_unresolved_proj) = [true; false; true; true; true; true; true] /\
  checks p0 cx_unresolved_proj = [false; false; false].
Proof. vm_compute. split; reflexivity. Qed.

(** ** scripts with DROP and RENAME: union and composition hold (theorems [union_edges_any],
    [c04_composition_any]), projection may fail *)
Definition ctests_any : list (list holder) :=
  [ [stmt [a] [b] [(cx a, cx b)]; drop [a]; stmt [b] [c] [(cx b, cx c)]];
    [stmt [a] [b] [(cx a, cx b)]; ren [(b, c)]; stmt [c] [d] [(cx c, cx d)]];
    [stmt [a] [b] [(cx a, cx b)]; stmt [b] [c] [(cx b, cx c)]; ren [(a, d)]; drop [c]];
    [rw_bare [] [a]; drop [a]; stmt [b] [a] [(cx b, cx a)]] ].
Example ctests_any_ok :
  forallb (fun hs => forallb rename_ok hs && forallb resolved_holder hs && forallb cwf_holder hs) ctests_any = true /\
  map (fun hs => firstn 2 (checks p0 hs)) ctests_any = map (fun _ => [true; true]) ctests_any.
Proof. vm_compute. split; reflexivity. Qed.
(** [rename_ok]: a RENAME pair of columns rewrites column edges *)
Definition cx_rename_col : list holder := [stmt [a] [b] [(cx a, cx b)]; ren [(cx b, cy b)]].
Example cx_rename_col_fails : forallb rename_ok cx_rename_col = false /\ union_check p0 cx_rename_col = false.
Proof. vm_compute. split; reflexivity. Qed.
