(** Table-level model of SQLLineageHolder._build_digraph and of the three role
    accessors (source_tables / target_tables / intermediate_tables).

    A statement holder is abstracted to what the table-level outcome depends on:
    the dataset nodes it contains (in graph order), the datasets it reads and
    writes (StatementLineageHolder.read / .write), the DROP targets, the RENAME
    pairs (in the order the implementation iterates them) and the datasets that
    have a non-dataset neighbour in the holder graph (an alias or a column edge:
    such a neighbour makes their degree non-zero, which disables DROP).
    Datasets are identified by a key string ("T:" ++ str(table) or "P:" ++ uri);
    Python equality of Table / Path objects is equality of that key. *)
From SV Require Export Base.Util.

Definition tbl := string.

Record astmt := {
  hnodes : list tbl;          (* dataset nodes of the holder graph, in node order *)
  reads : list tbl;
  writes : list tbl;
  drops : list tbl;
  renames : list (tbl * tbl);
  wired : list tbl            (* datasets with an alias / column neighbour *)
}.

Record tstate := {
  tn : list tbl;              (* dataset nodes of the accumulated graph, in node order *)
  te : list (tbl * tbl);      (* dataset -> dataset edges (no duplicates) *)
  tw : list tbl;              (* datasets with a non-dataset neighbour *)
  tso : list tbl;             (* SOURCE_ONLY tag *)
  tto : list tbl              (* TARGET_ONLY tag *)
}.

Definition empty_state : tstate := {| tn := []; te := []; tw := []; tso := []; tto := [] |}.

Definition mem := mem_string.

Definition add (x : tbl) (l : list tbl) : list tbl := if mem x l then l else l ++ [x].
Fixpoint add_all (xs l : list tbl) : list tbl :=
  match xs with [] => l | x :: r => add_all r (add x l) end.

Definition pair_eqb (a b : tbl * tbl) : bool :=
  String.eqb (fst a) (fst b) && String.eqb (snd a) (snd b).
Fixpoint mem_pair (p : tbl * tbl) (l : list (tbl * tbl)) : bool :=
  match l with [] => false | q :: r => pair_eqb p q || mem_pair p r end.
Definition add_pair (p : tbl * tbl) (l : list (tbl * tbl)) := if mem_pair p l then l else l ++ [p].
Fixpoint add_pairs (ps l : list (tbl * tbl)) :=
  match ps with [] => l | p :: r => add_pairs r (add_pair p l) end.

Fixpoint remove (x : tbl) (l : list tbl) : list tbl :=
  match l with [] => [] | y :: r => if String.eqb x y then remove x r else y :: remove x r end.

Fixpoint dedup (l : list tbl) (seen : list tbl) : list tbl :=
  match l with
  | [] => []
  | x :: r => if mem x seen then dedup r seen else x :: dedup r (x :: seen)
  end.
Fixpoint dedup_pairs (l seen : list (tbl * tbl)) : list (tbl * tbl) :=
  match l with
  | [] => []
  | p :: r => if mem_pair p seen then dedup_pairs r seen else p :: dedup_pairs r (p :: seen)
  end.

(** degree of a dataset node: incident dataset edges (a self-loop counts twice)
    plus, if it is wired, at least one more *)
Definition indeg (s : tstate) (t : tbl) : nat :=
  List.length (filter (fun e => String.eqb (snd e) t) (te s)).
Definition outdeg (s : tstate) (t : tbl) : nat :=
  List.length (filter (fun e => String.eqb (fst e) t) (te s)).
Definition isolated (s : tstate) (t : tbl) : bool :=
  Nat.eqb (indeg s t + outdeg s t) 0 && negb (mem t (tw s)).

Definition remove_node (t : tbl) (s : tstate) : tstate :=
  {| tn := remove t (tn s);
     te := filter (fun e => negb (String.eqb (fst e) t) && negb (String.eqb (snd e) t)) (te s);
     tw := remove t (tw s); tso := remove t (tso s); tto := remove t (tto s) |}.

(** nx.compose(g, holder.graph), seen at dataset level.  RENAME edges are
    dataset -> dataset edges of the holder graph. *)
Definition compose (s : tstate) (h : astmt) : tstate :=
  {| tn := add_all (hnodes h) (tn s);
     te := add_pairs (renames h) (te s);
     tw := add_all (wired h) (tw s);
     tso := tso s; tto := tto s |}.

(** position of the first occurrence *)
Fixpoint index_of (x : tbl) (l : list tbl) (i : nat) : option nat :=
  match l with [] => None | y :: r => if String.eqb x y then Some i else index_of x r (S i) end.

Definition rn (old new x : tbl) : tbl := if String.eqb x old then new else x.

(** nx.relabel_nodes(g, {old: new}) (copy=True): positions kept, the merged node
    receives the whole attribute dictionary of whichever of old/new comes later. *)
Definition relabel (old new : tbl) (s : tstate) : tstate :=
  if negb (mem old (tn s)) then s
  else
    let later_is_old :=
      match index_of old (tn s) 0, index_of new (tn s) 0 with
      | Some i, Some j => Nat.ltb j i
      | _, _ => true
      end in
    let tag (l : list tbl) :=
      let base := remove old (remove new l) in
      if (if later_is_old then mem old l else mem new l) then base ++ [new] else base in
    {| tn := dedup (map (rn old new) (tn s)) [];
       te := dedup_pairs (map (fun e => (rn old new (fst e), rn old new (snd e))) (te s)) [];
       tw := dedup (map (rn old new) (tw s)) [];
       tso := if String.eqb old new then tso s else tag (tso s);
       tto := if String.eqb old new then tto s else tag (tto s) |}.

Inductive result (A : Type) := Ok (a : A) | ErrNetworkX.
Arguments Ok {A} a.
Arguments ErrNetworkX {A}.

Definition remove_edge (p : tbl * tbl) (s : tstate) : result tstate :=
  if mem_pair p (te s)
  then Ok {| tn := tn s; te := filter (fun e => negb (pair_eqb e p)) (te s);
             tw := tw s; tso := tso s; tto := tto s |}
  else ErrNetworkX.

Fixpoint do_drops (ds : list tbl) (s : tstate) : tstate :=
  match ds with
  | [] => s
  | t :: r => do_drops r (if mem t (tn s) && isolated s t then remove_node t s else s)
  end.

Fixpoint do_renames (rs : list (tbl * tbl)) (s : tstate) : result tstate :=
  match rs with
  | [] => Ok s
  | (old, new) :: r =>
      match remove_edge (new, new) (relabel old new s) with
      | ErrNetworkX => ErrNetworkX
      | Ok s1 => do_renames r (if isolated s1 new then remove_node new s1 else s1)
      end
  end.

Fixpoint product (rs ws : list tbl) : list (tbl * tbl) :=
  match rs with [] => [] | r :: rest => map (fun w => (r, w)) ws ++ product rest ws end.

(** set_node_attributes only touches nodes that exist *)
Definition tag_all (xs present l : list tbl) : list tbl :=
  add_all (filter (fun x => mem x present) xs) l.

Definition step (s : tstate) (h : astmt) : result tstate :=
  let g := compose s h in
  match drops h, renames h with
  | _ :: _, _ => Ok (do_drops (drops h) g)
  | [], _ :: _ => do_renames (renames h) g
  | [], [] =>
      match reads h, writes h with
      | _ :: _, [] => Ok {| tn := tn g; te := te g; tw := tw g; tso := tag_all (reads h) (tn g) (tso g); tto := tto g |}
      | [], _ :: _ => Ok {| tn := tn g; te := te g; tw := tw g; tso := tso g; tto := tag_all (writes h) (tn g) (tto g) |}
      | _, _ => Ok {| tn := tn g; te := add_pairs (product (reads h) (writes h)) (te g); tw := tw g; tso := tso g; tto := tto g |}
      end
  end.

Fixpoint build_from (s : tstate) (hs : list astmt) : result tstate :=
  match hs with
  | [] => Ok s
  | h :: r => match step s h with ErrNetworkX => ErrNetworkX | Ok s1 => build_from s1 r end
  end.
Definition build (hs : list astmt) : result tstate := build_from empty_state hs.

(** * The three accessors *)
Definition selfloop (s : tstate) (t : tbl) : bool := mem_pair (t, t) (te s).
Definition is_source (s : tstate) (t : tbl) : bool :=
  mem t (tn s) &&
  ((Nat.eqb (indeg s t) 0 && negb (Nat.eqb (outdeg s t) 0)) || selfloop s t || mem t (tso s)).
Definition is_target (s : tstate) (t : tbl) : bool :=
  mem t (tn s) &&
  ((Nat.eqb (outdeg s t) 0 && negb (Nat.eqb (indeg s t) 0)) || selfloop s t || mem t (tto s)).
Definition is_intermediate (s : tstate) (t : tbl) : bool :=
  mem t (tn s) &&
  negb (Nat.eqb (indeg s t) 0) && negb (Nat.eqb (outdeg s t) 0) && negb (selfloop s t).

Definition sources (s : tstate) := filter (is_source s) (tn s).
Definition targets (s : tstate) := filter (is_target s) (tn s).
Definition intermediates (s : tstate) := filter (is_intermediate s) (tn s).

(** * Executable form of the specification (the property's own classification,
    computed from the set of statements, for scripts without DROP / RENAME) *)
Definition spec_edgeb (hs : list astmt) (r w : tbl) : bool :=
  existsb (fun h => mem r (reads h) && mem w (writes h)) hs.
Definition is_nil {A} (l : list A) : bool := match l with [] => true | _ => false end.
Definition spec_sob (hs : list astmt) (t : tbl) : bool :=
  existsb (fun h => mem t (reads h) && is_nil (writes h)) hs.
Definition spec_tob (hs : list astmt) (t : tbl) : bool :=
  existsb (fun h => mem t (writes h) && is_nil (reads h)) hs.
Definition universe (hs : list astmt) : list tbl := dedup (flat_map hnodes hs) [].
Definition spec_sourceb (hs : list astmt) (t : tbl) : bool :=
  let U := universe hs in
  mem t U && ((existsb (spec_edgeb hs t) U && negb (existsb (fun r => spec_edgeb hs r t) U))
              || spec_edgeb hs t t || spec_sob hs t).
Definition spec_targetb (hs : list astmt) (t : tbl) : bool :=
  let U := universe hs in
  mem t U && ((existsb (fun r => spec_edgeb hs r t) U && negb (existsb (spec_edgeb hs t) U))
              || spec_edgeb hs t t || spec_tob hs t).
Definition spec_intermediateb (hs : list astmt) (t : tbl) : bool :=
  let U := universe hs in
  mem t U && existsb (fun r => spec_edgeb hs r t) U && existsb (spec_edgeb hs t) U
  && negb (spec_edgeb hs t t).

(** * Printing: sorted role lists and edges, so the result is canonical *)
Fixpoint insert_sorted (x : string) (l : list string) : list string :=
  match l with
  | [] => [x]
  | y :: r => if String.leb x y then x :: l else y :: insert_sorted x r
  end.
Definition sort_strings (l : list string) : list string := fold_right insert_sorted [] l.

Definition show_state (s : tstate) : string :=
  "S=" ++ join "," (sort_strings (sources s)) ++
  ";T=" ++ join "," (sort_strings (targets s)) ++
  ";I=" ++ join "," (sort_strings (intermediates s)) ++
  ";E=" ++ join "," (sort_strings (map (fun e => (fst e ++ ">" ++ snd e)%string) (te s))) ++
  ";N=" ++ join "," (sort_strings (tn s)).
Definition show_build (hs : list astmt) : string :=
  match build hs with Ok s => show_state s | ErrNetworkX => "ERR:NetworkXError" end.

Definition show_spec (hs : list astmt) : string :=
  let U := universe hs in
  "S=" ++ join "," (sort_strings (filter (spec_sourceb hs) U)) ++
  ";T=" ++ join "," (sort_strings (filter (spec_targetb hs) U)) ++
  ";I=" ++ join "," (sort_strings (filter (spec_intermediateb hs) U)) ++
  ";E=" ++ join "," (sort_strings (map (fun e => (fst e ++ ">" ++ snd e)%string)
                        (filter (fun e => spec_edgeb hs (fst e) (snd e)) (product U U)))) ++
  ";N=" ++ join "," (sort_strings U).
