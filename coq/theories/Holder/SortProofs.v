(** The sorted accessors are canonical: they do not depend on the order in which a set was iterated (C11). *)
From SV Require Import Holder.Build.
From Coq Require Import Permutation.
From Coq Require Import NArith.

(** Transitivity of [String.leb] (absent from the 8.16 standard library). *)
Lemma ascii_compare_refl : forall c, Ascii.compare c c = Eq.
Proof. intros c. unfold Ascii.compare. apply N.compare_refl. Qed.

Lemma ascii_compare_lt_trans : forall a b c,
  Ascii.compare a b = Lt -> Ascii.compare b c = Lt -> Ascii.compare a c = Lt.
Proof.
  intros a b c Hab Hbc. unfold Ascii.compare in *.
  rewrite N.compare_lt_iff in *. eapply N.lt_trans; eassumption.
Qed.

Lemma string_compare_not_gt_trans : forall s1 s2 s3,
  String.compare s1 s2 <> Gt -> String.compare s2 s3 <> Gt -> String.compare s1 s3 <> Gt.
Proof.
  induction s1 as [|c1 s1 IH]; intros s2 s3 H12 H23.
  - destruct s3; simpl; discriminate.
  - destruct s2 as [|c2 s2]; [simpl in H12; congruence|].
    destruct s3 as [|c3 s3]; [simpl in H23; congruence|].
    simpl in *.
    destruct (Ascii.compare c1 c2) eqn:E12.
    + apply Ascii.compare_eq_iff in E12. subst c2.
      destruct (Ascii.compare c1 c3) eqn:E13; try congruence.
      eapply IH; eassumption.
    + destruct (Ascii.compare c2 c3) eqn:E23.
      * apply Ascii.compare_eq_iff in E23. subst c3. rewrite E12. discriminate.
      * rewrite (ascii_compare_lt_trans _ _ _ E12 E23). discriminate.
      * congruence.
    + congruence.
Qed.

Lemma string_leb_not_gt : forall s1 s2, String.leb s1 s2 = true <-> String.compare s1 s2 <> Gt.
Proof.
  intros s1 s2. unfold String.leb. destruct (String.compare s1 s2); split; intros H; congruence.
Qed.

Lemma string_leb_trans : forall s1 s2 s3,
  String.leb s1 s2 = true -> String.leb s2 s3 = true -> String.leb s1 s3 = true.
Proof.
  intros s1 s2 s3 H12 H23. rewrite string_leb_not_gt in *.
  eapply string_compare_not_gt_trans; eassumption.
Qed.

Lemma string_leb_false_flip : forall s1 s2, String.leb s1 s2 = false -> String.leb s2 s1 = true.
Proof.
  intros s1 s2 H. destruct (String.leb_total s1 s2) as [H'|H']; congruence.
Qed.

(** Insertions commute. *)
Lemma insert_sorted_comm : forall x y l,
  insert_sorted x (insert_sorted y l) = insert_sorted y (insert_sorted x l).
Proof.
  intros x y l. induction l as [|z r IH].
  - simpl. destruct (String.leb x y) eqn:Exy; destruct (String.leb y x) eqn:Eyx; try reflexivity.
    + rewrite (String.leb_antisym _ _ Exy Eyx). reflexivity.
    + apply string_leb_false_flip in Exy. congruence.
  - simpl. destruct (String.leb x z) eqn:Exz; destruct (String.leb y z) eqn:Eyz; simpl.
    + rewrite Exz, Eyz.
      destruct (String.leb x y) eqn:Exy; destruct (String.leb y x) eqn:Eyx; try reflexivity.
      * rewrite (String.leb_antisym _ _ Exy Eyx). reflexivity.
      * apply string_leb_false_flip in Exy. congruence.
    + rewrite Exz, Eyz.
      destruct (String.leb y x) eqn:Eyx; [|reflexivity].
      rewrite (string_leb_trans _ _ _ Eyx Exz) in Eyz. discriminate.
    + rewrite Exz, Eyz.
      destruct (String.leb x y) eqn:Exy; [|reflexivity].
      rewrite (string_leb_trans _ _ _ Exy Eyz) in Exz. discriminate.
    + rewrite Exz, Eyz. rewrite IH. reflexivity.
Qed.

Theorem sort_strings_canonical : forall l l', Permutation l l' -> sort_strings l = sort_strings l'.
Proof.
  intros l l' HP. induction HP as [|a l1 l2 HP IH|a b l1|l1 l2 l3 HP1 IH1 HP2 IH2].
  - reflexivity.
  - unfold sort_strings in *. simpl. rewrite IH. reflexivity.
  - unfold sort_strings. simpl. apply insert_sorted_comm.
  - congruence.
Qed.

Theorem show_names_canonical : forall l l', Permutation l l' -> show_names l = show_names l'.
Proof.
  intros l l' HP. unfold show_names.
  rewrite (sort_strings_canonical _ _ (Permutation_map show_node HP)). reflexivity.
Qed.

Theorem show_paths_canonical : forall ps ps', Permutation ps ps' -> show_paths ps = show_paths ps'.
Proof.
  intros ps ps' HP. unfold show_paths.
  rewrite (sort_strings_canonical _ _
             (Permutation_map (fun p => join "<" (map show_node p)) HP)).
  reflexivity.
Qed.
