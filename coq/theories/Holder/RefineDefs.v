(** Refinement, part 1: the dataset-level abstraction of the full model
    (Holder/Build.v on NX/Graph.v) into the table-level model (Holder/TableLevel.v),
    the well-formedness predicates, the executable comparison and its tests,
    and the counterexamples that justify every well-formedness condition. *)
From SV Require Export Holder.Build.
From SV Require Holder.TableLevel.
From SV Require Export Holder.RefineAbs.
Module T := SV.Holder.TableLevel.

(** * Keys: what the abstract model calls a [tbl]
    ["T:" ++ str(table)], ["P:" ++ uri]: the kind and [deq], i.e. exactly what Python
    equality compares.  Non-dataset nodes get keys with another first letter, so that
    they can never be confused with a dataset. *)
Definition kprefix (k : dkind) : string :=
  match k with KTable => "T:" | KPath => "P:" | KSubq => "Q:" end.
Definition dkey (d : dataset) : string := kprefix (dk d) ++ deq d.
Definition key (n : node) : string :=
  match n with
  | NData d => dkey d
  | NCol c => "C:" ++ col_str c
  | NStr s => "A:" ++ s
  end.
Definition kp (p : node * node) : string * string := (key (fst p), key (snd p)).

Definition esrc (e : node * node * eattrs) : node := fst (fst e).
Definition etgt (e : node * node * eattrs) : node := snd (fst e).

(** dataset -> dataset edge *)
Definition dd (e : node * node * eattrs) : bool := is_dataset (esrc e) && is_dataset (etgt e).

Definition dnodes (l : list (node * nattrs)) : list node := filter is_dataset (map fst l).
Definition dkeys (g : graph) : list string := map key (dnodes (gnodes g)).
Definition dd_keys (g : graph) : list (string * string) := map (fun e => kp (fst e)) (filter dd (gedges g)).
(** datasets with an edge to or from a non-dataset node (edge order, possibly repeated) *)
Definition wired_keys (g : graph) : list string :=
  flat_map (fun e =>
              (if is_dataset (esrc e) && negb (is_dataset (etgt e)) then [key (esrc e)] else []) ++
              (if is_dataset (etgt e) && negb (is_dataset (esrc e)) then [key (etgt e)] else []))
           (gedges g).
Definition tag_keys (g : graph) (k : string) : list string := map key (retrieve_tag g k).

Definition abs_graph (g : graph) : T.tstate :=
  {| T.tn := dkeys g; T.te := dd_keys g; T.tw := wired_keys g;
     T.tso := tag_keys g "source_only"; T.tto := tag_keys g "target_only" |}.

Definition abs_holder (h : holder) : T.astmt :=
  {| T.hnodes := dkeys (hg h);
     T.reads := map key (h_read h);
     T.writes := map key (h_write h);
     T.drops := map key (h_drop h);
     T.renames := map kp (h_renames h);
     T.wired := wired_keys (hg h) |}.

Definition abs_result (r : result graph) : option (T.result T.tstate) :=
  match r with
  | BOk g => Some (T.Ok (abs_graph g))
  | ErrNetworkX => Some T.ErrNetworkX
  | ErrKey => None
  end.

(** * Equivalence of abstract states: [st_equiv] of Holder/RefineAbs.v (node order is kept,
    the other four lists are sets) *)
Definition refines (r : result graph) (a : T.result T.tstate) : Prop :=
  match r, a with
  | BOk g, T.Ok s => st_equiv (abs_graph g) s
  | ErrNetworkX, T.ErrNetworkX => True
  | _, _ => False
  end.

(** * Well-formedness *)
Definition subset_pairs (l1 l2 : list (string * string)) : bool := forallb (fun p => T.mem_pair p l2) l1.

(** no dataset node of a statement graph carries one of the three script-level tags
    ([selfloop = False] is harmless and allowed) *)
Definition no_true (k : string) (a : nattrs) : bool :=
  forallb (fun kv : string * bool => negb (String.eqb (fst kv) k && snd kv)) a.
Definition is_none {A} (o : option A) : bool := match o with None => true | Some _ => false end.
Definition tag_free (g : graph) : bool :=
  forallb (fun p => negb (is_dataset (fst p)) ||
                    (is_none (attr_get "source_only" (snd p)) &&
                     is_none (attr_get "target_only" (snd p)) &&
                     no_true "selfloop" (snd p))) (gnodes g).

(** every edge target is a node (a networkx DiGraph cannot violate this) *)
Definition closed_tgt (g : graph) : bool := forallb (fun e => has_node g (etgt e)) (gedges g).

Definition wf_holder (h : holder) : bool :=
  (* W1 *) subset_pairs (dd_keys (hg h)) (map kp (h_renames h)) &&
  (* W2 *) subset_pairs (map kp (h_renames h)) (dd_keys (hg h)) &&
  (* W3 *) tag_free (hg h) &&
  (* W4 *) closed_tgt (hg h).

(** invariants of the accumulated graph (established by [fold_steps] from the empty graph) *)
Fixpoint nodup_nodes (l : list (node * nattrs)) : bool :=
  match l with [] => true | (n, _) :: r => negb (has_node_l n r) && nodup_nodes r end.
Definition no_selfloop_tag (g : graph) : bool :=
  forallb (fun p => negb (is_dataset (fst p)) || no_true "selfloop" (snd p)) (gnodes g).
Definition wf_graph (g : graph) : bool :=
  nodup_nodes (gnodes g) && closed_tgt g && no_selfloop_tag g.

(** * Executable comparison *)
Fixpoint list_eqb (l1 l2 : list string) : bool :=
  match l1, l2 with
  | [], [] => true
  | x :: r1, y :: r2 => String.eqb x y && list_eqb r1 r2
  | _, _ => false
  end.
Definition subset_s (l1 l2 : list string) : bool := forallb (fun x => T.mem x l2) l1.
Definition seteq_s (l1 l2 : list string) : bool := subset_s l1 l2 && subset_s l2 l1.
Definition seteq_p (l1 l2 : list (string * string)) : bool := subset_pairs l1 l2 && subset_pairs l2 l1.

Definition st_equivb (s1 s2 : T.tstate) : bool :=
  list_eqb (T.tn s1) (T.tn s2) && seteq_p (T.te s1) (T.te s2) && seteq_s (T.tw s1) (T.tw s2) &&
  seteq_s (T.tso s1) (T.tso s2) && seteq_s (T.tto s1) (T.tto s2).

(** observables: the three role lists (by key, sorted) *)
Definition refine_check (p : provider) (hs : list holder) : string :=
  match build p hs, T.build (map abs_holder hs) with
  | BOk g, T.Ok s =>
      if list_eqb (T.sort_strings (map key (source_tables g))) (T.sort_strings (T.sources s)) &&
         list_eqb (T.sort_strings (map key (target_tables g))) (T.sort_strings (T.targets s)) &&
         list_eqb (T.sort_strings (map key (intermediate_tables g))) (T.sort_strings (T.intermediates s))
      then "agree" else "DIFFER"
  | ErrNetworkX, T.ErrNetworkX => "agree"
  | _, _ => "DIFFER"
  end.

(** the simulation itself, on the accumulated state before the final resolution *)
Definition sim_check (hs : list holder) : string :=
  match fold_steps empty_graph hs, T.build (map abs_holder hs) with
  | BOk g, T.Ok s => if st_equivb (abs_graph g) s then "agree" else "DIFFER"
  | ErrNetworkX, T.ErrNetworkX => "agree"
  | _, _ => "DIFFER"
  end.
(** is even the edge list equal, in order? *)
Fixpoint plist_eqb (l1 l2 : list (string * string)) : bool :=
  match l1, l2 with
  | [], [] => true
  | x :: r1, y :: r2 => T.pair_eqb x y && plist_eqb r1 r2
  | _, _ => false
  end.
Definition exact_check (hs : list holder) : string :=
  match fold_steps empty_graph hs, T.build (map abs_holder hs) with
  | BOk g, T.Ok s =>
      (if plist_eqb (T.te (abs_graph g)) (T.te s) then "te=" else "te~") ++
      (if list_eqb (T.tw (abs_graph g)) (T.tw s) then "tw=" else "tw~") ++
      (if list_eqb (T.tso (abs_graph g)) (T.tso s) then "tso=" else "tso~") ++
      (if list_eqb (T.tto (abs_graph g)) (T.tto s) then "tto=" else "tto~")
  | _, _ => "-"
  end.

(** * Test material *)
Definition tb (n : string) : node :=
  NData {| dk := KTable; deq := n; dstr := n; dschema := "<default>"; draw := n; dalias := n; dquery := None |}.
Definition pa (n : string) : node :=
  NData {| dk := KPath; deq := n; dstr := n; dschema := ""; draw := ""; dalias := ""; dquery := None |}.
Definition sq (q a : string) : node :=
  NData {| dk := KSubq; deq := q; dstr := a; dschema := ""; draw := ""; dalias := a; dquery := None |}.
Definition dsof (n : node) : dataset :=
  match n with NData d => d | _ => {| dk := KTable; deq := ""; dstr := ""; dschema := ""; draw := ""; dalias := ""; dquery := None |} end.
Definition col (raw : string) (ps : list node) : node := NCol {| craw := raw; cparents := map dsof ps |}.

Definition e_alias : eattrs := {| etype := "has_alias"; eindex := None |}.
Definition e_col : eattrs := {| etype := "has_column"; eindex := None |}.
Definition e_ren : eattrs := {| etype := "rename"; eindex := None |}.

Definition nodes_g (ns : list (node * nattrs)) (g : graph) : graph :=
  fold_left (fun g' p => add_node g' (fst p) (snd p)) ns g.
Definition edges_g (es : list (node * node * eattrs)) (g : graph) : graph :=
  fold_left (fun g' e => add_edge g' (esrc e) (etgt e) (snd e)) es g.
Definition mk (ns : list (node * nattrs)) (es : list (node * node * eattrs)) (rs : list (node * node)) : holder :=
  {| hg := edges_g es (nodes_g ns empty_graph); h_renames := rs |}.

Definition R := [("read", true)].
Definition W := [("write", true)].
Definition D := [("drop", true)].

(** INSERT INTO w SELECT FROM r..., with the alias edges the extractor adds for read tables *)
Definition rw (rs ws : list node) : holder :=
  mk (map (fun r => (r, R)) rs ++ map (fun w => (w, W)) ws)
     (map (fun r => (r, NStr (node_str r), e_alias)) rs) [].
Definition rw_bare (rs ws : list node) : holder :=
  mk (map (fun r => (r, R)) rs ++ map (fun w => (w, W)) ws) [] [].
Definition drop (ts : list node) : holder := mk (map (fun t => (t, D)) ts) [] [].
Definition ren (ps : list (node * node)) : holder :=
  mk [] (map (fun p => (fst p, snd p, e_ren)) ps) ps.

Definition p0 : provider := {| p_truthy := false; p_cols := [] |}.
Definition p1 : provider := {| p_truthy := true; p_cols := [("a", ["x"; "y"]); ("b", ["x"])] |}.

Definition a := tb "a". Definition b := tb "b". Definition c := tb "c". Definition d := tb "d".

(** a holder with column nodes, column lineage and an unresolved column (two candidate parents) *)
Definition with_cols : holder :=
  let ca := col "x" [a] in let cb := col "x" [b] in let cc := col "x" [c] in
  let amb := col "y" [a; b] in let cy := col "y" [c] in let ay := col "y" [a] in
  mk [(a, R); (b, R); (c, W)]
     [(a, NStr "a", e_alias); (b, NStr "t2", e_alias);
      (c, cc, e_col); (a, ca, e_col); (ca, cc, lineage_edge);
      (c, cy, e_col); (amb, cy, lineage_edge); (a, ay, e_col)] [].

(** a holder with a sub-query: SELECT ... FROM (SELECT ... FROM a) sub, written into c *)
Definition with_subq : holder :=
  let s := sq "select x from a" "sub" in
  mk [(a, R); (s, R); (s, W); (c, W)]
     [(a, NStr "a", e_alias); (s, NStr "sub", e_alias);
      (s, col "x" [s], e_col); (a, col "x" [a], e_col); (col "x" [a], col "x" [s], lineage_edge);
      (c, col "x" [c], e_col); (col "x" [s], col "x" [c], lineage_edge)] [].

Definition all3 (p : provider) (hs : list holder) : string :=
  refine_check p hs ++ "/" ++ sim_check hs ++ "/" ++
  (if forallb wf_holder hs then "wf" else "NOT-WF").

(** ** the tests: on well-formed holder lists the two models agree *)
Definition tests : list (list holder) :=
  [ (* 1 reads/writes chain *)         [rw [a] [b]; rw [b] [c]];
    (* 2 self loop *)                  [rw [a] [a]; rw [a] [b]];
    (* 3 source only *)                [rw [a; b] []];
    (* 4 target only *)                [rw [] [a]; rw [a] [b]];
    (* 5 DROP isolated *)              [rw_bare [] [a]; drop [a]];
    (* 6 DROP wired *)                 [rw [a] []; drop [a]];
    (* 7 DROP read table *)            [rw [a] [b]; drop [a]; drop [b]];
    (* 8 DROP of an unknown table *)   [rw [a] [b]; drop [c]];
    (* 9 RENAME to fresh *)            [rw [a] [b]; ren [(b, c)]];
    (* 10 RENAME to existing *)        [rw [a] [b]; rw [c] [d]; ren [(b, c)]];
    (* 11 RENAME chained, good order *)[rw [d] [a]; ren [(a, b); (b, c)]];
    (* 12 RENAME chained, bad order *) [rw [d] [a]; ren [(b, c); (a, b)]];
    (* 13 RENAME of unknown table *)   [rw [a] [b]; ren [(c, d)]];
    (* 14 Path datasets *)             [rw [pa "s3://x"] [a]; rw [a] [pa "s3://y"]; rw [pa "a"] [tb "a"]];
    (* 15 columns, alias edges *)      [with_cols; rw [c] [d]];
    (* 16 sub-query datasets *)        [with_subq; rw [c] [a]];
    (* 17 tags then RENAME (old later)*)[rw [] [a]; rw [b] []; ren [(b, a)]];
    (* 18 tags then RENAME (new later)*)[rw [b] []; rw [] [a]; ren [(b, a)]];
    (* 19 RENAME x -> x *)             [rw [a] [b]; ren [(a, a)]];
    (* 20 DROP then reuse *)           [rw_bare [a] []; drop [a]; rw [b] [a]];
    (* 21 DROP several, one isolated *)[rw_bare [] [a]; rw [b] [c]; drop [c; a; a]];
    (* 22 tag order differs from node order *) [rw [a] [b]; rw [b] []; rw [a] []; rw [] [b]; rw [] [a]];
    (* 23 RENAME swap pairs *)         [rw [a] [b]; ren [(a, c); (b, a)]];
    (* 24 DROP tagged sub-query only *)[mk [(sq "q" "s", D); (a, R); (b, W)] [] []; rw [a] [c]]
  ].

Example tests_agree_p0 : map (all3 p0) tests = map (fun _ => "agree/agree/wf") tests.
Proof. vm_compute. reflexivity. Qed.
Example tests_agree_p1 : map (all3 p1) tests = map (fun _ => "agree/agree/wf") tests.
Proof. vm_compute. reflexivity. Qed.

(** exact equality of the four set-like lists fails already on small scripts (test 22: tags are
    appended in statement order by the abstract model, in node order by the abstraction), which
    is why the simulation is stated up to [st_equiv]; [tn] is always compared exactly. *)
Example exactness : map exact_check tests <> map (fun _ => "te=tw=tso=tto=") tests.
Proof. vm_compute. discriminate. Qed.

(** * Counterexamples: each well-formedness condition is needed.
    In every example exactly the named condition fails and the two models disagree on the
    observables ([refine_check] = "DIFFER"). *)
Definition wf_parts (h : holder) : list bool :=
  [subset_pairs (dd_keys (hg h)) (map kp (h_renames h));
   subset_pairs (map kp (h_renames h)) (dd_keys (hg h));
   tag_free (hg h); closed_tgt (hg h)].

(** W1: a dataset -> dataset edge of the holder graph that is not a RENAME pair
    (here: a stray edge in a read-only statement).  Full model: a > b is an edge, b is a
    target; abstract model: it never sees the edge. *)
Definition cx_w1 : list holder := [mk [(a, R)] [(a, b, e_ren)] []].
Example cx_w1_differs :
  map wf_parts cx_w1 = [[false; true; true; true]] /\ refine_check p0 cx_w1 = "DIFFER".
Proof. vm_compute. split; reflexivity. Qed.

(** W2: a RENAME pair without its edge in the holder graph: [remove_edge new new] raises
    NetworkXError in the full model, the abstract model adds the edge itself and succeeds. *)
Definition cx_w2 : list holder := [rw [a] [b]; mk [(b, []); (c, [])] [] [(b, c)]].
Example cx_w2_differs :
  map wf_parts cx_w2 = [[true; true; true; true]; [true; false; true; true]] /\
  refine_check p0 cx_w2 = "DIFFER".
Proof. vm_compute. split; reflexivity. Qed.
(** W2 also says that RENAME pairs are datasets: renaming b to a sub-query makes b's edges
    invisible in the full model's table graph, the abstract model keeps "Q:..." as a table. *)
Definition cx_w2' : list holder :=
  [rw [a] [b]; rw [b] [c]; mk [] [(b, sq "select 1" "s", e_ren)] [(b, sq "select 1" "s")]].
Example cx_w2'_differs :
  map wf_parts cx_w2' = [[true; true; true; true]; [true; true; true; true]; [true; false; true; true]] /\
  refine_check p0 cx_w2' = "DIFFER".
Proof. vm_compute. split; reflexivity. Qed.

(** W3: script-level tags on a statement graph.  (a) [source_only = False] clears the tag
    a previous statement set; (b) the same for target_only; (c) [selfloop = True] makes a
    node source and target. *)
Definition cx_w3a : list holder := [rw [a] []; mk [(a, [("source_only", false)])] [] []].
Definition cx_w3b : list holder := [rw [] [a]; mk [(a, [("target_only", false)])] [] []].
Definition cx_w3c : list holder := [mk [(a, [("read", true); ("selfloop", true)]); (b, W)] [] []].
Example cx_w3_differs :
  map (map wf_parts) [cx_w3a; cx_w3b; cx_w3c] =
    [[[true; true; true; true]; [true; true; false; true]];
     [[true; true; true; true]; [true; true; false; true]];
     [[true; true; false; true]]] /\
  map (refine_check p0) [cx_w3a; cx_w3b; cx_w3c] = ["DIFFER"; "DIFFER"; "DIFFER"].
Proof. vm_compute. split; reflexivity. Qed.
(** ... and the condition on selfloop must look at every entry of the attribute list, not at
    [attr_get]: dict.update applies them all, the last one wins. *)
Definition cx_w3d : list holder :=
  [mk [(a, [("read", true)]); (b, W)] [] [];
   {| hg := {| gnodes := [(a, [("selfloop", false); ("selfloop", true)])]; gedges := [] |}; h_renames := [] |}].
Example cx_w3d_differs :
  map wf_parts cx_w3d = [[true; true; true; true]; [true; true; false; true]] /\
  refine_check p0 cx_w3d = "DIFFER".
Proof. vm_compute. split; reflexivity. Qed.

(** W4: an edge whose target is not a node of the holder graph.  Only the final
    [resolve_all] is sensitive to it ([add_edge] re-creates the missing endpoint as a node):
    d > d from the first statement; the RENAME holder has the pair (c, d) with c dangling and
    an unresolved column pointing at c.  RENAME c -> d is a no-op (c is not a node), removes
    d > d, keeps c > d; resolution then makes c a node, hence a source table. *)
Definition cx_w4 : list holder :=
  let amb := col "y" [a; b] in let ay := col "y" [a] in
  [rw [d] [d];
   {| hg := {| gnodes := [(d, []); (amb, []); (a, []); (ay, [])];
               gedges := [(c, d, e_ren); (amb, c, lineage_edge); (a, ay, e_col)] |};
      h_renames := [(c, d)] |}].
Example cx_w4_differs :
  map wf_parts cx_w4 = [[true; true; true; true]; [true; true; true; false]] /\
  refine_check p0 cx_w4 = "DIFFER" /\ sim_check cx_w4 = "agree".
Proof. vm_compute. repeat split; reflexivity. Qed.

(** the precondition [nodup_nodes] of the one-step simulation ([wf_graph]; an invariant of
    [fold_steps], not an assumption of the final theorems): with a repeated node the merged
    attributes of a RENAME are those of the last repetition. *)
Definition cx_nodup_g : graph :=
  {| gnodes := [(c, []); (b, []); (a, [("source_only", true)]); (a, [])]; gedges := [(c, a, lineage_edge)] |}.
Definition cx_nodup_h : holder := ren [(a, b)].
Example cx_nodup_differs :
  wf_holder cx_nodup_h = true /\ nodup_nodes (gnodes cx_nodup_g) = false /\
  match step cx_nodup_g cx_nodup_h, T.step (abs_graph cx_nodup_g) (abs_holder cx_nodup_h) with
  | BOk g, T.Ok s => st_equivb (abs_graph g) s
  | _, _ => true
  end = false.
Proof. vm_compute. repeat split; reflexivity. Qed.
