(** Refinement: Holder/TableLevel.v is the dataset-level projection of Holder/Build.v.

    - [abs_graph], [abs_holder], [wf_holder], [wf_graph], the tests and the counterexamples
      are in Holder/RefineDefs.v; [st_equiv] and the congruence of the abstract model in
      Holder/RefineAbs.v; the lemmas on the graph operations in Holder/RefineGraph.v.
    - here: the one-step simulation [step_refines], its lifting to [fold_steps], the
      treatment of the final [set_attr selfloop] / [resolve_all], and the transfer theorems
      [roles_refine] (keys) and [roles_refine_show] (printed names). *)
From SV Require Export Holder.RefineDefs.
From SV Require Import Holder.RefineGraph Holder.PathProofs.
From SV Require Holder.TableProofs.

(** * Unpacking well-formedness *)
Lemma subset_pairs_In l1 l2 : subset_pairs l1 l2 = true <-> forall p, In p l1 -> In p l2.
Proof.
  unfold subset_pairs. rewrite forallb_forall. split; intros H p Hp.
  - apply TP.mem_pair_In. apply H; exact Hp.
  - apply TP.mem_pair_In. apply H; exact Hp.
Qed.

Record wfh (h : holder) : Prop := {
  wfh_edges : seteq (dd_keys (hg h)) (map kp (h_renames h));
  wfh_so : tag_absent "source_only" (gnodes (hg h));
  wfh_to : tag_absent "target_only" (gnodes (hg h));
  wfh_clean : forallb clean (gnodes (hg h)) = true;
  wfh_closed : closed_tgt (hg h) = true
}.

Lemma wf_holder_wfh h : wf_holder h = true -> wfh h.
Proof.
  unfold wf_holder. intros H. repeat (apply Bool.andb_true_iff in H; destruct H as [H ?]).
  rename H into W1, H2 into W2, H1 into W3, H0 into W4.
  unfold tag_free in W3. rewrite forallb_forall in W3.
  constructor.
  - intros p. split; [apply (proj1 (subset_pairs_In _ _) W1)|apply (proj1 (subset_pairs_In _ _) W2)].
  - intros p Hin Hd. specialize (W3 p Hin). rewrite Hd in W3. cbn [negb orb] in W3.
    repeat (apply Bool.andb_true_iff in W3; destruct W3 as [W3 ?]).
    destruct (attr_get "source_only" (snd p)); [discriminate|reflexivity].
  - intros p Hin Hd. specialize (W3 p Hin). rewrite Hd in W3. cbn [negb orb] in W3.
    repeat (apply Bool.andb_true_iff in W3; destruct W3 as [W3 ?]).
    destruct (attr_get "target_only" (snd p)); [discriminate|reflexivity].
  - apply forallb_forall. intros p Hin. specialize (W3 p Hin). unfold clean.
    destruct (is_dataset (fst p)); cbn [negb orb] in *; [|reflexivity].
    repeat (apply Bool.andb_true_iff in W3; destruct W3 as [W3 ?]). assumption.
  - exact W4.
Qed.

Lemma Pk_true x y e : Pk x y e = true -> dd e = true /\ key (esrc e) = x /\ key (etgt e) = y.
Proof.
  unfold Pk. intros H. apply Bool.andb_true_iff in H. destruct H as [H H2]. apply Bool.andb_true_iff in H.
  destruct H as [H0 H1]. apply String.eqb_eq in H1, H2. auto.
Qed.

Lemma dd_true e : dd e = true -> is_dataset (esrc e) = true /\ is_dataset (etgt e) = true.
Proof. unfold dd. intros H. apply Bool.andb_true_iff in H. exact H. Qed.

(** RENAME pairs are pairs of datasets (consequence of W2) *)
Lemma wfh_renames_ds h : wfh h -> forall p, In p (h_renames h) -> is_dataset (fst p) = true /\ is_dataset (snd p) = true.
Proof.
  intros W p Hin. assert (H : In (kp p) (dd_keys (hg h))).
  { apply (wfh_edges h W). apply in_map. exact Hin. }
  unfold kp in H. apply In_dd_keys in H. apply existsb_exists in H. destruct H as (e & _ & HP).
  apply Pk_true in HP. destruct HP as (Hd & K1 & K2). apply dd_true in Hd. destruct Hd as [D1 D2].
  split; [apply (key_is_dataset (esrc e)); [exact D1|symmetry; exact K1]|apply (key_is_dataset (etgt e)); [exact D2|symmetry; exact K2]].
Qed.

Lemma tagged_In g k keep n : In n (tagged g k keep) -> keep n = true /\ has_node g n = true.
Proof.
  unfold tagged. rewrite in_map_iff. intros (p & Hp & Hin). apply filter_In in Hin. destruct Hin as [Hin Hf].
  apply Bool.andb_true_iff in Hf. destruct Hf as [_ Hk]. subst n. split; [exact Hk|].
  apply node_retrievable. apply in_map. exact Hin.
Qed.

(** * refinement of results *)
Lemma refines_trans r a a' : refines r a -> res_equiv a a' -> refines r a'.
Proof.
  destruct r as [g| |], a as [s|], a' as [s'|]; simpl; try tauto. apply st_equiv_trans.
Qed.

(** * compose *)
Lemma compose_refines g h : wfh h ->
  st_equiv (abs_graph (compose g (hg h))) (T.compose (abs_graph g) (abs_holder h)).
Proof.
  intros W. unfold st_equiv, T.compose, abs_graph, abs_holder. cbn [T.tn T.te T.tw T.tso T.tto T.hnodes T.renames T.wired].
  split; [apply dkeys_compose|]. split; [|split; [|split]].
  - intros [x y]. rewrite TP.In_add_pairs, !In_dd_keys, (existsb_compose _ g (hg h) (eresp_Pk x y)), Bool.orb_true_iff.
    rewrite <- (In_dd_keys (hg h)), (wfh_edges h W (x, y)). tauto.
  - intros x. rewrite TP.In_add_all, !In_wired_keys, (existsb_compose _ g (hg h) (eresp_Pw x)), Bool.orb_true_iff. tauto.
  - intros x. rewrite !In_tag_keys, (tag_compose _ x g (hg h) (wfh_so h W)). tauto.
  - intros x. rewrite !In_tag_keys, (tag_compose _ x g (hg h) (wfh_to h W)). tauto.
Qed.

(** * set_attr *)
Lemma tags_set_attr_In g rs k x : (forall r, In r rs -> is_dataset r = true) ->
  In x (tag_keys (set_attr g rs k true) k) <-> (In x (map key rs) /\ In x (dkeys g)) \/ In x (tag_keys g k).
Proof.
  intros Hrs. rewrite !In_tag_keys, tag_set_attr, String.eqb_refl, In_dkeys, !existsb_exists. split.
  - intros (p & Hin & HQ). apply Bool.andb_true_iff in HQ. destruct HQ as [Hq Hm].
    destruct (memn (fst p) rs) eqn:E.
    + left. split; [|exists p; auto]. unfold memn in E. apply existsb_exists in E.
      destruct E as (r & Hr & Er). apply in_map_iff. exists r. split; [|exact Hr].
      unfold Qn in Hq. apply Bool.andb_true_iff in Hq. destruct Hq as [Hd Hk]. apply String.eqb_eq in Hk.
      rewrite <- Hk. symmetry. apply key_resp; assumption.
    + right. exists p. split; [exact Hin|]. unfold Qt, Qn in *. rewrite Hq, Hm. reflexivity.
  - intros [[Hx Hd]|(p & Hin & HQ)].
    + destruct Hd as (p & Hin & Hq). exists p. split; [exact Hin|]. rewrite Hq. cbn [andb].
      apply in_map_iff in Hx. destruct Hx as (r & Hk & Hr).
      assert (E : memn (fst p) rs = true).
      { unfold memn. apply existsb_exists. exists r. split; [exact Hr|]. unfold Qn in Hq. apply Bool.andb_true_iff in Hq.
        destruct Hq as [Hd Hk2]. apply String.eqb_eq in Hk2. apply key_inj; [exact Hd|congruence]. }
      rewrite E. reflexivity.
    + exists p. split; [exact Hin|]. unfold Qt in HQ. apply Bool.andb_true_iff in HQ. destruct HQ as [Hq Ha].
      unfold Qn. rewrite Hq, Ha. cbn [andb]. destruct (memn (fst p) rs); reflexivity.
Qed.

Lemma tags_set_attr_other g rs k v k' : String.eqb k' k = false ->
  seteq (tag_keys (set_attr g rs k v) k') (tag_keys g k').
Proof. intros Hk x. rewrite !In_tag_keys, tag_set_attr, Hk. reflexivity. Qed.

Lemma tag_keys_same_nodes g g' k : gnodes g' = gnodes g -> tag_keys g' k = tag_keys g k.
Proof. intros H. unfold tag_keys, retrieve_tag, tagged. rewrite H. reflexivity. Qed.
Lemma dkeys_same_nodes g g' : gnodes g' = gnodes g -> dkeys g' = dkeys g.
Proof. intros H. unfold dkeys. rewrite H. reflexivity. Qed.

(** * remove_node of an isolated node *)
Lemma remove_node_abs g t : is_dataset t = true -> Nat.eqb (degree g t) 0 = true ->
  st_equiv (abs_graph (remove_node g t)) (T.remove_node (key t) (abs_graph g)).
Proof.
  intros Hd Hz. pose proof Hz as Hiso. rewrite <- (isolated_degree g t Hd) in Hiso. apply isolated_iff in Hiso.
  cbn [abs_graph T.te T.tw] in Hiso. destruct Hiso as (I1 & I2 & I3).
  unfold st_equiv, T.remove_node, abs_graph. cbn [T.tn T.te T.tw T.tso T.tto].
  unfold dd_keys, wired_keys. rewrite (gedges_remove_isolated g t Hz). fold (dd_keys g). fold (wired_keys g).
  split; [apply dkeys_remove_ds; exact Hd|]. split; [|split; [|split]].
  - intros [x y]. rewrite filter_In. cbn [fst snd]. split; [|tauto]. intros H. split; [exact H|].
    destruct (String.eqb x (key t)) eqn:E1; [apply String.eqb_eq in E1; subst x; destruct (I2 _ H)|].
    destruct (String.eqb y (key t)) eqn:E2; [apply String.eqb_eq in E2; subst y; destruct (I1 _ H)|]. reflexivity.
  - intros x. rewrite TP.In_remove. split; [|tauto]. intros H. split; [exact H|]. intros ->. exact (I3 H).
  - intros x. rewrite TP.In_remove, !In_tag_keys, (tag_remove_ds g t _ x Hd), Bool.andb_true_iff, Bool.negb_true_iff, String.eqb_neq.
    split; intros [H1 H2]; split; auto.
  - intros x. rewrite TP.In_remove, !In_tag_keys, (tag_remove_ds g t _ x Hd), Bool.andb_true_iff, Bool.negb_true_iff, String.eqb_neq.
    split; intros [H1 H2]; split; auto.
Qed.

Lemma remove_nonds_abs g t : is_dataset t = false -> Nat.eqb (degree g t) 0 = true ->
  st_equiv (abs_graph (remove_node g t)) (abs_graph g).
Proof.
  intros Hd Hz. unfold st_equiv, abs_graph. cbn [T.tn T.te T.tw T.tso T.tto].
  unfold dd_keys, wired_keys. rewrite (gedges_remove_isolated g t Hz).
  split; [apply dkeys_remove_nonds; exact Hd|]. split; [apply seteq_refl|]. split; [apply seteq_refl|].
  split; intros x; rewrite !In_tag_keys, (tag_remove_nonds g t _ x Hd); tauto.
Qed.

(** * DROP *)
Lemma do_drops_sim ds : forall g s, st_equiv (abs_graph g) s ->
  st_equiv (abs_graph (do_drops ds g)) (T.do_drops (map key ds) s).
Proof.
  induction ds as [|t r IH]; intros g s H; cbn [do_drops map T.do_drops]; [exact H|]. apply IH.
  pose proof H as (H1 & H2 & H3 & _). cbn [abs_graph T.tn T.te T.tw] in H1, H2, H3.
  rewrite <- H1, <- (isolated_equiv (abs_graph g) s (key t) H2 H3).
  destruct (is_dataset t) eqn:Hd.
  - rewrite (mem_dkeys g t Hd), (isolated_degree g t Hd).
    destruct (has_node g t && Nat.eqb (degree g t) 0) eqn:E; [|exact H].
    apply Bool.andb_true_iff in E. destruct E as [_ E].
    eapply st_equiv_trans; [apply (remove_node_abs g t Hd E)|]. apply remove_node_equiv. exact H.
  - rewrite (mem_dkeys_nonds g t Hd). cbn [andb].
    destruct (has_node g t && Nat.eqb (degree g t) 0) eqn:E; [|exact H].
    apply Bool.andb_true_iff in E. destruct E as [_ E].
    eapply st_equiv_trans; [apply (remove_nonds_abs g t Hd E)|]. exact H.
Qed.

(** * RENAME *)
Lemma mem_tag_keys g k x : T.mem x (tag_keys g k) = existsb (Qt k x) (gnodes g).
Proof. apply TP.bool_eq_iff. rewrite TP.mem_In. apply In_tag_keys. Qed.

Lemma relabel_abs g old new :
  nodup_nodes (gnodes g) = true -> is_dataset old = true -> is_dataset new = true ->
  st_equiv (abs_graph (relabel g old new)) (T.relabel (key old) (key new) (abs_graph g)).
Proof.
  intros Hnd Ho Hn. destruct (has_node g old) eqn:Hp.
  2:{ rewrite (relabel_absent_g _ _ _ Hp), relabel_absent; [apply st_equiv_refl|].
      cbn [abs_graph T.tn]. rewrite (mem_dkeys g old Ho). exact Hp. }
  assert (Hm : T.mem (key old) (T.tn (abs_graph g)) = true).
  { cbn [abs_graph T.tn]. rewrite (mem_dkeys g old Ho). exact Hp. }
  unfold st_equiv.
  rewrite (TP.relabel_tn _ _ _ Hm), (TP.relabel_te _ _ _ Hm), (TP.relabel_tw _ _ _ Hm), (relabel_tso _ _ _ Hm), (relabel_tto _ _ _ Hm).
  cbn [abs_graph T.tn T.te T.tw T.tso T.tto].
  split; [apply dkeys_relabel; assumption|]. split; [|split; [|split]].
  - intros [x y]. rewrite TP.In_dedup_pairs, in_map_iff, In_dd_keys, (existsb_relabel _ g old new (eresp_Pk x y) Hp), existsb_exists.
    split.
    + intros (e & Hin & HP). apply Pk_true in HP. destruct HP as (Hd & K1 & K2). apply dd_true in Hd. destruct Hd as [D1 D2].
      unfold esrc, etgt in *. cbn [fst snd] in *. rewrite (rename_ds old new _ Ho Hn) in D1. rewrite (rename_ds old new _ Ho Hn) in D2.
      rewrite (rename_key old new _ D1) in K1. rewrite (rename_key old new _ D2) in K2.
      split; [|intros []]. exists (key (fst (fst e)), key (snd (fst e))). cbn [fst snd]. split; [congruence|].
      unfold dd_keys. apply in_map_iff. exists e. split; [reflexivity|]. apply filter_In. split; [exact Hin|].
      unfold dd, esrc, etgt. rewrite D1, D2. reflexivity.
    + intros [([a b] & Heq & Hin) _]. cbn [fst snd] in Heq. apply In_dd_keys in Hin. apply existsb_exists in Hin.
      destruct Hin as (e & Hin & HP). apply Pk_true in HP. destruct HP as (Hd & K1 & K2). apply dd_true in Hd. destruct Hd as [D1 D2].
      exists e. split; [exact Hin|]. unfold Pk, dd, esrc, etgt in *. cbn [fst snd].
      rewrite !(rename_ds old new _ Ho Hn), D1, D2, (rename_key old new _ D1), (rename_key old new _ D2), K1, K2.
      inversion Heq. rewrite !String.eqb_refl. reflexivity.
  - intros x. rewrite TP.In_dedup, in_map_iff, In_wired_keys, (existsb_relabel _ g old new (eresp_Pw x) Hp), existsb_exists.
    split.
    + intros (e & Hin & HP). split; [|intros []]. unfold Pw, esrc, etgt in HP. cbn [fst snd] in HP.
      rewrite !(rename_ds old new _ Ho Hn) in HP. apply Bool.orb_true_iff in HP.
      destruct HP as [HP|HP]; apply Bool.andb_true_iff in HP; destruct HP as [HP K]; apply String.eqb_eq in K;
        apply Bool.andb_true_iff in HP; destruct HP as [D1 D2]; rewrite (rename_key old new _ D1) in K.
      * exists (key (fst (fst e))). split; [exact K|]. apply In_wired_keys. apply existsb_exists. exists e. split; [exact Hin|].
        unfold Pw, esrc, etgt. rewrite D1, D2, String.eqb_refl. reflexivity.
      * exists (key (snd (fst e))). split; [exact K|]. apply In_wired_keys. apply existsb_exists. exists e. split; [exact Hin|].
        unfold Pw, esrc, etgt. rewrite D1, D2, String.eqb_refl. cbn [andb]. apply Bool.orb_true_r.
    + intros [(w & Heq & Hin) _]. apply In_wired_keys in Hin. apply existsb_exists in Hin. destruct Hin as (e & Hin & HP).
      exists e. split; [exact Hin|]. unfold Pw, esrc, etgt in *. cbn [fst snd]. rewrite !(rename_ds old new _ Ho Hn).
      apply Bool.orb_true_iff in HP.
      destruct HP as [HP|HP]; apply Bool.andb_true_iff in HP; destruct HP as [HP K]; apply String.eqb_eq in K;
        rewrite HP; apply Bool.andb_true_iff in HP; destruct HP as [D1 D2]; rewrite (rename_key old new _ D1), K, Heq, String.eqb_refl;
        [reflexivity|apply Bool.orb_true_r].
  - intros x. rewrite In_tag_keys, (tag_relabel g old new _ x Hp Ho Hn Hnd).
    destruct (String.eqb (key old) (key new)) eqn:Eon; [rewrite In_tag_keys; tauto|].
    assert (Hne : key old <> key new) by (apply String.eqb_neq; exact Eon).
    rewrite In_rtag, (later_is_old_lio (key old) (key new) (dkeys g) Hm Hne), !mem_tag_keys, In_tag_keys.
    destruct (String.eqb x (key new)) eqn:E1.
    + apply String.eqb_eq in E1. subst x. split; [intros H; right; split; [reflexivity|exact H]|].
      intros [(_ & _ & H)|[_ H]]; [congruence|exact H].
    + apply String.eqb_neq in E1. destruct (String.eqb x (key old)) eqn:E2.
      * apply String.eqb_eq in E2. subst x. split; [discriminate|]. intros [(_ & H & _)|[H _]]; congruence.
      * apply String.eqb_neq in E2. split; [intros H; left; auto|]. intros [(H & _ & _)|[H _]]; [exact H|congruence].
  - intros x. rewrite In_tag_keys, (tag_relabel g old new _ x Hp Ho Hn Hnd).
    destruct (String.eqb (key old) (key new)) eqn:Eon; [rewrite In_tag_keys; tauto|].
    assert (Hne : key old <> key new) by (apply String.eqb_neq; exact Eon).
    rewrite In_rtag, (later_is_old_lio (key old) (key new) (dkeys g) Hm Hne), !mem_tag_keys, In_tag_keys.
    destruct (String.eqb x (key new)) eqn:E1.
    + apply String.eqb_eq in E1. subst x. split; [intros H; right; split; [reflexivity|exact H]|].
      intros [(_ & _ & H)|[_ H]]; [congruence|exact H].
    + apply String.eqb_neq in E1. destruct (String.eqb x (key old)) eqn:E2.
      * apply String.eqb_eq in E2. subst x. split; [discriminate|]. intros [(_ & H & _)|[H _]]; congruence.
      * apply String.eqb_neq in E2. split; [intros H; left; auto|]. intros [(H & _ & _)|[H _]]; [exact H|congruence].
Qed.

Lemma key_eqb_nonds n v : is_dataset n = true -> is_dataset v = false -> String.eqb (key n) (key v) = false.
Proof.
  intros Hn Hv. rewrite <- (key_eqb n v Hn). destruct (node_eqb n v) eqn:E; [|reflexivity].
  rewrite (is_dataset_eqb _ _ E) in Hn. congruence.
Qed.

Lemma edge_is_Pk n e : is_dataset n = true -> edge_is n n e = Pk (key n) (key n) e.
Proof.
  intros Hd. unfold edge_is, Pk, dd, esrc, etgt. destruct e as [[u v] a]; cbn [fst snd].
  rewrite (key_eqb n u Hd), (key_eqb n v Hd), (String.eqb_sym (key u)), (String.eqb_sym (key v)).
  destruct (is_dataset u) eqn:Hu.
  - destruct (is_dataset v) eqn:Hv; [reflexivity|]. rewrite (key_eqb_nonds n v Hd Hv). cbn [andb]. apply Bool.andb_false_r.
  - rewrite (key_eqb_nonds n u Hd Hu). reflexivity.
Qed.

Lemma remove_edge_refines g n : is_dataset n = true ->
  match remove_edge g n n, T.remove_edge (key n, key n) (abs_graph g) with
  | Some g', T.Ok s' => st_equiv (abs_graph g') s' /\ gnodes g' = gnodes g
  | None, T.ErrNetworkX => True
  | _, _ => False
  end.
Proof.
  intros Hd. unfold remove_edge, T.remove_edge. cbn [abs_graph T.tn T.te T.tw T.tso T.tto].
  assert (Hh : has_edge g n n = T.mem_pair (key n, key n) (dd_keys g)).
  { apply TP.bool_eq_iff. rewrite TP.mem_pair_In, In_dd_keys. unfold has_edge. rewrite has_edge_existsb.
    rewrite (existsb_ext' _ _ _ (fun e => edge_is_Pk n e Hd)). tauto. }
  rewrite <- Hh. destruct (has_edge g n n); [|exact I]. split; [|reflexivity].
  unfold st_equiv, abs_graph. cbn [T.tn T.te T.tw T.tso T.tto]. split; [reflexivity|]. split; [|split; [|split]].
  - intros [x y]. rewrite filter_In, !In_dd_keys. cbn [gedges]. rewrite existsb_filter.
    rewrite (existsb_ext' _ (fun e => Pk x y e && negb (T.pair_eqb (x, y) (key n, key n)))).
    + rewrite existsb_andc, Bool.andb_true_iff. tauto.
    + intros e. destruct (Pk x y e) eqn:HP; [|reflexivity]. cbn [andb]. f_equal. rewrite (edge_is_Pk n e Hd).
      apply Pk_true in HP. destruct HP as (D & K1 & K2). unfold Pk, T.pair_eqb. cbn [fst snd]. rewrite D, K1, K2. reflexivity.
  - intros x. rewrite !In_wired_keys. cbn [gedges]. rewrite existsb_filter.
    rewrite (existsb_ext' _ (Pw x)); [tauto|]. intros e. destruct (Pw x e) eqn:HP; [|reflexivity]. cbn [andb].
    rewrite (edge_is_Pk n e Hd). unfold Pk. replace (dd e) with false; [reflexivity|].
    unfold Pw, dd in *. destruct (is_dataset (esrc e)), (is_dataset (etgt e)); cbn [andb negb orb] in *; congruence.
  - apply seteq_refl.
  - apply seteq_refl.
Qed.

Lemma do_renames_sim rs :
  (forall p, In p rs -> is_dataset (fst p) = true /\ is_dataset (snd p) = true) ->
  forall g s, nodup_nodes (gnodes g) = true -> st_equiv (abs_graph g) s ->
  refines (do_renames rs g) (T.do_renames (map kp rs) s).
Proof.
  induction rs as [|[old new] r IH]; intros Hds g s Hnd H; cbn [do_renames map T.do_renames]; [exact H|].
  destruct (Hds (old, new) (or_introl eq_refl)) as [Ho Hn]. cbn [fst snd] in Ho, Hn.
  unfold kp at 1. cbn [fst snd].
  assert (H1 : st_equiv (abs_graph (relabel g old new)) (T.relabel (key old) (key new) s)).
  { eapply st_equiv_trans; [apply relabel_abs; assumption|]. apply relabel_equiv. exact H. }
  pose proof (nodup_relabel g old new Hnd) as Hnd1.
  pose proof (remove_edge_refines (relabel g old new) new Hn) as Hre.
  pose proof (remove_edge_equiv (key new, key new) _ _ H1) as Heq.
  unfold T.tbl in *.
  destruct (remove_edge (relabel g old new) new new) as [g2|];
    destruct (T.remove_edge (key new, key new) (abs_graph (relabel g old new))) as [s2|];
    destruct (T.remove_edge (key new, key new) (T.relabel (key old) (key new) s)) as [s2'|];
    cbn [res_equiv] in Heq; try contradiction; try exact I.
  destruct Hre as [Hre Hn2].
  assert (H2 : st_equiv (abs_graph g2) s2') by (eapply st_equiv_trans; eassumption).
  apply IH.
  - intros p Hp. apply Hds. right; exact Hp.
  - destruct (Nat.eqb (degree g2 new) 0); [apply nodup_remove_node|]; rewrite Hn2; exact Hnd1.
  - pose proof H2 as (_ & K2 & K3 & _). rewrite <- (isolated_equiv _ _ (key new) K2 K3), (isolated_degree g2 new Hn).
    destruct (Nat.eqb (degree g2 new) 0) eqn:E; [|exact H2].
    eapply st_equiv_trans; [apply (remove_node_abs g2 new Hn E)|]. apply remove_node_equiv. exact H2.
Qed.

(** * reads x writes *)
Lemma product_refines gc sc rs ws :
  (forall r, In r rs -> is_dataset r = true /\ has_node gc r = true) ->
  (forall w, In w ws -> is_dataset w = true /\ has_node gc w = true) ->
  st_equiv (abs_graph gc) sc ->
  st_equiv (abs_graph (add_product rs ws gc))
           {| T.tn := T.tn sc; T.te := T.add_pairs (T.product (map key rs) (map key ws)) (T.te sc);
              T.tw := T.tw sc; T.tso := T.tso sc; T.tto := T.tto sc |}.
Proof.
  intros Hr Hw (H1 & H2 & H3 & H4 & H5). cbn [abs_graph T.tn T.te T.tw T.tso T.tto] in *.
  destruct (add_product_spec rs ws gc (fun r Hin => proj2 (Hr r Hin)) (fun w Hin => proj2 (Hw w Hin))) as [A1 A2].
  unfold st_equiv, abs_graph. cbn [T.tn T.te T.tw T.tso T.tto].
  split; [rewrite (dkeys_same_nodes _ _ A1); exact H1|]. split; [|split; [|split]].
  - intros [x y]. rewrite TP.In_add_pairs, TP.In_product, In_dd_keys, (A2 _ (eresp_Pk x y)), Bool.orb_true_iff.
    rewrite <- (In_dd_keys gc), (H2 (x, y)).
    assert (Hp : existsb (fun r => existsb (fun w => Pk x y (r, w, lineage_edge)) ws) rs = true <->
                 In x (map key rs) /\ In y (map key ws)).
    { rewrite existsb_exists, !in_map_iff. split.
      - intros (r & Hin & Hex). apply existsb_exists in Hex. destruct Hex as (w & Hinw & HP).
        apply Pk_true in HP. destruct HP as (_ & K1 & K2). split; [exists r|exists w]; auto.
      - intros [(r & K1 & Hin) (w & K2 & Hinw)]. exists r. split; [exact Hin|]. apply existsb_exists. exists w. split; [exact Hinw|].
        unfold Pk, dd, esrc, etgt. cbn [fst snd]. rewrite (proj1 (Hr r Hin)), (proj1 (Hw w Hinw)), K1, K2, !String.eqb_refl. reflexivity. }
    rewrite Hp. tauto.
  - intros x. rewrite In_wired_keys, (A2 _ (eresp_Pw x)), <- (H3 x), In_wired_keys.
    replace (existsb (fun r => existsb (fun w => Pw x (r, w, lineage_edge)) ws) rs) with false; [reflexivity|].
    symmetry. apply existsb_all_false. intros r Hin. apply existsb_all_false. intros w Hinw.
    unfold Pw, esrc, etgt. cbn [fst snd]. rewrite (proj1 (Hr r Hin)), (proj1 (Hw w Hinw)). reflexivity.
  - rewrite (tag_keys_same_nodes _ _ _ A1). exact H4.
  - rewrite (tag_keys_same_nodes _ _ _ A1). exact H5.
Qed.

Lemma tag_refines_so gc sc rs :
  (forall r, In r rs -> is_dataset r = true) -> st_equiv (abs_graph gc) sc ->
  st_equiv (abs_graph (set_attr gc rs "source_only" true))
           {| T.tn := T.tn sc; T.te := T.te sc; T.tw := T.tw sc;
              T.tso := T.tag_all (map key rs) (T.tn sc) (T.tso sc); T.tto := T.tto sc |}.
Proof.
  intros Hr (H1 & H2 & H3 & H4 & H5). cbn [abs_graph T.tn T.te T.tw T.tso T.tto] in *.
  unfold st_equiv, abs_graph. cbn [T.tn T.te T.tw T.tso T.tto].
  split; [rewrite dkeys_set_attr; exact H1|]. split; [exact H2|]. split; [exact H3|]. split.
  - intros x. rewrite (tags_set_attr_In gc rs _ x Hr), TP.In_tag_all, <- H1, (H4 x). tauto.
  - eapply seteq_trans; [apply tags_set_attr_other; reflexivity|exact H5].
Qed.

Lemma tag_refines_to gc sc ws :
  (forall r, In r ws -> is_dataset r = true) -> st_equiv (abs_graph gc) sc ->
  st_equiv (abs_graph (set_attr gc ws "target_only" true))
           {| T.tn := T.tn sc; T.te := T.te sc; T.tw := T.tw sc;
              T.tso := T.tso sc; T.tto := T.tag_all (map key ws) (T.tn sc) (T.tto sc) |}.
Proof.
  intros Hr (H1 & H2 & H3 & H4 & H5). cbn [abs_graph T.tn T.te T.tw T.tso T.tto] in *.
  unfold st_equiv, abs_graph. cbn [T.tn T.te T.tw T.tso T.tto].
  split; [rewrite dkeys_set_attr; exact H1|]. split; [exact H2|]. split; [exact H3|]. split.
  - eapply seteq_trans; [apply tags_set_attr_other; reflexivity|exact H4].
  - intros x. rewrite (tags_set_attr_In gc ws _ x Hr), TP.In_tag_all, <- H1, (H5 x). tauto.
Qed.

(** * One step *)
Definition step_on (g : graph) (h : holder) : result graph :=
  match h_drop h, h_renames h with
  | _ :: _, _ => BOk (do_drops (h_drop h) g)
  | [], _ :: _ => do_renames (h_renames h) g
  | [], [] =>
      match h_read h, h_write h with
      | _ :: _, [] => BOk (set_attr g (h_read h) "source_only" true)
      | [], _ :: _ => BOk (set_attr g (h_write h) "target_only" true)
      | rs, ws => BOk (add_product rs ws g)
      end
  end.
Lemma step_step_on g h : step g h = step_on (compose g (hg h)) h.
Proof. reflexivity. Qed.

Definition tstep_on (g : T.tstate) (ds : list string) (rns : list (string * string)) (rs ws : list string) : T.result T.tstate :=
  match ds, rns with
  | _ :: _, _ => T.Ok (T.do_drops ds g)
  | [], _ :: _ => T.do_renames rns g
  | [], [] =>
      match rs, ws with
      | _ :: _, [] => T.Ok {| T.tn := T.tn g; T.te := T.te g; T.tw := T.tw g; T.tso := T.tag_all rs (T.tn g) (T.tso g); T.tto := T.tto g |}
      | [], _ :: _ => T.Ok {| T.tn := T.tn g; T.te := T.te g; T.tw := T.tw g; T.tso := T.tso g; T.tto := T.tag_all ws (T.tn g) (T.tto g) |}
      | _, _ => T.Ok {| T.tn := T.tn g; T.te := T.add_pairs (T.product rs ws) (T.te g); T.tw := T.tw g; T.tso := T.tso g; T.tto := T.tto g |}
      end
  end.
Lemma tstep_tstep_on s h :
  T.step s (abs_holder h) =
  tstep_on (T.compose s (abs_holder h)) (map key (h_drop h)) (map kp (h_renames h)) (map key (h_read h)) (map key (h_write h)).
Proof. reflexivity. Qed.

Lemma h_tag_ds h gc k r :
  (forall n, has_node (hg h) n = true -> has_node gc n = true) ->
  In r (tagged (hg h) k is_dataset) -> is_dataset r = true /\ has_node gc r = true.
Proof. intros Hsub Hin. apply tagged_In in Hin. destruct Hin as [Hd Hn]. auto. Qed.

Lemma step_core gc sc h :
  wfh h -> nodup_nodes (gnodes gc) = true ->
  (forall n, has_node (hg h) n = true -> has_node gc n = true) ->
  st_equiv (abs_graph gc) sc ->
  refines (step_on gc h) (tstep_on sc (map key (h_drop h)) (map kp (h_renames h)) (map key (h_read h)) (map key (h_write h))).
Proof.
  intros W Hnd Hsub Hc. unfold step_on, tstep_on.
  pose proof (wfh_renames_ds h W) as Hds.
  pose proof (fun r => h_tag_ds h gc "read" r Hsub) as Hr. pose proof (fun r => h_tag_ds h gc "write" r Hsub) as Hw.
  fold (h_read h) in Hr. fold (h_write h) in Hw.
  destruct (h_drop h) as [|d0 dr]; cbn [map].
  - destruct (h_renames h) as [|p0 pr]; cbn [map].
    + destruct (h_read h) as [|r0 rr], (h_write h) as [|w0 wr]; cbn [map refines].
      * apply (product_refines gc sc [] [] Hr Hw Hc).
      * apply (tag_refines_to gc sc (w0 :: wr)); [intros r Hin; apply (Hw r Hin)|exact Hc].
      * apply (tag_refines_so gc sc (r0 :: rr)); [intros r Hin; apply (Hr r Hin)|exact Hc].
      * apply (product_refines gc sc (r0 :: rr) (w0 :: wr) Hr Hw Hc).
    + apply (do_renames_sim (p0 :: pr) Hds gc sc Hnd Hc).
  - cbn [refines]. apply (do_drops_sim (d0 :: dr) gc sc Hc).
Qed.

(** the one-step simulation, relational form *)
Theorem step_sim g s h :
  nodup_nodes (gnodes g) = true -> wf_holder h = true -> st_equiv (abs_graph g) s ->
  refines (step g h) (T.step s (abs_holder h)).
Proof.
  intros Hnd Hwf H. pose proof (wf_holder_wfh h Hwf) as W.
  rewrite step_step_on, tstep_tstep_on. apply step_core.
  - exact W.
  - apply nodup_compose; exact Hnd.
  - intros n Hn. rewrite has_node_compose, Hn. reflexivity.
  - eapply st_equiv_trans; [apply (compose_refines g h W)|]. apply compose_equiv. exact H.
Qed.

(** ... and as asked: the abstraction of a full step is the abstract step of the abstraction *)
Theorem step_refines g h :
  wf_graph g = true -> wf_holder h = true ->
  refines (step g h) (T.step (abs_graph g) (abs_holder h)).
Proof.
  intros Hg Hwf. unfold wf_graph in Hg. apply Bool.andb_true_iff in Hg. destruct Hg as [Hg _].
  apply Bool.andb_true_iff in Hg. destruct Hg as [Hnd _].
  apply step_sim; [exact Hnd|exact Hwf|apply st_equiv_refl].
Qed.

(** * Invariants of the accumulated graph *)
Definition inv (g : graph) : Prop :=
  nodup_nodes (gnodes g) = true /\ closed_tgt g = true /\ forallb clean (gnodes g) = true.

Lemma wf_graph_inv g : wf_graph g = true <-> inv g.
Proof.
  unfold wf_graph, inv, no_selfloop_tag. rewrite !Bool.andb_true_iff. change (fun p : node * nattrs => negb (is_dataset (fst p)) || no_true "selfloop" (snd p)) with clean. tauto.
Qed.

Lemma inv_empty : inv empty_graph.
Proof. repeat split. Qed.

Lemma inv_remove_node g n : inv g -> inv (remove_node g n).
Proof.
  intros (H1 & H2 & H3). split; [apply nodup_remove_node; exact H1|]. split; [apply closed_remove_node; exact H2|].
  rewrite gnodes_remove_node. apply clean_filter. exact H3.
Qed.

Lemma do_drops_inv ds : forall g, inv g -> inv (do_drops ds g).
Proof.
  induction ds as [|t r IH]; intros g H; cbn [do_drops]; [exact H|]. apply IH.
  destruct (has_node g t && Nat.eqb (degree g t) 0); [apply inv_remove_node|]; exact H.
Qed.

Lemma remove_edge_nodes g u v g' : remove_edge g u v = Some g' -> gnodes g' = gnodes g.
Proof. unfold remove_edge. destruct (has_edge g u v); [|discriminate]. intros H; inversion H. reflexivity. Qed.

Lemma do_renames_inv rs :
  (forall p, In p rs -> is_dataset (fst p) = true /\ is_dataset (snd p) = true) ->
  forall g g', inv g -> do_renames rs g = BOk g' -> inv g'.
Proof.
  induction rs as [|[old new] r IH]; intros Hds g g' H; cbn [do_renames].
  - intros E; inversion E; subst; exact H.
  - destruct (Hds (old, new) (or_introl eq_refl)) as [Ho Hn]. cbn [fst snd] in Ho, Hn.
    destruct H as (H1 & H2 & H3).
    destruct (remove_edge (relabel g old new) new new) as [g2|] eqn:E; [|discriminate].
    apply IH; [intros p Hp; apply Hds; right; exact Hp|].
    assert (I2 : inv g2).
    { pose proof (remove_edge_nodes _ _ _ _ E) as Hn2. split; [rewrite Hn2; apply nodup_relabel; exact H1|].
      split; [apply (closed_remove_edge _ _ _ _ E); apply closed_relabel; exact H2|].
      rewrite Hn2. apply clean_relabel; assumption. }
    destruct (Nat.eqb (degree g2 new) 0); [apply inv_remove_node|]; exact I2.
Qed.

Lemma step_on_inv gc h g' : wfh h -> inv gc ->
  (forall n, has_node (hg h) n = true -> has_node gc n = true) ->
  step_on gc h = BOk g' -> inv g'.
Proof.
  intros W I Hsub. unfold step_on.
  pose proof (fun r => h_tag_ds h gc "read" r Hsub) as Hr. pose proof (fun r => h_tag_ds h gc "write" r Hsub) as Hw.
  fold (h_read h) in Hr. fold (h_write h) in Hw.
  destruct (h_drop h) as [|d0 dr].
  - destruct (h_renames h) as [|p0 pr] eqn:Er.
    + assert (Hprod : forall rs ws, (forall r, In r rs -> is_dataset r = true /\ has_node gc r = true) ->
                                    (forall r, In r ws -> is_dataset r = true /\ has_node gc r = true) ->
                                    inv (add_product rs ws gc)).
      { intros rs ws Hr' Hw'. destruct I as (I1 & I2 & I3).
        destruct (add_product_spec rs ws gc (fun r Hin => proj2 (Hr' r Hin)) (fun w Hin => proj2 (Hw' w Hin))) as [A1 _].
        split; [rewrite A1; exact I1|]. split; [|rewrite A1; exact I3].
        apply closed_add_product; [intros r Hin; apply (Hr' r Hin)|intros r Hin; apply (Hw' r Hin)|exact I2]. }
      assert (Htag : forall ns k, String.eqb k "selfloop" = false -> inv (set_attr gc ns k true)).
      { intros ns k Hk. destruct I as (I1 & I2 & I3). split; [rewrite nodup_set_attr; exact I1|].
        split; [rewrite closed_set_attr; exact I2|]. apply clean_set_attr; assumption. }
      destruct (h_read h) as [|r0 rr], (h_write h) as [|w0 wr]; intros E; inversion E; subst g'.
      * exact (Hprod [] [] Hr Hw).
      * apply Htag; reflexivity.
      * apply Htag; reflexivity.
      * exact (Hprod (r0 :: rr) (w0 :: wr) Hr Hw).
    + intros E. apply (do_renames_inv (p0 :: pr)) with (g := gc); [|exact I|exact E].
      rewrite <- Er. apply wfh_renames_ds; exact W.
  - intros E. assert (E' : g' = do_drops (d0 :: dr) gc) by congruence. rewrite E'. apply (do_drops_inv (d0 :: dr)); exact I.
Qed.

Lemma step_inv g h g' : wf_holder h = true -> inv g -> step g h = BOk g' -> inv g'.
Proof.
  intros Hwf (I1 & I2 & I3) E. pose proof (wf_holder_wfh h Hwf) as W. rewrite step_step_on in E.
  apply (step_on_inv (compose g (hg h)) h g' W); [|intros n Hn; rewrite has_node_compose, Hn; reflexivity|exact E].
  split; [apply nodup_compose; exact I1|]. split; [apply closed_compose; [exact I2|apply (wfh_closed h W)]|].
  rewrite gnodes_compose. apply clean_fold_upsert; [exact I3|apply (wfh_clean h W)].
Qed.

(** * The simulation lifted to the whole script *)
Definition all_wf (hs : list holder) : Prop := Forall (fun h => wf_holder h = true) hs.

Theorem fold_sim hs : all_wf hs -> forall g s, inv g -> st_equiv (abs_graph g) s ->
  match fold_steps g hs, T.build_from s (map abs_holder hs) with
  | BOk g', T.Ok s' => st_equiv (abs_graph g') s' /\ inv g'
  | ErrNetworkX, T.ErrNetworkX => True
  | _, _ => False
  end.
Proof.
  induction 1 as [|h r Hh Hr IH]; intros g s I H; cbn [fold_steps map T.build_from]; [split; assumption|].
  pose proof (step_sim g s h (proj1 I) Hh H) as Hs. pose proof (step_inv g h) as Hi.
  destruct (step g h) as [g1| |], (T.step s (abs_holder h)) as [s1|]; cbn [refines] in Hs; try contradiction; [|exact Logic.I].
  apply IH; [apply (Hi g1 Hh I eq_refl)|exact Hs].
Qed.

Theorem fold_refines hs : all_wf hs ->
  refines (fold_steps empty_graph hs) (T.build (map abs_holder hs)).
Proof.
  intros Hwf. pose proof (fold_sim hs Hwf empty_graph T.empty_state inv_empty (st_equiv_refl T.empty_state)) as H.
  unfold T.build. destruct (fold_steps empty_graph hs), (T.build_from T.empty_state (map abs_holder hs)); cbn [refines];
    try exact H. exact (proj1 H).
Qed.

(** * The end of [build]: [resolve_all] does not touch the table graph
    (it adds column nodes and column -> x edges, removes column -> x edges and column
    nodes; the only way it can create a dataset node is [add_edge] re-creating a missing
    edge target, which [closed_tgt] excludes). *)
Definition dsp (p : node * nattrs) : bool := is_dataset (fst p).
Definition tgeq (g g' : graph) : Prop :=
  filter dsp (gnodes g') = filter dsp (gnodes g) /\ filter dd (gedges g') = filter dd (gedges g).

Lemma table_graph_form g : table_graph g = {| gnodes := filter dsp (gnodes g); gedges := filter dd (gedges g) |}.
Proof. reflexivity. Qed.
Lemma tgeq_table_graph g g' : tgeq g g' -> table_graph g' = table_graph g.
Proof. intros [H1 H2]. rewrite !table_graph_form, H1, H2. reflexivity. Qed.
Lemma tgeq_refl g : tgeq g g.
Proof. split; reflexivity. Qed.
Lemma tgeq_trans g1 g2 g3 : tgeq g1 g2 -> tgeq g2 g3 -> tgeq g1 g3.
Proof. intros [A1 A2] [B1 B2]. split; congruence. Qed.

Lemma filter_filter_imp {A} (f1 f2 : A -> bool) l : (forall x, f1 x = true -> f2 x = true) -> filter f1 (filter f2 l) = filter f1 l.
Proof.
  intros H. induction l as [|a r IH]; cbn [filter]; [reflexivity|].
  destruct (f2 a) eqn:E2; cbn [filter]; [rewrite IH; reflexivity|].
  destruct (f1 a) eqn:E1; [rewrite (H a E1) in E2; discriminate|exact IH].
Qed.

Lemma filter_upsert_nonds n a l : is_dataset n = false -> filter dsp (upsert_node n a l) = filter dsp l.
Proof.
  intros Hd. induction l as [|[m b] r IH]; cbn [upsert_node filter].
  - unfold dsp; cbn [fst]. rewrite Hd. reflexivity.
  - destruct (node_eqb n m) eqn:E; cbn [filter].
    + change (dsp (m, attr_update b a)) with (is_dataset m). change (dsp (m, b)) with (is_dataset m).
      rewrite <- (is_dataset_eqb _ _ E), Hd. reflexivity.
    + rewrite IH. reflexivity.
Qed.

Lemma filter_upsert_edge_nonds u v a l : is_dataset u = false -> filter dd (upsert_edge u v a l) = filter dd l.
Proof.
  intros Hd. induction l as [|e r IH]; cbn [upsert_edge filter].
  - unfold dd, esrc; cbn [fst]. rewrite Hd. reflexivity.
  - destruct (edge_is u v e) eqn:E; cbn [filter].
    + unfold edge_is in E. apply Bool.andb_true_iff in E. destruct E as [E _].
      unfold dd, esrc; cbn [fst]. rewrite <- (is_dataset_eqb _ _ E), Hd. reflexivity.
    + rewrite IH. reflexivity.
Qed.

Lemma has_node_l_upsert x n a l : has_node_l x (upsert_node n a l) = node_eqb x n || has_node_l x l.
Proof. rewrite !has_node_memn, map_fst_upsert, memn_nadd. reflexivity. Qed.

Lemma gnodes_add_edge g u v a : gnodes (add_edge g u v a) = upsert_node v [] (upsert_node u [] (gnodes g)).
Proof. reflexivity. Qed.

Lemma has_node_add_edge_mono g u v a x : has_node g x = true -> has_node (add_edge g u v a) x = true.
Proof.
  unfold has_node. intros H. rewrite gnodes_add_edge, !has_node_l_upsert, H, !Bool.orb_true_r. reflexivity.
Qed.

Lemma tgeq_add_edge g u v a : is_dataset u = false -> (is_dataset v = false \/ has_node g v = true) ->
  tgeq g (add_edge g u v a).
Proof.
  intros Hu Hv. split.
  - rewrite gnodes_add_edge. destruct Hv as [Hv|Hv].
    + rewrite (filter_upsert_nonds v _ _ Hv), (filter_upsert_nonds u _ _ Hu). reflexivity.
    + rewrite upsert_nil_present; [apply (filter_upsert_nonds u _ _ Hu)|].
      rewrite has_node_l_upsert. unfold has_node in Hv. rewrite Hv. apply Bool.orb_true_r.
  - unfold add_edge; cbn [gedges]. apply filter_upsert_edge_nonds.
    rewrite (is_dataset_eqb _ _ (canon_eqb u _)). exact Hu.
Qed.

Lemma tgeq_remove_edge_col g c v g' : remove_edge g (NCol c) v = Some g' -> tgeq g g'.
Proof.
  unfold remove_edge. destruct (has_edge g (NCol c) v); [|discriminate]. intros H; inversion H; subst g'.
  split; cbn [gnodes gedges]; [reflexivity|]. apply filter_filter_imp. intros e Hd. apply dd_true in Hd. destruct Hd as [Hd _].
  apply Bool.negb_true_iff. unfold edge_is. destruct (node_eqb (NCol c) (fst (fst e))) eqn:E; [|reflexivity].
  unfold esrc in Hd. rewrite <- (is_dataset_eqb _ _ E) in Hd. discriminate.
Qed.

Lemma tgeq_remove_node_nonds g n : is_dataset n = false -> tgeq g (remove_node g n).
Proof.
  intros Hn. split; unfold remove_node; cbn [gnodes gedges]; apply filter_filter_imp.
  - intros p Hd. unfold dsp in Hd. apply Bool.negb_true_iff. destruct (node_eqb n (fst p)) eqn:E; [|reflexivity].
    rewrite (is_dataset_eqb _ _ E) in Hn. congruence.
  - intros e Hd. apply dd_true in Hd. destruct Hd as [D1 D2]. unfold esrc, etgt in *.
    destruct (node_eqb n (fst (fst e))) eqn:E1; [rewrite (is_dataset_eqb _ _ E1) in Hn; congruence|].
    destruct (node_eqb n (snd (fst e))) eqn:E2; [rewrite (is_dataset_eqb _ _ E2) in Hn; congruence|]. reflexivity.
Qed.

Lemma add_col_edges_tg tgt srcs : forall g,
  (is_dataset tgt = false \/ has_node g tgt = true) ->
  let g' := fold_left (fun g' c => add_edge g' (NCol c) tgt lineage_edge) srcs g in
  tgeq g g' /\ (forall x, has_node g x = true -> has_node g' x = true).
Proof.
  induction srcs as [|c r IH]; intros g Ht; cbn [fold_left]; [split; [apply tgeq_refl|auto]|].
  assert (Ht' : is_dataset tgt = false \/ has_node (add_edge g (NCol c) tgt lineage_edge) tgt = true).
  { destruct Ht as [Ht|Ht]; [left; exact Ht|right; apply has_node_add_edge_mono; exact Ht]. }
  destruct (IH _ Ht') as [I1 I2]. split.
  - eapply tgeq_trans; [apply (tgeq_add_edge g (NCol c) tgt lineage_edge eq_refl Ht)|exact I1].
  - intros x Hx. apply I2. apply has_node_add_edge_mono. exact Hx.
Qed.

Lemma resolve_one_tg p g u tgt : (is_dataset tgt = false \/ has_node g tgt = true) ->
  tgeq g (resolve_one p g u tgt) /\ (forall x, has_node g x = true -> has_node (resolve_one p g u tgt) x = true).
Proof.
  intros Ht. unfold resolve_one.
  set (srcs := match candidates_in_graph g u with [] => if p_truthy p then candidates_in_metadata p u else [] | _ :: _ => candidates_in_graph g u end).
  destruct (add_col_edges_tg tgt srcs g Ht) as [A1 A2]. cbv zeta in A1, A2.
  set (g1 := fold_left (fun g' c => add_edge g' (NCol c) tgt lineage_edge) srcs g) in *.
  destruct srcs as [|c0 cr]; [split; assumption|].
  destruct (remove_edge g1 (NCol u) tgt) as [g2|] eqn:E; [|split; assumption].
  split; [eapply tgeq_trans; [exact A1|apply (tgeq_remove_edge_col _ _ _ _ E)]|].
  intros x Hx. unfold has_node. rewrite (remove_edge_nodes _ _ _ _ E). apply A2; exact Hx.
Qed.

Lemma fold_resolve_tg p pend : forall g,
  (forall ut, In ut pend -> has_node g (snd ut) = true) ->
  tgeq g (fold_left (fun g' (ut : column * node) => resolve_one p g' (fst ut) (snd ut)) pend g).
Proof.
  induction pend as [|ut r IH]; intros g H; cbn [fold_left]; [apply tgeq_refl|].
  destruct (resolve_one_tg p g (fst ut) (snd ut) (or_intror (H ut (or_introl eq_refl)))) as [A1 A2].
  eapply tgeq_trans; [exact A1|]. apply IH. intros ut' Hin. apply A2. apply H. right; exact Hin.
Qed.

Lemma unresolved_nonds n c : unresolved n = Some c -> is_dataset n = false.
Proof. destruct n; cbn [unresolved is_dataset]; try discriminate; reflexivity. Qed.

Lemma fold_cleanup_tg G (l : list (node * nattrs)) : forall g,
  tgeq g (fold_left (fun g' pn => match unresolved (fst pn) with
                                  | Some _ => if Nat.eqb (degree G (fst pn)) 0 then remove_node g' (fst pn) else g'
                                  | None => g'
                                  end) l g).
Proof.
  induction l as [|pn r IH]; intros g; cbn [fold_left]; [apply tgeq_refl|].
  destruct (unresolved (fst pn)) as [c|] eqn:E; [|apply IH].
  destruct (Nat.eqb (degree G (fst pn)) 0); [|apply IH].
  eapply tgeq_trans; [apply tgeq_remove_node_nonds; apply (unresolved_nonds _ _ E)|apply IH].
Qed.

Theorem resolve_all_table_graph p g : closed_tgt g = true -> table_graph (resolve_all p g) = table_graph g.
Proof.
  intros Hc. apply tgeq_table_graph. unfold resolve_all.
  set (pending := flat_map (fun e => match unresolved (fst (fst e)) with Some u => [(u, snd (fst e))] | None => [] end) (gedges g)).
  eapply tgeq_trans; [|apply fold_cleanup_tg]. apply fold_resolve_tg.
  intros ut Hin. unfold pending in Hin. apply in_flat_map in Hin. destruct Hin as (e & He & Hin).
  destruct (unresolved (fst (fst e))); [|destruct Hin]. destruct Hin as [Hin|[]]. subst ut. cbn [snd].
  apply (proj1 (closed_In g) Hc e He).
Qed.

(** the three accessors only look at the table graph *)
Lemma retrieve_tag_tg g k : retrieve_tag (table_graph g) k = retrieve_tag g k.
Proof.
  unfold retrieve_tag, tagged. rewrite table_graph_form. cbn [gnodes]. f_equal. apply filter_filter_imp.
  intros p H. apply Bool.andb_true_iff in H. exact (proj2 H).
Qed.

Lemma roles_table_graph g g' : table_graph g' = table_graph g ->
  source_tables g' = source_tables g /\ target_tables g' = target_tables g /\ intermediate_tables g' = intermediate_tables g.
Proof.
  intros H. unfold source_tables, target_tables, intermediate_tables. cbv zeta.
  rewrite <- !(retrieve_tag_tg g'), <- !(retrieve_tag_tg g), H. auto.
Qed.

(** * The observables of the accumulated graph are those of its abstraction *)
Lemma map_filter_key (phi : node -> bool) (psi : string -> bool) ns :
  (forall n, In n ns -> phi n = psi (key n)) -> map key (filter phi ns) = filter psi (map key ns).
Proof.
  induction ns as [|a r IH]; intros H; cbn [filter map]; [reflexivity|].
  rewrite <- (H a (or_introl eq_refl)). destruct (phi a); cbn [map]; rewrite IH; auto; intros n Hn; apply H; right; exact Hn.
Qed.

Lemma map_fst_filter_dsp l : map fst (filter dsp l) = dnodes l.
Proof.
  unfold dnodes. induction l as [|[m a] r IH]; cbn [filter map fst]; [reflexivity|].
  change (dsp (m, a)) with (is_dataset m). destruct (is_dataset m); cbn [map fst]; rewrite IH; reflexivity.
Qed.

Lemma indeg_tg g n : is_dataset n = true -> indeg (table_graph g) n = T.indeg (abs_graph g) (key n).
Proof.
  intros Hd. unfold indeg, in_edges, T.indeg. rewrite table_graph_form. cbn [gedges abs_graph T.te]. unfold dd_keys.
  induction (filter dd (gedges g)) as [|e r IH]; cbn [filter map]; [reflexivity|].
  unfold kp at 1. cbn [snd]. rewrite (key_eqb n _ Hd), String.eqb_sym.
  destruct (String.eqb (key (snd (fst e))) (key n)); cbn [List.length]; rewrite IH; reflexivity.
Qed.
Lemma outdeg_tg g n : is_dataset n = true -> outdeg (table_graph g) n = T.outdeg (abs_graph g) (key n).
Proof.
  intros Hd. unfold outdeg, out_edges, T.outdeg. rewrite table_graph_form. cbn [gedges abs_graph T.te]. unfold dd_keys.
  induction (filter dd (gedges g)) as [|e r IH]; cbn [filter map]; [reflexivity|].
  unfold kp at 1. cbn [fst]. rewrite (key_eqb n _ Hd), String.eqb_sym.
  destruct (String.eqb (key (fst (fst e))) (key n)); cbn [List.length]; rewrite IH; reflexivity.
Qed.

Lemma has_edge_mem_pair g n : is_dataset n = true -> has_edge g n n = T.mem_pair (key n, key n) (dd_keys g).
Proof.
  intros Hd. apply TP.bool_eq_iff. rewrite TP.mem_pair_In, In_dd_keys. unfold has_edge. rewrite has_edge_existsb.
  rewrite (existsb_ext' _ _ _ (fun e => edge_is_Pk n e Hd)). tauto.
Qed.

Lemma tag_g2_other g sl k n : is_dataset n = true -> String.eqb k "selfloop" = false ->
  memn n (retrieve_tag (set_attr g sl "selfloop" true) k) = T.mem (key n) (tag_keys g k).
Proof.
  intros Hd Hk. rewrite <- (mem_key n _ Hd). fold (tag_keys (set_attr g sl "selfloop" true) k).
  rewrite !mem_tag_keys, tag_set_attr, Hk. reflexivity.
Qed.

Lemma existsb_ext_in {A} (f g : A -> bool) l : (forall x, In x l -> f x = g x) -> existsb f l = existsb g l.
Proof.
  induction l as [|a r IH]; intros H; cbn [existsb]; [reflexivity|].
  rewrite (H a (or_introl eq_refl)), IH; [reflexivity|]. intros x Hx. apply H; right; exact Hx.
Qed.

Lemma has_node_existsb n l : has_node_l n l = existsb (fun p => node_eqb n (fst p)) l.
Proof. induction l as [|[m a] r IH]; cbn [has_node_l existsb fst]; [reflexivity|]. rewrite IH; reflexivity. Qed.

Lemma memn_selfloop g n : memn n (selfloop_nodes g) = has_edge g n n.
Proof.
  unfold selfloop_nodes, memn, has_edge. rewrite existsb_map, existsb_filter, has_edge_existsb.
  apply existsb_ext'. intros e. unfold edge_is. destruct (node_eqb n (fst (fst e))) eqn:E; [|reflexivity]. cbn [andb].
  symmetry. apply node_eqb_cong_l. exact E.
Qed.

Lemma tag_g2_selfloop g n : is_dataset n = true -> has_node g n = true -> forallb clean (gnodes g) = true ->
  memn n (retrieve_tag (set_attr g (selfloop_nodes g) "selfloop" true) "selfloop") = T.selfloop (abs_graph g) (key n).
Proof.
  intros Hd Hn Hc. unfold T.selfloop. cbn [abs_graph T.te]. unfold T.tbl. rewrite <- (has_edge_mem_pair g n Hd), <- memn_selfloop.
  rewrite <- (mem_key n _ Hd). fold (tag_keys (set_attr g (selfloop_nodes g) "selfloop" true) "selfloop").
  rewrite mem_tag_keys, tag_set_attr, String.eqb_refl.
  rewrite (existsb_ext_in _ (fun p => node_eqb n (fst p) && memn n (selfloop_nodes g))).
  - rewrite existsb_andc, <- has_node_existsb. unfold has_node in Hn. rewrite Hn. reflexivity.
  - intros p Hin. unfold Qn. destruct (is_dataset (fst p)) eqn:Hp.
    + rewrite (key_eqb n (fst p) Hd), (String.eqb_sym (key n)). cbn [andb].
      destruct (String.eqb (key (fst p)) (key n)) eqn:Ek; [|reflexivity]. cbn [andb].
      assert (E : node_eqb (fst p) n = true) by (rewrite (key_eqb _ _ Hp); exact Ek).
      rewrite (memn_cong _ _ _ E).
      pose proof (proj1 (forallb_forall clean _) Hc p Hin) as Hcp. unfold clean in Hcp. rewrite Hp in Hcp. cbn [negb orb] in Hcp.
      rewrite (no_true_attr_true _ _ Hcp). destruct (memn n (selfloop_nodes g)); reflexivity.
    + rewrite (key_eqb n (fst p) Hd), (key_eqb_nonds n (fst p) Hd Hp). reflexivity.
Qed.

Lemma dnodes_In g n : In n (dnodes (gnodes g)) -> is_dataset n = true /\ has_node g n = true.
Proof.
  unfold dnodes. intros H. apply filter_In in H. destruct H as [Hin Hd]. split; [exact Hd|]. apply node_retrievable. exact Hin.
Qed.

Lemma roles_g2 g : inv g ->
  let g2 := set_attr g (selfloop_nodes g) "selfloop" true in
  map key (source_tables g2) = T.sources (abs_graph g) /\
  map key (target_tables g2) = T.targets (abs_graph g) /\
  map key (intermediate_tables g2) = T.intermediates (abs_graph g).
Proof.
  intros (I1 & I2 & I3) g2.
  assert (Hns : map fst (gnodes (table_graph g2)) = dnodes (gnodes g)).
  { rewrite table_graph_form. cbn [gnodes]. rewrite map_fst_filter_dsp. unfold dnodes, g2. rewrite map_fst_set_attr. reflexivity. }
  assert (Hdeg : forall n, is_dataset n = true ->
                 indeg (table_graph g2) n = T.indeg (abs_graph g) (key n) /\ outdeg (table_graph g2) n = T.outdeg (abs_graph g) (key n)).
  { intros n Hd. rewrite (indeg_tg g2 n Hd), (outdeg_tg g2 n Hd). split; reflexivity. }
  unfold source_tables, target_tables, intermediate_tables, T.sources, T.targets, T.intermediates. cbv zeta.
  fold g2. rewrite Hns. cbn [abs_graph T.tn]. unfold dkeys.
  repeat split; apply map_filter_key; intros n Hin; apply dnodes_In in Hin; destruct Hin as [Hd Hn];
    destruct (Hdeg n Hd) as [Di Do]; rewrite Di, Do;
    unfold T.is_source, T.is_target, T.is_intermediate;
    change (T.tn (abs_graph g)) with (dkeys g); rewrite (mem_dkeys g n Hd), Hn; cbn [andb];
    unfold g2; rewrite (tag_g2_selfloop g n Hd Hn I3), ?(tag_g2_other g _ "source_only" n Hd eq_refl), ?(tag_g2_other g _ "target_only" n Hd eq_refl);
    reflexivity.
Qed.

(** * The transfer theorems *)
Theorem roles_refine : forall p hs, all_wf hs ->
  match build p hs, T.build (map abs_holder hs) with
  | BOk g, T.Ok s =>
      map key (source_tables g) = T.sources s /\
      map key (target_tables g) = T.targets s /\
      map key (intermediate_tables g) = T.intermediates s
  | ErrNetworkX, T.ErrNetworkX => True
  | _, _ => False
  end.
Proof.
  intros p hs Hwf. unfold build, T.build.
  pose proof (fold_sim hs Hwf empty_graph T.empty_state inv_empty (st_equiv_refl T.empty_state)) as H.
  destruct (fold_steps empty_graph hs) as [g| |], (T.build_from T.empty_state (map abs_holder hs)) as [s|]; try exact H.
  destruct H as [He Hi]. pose proof Hi as (I1 & I2 & I3).
  set (g2 := set_attr g (selfloop_nodes g) "selfloop" true).
  assert (Hc2 : closed_tgt g2 = true) by (unfold g2; rewrite closed_set_attr; exact I2).
  destruct (roles_table_graph g2 (resolve_all p g2) (resolve_all_table_graph p g2 Hc2)) as (R1 & R2 & R3).
  destruct (roles_g2 g Hi) as (A1 & A2 & A3). fold g2 in A1, A2, A3.
  destruct (roles_equiv _ _ He) as (E1 & E2 & E3).
  rewrite R1, R2, R3, A1, A2, A3. auto.
Qed.

(** the same with the lists sorted, as the harness prints them *)
Corollary roles_refine_sorted : forall p hs, all_wf hs ->
  match build p hs, T.build (map abs_holder hs) with
  | BOk g, T.Ok s =>
      T.sort_strings (map key (source_tables g)) = T.sort_strings (T.sources s) /\
      T.sort_strings (map key (target_tables g)) = T.sort_strings (T.targets s) /\
      T.sort_strings (map key (intermediate_tables g)) = T.sort_strings (T.intermediates s)
  | ErrNetworkX, T.ErrNetworkX => True
  | _, _ => False
  end.
Proof.
  intros p hs Hwf. pose proof (roles_refine p hs Hwf) as H.
  destruct (build p hs), (T.build (map abs_holder hs)); try exact H.
  destruct H as (H1 & H2 & H3). rewrite H1, H2, H3. auto.
Qed.

(** [refine_check] never says "DIFFER" on well-formed input *)
Lemma list_eqb_refl l : list_eqb l l = true.
Proof. induction l as [|x r IH]; cbn [list_eqb]; [reflexivity|]. rewrite String.eqb_refl, IH. reflexivity. Qed.

Corollary refine_check_agree : forall p hs, all_wf hs -> refine_check p hs = "agree".
Proof.
  intros p hs Hwf. pose proof (roles_refine_sorted p hs Hwf) as H. unfold refine_check.
  destruct (build p hs), (T.build (map abs_holder hs)); try contradiction; try reflexivity.
  destruct H as (H1 & H2 & H3). rewrite H1, H2, H3, !list_eqb_refl. reflexivity.
Qed.

(** * Printed names
    [show_node] prints a dataset by its kind and [dstr]; the key is kind and [deq].  They
    coincide on the nodes of the result when every dataset object of the script (nodes of
    the statement graphs, RENAME pairs) has [dstr = deq] (true for Table and Path objects;
    [cx_names_differs] in RefineDefs.v shows the condition is needed). *)
Definition name_ok (n : node) : bool :=
  match n with NData d => String.eqb (dstr d) (deq d) | _ => true end.
Definition names_ok_holder (h : holder) : bool :=
  forallb name_ok (map fst (gnodes (hg h))) &&
  forallb (fun p => name_ok (fst p) && name_ok (snd p)) (h_renames h).
Definition allok (l : list node) : Prop := forall n, In n l -> name_ok n = true.

Lemma show_node_key n : is_dataset n = true -> name_ok n = true -> show_node n = key n.
Proof.
  destruct n as [d| |]; cbn [is_dataset name_ok show_node key]; try discriminate.
  intros _ H. apply String.eqb_eq in H. unfold show_dataset, dkey. rewrite H. destruct (dk d); reflexivity.
Qed.

Lemma In_nadd x n l : In x (nadd n l) -> x = n \/ In x l.
Proof. unfold nadd. destruct (memn n l); [auto|]. intros H. apply in_app_iff in H. destruct H as [H|[H|[]]]; auto. Qed.
Lemma In_nadd_all x xs : forall l, In x (nadd_all xs l) -> In x xs \/ In x l.
Proof.
  induction xs as [|y r IH]; intros l H; cbn [nadd_all] in H; [auto|].
  apply IH in H. destruct H as [H|H]; [left; right; exact H|]. apply In_nadd in H. destruct H as [H|H]; [left; left; auto|auto].
Qed.

Lemma allok_compose g h : allok (map fst (gnodes g)) -> allok (map fst (gnodes (hg h))) -> allok (map fst (gnodes (compose g (hg h)))).
Proof.
  intros Hg Hh n Hin. rewrite gnodes_compose, map_fst_fold_upsert in Hin. apply In_nadd_all in Hin. destruct Hin; auto.
Qed.
Lemma allok_remove_node g t : allok (map fst (gnodes g)) -> allok (map fst (gnodes (remove_node g t))).
Proof.
  intros Hg n Hin. rewrite gnodes_remove_node in Hin. apply in_map_iff in Hin. destruct Hin as (p & Hp & Hin).
  apply filter_In in Hin. apply Hg. subst n. apply in_map. exact (proj1 Hin).
Qed.
Lemma allok_relabel g old new : name_ok new = true -> allok (map fst (gnodes g)) -> allok (map fst (gnodes (relabel g old new))).
Proof.
  intros Hn Hg. destruct (has_node g old) eqn:E; [|rewrite (relabel_absent_g g old new E); exact Hg].
  rewrite (relabel_present g old new E). cbn [gnodes]. intros n Hin. rewrite map_fst_merge in Hin.
  apply In_nadd_all in Hin. destruct Hin as [Hin|[]]. rewrite map_map in Hin. cbn [fst] in Hin.
  apply in_map_iff in Hin. destruct Hin as (p & Hp & Hin). subst n. unfold rename_node.
  destruct (node_eqb (fst p) old); [exact Hn|]. apply Hg. apply in_map. exact Hin.
Qed.
Lemma allok_do_drops ds : forall g, allok (map fst (gnodes g)) -> allok (map fst (gnodes (do_drops ds g))).
Proof.
  induction ds as [|t r IH]; intros g H; cbn [do_drops]; [exact H|]. apply IH.
  destruct (has_node g t && Nat.eqb (degree g t) 0); [apply allok_remove_node|]; exact H.
Qed.
Lemma allok_do_renames rs : (forall p, In p rs -> name_ok (snd p) = true) ->
  forall g g', allok (map fst (gnodes g)) -> do_renames rs g = BOk g' -> allok (map fst (gnodes g')).
Proof.
  induction rs as [|[old new] r IH]; intros Hrs g g' H; cbn [do_renames].
  - intros E; inversion E; subst; exact H.
  - destruct (remove_edge (relabel g old new) new new) as [g2|] eqn:E; [|discriminate].
    apply IH; [intros p Hp; apply Hrs; right; exact Hp|].
    assert (H2 : allok (map fst (gnodes g2))).
    { rewrite (remove_edge_nodes _ _ _ _ E). apply allok_relabel; [apply (Hrs (old, new)); left; reflexivity|exact H]. }
    destruct (Nat.eqb (degree g2 new) 0); [apply allok_remove_node|]; exact H2.
Qed.

Lemma step_names g h g' : names_ok_holder h = true -> allok (map fst (gnodes g)) -> step g h = BOk g' -> allok (map fst (gnodes g')).
Proof.
  intros Hh Hg. unfold names_ok_holder in Hh. apply Bool.andb_true_iff in Hh. destruct Hh as [H1 H2].
  rewrite forallb_forall in H1, H2.
  assert (Hc : allok (map fst (gnodes (compose g (hg h))))) by (apply allok_compose; [exact Hg|exact H1]).
  assert (Hsub : forall n, has_node (hg h) n = true -> has_node (compose g (hg h)) n = true).
  { intros n Hn. rewrite has_node_compose, Hn. reflexivity. }
  rewrite step_step_on. set (gc := compose g (hg h)) in *. unfold step_on.
  pose proof (fun r => h_tag_ds h gc "read" r Hsub) as Hr. pose proof (fun r => h_tag_ds h gc "write" r Hsub) as Hw.
  fold (h_read h) in Hr. fold (h_write h) in Hw.
  destruct (h_drop h) as [|d0 dr].
  - destruct (h_renames h) as [|p0 pr] eqn:Er.
    + assert (Hprod : forall rs ws, (forall r, In r rs -> is_dataset r = true /\ has_node gc r = true) ->
                                    (forall r, In r ws -> is_dataset r = true /\ has_node gc r = true) ->
                                    allok (map fst (gnodes (add_product rs ws gc)))).
      { intros rs ws Hr' Hw'.
        destruct (add_product_spec rs ws gc (fun r Hin => proj2 (Hr' r Hin)) (fun w Hin => proj2 (Hw' w Hin))) as [A1 _].
        rewrite A1. exact Hc. }
      destruct (h_read h) as [|r0 rr], (h_write h) as [|w0 wr]; intros E; inversion E; subst g'.
      * exact (Hprod [] [] Hr Hw).
      * rewrite map_fst_set_attr. exact Hc.
      * rewrite map_fst_set_attr. exact Hc.
      * exact (Hprod (r0 :: rr) (w0 :: wr) Hr Hw).
    + intros E. apply (allok_do_renames (p0 :: pr)) with (g := gc); [|exact Hc|exact E].
      intros p Hp. specialize (H2 p Hp). apply Bool.andb_true_iff in H2. exact (proj2 H2).
  - intros E. assert (E' : g' = do_drops (d0 :: dr) gc) by congruence. rewrite E'. apply (allok_do_drops (d0 :: dr)). exact Hc.
Qed.

Lemma fold_names hs : Forall (fun h => names_ok_holder h = true) hs ->
  forall g g', allok (map fst (gnodes g)) -> fold_steps g hs = BOk g' -> allok (map fst (gnodes g')).
Proof.
  induction 1 as [|h r Hh Hr IH]; intros g g' Hg; cbn [fold_steps].
  - intros E; inversion E; subst; exact Hg.
  - destruct (step g h) as [g1| |] eqn:E; try discriminate. apply IH. apply (step_names g h g1 Hh Hg E).
Qed.

Lemma insert_sorted_same x l : insert_sorted x l = T.insert_sorted x l.
Proof. induction l as [|y r IH]; cbn [insert_sorted T.insert_sorted]; [reflexivity|]. rewrite IH. reflexivity. Qed.
Lemma sort_strings_same l : sort_strings l = T.sort_strings l.
Proof.
  unfold sort_strings, T.sort_strings. induction l as [|y r IH]; cbn [fold_right]; [reflexivity|].
  rewrite IH. apply insert_sorted_same.
Qed.

Theorem roles_refine_show : forall p hs,
  all_wf hs -> Forall (fun h => names_ok_holder h = true) hs ->
  match build p hs, T.build (map abs_holder hs) with
  | BOk g, T.Ok s =>
      sort_strings (map show_node (source_tables g)) = T.sort_strings (T.sources s) /\
      sort_strings (map show_node (target_tables g)) = T.sort_strings (T.targets s) /\
      sort_strings (map show_node (intermediate_tables g)) = T.sort_strings (T.intermediates s)
  | ErrNetworkX, T.ErrNetworkX => True
  | _, _ => False
  end.
Proof.
  intros p hs Hwf Hnames. pose proof (roles_refine p hs Hwf) as H. unfold build in *.
  pose proof (fold_sim hs Hwf empty_graph T.empty_state inv_empty (st_equiv_refl T.empty_state)) as Hf.
  pose proof (fold_names hs Hnames empty_graph) as Hn.
  destruct (fold_steps empty_graph hs) as [g| |]; try exact H.
  destruct (T.build (map abs_holder hs)) as [s|] eqn:Eb; [|exact H].
  unfold T.build in Eb. rewrite Eb in Hf. destruct Hf as [_ (I1 & I2 & I3)].
  specialize (Hn g (fun n (Hin : In n (map fst (gnodes empty_graph))) => match Hin with end) eq_refl).
  set (g2 := set_attr g (selfloop_nodes g) "selfloop" true) in *.
  assert (Hc2 : closed_tgt g2 = true) by (unfold g2; rewrite closed_set_attr; exact I2).
  pose proof (resolve_all_table_graph p g2 Hc2) as Htg.
  assert (Hall : forall n, In n (map fst (gnodes (table_graph (resolve_all p g2)))) -> show_node n = key n).
  { intros n Hin. rewrite Htg, table_graph_form in Hin. cbn [gnodes] in Hin. rewrite map_fst_filter_dsp in Hin.
    unfold dnodes, g2 in Hin. rewrite map_fst_set_attr in Hin. apply filter_In in Hin. destruct Hin as [Hin Hd].
    apply show_node_key; [exact Hd|apply Hn; exact Hin]. }
  assert (Hmap : forall f, map show_node (filter f (map fst (gnodes (table_graph (resolve_all p g2))))) =
                           map key (filter f (map fst (gnodes (table_graph (resolve_all p g2)))))).
  { intros f. apply map_ext_in. intros n Hin. apply filter_In in Hin. apply Hall. exact (proj1 Hin). }
  destruct H as (H1 & H2 & H3). rewrite !sort_strings_same.
  unfold source_tables, target_tables, intermediate_tables in *. cbv zeta in *.
  rewrite !Hmap, H1, H2, H3. auto.
Qed.

(** * Transfer: the property-level theorems of Holder/TableProofs.v hold of the full model.
    An instance: for a script without DROP / RENAME whose statement holders are well-formed,
    the source tables computed by [Build.build] are exactly the keys the specification
    [TableProofs.spec_source] designates (theorem [roles_source] of TableProofs.v). *)
Theorem transfer_roles_source : forall p hs g t,
  all_wf hs ->
  Forall TP.plain (map abs_holder hs) -> Forall TP.wf (map abs_holder hs) ->
  build p hs = BOk g ->
  (In t (map key (source_tables g)) <-> TP.spec_source (map abs_holder hs) t).
Proof.
  intros p hs g t Hwf Hp Hw Hb. pose proof (roles_refine p hs Hwf) as H. rewrite Hb in H.
  destruct (T.build (map abs_holder hs)) as [s|] eqn:Es; [|contradiction].
  destruct H as (H1 & _ & _). rewrite H1. rewrite <- (TP.roles_source _ s t Hp Hw Es).
  unfold T.sources. rewrite filter_In. split; [tauto|]. intros Hs. split; [|exact Hs].
  unfold T.is_source in Hs. apply Bool.andb_true_iff in Hs. apply TP.mem_In. exact (proj1 Hs).
Qed.

(** [refines] in terms of [abs_result] *)
Lemma refines_abs_result r a :
  refines r a <-> match abs_result r with Some a' => res_equiv a' a | None => False end.
Proof. destruct r, a; cbn [refines abs_result res_equiv]; tauto. Qed.

(** ** Non-vacuity: the hypotheses hold of the test scripts of RefineDefs.v (reads/writes,
    DROP, RENAME to an existing table, columns and an unresolved column), and the conclusion
    is the expected classification. *)
Example roles_refine_nonvacuous :
  let hs := [with_cols; rw [c] [d]; rw [a] [b]; ren [(b, c)]; rw_bare [] [pa "s3://x"]; drop [pa "s3://x"; d]] in
  all_wf hs /\ Forall (fun h => names_ok_holder h = true) hs /\
  match build p1 hs with
  | BOk g => map show_node (source_tables g) = ["T:a"] /\ map show_node (target_tables g) = ["T:d"] /\
             map show_node (intermediate_tables g) = ["T:c"]
  | _ => False
  end.
Proof.
  cbv zeta. split; [repeat constructor|]. split; [repeat constructor|]. vm_compute. repeat split.
Qed.

Print Assumptions step_sim.
Print Assumptions step_refines.
Print Assumptions fold_refines.
Print Assumptions resolve_all_table_graph.
Print Assumptions roles_refine.
Print Assumptions roles_refine_sorted.
Print Assumptions refine_check_agree.
Print Assumptions roles_refine_show.
Print Assumptions transfer_roles_source.
