(** Statements about Holder/TableLevel.v (proved here; restated in Props/C03.v). *)
From SV Require Import Holder.TableLevel.

(** Statements without DROP / RENAME ("plain"), well-formed: everything a
    statement reads or writes is a node of its holder graph. *)
Definition plain (h : astmt) : Prop := drops h = [] /\ renames h = [].
Definition wf (h : astmt) : Prop :=
  (forall t, In t (reads h) -> In t (hnodes h)) /\ (forall t, In t (writes h) -> In t (hnodes h)).

(** The specification, read off the property: defined from the *set* of statements. *)
Definition spec_node (hs : list astmt) (t : tbl) : Prop := exists h, In h hs /\ In t (hnodes h).
Definition spec_edge (hs : list astmt) (r w : tbl) : Prop :=
  exists h, In h hs /\ In r (reads h) /\ In w (writes h).
Definition spec_source_only (hs : list astmt) (t : tbl) : Prop :=
  exists h, In h hs /\ In t (reads h) /\ writes h = [].
Definition spec_target_only (hs : list astmt) (t : tbl) : Prop :=
  exists h, In h hs /\ In t (writes h) /\ reads h = [].

Definition spec_source (hs : list astmt) (t : tbl) : Prop :=
  spec_node hs t /\
  (((exists w, spec_edge hs t w) /\ ~ (exists r, spec_edge hs r t)) \/ spec_edge hs t t \/ spec_source_only hs t).
Definition spec_target (hs : list astmt) (t : tbl) : Prop :=
  spec_node hs t /\
  (((exists r, spec_edge hs r t) /\ ~ (exists w, spec_edge hs t w)) \/ spec_edge hs t t \/ spec_target_only hs t).
Definition spec_intermediate (hs : list astmt) (t : tbl) : Prop :=
  spec_node hs t /\ (exists r, spec_edge hs r t) /\ (exists w, spec_edge hs t w) /\ ~ spec_edge hs t t.


(** * Auxiliary lemmas *)
Lemma bool_eq_iff (a b : bool) : (a = true <-> b = true) -> a = b.
Proof. destruct a, b; intros [H1 H2]; auto; try (symmetry; auto). Qed.

Lemma mem_In x l : mem x l = true <-> In x l.
Proof.
  unfold mem. induction l as [|y l IH]; simpl.
  - split; [discriminate | tauto].
  - rewrite Bool.orb_true_iff, String.eqb_eq, IH. split; intros [H|H]; auto.
Qed.

Lemma mem_false x l : mem x l = false <-> ~ In x l.
Proof.
  rewrite <- mem_In. destruct (mem x l); split; intros H; try reflexivity; try discriminate.
  exfalso; apply H; reflexivity.
Qed.

Lemma pair_eqb_eq p q : pair_eqb p q = true <-> p = q.
Proof.
  destruct p as [a b], q as [c d]. unfold pair_eqb; simpl.
  rewrite Bool.andb_true_iff, !String.eqb_eq. split.
  - intros [H1 H2]; subst; reflexivity.
  - intros H; inversion H; auto.
Qed.

Lemma mem_pair_In p l : mem_pair p l = true <-> In p l.
Proof.
  induction l as [|q l IH]; simpl.
  - split; [discriminate | tauto].
  - rewrite Bool.orb_true_iff, pair_eqb_eq, IH. split; intros [H|H]; auto.
Qed.

Lemma mem_pair_false p l : mem_pair p l = false <-> ~ In p l.
Proof.
  rewrite <- mem_pair_In. destruct (mem_pair p l); split; intros H; try reflexivity; try discriminate.
  exfalso; apply H; reflexivity.
Qed.

Lemma In_add x y l : In x (add y l) <-> x = y \/ In x l.
Proof.
  unfold add. destruct (mem y l) eqn:E.
  - apply mem_In in E. split; [auto|]. intros [H|H]; subst; auto.
  - rewrite in_app_iff; simpl. split.
    + intros [H|[H|[]]]; auto.
    + intros [H|H]; auto.
Qed.

Lemma In_add_all x ys : forall l, In x (add_all ys l) <-> In x ys \/ In x l.
Proof.
  induction ys as [|y ys IH]; intros l; simpl.
  - tauto.
  - rewrite IH, In_add. split.
    + intros [H|[H|H]]; auto.
    + intros [[H|H]|H]; auto.
Qed.

Lemma In_add_pair p q l : In p (add_pair q l) <-> p = q \/ In p l.
Proof.
  unfold add_pair. destruct (mem_pair q l) eqn:E.
  - apply mem_pair_In in E. split; [auto|]. intros [H|H]; subst; auto.
  - rewrite in_app_iff; simpl. split.
    + intros [H|[H|[]]]; auto.
    + intros [H|H]; auto.
Qed.

Lemma In_add_pairs p ps : forall l, In p (add_pairs ps l) <-> In p ps \/ In p l.
Proof.
  induction ps as [|q ps IH]; intros l; simpl.
  - tauto.
  - rewrite IH, In_add_pair. split.
    + intros [H|[H|H]]; auto.
    + intros [[H|H]|H]; auto.
Qed.

Lemma In_product r w rs ws : In (r, w) (product rs ws) <-> In r rs /\ In w ws.
Proof.
  induction rs as [|r0 rs IH]; simpl.
  - tauto.
  - rewrite in_app_iff, IH, in_map_iff. split.
    + intros [(w' & Heq & Hin)|[H1 H2]].
      * inversion Heq; subst; auto.
      * auto.
    + intros [[H|H] Hw].
      * subst. left. exists w; auto.
      * right; auto.
Qed.

Lemma In_tag_all x xs present l :
  In x (tag_all xs present l) <-> (In x xs /\ In x present) \/ In x l.
Proof.
  unfold tag_all. rewrite In_add_all, filter_In, mem_In. tauto.
Qed.

(** one plain step *)
Lemma step_plain s h : plain h ->
  exists s', step s h = Ok s' /\
    (forall t, In t (tn s') <-> In t (hnodes h) \/ In t (tn s)) /\
    (forall r w, In (r, w) (te s') <-> (In r (reads h) /\ In w (writes h)) \/ In (r, w) (te s)) /\
    (forall t, In t (tso s') <->
       (In t (reads h) /\ writes h = [] /\ (In t (hnodes h) \/ In t (tn s))) \/ In t (tso s)) /\
    (forall t, In t (tto s') <->
       (In t (writes h) /\ reads h = [] /\ (In t (hnodes h) \/ In t (tn s))) \/ In t (tto s)).
Proof.
  destruct h as [hn rd wr dr rnm wi]. intros [Hd Hr]. simpl in Hd, Hr. subst dr rnm.
  unfold step, compose;
    cbn [tn te tw tso tto hnodes reads writes drops renames wired].
  destruct rd as [|r0 rd]; destruct wr as [|w0 wr]; eexists; (split; [reflexivity|]);
    cbn [tn te tw tso tto hnodes reads writes drops renames wired];
    repeat split; intros;
    rewrite ?In_tag_all, ?In_add_pairs, ?In_product, ?In_add_all in *; cbn [In] in *;
    try tauto; try (intuition discriminate).
Qed.

Lemma spec_node_cons h hs t : spec_node (h :: hs) t <-> In t (hnodes h) \/ spec_node hs t.
Proof.
  unfold spec_node; split.
  - intros (h' & [Heq|Hin] & H); subst; eauto.
  - intros [H|(h' & Hin & H)]; [exists h | exists h']; simpl; auto.
Qed.
Lemma spec_edge_cons h hs r w :
  spec_edge (h :: hs) r w <-> (In r (reads h) /\ In w (writes h)) \/ spec_edge hs r w.
Proof.
  unfold spec_edge; split.
  - intros (h' & [Heq|Hin] & H); subst; eauto.
  - intros [H|(h' & Hin & H)]; [exists h | exists h']; simpl; auto.
Qed.
Lemma spec_so_cons h hs t :
  spec_source_only (h :: hs) t <-> (In t (reads h) /\ writes h = []) \/ spec_source_only hs t.
Proof.
  unfold spec_source_only; split.
  - intros (h' & [Heq|Hin] & H); subst; eauto.
  - intros [H|(h' & Hin & H)]; [exists h | exists h']; simpl; auto.
Qed.
Lemma spec_to_cons h hs t :
  spec_target_only (h :: hs) t <-> (In t (writes h) /\ reads h = []) \/ spec_target_only hs t.
Proof.
  unfold spec_target_only; split.
  - intros (h' & [Heq|Hin] & H); subst; eauto.
  - intros [H|(h' & Hin & H)]; [exists h | exists h']; simpl; auto.
Qed.

Lemma build_from_plain hs : Forall plain hs -> forall s,
  exists s', build_from s hs = Ok s' /\
    (forall t, In t (tn s') <-> spec_node hs t \/ In t (tn s)) /\
    (forall r w, In (r, w) (te s') <-> spec_edge hs r w \/ In (r, w) (te s)) /\
    (Forall wf hs ->
       (forall t, In t (tso s') <-> spec_source_only hs t \/ In t (tso s)) /\
       (forall t, In t (tto s') <-> spec_target_only hs t \/ In t (tto s))).
Proof.
  induction 1 as [|h hs Hp Hps IH]; intros s.
  - exists s. split; [reflexivity|].
    split; [intros t; split; auto; intros [(h & [] & _)|H]; auto|].
    split; [intros r w; split; auto; intros [(h & [] & _)|H]; auto|].
    intros _. split; intros t; split; auto; intros [(h & [] & _)|H]; auto.
  - destruct (step_plain s h Hp) as (s1 & Hstep & Hn1 & He1 & Hso1 & Hto1).
    destruct (IH s1) as (s' & Hb & Hn & He & Hw).
    exists s'. simpl. rewrite Hstep. split; [exact Hb|].
    split; [intros t; rewrite Hn, Hn1, spec_node_cons; tauto|].
    split; [intros r w; rewrite He, He1, spec_edge_cons; tauto|].
    intros Hwf. inversion Hwf as [|h' hs' Hwfh Hwfs]; subst.
    destruct (Hw Hwfs) as [Hso Hto]. destruct Hwfh as [Hrd Hwr].
    split; intros t.
    + rewrite Hso, Hso1, spec_so_cons. split.
      * intros [H|[H|H]]; tauto.
      * intros [[[H1 H2]|H]|H]; auto. right; left. split; auto.
    + rewrite Hto, Hto1, spec_to_cons. split.
      * intros [H|[H|H]]; tauto.
      * intros [[[H1 H2]|H]|H]; auto. right; left. split; auto.
Qed.

Lemma build_plain_all hs s : Forall plain hs -> build hs = Ok s ->
    (forall t, mem t (tn s) = true <-> spec_node hs t) /\
    (forall r w, mem_pair (r, w) (te s) = true <-> spec_edge hs r w) /\
    (Forall wf hs ->
       (forall t, mem t (tso s) = true <-> spec_source_only hs t) /\
       (forall t, mem t (tto s) = true <-> spec_target_only hs t)).
Proof.
  intros Hp Hb. destruct (build_from_plain hs Hp empty_state) as (s' & Hb' & Hn & He & Hw).
  unfold build in Hb. rewrite Hb in Hb'. inversion Hb'; subst s'.
  split; [intros t; rewrite mem_In, Hn; simpl; tauto|].
  split; [intros r w; rewrite mem_pair_In, He; simpl; tauto|].
  intros Hwf. destruct (Hw Hwf) as [Hso Hto].
  split; intros t; rewrite mem_In; [rewrite Hso|rewrite Hto]; simpl; tauto.
Qed.

(** ** Plain scripts never fail and their graph is the specification's *)
Theorem build_plain_ok hs :
  Forall plain hs -> exists s, build hs = Ok s.
Proof.
  intros Hp. destruct (build_from_plain hs Hp empty_state) as (s & Hb & _). exists s; exact Hb.
Qed.

Theorem build_plain_nodes hs s t :
  Forall plain hs -> build hs = Ok s -> (mem t (tn s) = true <-> spec_node hs t).
Proof.
  intros Hp Hb. apply (build_plain_all hs s Hp Hb).
Qed.

Theorem build_plain_edges hs s r w :
  Forall plain hs -> build hs = Ok s -> (mem_pair (r, w) (te s) = true <-> spec_edge hs r w).
Proof.
  intros Hp Hb. apply (build_plain_all hs s Hp Hb).
Qed.

Theorem build_plain_source_only hs s t :
  Forall plain hs -> Forall wf hs -> build hs = Ok s -> (mem t (tso s) = true <-> spec_source_only hs t).
Proof.
  intros Hp Hwf Hb. destruct (build_plain_all hs s Hp Hb) as (_ & _ & H). apply (H Hwf).
Qed.

Theorem build_plain_target_only hs s t :
  Forall plain hs -> Forall wf hs -> build hs = Ok s -> (mem t (tto s) = true <-> spec_target_only hs t).
Proof.
  intros Hp Hwf Hb. destruct (build_plain_all hs s Hp Hb) as (_ & _ & H). apply (H Hwf).
Qed.


(** * Degrees *)
Lemma filter_len0 {A} (f : A -> bool) l :
  List.length (filter f l) = 0 <-> forall e, In e l -> f e = false.
Proof.
  induction l as [|a l IH]; simpl.
  - split; [intros _ e []|reflexivity].
  - destruct (f a) eqn:E; simpl.
    + split; [discriminate|]. intros H. rewrite (H a (or_introl eq_refl)) in E. discriminate.
    + rewrite IH. split.
      * intros H e [He|He]; subst; auto.
      * intros H e He; auto.
Qed.

Lemma filter_len_pos {A} (f : A -> bool) l :
  List.length (filter f l) <> 0 <-> exists e, In e l /\ f e = true.
Proof.
  induction l as [|a l IH]; simpl.
  - split; [intros H; exfalso; apply H; reflexivity|intros (e & [] & _)].
  - destruct (f a) eqn:E; simpl.
    + split; [|discriminate]. intros _. exists a; auto.
    + rewrite IH. split.
      * intros (e & He & Hf). exists e; auto.
      * intros (e & [He|He] & Hf); [subst; rewrite E in Hf; discriminate|]. exists e; auto.
Qed.

Lemma indeg_zero s t : Nat.eqb (indeg s t) 0 = true <-> forall r, ~ In (r, t) (te s).
Proof.
  unfold indeg. rewrite Nat.eqb_eq, filter_len0. split.
  - intros H r Hin. specialize (H _ Hin). simpl in H. rewrite String.eqb_refl in H. discriminate.
  - intros H [a b] Hin. simpl. destruct (String.eqb b t) eqn:E; [|reflexivity].
    apply String.eqb_eq in E; subst b. exfalso; exact (H a Hin).
Qed.

Lemma outdeg_zero s t : Nat.eqb (outdeg s t) 0 = true <-> forall w, ~ In (t, w) (te s).
Proof.
  unfold outdeg. rewrite Nat.eqb_eq, filter_len0. split.
  - intros H w Hin. specialize (H _ Hin). simpl in H. rewrite String.eqb_refl in H. discriminate.
  - intros H [a b] Hin. simpl. destruct (String.eqb a t) eqn:E; [|reflexivity].
    apply String.eqb_eq in E; subst a. exfalso; exact (H b Hin).
Qed.

Lemma indeg_pos s t : negb (Nat.eqb (indeg s t) 0) = true <-> exists r, In (r, t) (te s).
Proof.
  unfold indeg. rewrite Bool.negb_true_iff, Nat.eqb_neq, filter_len_pos. split.
  - intros ([a b] & Hin & Hf). simpl in Hf. apply String.eqb_eq in Hf; subst b. exists a; exact Hin.
  - intros (r & Hin). exists (r, t). split; [exact Hin|]. simpl. apply String.eqb_refl.
Qed.

Lemma outdeg_pos s t : negb (Nat.eqb (outdeg s t) 0) = true <-> exists w, In (t, w) (te s).
Proof.
  unfold outdeg. rewrite Bool.negb_true_iff, Nat.eqb_neq, filter_len_pos. split.
  - intros ([a b] & Hin & Hf). simpl in Hf. apply String.eqb_eq in Hf; subst a. exists b; exact Hin.
  - intros (w & Hin). exists (t, w). split; [exact Hin|]. simpl. apply String.eqb_refl.
Qed.

Section RolesGen.
  Variable s : tstate.
  Variable N : tbl -> Prop.
  Variable E : tbl -> tbl -> Prop.
  Hypothesis Hn : forall t, mem t (tn s) = true <-> N t.
  Hypothesis He : forall r w, mem_pair (r, w) (te s) = true <-> E r w.

  Lemma in0_gen t : (forall r, ~ In (r, t) (te s)) <-> ~ (exists r, E r t).
  Proof.
    split.
    - intros H (r & Hr). apply He, mem_pair_In in Hr. exact (H r Hr).
    - intros H r Hr. apply H. exists r. apply He, mem_pair_In, Hr.
  Qed.
  Lemma out0_gen t : (forall w, ~ In (t, w) (te s)) <-> ~ (exists w, E t w).
  Proof.
    split.
    - intros H (w & Hw). apply He, mem_pair_In in Hw. exact (H w Hw).
    - intros H w Hw. apply H. exists w. apply He, mem_pair_In, Hw.
  Qed.
  Lemma inpos_gen t : (exists r, In (r, t) (te s)) <-> (exists r, E r t).
  Proof.
    split; intros (r & Hr); exists r; [apply He, mem_pair_In, Hr | apply mem_pair_In, He, Hr].
  Qed.
  Lemma outpos_gen t : (exists w, In (t, w) (te s)) <-> (exists w, E t w).
  Proof.
    split; intros (w & Hw); exists w; [apply He, mem_pair_In, Hw | apply mem_pair_In, He, Hw].
  Qed.

  Lemma is_source_gen (SO : tbl -> Prop) t : (forall t, mem t (tso s) = true <-> SO t) ->
    (is_source s t = true <->
     N t /\ (((exists w, E t w) /\ ~ (exists r, E r t)) \/ E t t \/ SO t)).
  Proof.
    intros Hso. unfold is_source, selfloop.
    rewrite Bool.andb_true_iff, !Bool.orb_true_iff, Bool.andb_true_iff,
      indeg_zero, outdeg_pos, Hn, He, Hso, in0_gen, outpos_gen. tauto.
  Qed.

  Lemma is_target_gen (TO : tbl -> Prop) t : (forall t, mem t (tto s) = true <-> TO t) ->
    (is_target s t = true <->
     N t /\ (((exists r, E r t) /\ ~ (exists w, E t w)) \/ E t t \/ TO t)).
  Proof.
    intros Hto. unfold is_target, selfloop.
    rewrite Bool.andb_true_iff, !Bool.orb_true_iff, Bool.andb_true_iff,
      outdeg_zero, indeg_pos, Hn, He, Hto, out0_gen, inpos_gen. tauto.
  Qed.

  Lemma is_intermediate_gen t :
    (is_intermediate s t = true <->
     N t /\ (exists r, E r t) /\ (exists w, E t w) /\ ~ E t t).
  Proof.
    unfold is_intermediate, selfloop.
    rewrite !Bool.andb_true_iff, indeg_pos, outdeg_pos, Hn, inpos_gen, outpos_gen,
      Bool.negb_true_iff, <- Bool.not_true_iff_false, He. tauto.
  Qed.
End RolesGen.

(** ** Roles are exactly the classification the property states *)
Theorem roles_source hs s t :
  Forall plain hs -> Forall wf hs -> build hs = Ok s -> (is_source s t = true <-> spec_source hs t).
Proof.
  intros Hp Hwf Hb. destruct (build_plain_all hs s Hp Hb) as (Hn & He & H).
  destruct (H Hwf) as [Hso Hto]. unfold spec_source.
  apply (is_source_gen s _ _ Hn He _ t Hso).
Qed.

Theorem roles_target hs s t :
  Forall plain hs -> Forall wf hs -> build hs = Ok s -> (is_target s t = true <-> spec_target hs t).
Proof.
  intros Hp Hwf Hb. destruct (build_plain_all hs s Hp Hb) as (Hn & He & H).
  destruct (H Hwf) as [Hso Hto]. unfold spec_target.
  apply (is_target_gen s _ _ Hn He _ t Hto).
Qed.

Theorem roles_intermediate hs s t :
  Forall plain hs -> Forall wf hs -> build hs = Ok s -> (is_intermediate s t = true <-> spec_intermediate hs t).
Proof.
  intros Hp Hwf Hb. destruct (build_plain_all hs s Hp Hb) as (Hn & He & H).
  unfold spec_intermediate.
  apply (is_intermediate_gen s _ _ Hn He t).
Qed.


Lemma spec_mono hs hs' : (forall h, In h hs -> In h hs') ->
  (forall t, spec_node hs t -> spec_node hs' t) /\
  (forall r w, spec_edge hs r w -> spec_edge hs' r w) /\
  (forall t, spec_source_only hs t -> spec_source_only hs' t) /\
  (forall t, spec_target_only hs t -> spec_target_only hs' t).
Proof.
  intros H. unfold spec_node, spec_edge, spec_source_only, spec_target_only.
  split; [|split; [|split]].
  - intros t (h & Hin & Hr). exists h. split; [apply H; exact Hin|exact Hr].
  - intros r w (h & Hin & Hr). exists h. split; [apply H; exact Hin|exact Hr].
  - intros t (h & Hin & Hr). exists h. split; [apply H; exact Hin|exact Hr].
  - intros t (h & Hin & Hr). exists h. split; [apply H; exact Hin|exact Hr].
Qed.

Lemma spec_ext hs hs' : (forall h, In h hs <-> In h hs') ->
  (forall t, spec_node hs t <-> spec_node hs' t) /\
  (forall r w, spec_edge hs r w <-> spec_edge hs' r w) /\
  (forall t, spec_source_only hs t <-> spec_source_only hs' t) /\
  (forall t, spec_target_only hs t <-> spec_target_only hs' t).
Proof.
  intros H.
  destruct (spec_mono hs hs' (fun h => proj1 (H h))) as (A1 & A2 & A3 & A4).
  destruct (spec_mono hs' hs (fun h => proj2 (H h))) as (B1 & B2 & B3 & B4).
  repeat split; auto.
Qed.

(** ** Order and repetition do not matter (the specification only sees the set of statements) *)
Theorem order_dup_invariant hs hs' s s' t :
  Forall plain hs -> Forall wf hs -> Forall plain hs' -> Forall wf hs' ->
  (forall h, In h hs <-> In h hs') ->
  build hs = Ok s -> build hs' = Ok s' ->
  is_source s t = is_source s' t /\ is_target s t = is_target s' t /\
  is_intermediate s t = is_intermediate s' t /\
  (forall r w, mem_pair (r, w) (te s) = mem_pair (r, w) (te s')).
Proof.
  intros Hp Hwf Hp' Hwf' Heq Hb Hb'.
  destruct (build_plain_all hs s Hp Hb) as (Hn & He & H). destruct (H Hwf) as [Hso Hto].
  destruct (build_plain_all hs' s' Hp' Hb') as (Hn' & He' & H'). destruct (H' Hwf') as [Hso' Hto'].
  destruct (spec_ext hs hs' Heq) as (Xn & Xe & Xso & Xto).
  assert (Hn2 : forall t, mem t (tn s') = true <-> spec_node hs t)
    by (intros t0; rewrite Hn', Xn; tauto).
  assert (He2 : forall r w, mem_pair (r, w) (te s') = true <-> spec_edge hs r w)
    by (intros r0 w0; rewrite He', Xe; tauto).
  assert (Hso2 : forall t, mem t (tso s') = true <-> spec_source_only hs t)
    by (intros t0; rewrite Hso', Xso; tauto).
  assert (Hto2 : forall t, mem t (tto s') = true <-> spec_target_only hs t)
    by (intros t0; rewrite Hto', Xto; tauto).
  split; [|split; [|split]].
  - apply bool_eq_iff.
    rewrite (is_source_gen s _ _ Hn He _ t Hso), (is_source_gen s' _ _ Hn2 He2 _ t Hso2). tauto.
  - apply bool_eq_iff.
    rewrite (is_target_gen s _ _ Hn He _ t Hto), (is_target_gen s' _ _ Hn2 He2 _ t Hto2). tauto.
  - apply bool_eq_iff.
    rewrite (is_intermediate_gen s _ _ Hn He t), (is_intermediate_gen s' _ _ Hn2 He2 t). tauto.
  - intros r w. apply bool_eq_iff. rewrite He, He2. tauto.
Qed.


(** * DROP *)
Lemma In_remove y x l : In y (remove x l) <-> In y l /\ y <> x.
Proof.
  induction l as [|a l IH]; simpl.
  - tauto.
  - destruct (String.eqb x a) eqn:E.
    + apply String.eqb_eq in E; subst a. rewrite IH. split.
      * intros [H1 H2]; auto.
      * intros [[H1|H1] H2]; [congruence|auto].
    + apply String.eqb_neq in E. simpl. rewrite IH. split.
      * intros [H|[H1 H2]]; [subst; split; auto; congruence|auto].
      * intros [[H1|H1] H2]; auto.
Qed.

Lemma mem_remove_other t x l : t <> x -> mem t (remove x l) = mem t l.
Proof.
  intros Hne. apply bool_eq_iff. rewrite !mem_In, In_remove. tauto.
Qed.

Lemma mem_remove_same x l : mem x (remove x l) = false.
Proof.
  apply mem_false. rewrite In_remove. intros [_ H]; apply H; reflexivity.
Qed.

Lemma filter_all {A} (f : A -> bool) l : (forall e, In e l -> f e = true) -> filter f l = l.
Proof.
  induction l as [|a l IH]; intros H; simpl.
  - reflexivity.
  - rewrite (H a (or_introl eq_refl)). f_equal. apply IH. intros e He. apply H. right; exact He.
Qed.

Lemma remove_node_te t s :
  Nat.eqb (indeg s t + outdeg s t) 0 = true -> te (remove_node t s) = te s.
Proof.
  intros H. apply Nat.eqb_eq in H.
  assert (Hi : indeg s t = 0) by lia. assert (Ho : outdeg s t = 0) by lia.
  unfold indeg in Hi. unfold outdeg in Ho.
  rewrite filter_len0 in Hi. rewrite filter_len0 in Ho.
  unfold remove_node; simpl. apply filter_all. intros e He.
  specialize (Hi e He). specialize (Ho e He). destruct e as [a b]. simpl in Hi, Ho |- *. rewrite Hi, Ho. reflexivity.
Qed.

Lemma isolated_ext s1 s t :
  te s1 = te s -> mem t (tw s1) = mem t (tw s) -> isolated s1 t = isolated s t.
Proof.
  intros H1 H2. unfold isolated, indeg, outdeg. rewrite H1, H2. reflexivity.
Qed.

Lemma drop_one d s :
  let s1 := if mem d (tn s) && isolated s d then remove_node d s else s in
  te s1 = te s /\
  (forall t, t <> d -> mem t (tn s1) = mem t (tn s) /\ mem t (tw s1) = mem t (tw s) /\
                        mem t (tso s1) = mem t (tso s) /\ mem t (tto s1) = mem t (tto s)) /\
  mem d (tn s1) = mem d (tn s) && negb (isolated s d).
Proof.
  destruct (mem d (tn s)) eqn:Em; destruct (isolated s d) eqn:Ei; simpl;
    try (split; [reflexivity|split; [intros; auto|auto]]).
  split; [|split].
  - unfold isolated in Ei. apply Bool.andb_true_iff in Ei. apply remove_node_te. apply Ei.
  - intros t Hne. rewrite !mem_remove_other by exact Hne. auto.
  - apply mem_remove_same.
Qed.

Lemma do_drops_spec ds : forall s,
  te (do_drops ds s) = te s /\
  (forall t, ~ In t ds ->
     mem t (tn (do_drops ds s)) = mem t (tn s) /\ mem t (tw (do_drops ds s)) = mem t (tw s) /\
     mem t (tso (do_drops ds s)) = mem t (tso s) /\ mem t (tto (do_drops ds s)) = mem t (tto s)) /\
  (forall t, In t ds -> mem t (tn (do_drops ds s)) = mem t (tn s) && negb (isolated s t)).
Proof.
  induction ds as [|d ds IH]; intros s; simpl.
  - split; [reflexivity|]. split; [auto|intros t []].
  - destruct (drop_one d s) as (F1 & F2 & F3).
    set (s1 := if mem d (tn s) && isolated s d then remove_node d s else s) in *.
    destruct (IH s1) as (I1 & I2 & I3).
    split; [rewrite I1; exact F1|]. split.
    + intros t Hnot.
      assert (Hne : t <> d) by (intros Heq; apply Hnot; left; auto).
      assert (Hnin : ~ In t ds) by (intros Hin; apply Hnot; right; auto).
      destruct (I2 t Hnin) as (J1 & J2 & J3 & J4). destruct (F2 t Hne) as (K1 & K2 & K3 & K4).
      rewrite J1, J2, J3, J4. auto.
    + intros t Hin.
      destruct (in_dec string_dec t ds) as [Hds|Hds].
      * rewrite (I3 t Hds).
        destruct (string_dec t d) as [Heq|Hne].
        -- subst t. rewrite F3.
           destruct (mem d (tn s)) eqn:Em; destruct (isolated s d) eqn:Ei; simpl; try reflexivity.
           (* not removed: s1 = s *)
           subst s1. simpl. rewrite Ei. reflexivity.
        -- destruct (F2 t Hne) as (K1 & K2 & K3 & K4). rewrite K1.
           rewrite (isolated_ext s1 s t F1 K2). reflexivity.
      * destruct Hin as [Heq|Hin]; [|contradiction]. subst t.
        destruct (I2 d Hds) as (J1 & _). rewrite J1. exact F3.
Qed.

(** ** DROP: removes a dropped table iff it is present and isolated at that moment,
    never touches edges, other nodes or their tags *)
Theorem drop_step s h :
  drops h <> [] ->
  exists s', step s h = Ok s' /\
    te s' = te (compose s h) /\
    (forall t, ~ In t (drops h) -> mem t (tn s') = mem t (tn (compose s h)) /\
                                   mem t (tso s') = mem t (tso s) /\ mem t (tto s') = mem t (tto s)) /\
    (forall t, In t (drops h) ->
       mem t (tn s') = mem t (tn (compose s h)) && negb (isolated (compose s h) t)).
Proof.
  intros Hd. exists (do_drops (drops h) (compose s h)).
  split.
  - unfold step. destruct (drops h) as [|d ds] eqn:E; [exfalso; apply Hd; reflexivity|reflexivity].
  - destruct (do_drops_spec (drops h) (compose s h)) as (I1 & I2 & I3).
    split; [exact I1|]. split.
    + intros t Hnot. destruct (I2 t Hnot) as (J1 & J2 & J3 & J4).
      rewrite J1, J3, J4. simpl. auto.
    + exact I3.
Qed.


(** * RENAME *)
Lemma In_dedup x l : forall seen, In x (dedup l seen) <-> In x l /\ ~ In x seen.
Proof.
  induction l as [|a l IH]; intros seen; simpl.
  - tauto.
  - destruct (mem a seen) eqn:E.
    + apply mem_In in E. rewrite IH. split.
      * intros [H1 H2]; auto.
      * intros [[H1|H1] H2]; [subst; contradiction|auto].
    + apply mem_false in E. simpl. rewrite IH. simpl. split.
      * intros [H|[H1 H2]]; [subst; auto|]. split; auto.
      * intros [[H1|H1] H2]; [auto|].
        destruct (string_dec a x) as [Heq|Hne]; [auto|]. right. split; auto.
        intros [H|H]; contradiction.
Qed.

Lemma pair_dec (p q : tbl * tbl) : {p = q} + {p <> q}.
Proof. decide equality; apply string_dec. Qed.

Lemma In_dedup_pairs p l : forall seen, In p (dedup_pairs l seen) <-> In p l /\ ~ In p seen.
Proof.
  induction l as [|a l IH]; intros seen; simpl.
  - tauto.
  - destruct (mem_pair a seen) eqn:E.
    + apply mem_pair_In in E. rewrite IH. split.
      * intros [H1 H2]; auto.
      * intros [[H1|H1] H2]; [subst; contradiction|auto].
    + apply mem_pair_false in E. simpl. rewrite IH. simpl. split.
      * intros [H|[H1 H2]]; [subst; auto|]. split; auto.
      * intros [[H1|H1] H2]; [auto|].
        destruct (pair_dec a p) as [Heq|Hne]; [auto|]. right. split; auto.
        intros [H|H]; contradiction.
Qed.

Lemma relabel_tn old new s : mem old (tn s) = true ->
  tn (relabel old new s) = dedup (map (rn old new) (tn s)) [].
Proof. intros H. unfold relabel. rewrite H. reflexivity. Qed.
Lemma relabel_te old new s : mem old (tn s) = true ->
  te (relabel old new s) =
  dedup_pairs (map (fun e => (rn old new (fst e), rn old new (snd e))) (te s)) [].
Proof. intros H. unfold relabel. rewrite H. reflexivity. Qed.
Lemma relabel_tw old new s : mem old (tn s) = true ->
  tw (relabel old new s) = dedup (map (rn old new) (tw s)) [].
Proof. intros H. unfold relabel. rewrite H. reflexivity. Qed.

Lemma rn_old x y : rn x y x = y.
Proof. unfold rn. rewrite String.eqb_refl. reflexivity. Qed.
Lemma rn_new x y : rn x y y = y.
Proof. unfold rn. destruct (String.eqb y x); reflexivity. Qed.
Lemma rn_eq_new x y u : rn x y u = y -> u = x \/ u = y.
Proof.
  unfold rn. destruct (String.eqb u x) eqn:E; [left; apply String.eqb_eq; exact E|right; assumption].
Qed.
Lemma rn_ne_old x y u : x <> y -> rn x y u <> x.
Proof.
  intros Hxy. unfold rn. destruct (String.eqb u x) eqn:E.
  - intros H. apply Hxy. symmetry. exact H.
  - apply String.eqb_neq. exact E.
Qed.

Lemma isolated_false_in s t r : In (r, t) (te s) -> isolated s t = false.
Proof.
  intros Hin. unfold isolated. apply Bool.andb_false_iff. left.
  assert (H : negb (Nat.eqb (indeg s t) 0) = true) by (apply indeg_pos; exists r; exact Hin).
  apply Bool.negb_true_iff, Nat.eqb_neq in H. apply Nat.eqb_neq. lia.
Qed.
Lemma isolated_false_out s t w : In (t, w) (te s) -> isolated s t = false.
Proof.
  intros Hin. unfold isolated. apply Bool.andb_false_iff. left.
  assert (H : negb (Nat.eqb (outdeg s t) 0) = true) by (apply outdeg_pos; exists w; exact Hin).
  apply Bool.negb_true_iff, Nat.eqb_neq in H. apply Nat.eqb_neq. lia.
Qed.
Lemma isolated_false_wired s t : In t (tw s) -> isolated s t = false.
Proof.
  intros Hin. unfold isolated. apply Bool.andb_false_iff. right.
  apply mem_In in Hin. rewrite Hin. reflexivity.
Qed.
Lemma not_isolated_cases s t : isolated s t = false ->
  (exists r, In (r, t) (te s)) \/ (exists w, In (t, w) (te s)) \/ In t (tw s).
Proof.
  unfold isolated. intros H. apply Bool.andb_false_iff in H. destruct H as [H|H].
  - destruct (Nat.eqb (indeg s t) 0) eqn:Ei.
    + destruct (Nat.eqb (outdeg s t) 0) eqn:Eo.
      * apply Nat.eqb_eq in Ei, Eo. apply Nat.eqb_neq in H. lia.
      * right; left. apply outdeg_pos. rewrite Eo. reflexivity.
    + left. apply indeg_pos. rewrite Ei. reflexivity.
  - right; right. apply Bool.negb_false_iff in H. apply mem_In. exact H.
Qed.

Lemma rename_core g (x y : tbl) (te0 : list (tbl * tbl)) :
  x <> y -> mem x (tn g) = true ->
  (forall p, In p (te g) <-> In p te0 \/ p = (x, y)) ->
  ~ In (y, y) (map (fun e => (rn x y (fst e), rn x y (snd e))) te0) ->
  (exists r, In (r, x) te0) \/ (exists w, In (x, w) te0) \/ In x (tw g) ->
  exists s', do_renames [(x, y)] g = Ok s' /\
    tn s' = dedup (map (rn x y) (tn g)) [] /\
    (forall p, In p (te s') <-> In p (map (fun e => (rn x y (fst e), rn x y (snd e))) te0)).
Proof.
  intros Hxy Hx Hte Hnoyy Hnoniso.
  set (F := fun e : tbl * tbl => (rn x y (fst e), rn x y (snd e))) in *.
  assert (HteR : te (relabel x y g) = dedup_pairs (map F (te g)) [])
    by (apply relabel_te; exact Hx).
  assert (HinR : forall p, In p (te (relabel x y g)) <-> In p (map F te0) \/ p = (y, y)).
  { intros p. rewrite HteR, In_dedup_pairs, !in_map_iff. split.
    - intros [(e & He & Hin) _]. apply Hte in Hin. destruct Hin as [Hin|Hin].
      + left. exists e. auto.
      + right. subst e p. unfold F; simpl. rewrite rn_old, rn_new. reflexivity.
    - intros [(e & He & Hin)|Hp]; (split; [|intros []]).
      + exists e. split; [exact He|]. apply Hte. left; exact Hin.
      + exists (x, y). split; [|apply Hte; right; reflexivity].
        subst p. unfold F; simpl. rewrite rn_old, rn_new. reflexivity. }
  assert (Hyy : mem_pair (y, y) (te (relabel x y g)) = true).
  { apply mem_pair_In, HinR. right; reflexivity. }
  set (R := relabel x y g) in *.
  set (s1 := {| tn := tn R; te := filter (fun e => negb (pair_eqb e (y, y))) (te R);
                tw := tw R; tso := tso R; tto := tto R |}).
  assert (Hdo : do_renames [(x, y)] g = Ok (if isolated s1 y then remove_node y s1 else s1)).
  { cbn [do_renames]. unfold remove_edge. fold R. rewrite Hyy. reflexivity. }
  assert (Hte1 : forall p, In p (te s1) <-> In p (map F te0)).
  { intros p. subst s1. cbn [te]. rewrite filter_In, HinR, Bool.negb_true_iff. split.
    - intros [[H|H] Hne]; [exact H|]. subst p.
      assert (Ht : pair_eqb (y, y) (y, y) = true) by (apply pair_eqb_eq; reflexivity).
      rewrite Ht in Hne. discriminate.
    - intros H. split; [left; exact H|].
      destruct (pair_eqb p (y, y)) eqn:E; [|reflexivity].
      apply pair_eqb_eq in E. subst p. contradiction. }
  assert (Hiso1 : isolated s1 y = false).
  { destruct Hnoniso as [(r & Hr)|[(w & Hw)|Hw]].
    - apply (isolated_false_in s1 y (rn x y r)). apply Hte1. apply in_map_iff.
      exists (r, x). split; [|exact Hr]. unfold F; simpl. rewrite rn_old. reflexivity.
    - apply (isolated_false_out s1 y (rn x y w)). apply Hte1. apply in_map_iff.
      exists (x, w). split; [|exact Hw]. unfold F; simpl. rewrite rn_old. reflexivity.
    - apply isolated_false_wired. subst s1. cbn [tw].
      subst R. rewrite (relabel_tw x y g Hx), In_dedup. split; [|intros []].
      apply in_map_iff. exists x. split; [apply rn_old|exact Hw]. }
  rewrite Hiso1 in Hdo. exists s1. split; [exact Hdo|]. split; [|exact Hte1].
  subst s1 R. cbn [tn]. apply relabel_tn. exact Hx.
Qed.

(** ** A single RENAME x TO y of an untagged table to a fresh name puts y in x's place *)
Definition no_dup (l : list tbl) : Prop := NoDup l.
Theorem rename_single s x y hn :
  x <> y -> In x (tn s) -> ~ In y (tn s) -> NoDup (tn s) ->
  mem x (tso s) = false -> mem x (tto s) = false ->
  mem_pair (x, x) (te s) = false ->
  negb (isolated s x) = true ->
  (forall e, In e (te s) -> In (fst e) (tn s) /\ In (snd e) (tn s)) ->
  let h := {| hnodes := hn; reads := []; writes := []; drops := []; renames := [(x, y)]; wired := [] |} in
  (forall t, In t hn -> t = x \/ t = y) ->
  exists s', step s h = Ok s' /\
    (forall t, mem t (tn s') = mem t (map (rn x y) (tn s))) /\
    (forall a b, mem_pair (a, b) (te s') = mem_pair (a, b) (map (fun e => (rn x y (fst e), rn x y (snd e))) (te s))) /\
    mem x (tn s') = false.
Proof.
  intros Hxy Hx Hy Hnd Hso Hto Hself Hiso Hedges h Hhn.
  set (F := fun e : tbl * tbl => (rn x y (fst e), rn x y (snd e))).
  assert (Hstep : step s h = do_renames [(x, y)] (compose s h)) by reflexivity.
  assert (Htn : forall t, In t (tn (compose s h)) <-> In t hn \/ In t (tn s)).
  { intros t. unfold compose; cbn [tn hnodes h]. apply In_add_all. }
  assert (Hxg : mem x (tn (compose s h)) = true).
  { apply mem_In, Htn. right; exact Hx. }
  assert (Hte : forall p, In p (te (compose s h)) <-> In p (te s) \/ p = (x, y)).
  { intros p. unfold compose; cbn [te renames h add_pairs]. rewrite In_add_pair. tauto. }
  assert (Hnoyy : ~ In (y, y) (map F (te s))).
  { intros Hin. apply in_map_iff in Hin. destruct Hin as ([a b] & He & Hin).
    destruct (Hedges _ Hin) as [Ha Hb]. simpl in Ha, Hb.
    unfold F in He; simpl in He. injection He as E1 E2.
    apply rn_eq_new in E1. apply rn_eq_new in E2.
    destruct E1 as [E1|E1]; [|subst a; contradiction].
    destruct E2 as [E2|E2]; [|subst b; contradiction].
    subst a b. apply mem_pair_In in Hin. rewrite Hself in Hin. discriminate. }
  assert (Hnoniso : (exists r, In (r, x) (te s)) \/ (exists w, In (x, w) (te s)) \/
                    In x (tw (compose s h))).
  { apply Bool.negb_true_iff in Hiso. apply not_isolated_cases in Hiso.
    destruct Hiso as [H|[H|H]]; auto. }
  destruct (rename_core (compose s h) x y (te s) Hxy Hxg Hte Hnoyy Hnoniso)
    as (s' & Hdo & Htn' & Hte').
  exists s'. split; [rewrite Hstep; exact Hdo|].
  assert (H1 : forall t, mem t (tn s') = mem t (map (rn x y) (tn s))).
  { intros t. apply bool_eq_iff. rewrite !mem_In, Htn', In_dedup, !in_map_iff. split.
    - intros [(u & Hu & Hin) _]. apply Htn in Hin. destruct Hin as [Hin|Hin].
      + exists x. split; [|exact Hx]. apply Hhn in Hin. destruct Hin as [Hin|Hin]; subst u.
        * exact Hu.
        * rewrite rn_new in Hu. rewrite rn_old. exact Hu.
      + exists u. auto.
    - intros (u & Hu & Hin). split; [|intros []]. exists u. split; [exact Hu|].
      apply Htn. right; exact Hin. }
  split; [exact H1|]. split.
  - intros a b. apply bool_eq_iff. rewrite !mem_pair_In. apply Hte'.
  - rewrite H1. apply mem_false. intros Hin. apply in_map_iff in Hin.
    destruct Hin as (u & Hu & _). exact (rn_ne_old x y u Hxy Hu).
Qed.
