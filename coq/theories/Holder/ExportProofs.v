(** Statements about io.to_cytoscape as modelled in Holder/Build.v (C18). *)
From SV Require Import Holder.Build.

(** every edge endpoint is a node of the graph (what networkx sub-graph views guarantee) *)
Definition closed (g : graph) : Prop :=
  forall e, In e (gedges g) ->
    In (fst (fst e)) (map fst (gnodes g)) /\ In (snd (fst e)) (map fst (gnodes g)).

Definition ids (r : list cy_node * list cy_edge) : list string := map cy_id (fst r).


(** * auxiliary facts *)
Lemma dataset_eqb_iff a b : dataset_eqb a b = true <-> dk a = dk b /\ deq a = deq b.
Proof.
  unfold dataset_eqb. rewrite andb_true_iff, String.eqb_eq.
  split; intros [H1 H2]; split; auto.
  - apply internal_dkind_dec_bl; exact H1.
  - apply internal_dkind_dec_lb; exact H1.
Qed.

Lemma ode_refl p : opt_dataset_eqb p p = true.
Proof. destruct p as [d|]; cbn; auto. apply dataset_eqb_iff; auto. Qed.

Lemma ode_sym_true p q : opt_dataset_eqb p q = true -> opt_dataset_eqb q p = true.
Proof.
  destruct p as [a|], q as [b|]; cbn; auto.
  intros H. apply dataset_eqb_iff in H. destruct H as [H1 H2].
  apply dataset_eqb_iff; auto.
Qed.

Lemma ode_sym p q : opt_dataset_eqb p q = opt_dataset_eqb q p.
Proof.
  destruct (opt_dataset_eqb p q) eqn:E1, (opt_dataset_eqb q p) eqn:E2; auto.
  - apply ode_sym_true in E1. congruence.
  - apply ode_sym_true in E2. congruence.
Qed.

Lemma ode_trans p q r :
  opt_dataset_eqb p q = true -> opt_dataset_eqb q r = true -> opt_dataset_eqb p r = true.
Proof.
  destruct p as [a|], q as [b|], r as [c|]; cbn; auto; try discriminate.
  intros H1 H2. apply dataset_eqb_iff in H1. apply dataset_eqb_iff in H2.
  destruct H1 as [H1a H1b]. destruct H2 as [H2a H2b].
  apply dataset_eqb_iff; split; congruence.
Qed.

Definition pdict := list (pkey * (string * string)).
Definition pdfold (ns : list node) (acc : pdict) : pdict :=
  fold_left (fun l n => pd_upsert (node_parent n) l) ns acc.

Lemma pdfold_cons n ns acc : pdfold (n :: ns) acc = pdfold ns (pd_upsert (node_parent n) acc).
Proof. reflexivity. Qed.

Lemma pd_get_in q (l : pdict) x : pd_get q l = Some x -> In x (map (fun e => fst (snd e)) l).
Proof.
  induction l as [|[k v] r IH]; cbn; intros H.
  - discriminate.
  - destruct (opt_dataset_eqb q k).
    + left. congruence.
    + right. auto.
Qed.

Lemma pd_get_upsert_same p (l : pdict) : pd_get p (pd_upsert p l) = Some (pname p).
Proof.
  induction l as [|[k v] r IH]; cbn.
  - rewrite ode_refl. reflexivity.
  - destruct (opt_dataset_eqb p k) eqn:E; cbn; rewrite E; auto.
Qed.

Lemma pd_get_upsert_some q p (l : pdict) x :
  pd_get q l = Some x -> exists y, pd_get q (pd_upsert p l) = Some y.
Proof.
  induction l as [|[k v] r IH]; cbn; intros H.
  - discriminate.
  - destruct (opt_dataset_eqb p k) eqn:E; cbn.
    + destruct (opt_dataset_eqb q k); eauto.
    + destruct (opt_dataset_eqb q k); eauto.
Qed.

Lemma pdfold_get_some ns : forall acc q x,
  pd_get q acc = Some x -> exists y, pd_get q (pdfold ns acc) = Some y.
Proof.
  induction ns as [|n ns IH]; intros acc q x H.
  - cbn. eauto.
  - rewrite pdfold_cons.
    destruct (pd_get_upsert_some q (node_parent n) acc x H) as [y Hy].
    eapply IH; eauto.
Qed.

Lemma pdfold_get_total ns : forall acc n, In n ns ->
  exists y, pd_get (node_parent n) (pdfold ns acc) = Some y.
Proof.
  induction ns as [|m ns IH]; intros acc n Hin.
  - destruct Hin.
  - rewrite pdfold_cons. destruct Hin as [Heq|Hin].
    + subst m. eapply pdfold_get_some. apply pd_get_upsert_same.
    + apply IH; auto.
Qed.

Lemma ptype_not_column p : ptype p <> "Column".
Proof. destruct p as [d|]; cbn; [destruct (dk d); cbn|]; discriminate. Qed.

Lemma upsert_in p (l : pdict) e : In e (pd_upsert p l) ->
  In e l \/ (opt_dataset_eqb p (fst e) = true /\ snd e = (pname p, ptype p)).
Proof.
  induction l as [|[k v] r IH]; cbn; intros H.
  - destruct H as [H|[]]. subst e. cbn. right. split; auto. apply ode_refl.
  - destruct (opt_dataset_eqb p k) eqn:E; cbn in H.
    + destruct H as [H|H]; auto. subst e. cbn. right; auto.
    + destruct H as [H|H]; auto. destruct (IH H) as [H1|H1]; auto.
Qed.

Lemma pdfold_in ns : forall acc e, In e (pdfold ns acc) ->
  In e acc \/ exists n, In n ns /\ opt_dataset_eqb (node_parent n) (fst e) = true /\
                        snd e = (pname (node_parent n), ptype (node_parent n)).
Proof.
  induction ns as [|m ns IH]; intros acc e H.
  - left. exact H.
  - rewrite pdfold_cons in H. destruct (IH _ _ H) as [H1|[n [Hn [Ha Hb]]]].
    + destruct (upsert_in _ _ _ H1) as [H2|[H2 H3]]; auto.
      right. exists m. split; [left; reflexivity|auto].
    + right. exists n. split; [right; auto|auto].
Qed.

Inductive distinct : list pkey -> Prop :=
| distinct_nil : distinct []
| distinct_cons k l : (forall q, In q l -> opt_dataset_eqb k q = false) -> distinct l -> distinct (k :: l).

Lemma keys_upsert p (l : pdict) :
  map fst (pd_upsert p l) =
  if existsb (opt_dataset_eqb p) (map fst l) then map fst l else map fst l ++ [p].
Proof.
  induction l as [|[k v] r IH]; cbn.
  - reflexivity.
  - destruct (opt_dataset_eqb p k) eqn:E; cbn.
    + reflexivity.
    + rewrite IH. destruct (existsb (opt_dataset_eqb p) (map fst r)); reflexivity.
Qed.

Lemma distinct_app_one l p :
  distinct l -> (forall q, In q l -> opt_dataset_eqb q p = false) -> distinct (l ++ [p]).
Proof.
  intros Hd. induction Hd as [|k l Hk Hd IH]; intros Hp; cbn.
  - constructor; [intros q []|constructor].
  - constructor.
    + intros q Hq. apply in_app_iff in Hq. destruct Hq as [Hq|[Hq|[]]].
      * apply Hk; auto.
      * subst q. apply Hp. left; reflexivity.
    + apply IH. intros q Hq. apply Hp. right; auto.
Qed.

Lemma distinct_upsert p (l : pdict) : distinct (map fst l) -> distinct (map fst (pd_upsert p l)).
Proof.
  intros Hd. rewrite keys_upsert.
  destruct (existsb (opt_dataset_eqb p) (map fst l)) eqn:E; auto.
  apply distinct_app_one; auto.
  intros q Hq. rewrite ode_sym. destruct (opt_dataset_eqb p q) eqn:E2; auto.
  assert (Hex : existsb (opt_dataset_eqb p) (map fst l) = true).
  { apply existsb_exists. exists q; auto. }
  congruence.
Qed.

Lemma pdfold_distinct ns : forall acc, distinct (map fst acc) -> distinct (map fst (pdfold ns acc)).
Proof.
  induction ns as [|m ns IH]; intros acc H.
  - exact H.
  - rewrite pdfold_cons. apply IH. apply distinct_upsert. exact H.
Qed.

Lemma distinct_nth l : distinct l -> forall i j p q,
  nth_error l i = Some p -> nth_error l j = Some q -> opt_dataset_eqb p q = true -> i = j.
Proof.
  intros Hd. induction Hd as [|k l Hk Hd IH]; intros i j p q Hi Hj He.
  - destruct i; discriminate.
  - destruct i as [|i], j as [|j]; cbn in Hi, Hj.
    + reflexivity.
    + injection Hi as Hi. subst p. apply nth_error_In in Hj. rewrite (Hk _ Hj) in He. discriminate.
    + injection Hj as Hj. subst q. apply nth_error_In in Hi. rewrite ode_sym in He.
      rewrite (Hk _ Hi) in He. discriminate.
    + f_equal. eapply IH; eauto.
Qed.

Lemma pd_get_distinct (l : pdict) : distinct (map fst l) -> forall e q,
  In e l -> opt_dataset_eqb q (fst e) = true -> pd_get q l = Some (fst (snd e)).
Proof.
  induction l as [|[k v] r IH]; cbn; intros Hd e q Hin He.
  - destruct Hin.
  - inversion Hd as [|k' l' Hk Hd']; subst.
    destruct Hin as [Hin|Hin].
    + subst e. cbn in He. rewrite He. reflexivity.
    + destruct (opt_dataset_eqb q k) eqn:E.
      * exfalso. apply ode_sym_true in E.
        pose proof (ode_trans _ _ _ E He) as Ht.
        rewrite (Hk (fst e)) in Ht; [discriminate|]. apply in_map; auto.
      * apply IH; auto.
Qed.

Lemma ids_compound g :
  ids (to_cytoscape_compound g) =
  map node_str (map fst (gnodes g)) ++ map (fun e => fst (snd e)) (pdfold (map fst (gnodes g)) []).
Proof.
  unfold to_cytoscape_compound, ids, pdfold; cbn [fst snd].
  rewrite map_app, !map_map. cbn. reflexivity.
Qed.

Lemma edges_compound g :
  map (fun e => (cy_src e, cy_tgt e)) (snd (to_cytoscape_compound g)) =
  map (fun e => (node_str (fst (fst e)), node_str (snd (fst e)))) (gedges g).
Proof.
  unfold to_cytoscape_compound; cbn [fst snd]. rewrite map_map. cbn. reflexivity.
Qed.

Lemma ids_plain g : ids (to_cytoscape_plain g) = map (fun p => node_str (fst p)) (gnodes g).
Proof.
  unfold to_cytoscape_plain, ids; cbn [fst snd]. rewrite map_map. cbn. reflexivity.
Qed.

(** ** referential integrity of edges *)
Theorem compound_edges_ref g e :
  closed g -> In e (snd (to_cytoscape_compound g)) ->
  In (cy_src e) (ids (to_cytoscape_compound g)) /\ In (cy_tgt e) (ids (to_cytoscape_compound g)).
Proof.
  intros Hc He. rewrite ids_compound.
  unfold to_cytoscape_compound in He; cbn [fst snd] in He.
  apply in_map_iff in He. destruct He as [x [Hx Hin]]. subst e. cbn.
  destruct (Hc x Hin) as [H1 H2].
  split; apply in_app_iff; left; apply in_map; assumption.
Qed.

Theorem plain_edges_ref g e :
  closed g -> In e (snd (to_cytoscape_plain g)) ->
  In (cy_src e) (ids (to_cytoscape_plain g)) /\ In (cy_tgt e) (ids (to_cytoscape_plain g)).
Proof.
  intros Hc He. rewrite ids_plain.
  unfold to_cytoscape_plain in He; cbn [fst snd] in He.
  apply in_map_iff in He. destruct He as [x [Hx Hin]]. subst e. cbn.
  destruct (Hc x Hin) as [H1 H2].
  rewrite <- (map_map fst node_str).
  split; apply in_map; assumption.
Qed.

(** ** referential integrity of compound parents: every parent reference is the id of an exported node *)
Theorem compound_parent_ref g n p :
  In n (fst (to_cytoscape_compound g)) -> cy_parent n = Some p -> In p (ids (to_cytoscape_compound g)).
Proof.
  intros Hin Hp. rewrite ids_compound.
  unfold to_cytoscape_compound in Hin; cbn [fst snd] in Hin. fold (pdfold (map fst (gnodes g)) []) in Hin.
  apply in_app_iff in Hin. destruct Hin as [Hin|Hin].
  - apply in_map_iff in Hin. destruct Hin as [x [Hx Hin]]. subst n. cbn in Hp.
    apply in_app_iff. right. eapply pd_get_in; eauto.
  - apply in_map_iff in Hin. destruct Hin as [x [Hx Hin]]. subst n. cbn in Hp. discriminate.
Qed.

(** every column node does carry a parent reference *)
Theorem compound_parent_total g n :
  In n (fst (to_cytoscape_compound g)) -> cy_type n = "Column" -> exists p, cy_parent n = Some p.
Proof.
  intros Hin Ht.
  unfold to_cytoscape_compound in Hin; cbn [fst snd] in Hin. fold (pdfold (map fst (gnodes g)) []) in Hin.
  apply in_app_iff in Hin. destruct Hin as [Hin|Hin].
  - apply in_map_iff in Hin. destruct Hin as [x [Hx Hin]]. subst n. cbn.
    apply pdfold_get_total. exact Hin.
  - apply in_map_iff in Hin. destruct Hin as [x [Hx Hin]]. subst n. cbn in Ht.
    exfalso. destruct (pdfold_in _ _ _ Hin) as [[]|[m [Hm [Ha Hb]]]].
    rewrite Hb in Ht. cbn in Ht. exact (ptype_not_column _ Ht).
Qed.

(** ** exactness: one exported node per graph node (plus the parents), one exported edge per graph edge *)
Theorem plain_exact g :
  ids (to_cytoscape_plain g) = map (fun p => node_str (fst p)) (gnodes g) /\
  map (fun e => (cy_src e, cy_tgt e)) (snd (to_cytoscape_plain g)) =
  map (fun e => (node_str (fst (fst e)), node_str (snd (fst e)))) (gedges g).
Proof.
  split.
  - apply ids_plain.
  - unfold to_cytoscape_plain; cbn [fst snd]. rewrite map_map. cbn. reflexivity.
Qed.

Theorem compound_exact g :
  exists parents,
    ids (to_cytoscape_compound g) = map (fun p => node_str (fst p)) (gnodes g) ++ parents /\
    (forall q, In q parents <-> exists n, In n (map fst (gnodes g)) /\
                                  pd_get (node_parent n) (fold_left (fun l n => pd_upsert (node_parent n) l) (map fst (gnodes g)) []) = Some q) /\
    map (fun e => (cy_src e, cy_tgt e)) (snd (to_cytoscape_compound g)) =
    map (fun e => (node_str (fst (fst e)), node_str (snd (fst e)))) (gedges g).
Proof.
  fold (pdfold (map fst (gnodes g)) []).
  exists (map (fun e => fst (snd e)) (pdfold (map fst (gnodes g)) [])).
  split; [|split].
  - rewrite ids_compound. rewrite map_map. reflexivity.
  - intros q. split.
    + intros Hq. apply in_map_iff in Hq. destruct Hq as [e [He Hin]]. subst q.
      destruct (pdfold_in _ _ _ Hin) as [[]|[m [Hm [Ha Hb]]]].
      exists m. split; auto.
      apply pd_get_distinct; auto.
      apply pdfold_distinct. constructor.
    + intros [n [Hn Hg]]. eapply pd_get_in; eauto.
  - apply edges_compound.
Qed.

(** ** uniqueness of ids, when printing is injective on what is exported *)
Theorem plain_unique g :
  NoDup (map (fun p => node_str (fst p)) (gnodes g)) -> NoDup (ids (to_cytoscape_plain g)).
Proof.
  intros H. rewrite ids_plain. exact H.
Qed.

(** the parents dictionary has one entry per distinct parent (up to Python equality) *)
Theorem pd_keys_distinct ns :
  let pd := fold_left (fun l n => pd_upsert (node_parent n) l) ns [] in
  forall i j p q, nth_error (map fst pd) i = Some p -> nth_error (map fst pd) j = Some q ->
                  opt_dataset_eqb p q = true -> i = j.
Proof.
  intros pd. apply distinct_nth.
  apply (pdfold_distinct ns []). constructor.
Qed.

Theorem compound_unique g :
  let ns := map fst (gnodes g) in
  let pd := fold_left (fun l n => pd_upsert (node_parent n) l) ns [] in
  NoDup (map node_str ns ++ map (fun e => fst (snd e)) pd) ->
  NoDup (ids (to_cytoscape_compound g)).
Proof.
  intros ns pd H. rewrite ids_compound. exact H.
Qed.

(** ** the role lists are sorted when printed *)
Fixpoint sorted (l : list string) : Prop :=
  match l with
  | x :: ((y :: _) as r) => String.leb x y = true /\ sorted r
  | _ => True
  end.

Lemma string_leb_total x y : String.leb x y = true \/ String.leb y x = true.
Proof. apply String.leb_total. Qed.


Lemma insert_sorted_sorted x l : sorted l -> sorted (insert_sorted x l).
Proof.
  induction l as [|y r IH]; intros Hs.
  - exact I.
  - cbn [insert_sorted]. destruct (String.leb x y) eqn:E.
    + split; assumption.
    + assert (Hyx : String.leb y x = true).
      { destruct (string_leb_total x y) as [H|H]; congruence. }
      destruct r as [|z r'].
      * cbn. split; auto.
      * destruct Hs as [Hyz Hs]. specialize (IH Hs).
        cbn [insert_sorted] in *. destruct (String.leb x z) eqn:E2.
        -- split; auto.
        -- split; auto.
Qed.

Lemma insert_sorted_in x l : forall y, In y (insert_sorted x l) <-> y = x \/ In y l.
Proof.
  induction l as [|z r IH]; intros y; cbn.
  - split; intros [H|H]; auto.
  - destruct (String.leb x z); cbn.
    + split; intros [H|H]; auto.
    + rewrite IH. split; intros H.
      * destruct H as [H|[H|H]]; auto.
      * destruct H as [H|[H|H]]; auto.
Qed.

Theorem sort_strings_sorted l : sorted (sort_strings l).
Proof.
  induction l as [|x l IH]; cbn.
  - exact I.
  - apply insert_sorted_sorted. exact IH.
Qed.

Theorem sort_strings_perm l : forall x, In x (sort_strings l) <-> In x l.
Proof.
  induction l as [|y l IH]; intros x; cbn.
  - tauto.
  - rewrite insert_sorted_in. rewrite IH.
    split; intros [H|H]; auto.
Qed.
