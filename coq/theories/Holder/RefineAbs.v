(** Refinement, part 0 (abstract side only): the table-level model treats [te], [tw], [tso],
    [tto] as sets and [tn] as a list.  [st_equiv] is that equivalence; every operation of
    Holder/TableLevel.v is a congruence for it, and so are the three role accessors. *)
From SV Require Import Holder.TableLevel Holder.TableProofs.

Definition seteq {A} (l1 l2 : list A) : Prop := forall x, In x l1 <-> In x l2.
Definition st_equiv (s1 s2 : tstate) : Prop :=
  tn s1 = tn s2 /\ seteq (te s1) (te s2) /\ seteq (tw s1) (tw s2) /\
  seteq (tso s1) (tso s2) /\ seteq (tto s1) (tto s2).
Definition res_equiv (r1 r2 : result tstate) : Prop :=
  match r1, r2 with
  | Ok s1, Ok s2 => st_equiv s1 s2
  | ErrNetworkX, ErrNetworkX => True
  | _, _ => False
  end.

Lemma seteq_refl {A} (l : list A) : seteq l l.
Proof. intros x; tauto. Qed.
Lemma seteq_sym {A} (l1 l2 : list A) : seteq l1 l2 -> seteq l2 l1.
Proof. intros H x; symmetry; apply H. Qed.
Lemma seteq_trans {A} (l1 l2 l3 : list A) : seteq l1 l2 -> seteq l2 l3 -> seteq l1 l3.
Proof. intros H1 H2 x. rewrite (H1 x). apply H2. Qed.

Lemma st_equiv_refl s : st_equiv s s.
Proof. repeat split; intros; auto. Qed.
Lemma st_equiv_sym s1 s2 : st_equiv s1 s2 -> st_equiv s2 s1.
Proof. intros (H1 & H2 & H3 & H4 & H5). repeat split; try (symmetry; assumption); try (apply H2); try (apply H3); try (apply H4); try (apply H5). Qed.
Lemma st_equiv_trans s1 s2 s3 : st_equiv s1 s2 -> st_equiv s2 s3 -> st_equiv s1 s3.
Proof.
  intros (H1 & H2 & H3 & H4 & H5) (K1 & K2 & K3 & K4 & K5).
  split; [congruence|]. split; [eapply seteq_trans; eauto|]. split; [eapply seteq_trans; eauto|].
  split; eapply seteq_trans; eauto.
Qed.
Lemma res_equiv_trans r1 r2 r3 : res_equiv r1 r2 -> res_equiv r2 r3 -> res_equiv r1 r3.
Proof.
  destruct r1, r2, r3; simpl; try tauto. apply st_equiv_trans.
Qed.
Lemma res_equiv_sym r1 r2 : res_equiv r1 r2 -> res_equiv r2 r1.
Proof. destruct r1, r2; simpl; try tauto. apply st_equiv_sym. Qed.

Lemma mem_seteq l1 l2 x : seteq l1 l2 -> mem x l1 = mem x l2.
Proof. intros H. apply bool_eq_iff. rewrite !mem_In. apply H. Qed.
Lemma mem_pair_seteq l1 l2 p : seteq l1 l2 -> mem_pair p l1 = mem_pair p l2.
Proof. intros H. apply bool_eq_iff. rewrite !mem_pair_In. apply H. Qed.

(** * isolation, degrees *)
Lemma isolated_iff s t :
  isolated s t = true <->
  (forall r, ~ In (r, t) (te s)) /\ (forall w, ~ In (t, w) (te s)) /\ ~ In t (tw s).
Proof.
  unfold isolated. rewrite Bool.andb_true_iff, Bool.negb_true_iff, mem_false.
  rewrite <- indeg_zero, <- outdeg_zero, !Nat.eqb_eq. intuition lia.
Qed.

Lemma isolated_equiv s1 s2 t :
  seteq (te s1) (te s2) -> seteq (tw s1) (tw s2) -> isolated s1 t = isolated s2 t.
Proof.
  intros He Hw. apply bool_eq_iff. rewrite !isolated_iff.
  split; intros (H1 & H2 & H3); (split; [|split]).
  - intros r Hr. apply (H1 r). apply He; exact Hr.
  - intros w Hr. apply (H2 w). apply He; exact Hr.
  - intros Hr. apply H3. apply Hw; exact Hr.
  - intros r Hr. apply (H1 r). apply He; exact Hr.
  - intros w Hr. apply (H2 w). apply He; exact Hr.
  - intros Hr. apply H3. apply Hw; exact Hr.
Qed.

Lemma indeg0_equiv s1 s2 t : seteq (te s1) (te s2) ->
  Nat.eqb (indeg s1 t) 0 = Nat.eqb (indeg s2 t) 0.
Proof.
  intros He. apply bool_eq_iff. rewrite !indeg_zero.
  split; intros H r Hr; apply (H r); apply He; exact Hr.
Qed.
Lemma outdeg0_equiv s1 s2 t : seteq (te s1) (te s2) ->
  Nat.eqb (outdeg s1 t) 0 = Nat.eqb (outdeg s2 t) 0.
Proof.
  intros He. apply bool_eq_iff. rewrite !outdeg_zero.
  split; intros H r Hr; apply (H r); apply He; exact Hr.
Qed.

(** * congruences *)
Lemma seteq_remove x l1 l2 : seteq l1 l2 -> seteq (remove x l1) (remove x l2).
Proof. intros H y. rewrite !In_remove, (H y). tauto. Qed.
Lemma seteq_filter {A} (f : A -> bool) l1 l2 : seteq l1 l2 -> seteq (filter f l1) (filter f l2).
Proof. intros H y. rewrite !filter_In, (H y). tauto. Qed.
Lemma seteq_add_all xs l1 l2 : seteq l1 l2 -> seteq (add_all xs l1) (add_all xs l2).
Proof. intros H y. rewrite !In_add_all, (H y). tauto. Qed.
Lemma seteq_add_pairs xs l1 l2 : seteq l1 l2 -> seteq (add_pairs xs l1) (add_pairs xs l2).
Proof. intros H y. rewrite !In_add_pairs, (H y). tauto. Qed.
Lemma seteq_dedup_map (f : tbl -> tbl) l1 l2 : seteq l1 l2 -> seteq (dedup (map f l1) []) (dedup (map f l2) []).
Proof.
  intros H y. rewrite !In_dedup, !in_map_iff.
  split; intros [(z & Hz & Hin) Hn]; (split; [exists z; split; [exact Hz|apply H; exact Hin]|exact Hn]).
Qed.
Lemma seteq_dedup_pairs_map (f : tbl * tbl -> tbl * tbl) l1 l2 :
  seteq l1 l2 -> seteq (dedup_pairs (map f l1) []) (dedup_pairs (map f l2) []).
Proof.
  intros H y. rewrite !In_dedup_pairs, !in_map_iff.
  split; intros [(z & Hz & Hin) Hn]; (split; [exists z; split; [exact Hz|apply H; exact Hin]|exact Hn]).
Qed.

Lemma remove_node_equiv t s1 s2 : st_equiv s1 s2 -> st_equiv (remove_node t s1) (remove_node t s2).
Proof.
  intros (H1 & H2 & H3 & H4 & H5). unfold remove_node, st_equiv; cbn [tn te tw tso tto].
  split; [rewrite H1; reflexivity|]. split; [apply seteq_filter; exact H2|].
  split; [apply seteq_remove; exact H3|]. split; apply seteq_remove; assumption.
Qed.

Lemma do_drops_equiv ds : forall s1 s2, st_equiv s1 s2 -> st_equiv (do_drops ds s1) (do_drops ds s2).
Proof.
  induction ds as [|t r IH]; intros s1 s2 H; cbn [do_drops]; [exact H|].
  apply IH. pose proof H as (H1 & H2 & H3 & _).
  rewrite H1, (isolated_equiv s1 s2 t H2 H3).
  destruct (mem t (tn s2) && isolated s2 t); [apply remove_node_equiv|]; exact H.
Qed.

(** ** RENAME *)
Definition later_is_old (old new : tbl) (l : list tbl) : bool :=
  match index_of old l 0, index_of new l 0 with
  | Some i, Some j => Nat.ltb j i
  | _, _ => true
  end.
Definition rtag (b : bool) (old new : tbl) (l : list tbl) : list tbl :=
  let base := remove old (remove new l) in
  if (if b then mem old l else mem new l) then base ++ [new] else base.

Lemma relabel_tso old new s : mem old (tn s) = true ->
  tso (relabel old new s) =
  if String.eqb old new then tso s else rtag (later_is_old old new (tn s)) old new (tso s).
Proof. intros H. unfold relabel. rewrite H. reflexivity. Qed.
Lemma relabel_tto old new s : mem old (tn s) = true ->
  tto (relabel old new s) =
  if String.eqb old new then tto s else rtag (later_is_old old new (tn s)) old new (tto s).
Proof. intros H. unfold relabel. rewrite H. reflexivity. Qed.
Lemma relabel_absent old new s : mem old (tn s) = false -> relabel old new s = s.
Proof. intros H. unfold relabel. rewrite H. reflexivity. Qed.

Lemma In_rtag x b old new l :
  In x (rtag b old new l) <->
  (In x l /\ x <> old /\ x <> new) \/ (x = new /\ (if b then mem old l else mem new l) = true).
Proof.
  unfold rtag. destruct (if b then mem old l else mem new l).
  - rewrite in_app_iff, !In_remove. simpl. intuition.
  - rewrite !In_remove. intuition. discriminate.
Qed.

Lemma seteq_rtag b old new l1 l2 : seteq l1 l2 -> seteq (rtag b old new l1) (rtag b old new l2).
Proof.
  intros H x. rewrite !In_rtag, (H x), (mem_seteq l1 l2 old H), (mem_seteq l1 l2 new H). tauto.
Qed.

Lemma relabel_equiv old new s1 s2 : st_equiv s1 s2 -> st_equiv (relabel old new s1) (relabel old new s2).
Proof.
  intros H. pose proof H as (H1 & H2 & H3 & H4 & H5).
  destruct (mem old (tn s1)) eqn:E.
  - assert (E2 : mem old (tn s2) = true) by (rewrite <- H1; exact E).
    unfold st_equiv.
    rewrite !relabel_tn, !relabel_te, !relabel_tw, !relabel_tso, !relabel_tto by assumption.
    rewrite H1. split; [reflexivity|]. split; [apply seteq_dedup_pairs_map; exact H2|].
    split; [apply seteq_dedup_map; exact H3|].
    destruct (String.eqb old new); [split; assumption|]. split; apply seteq_rtag; assumption.
  - assert (E2 : mem old (tn s2) = false) by (rewrite <- H1; exact E).
    rewrite !relabel_absent by assumption. exact H.
Qed.

Lemma remove_edge_equiv p s1 s2 : st_equiv s1 s2 -> res_equiv (remove_edge p s1) (remove_edge p s2).
Proof.
  intros (H1 & H2 & H3 & H4 & H5). unfold remove_edge.
  rewrite (mem_pair_seteq _ _ p H2). destruct (mem_pair p (te s2)); simpl; [|exact I].
  unfold st_equiv; cbn [tn te tw tso tto]. split; [exact H1|]. split; [apply seteq_filter; exact H2|].
  split; [exact H3|]. split; assumption.
Qed.

Lemma do_renames_equiv rs : forall s1 s2, st_equiv s1 s2 -> res_equiv (do_renames rs s1) (do_renames rs s2).
Proof.
  induction rs as [|[old new] r IH]; intros s1 s2 H; cbn [do_renames]; [exact H|].
  pose proof (remove_edge_equiv (new, new) _ _ (relabel_equiv old new s1 s2 H)) as Hr.
  destruct (remove_edge (new, new) (relabel old new s1)) as [a1|], (remove_edge (new, new) (relabel old new s2)) as [a2|];
    simpl in Hr; try contradiction; [|exact I].
  apply IH. pose proof Hr as (K1 & K2 & K3 & _).
  rewrite (isolated_equiv a1 a2 new K2 K3).
  destruct (isolated a2 new); [apply remove_node_equiv|]; exact Hr.
Qed.

Lemma compose_equiv h s1 s2 : st_equiv s1 s2 -> st_equiv (compose s1 h) (compose s2 h).
Proof.
  intros (H1 & H2 & H3 & H4 & H5). unfold compose, st_equiv; cbn [tn te tw tso tto].
  rewrite H1. split; [reflexivity|]. split; [apply seteq_add_pairs; exact H2|].
  split; [apply seteq_add_all; exact H3|]. split; assumption.
Qed.

Lemma seteq_tag_all xs p l1 l2 : seteq l1 l2 -> seteq (tag_all xs p l1) (tag_all xs p l2).
Proof. intros H x. rewrite !In_tag_all, (H x). tauto. Qed.

Lemma step_equiv h s1 s2 : st_equiv s1 s2 -> res_equiv (step s1 h) (step s2 h).
Proof.
  intros H. pose proof (compose_equiv h _ _ H) as Hc. unfold step.
  destruct (drops h) as [|dd dr] eqn:Ed.
  - destruct (renames h) as [|rp rr] eqn:Er.
    + pose proof Hc as (C1 & C2 & C3 & C4 & C5).
      destruct (reads h) as [|r0 rr0], (writes h) as [|w0 ww0]; cbn [res_equiv]; unfold st_equiv; cbn [tn te tw tso tto];
        rewrite ?C1;
        repeat match goal with |- _ /\ _ => split end;
        first [reflexivity | assumption | apply seteq_add_pairs; assumption | apply seteq_tag_all; assumption].
    + apply do_renames_equiv; exact Hc.
  - cbn [res_equiv]. apply (do_drops_equiv (dd :: dr)); exact Hc.
Qed.

Lemma build_from_equiv hs : forall s1 s2, st_equiv s1 s2 -> res_equiv (build_from s1 hs) (build_from s2 hs).
Proof.
  induction hs as [|h r IH]; intros s1 s2 H; cbn [build_from]; [exact H|].
  pose proof (step_equiv h _ _ H) as Hs.
  destruct (step s1 h), (step s2 h); simpl in Hs; try contradiction; [|exact I].
  apply IH; exact Hs.
Qed.

(** ** the three accessors *)
Lemma roles_equiv s1 s2 : st_equiv s1 s2 ->
  sources s1 = sources s2 /\ targets s1 = targets s2 /\ intermediates s1 = intermediates s2.
Proof.
  intros (H1 & H2 & H3 & H4 & H5). unfold sources, targets, intermediates. rewrite H1.
  repeat split; apply filter_ext; intros t;
    unfold is_source, is_target, is_intermediate, selfloop;
    rewrite H1, (indeg0_equiv s1 s2 t H2), (outdeg0_equiv s1 s2 t H2), ?(mem_pair_seteq _ _ (t, t) H2),
            ?(mem_seteq _ _ t H4), ?(mem_seteq _ _ t H5); reflexivity.
Qed.

(** ** [later_is_old] without indices *)
Fixpoint lio (old new : tbl) (l : list tbl) : bool :=
  match l with
  | [] => true
  | y :: r => if String.eqb y old then negb (mem new r)
              else if String.eqb y new then true else lio old new r
  end.

Lemma index_of_ge x l : forall i j, index_of x l i = Some j -> i <= j.
Proof.
  induction l as [|y r IH]; intros i j; cbn [index_of]; [discriminate|].
  destruct (String.eqb x y); [intros H; inversion H; lia|]. intros H. apply IH in H. lia.
Qed.
Lemma index_of_none x l : forall i, index_of x l i = None <-> mem x l = false.
Proof.
  induction l as [|y r IH]; intros i; cbn [index_of]; unfold mem in *; cbn [mem_string]; [tauto|].
  destruct (String.eqb x y); cbn [orb]; [split; discriminate|]. apply IH.
Qed.

Lemma later_is_old_lio old new l : mem old l = true -> old <> new ->
  later_is_old old new l = lio old new l.
Proof.
  intros Hm Hne. unfold later_is_old. generalize 0 as i. revert Hm.
  induction l as [|y r IH]; intros Hm i; [discriminate|].
  cbn [index_of lio]. rewrite (String.eqb_sym y old), (String.eqb_sym y new).
  destruct (String.eqb old y) eqn:E1.
  - apply String.eqb_eq in E1; subst y.
    destruct (String.eqb new old) eqn:E2; [apply String.eqb_eq in E2; congruence|].
    destruct (index_of new r (S i)) as [j|] eqn:E3.
    + pose proof (index_of_ge _ _ _ _ E3) as Hge.
      assert (Hin : mem new r = true).
      { destruct (mem new r) eqn:E4; [reflexivity|]. apply (index_of_none new r (S i)) in E4. congruence. }
      rewrite Hin. simpl. apply Nat.ltb_ge. lia.
    + apply index_of_none in E3. rewrite E3. reflexivity.
  - unfold mem in Hm; cbn [mem_string] in Hm. rewrite E1 in Hm. cbn [orb] in Hm.
    destruct (String.eqb new y) eqn:E2.
    + destruct (index_of old r (S i)) as [j|] eqn:E3.
      * pose proof (index_of_ge _ _ _ _ E3). apply Nat.ltb_lt. lia.
      * reflexivity.
    + apply IH. exact Hm.
Qed.
