(** Composition (C04) and projection (C06) of column lineage, part 2: the proofs.
    Definitions, executable checkers, tests and counterexamples: Holder/CompDefs.v.

    Main results (all closed under the global context, see the end of the file):
    - [resolve_all_precise]   resolve_all keeps every edge  <->  resolve_quiet p g
      ([resolve_all_resolved]: without unresolved column objects it is the identity)
    - [union_edges]           plain + resolved: column edges of (build p hs) = union of the holders' column edges
      ([union_edges_norename]: DROP allowed; [union_edges_any]: DROP and RENAME of datasets, any script
      that builds; [union_edges_quiet]: unresolved columns that stay unresolved)
    - [pairs_graph], [paths_graph]   graph level: reported pairs / paths of a closed graph
    - [c04_composition], [c04_paths], [c04_composition_any], [c04_sound], [c04_no_start], [c04_main]
    - [c06_projection], [c06_ends], [c06_projection_subq], [c06_main]
    - [column_lineage_subq]   the exclude_subquery_columns list as image of the plain one *)
From SV Require Import Holder.CompDefs Holder.RefineGraph Holder.Refinement Holder.PathProofs.

(** * Part A: plain steps *)
Lemma is_nil_eq {A} (l : list A) : is_nil l = true -> l = [].
Proof. destruct l; [reflexivity|discriminate]. Qed.

Lemma plain_unfold h : plain_holder h = true -> h_drop h = [] /\ h_renames h = [].
Proof.
  unfold plain_holder. intros H. apply Bool.andb_true_iff in H. destruct H as [H1 H2].
  split; apply is_nil_eq; assumption.
Qed.

(** the three shapes of a plain step *)
Inductive plain_shape (gc : graph) (h : holder) : graph -> Prop :=
| ps_so : h_write h = [] -> plain_shape gc h (set_attr gc (h_read h) "source_only" true)
| ps_to : h_read h = [] -> plain_shape gc h (set_attr gc (h_write h) "target_only" true)
| ps_prod : (h_write h <> [] -> h_read h <> []) -> plain_shape gc h (add_product (h_read h) (h_write h) gc).

Lemma plain_step g h : plain_holder h = true ->
  exists g', step g h = BOk g' /\ plain_shape (compose g (hg h)) h g'.
Proof.
  intros Hp. destruct (plain_unfold h Hp) as [Hd Hr]. unfold step. rewrite Hd, Hr.
  pose proof (ps_prod (compose g (hg h)) h) as Xp. pose proof (ps_so (compose g (hg h)) h) as Xs.
  pose proof (ps_to (compose g (hg h)) h) as Xt.
  destruct (h_read h) as [|r0 rr], (h_write h) as [|w0 wr]; eexists; (split; [reflexivity|]).
  - apply Xp. intros H; contradiction H; reflexivity.
  - apply Xt. reflexivity.
  - apply Xs. reflexivity.
  - apply Xp. discriminate.
Qed.

Lemma h_read_In h r : In r (h_read h) -> is_dataset r = true /\ has_node (hg h) r = true.
Proof. apply tagged_In. Qed.
Lemma h_write_In h r : In r (h_write h) -> is_dataset r = true /\ has_node (hg h) r = true.
Proof. apply tagged_In. Qed.

(** what a plain step does to the edges (any search that respects node equality and does not
    accept the dataset -> dataset edges of the product) and to the nodes *)
Lemma plain_shape_edges g h g' : plain_shape (compose g (hg h)) h g' ->
  forall P, eresp P ->
    (forall r w, In r (h_read h) -> In w (h_write h) -> P (r, w, lineage_edge) = false) ->
    existsb P (gedges g') = existsb P (gedges g) || existsb P (gedges (hg h)).
Proof.
  intros Hs P HP Hrw. destruct Hs.
  - cbn [set_attr gedges]. apply existsb_compose; exact HP.
  - cbn [set_attr gedges]. apply existsb_compose; exact HP.
  - destruct (add_product_spec (h_read h) (h_write h) (compose g (hg h))) as [_ A2].
    + intros r Hr. rewrite has_node_compose, (proj2 (h_read_In h r Hr)). reflexivity.
    + intros w Hw. rewrite has_node_compose, (proj2 (h_write_In h w Hw)). reflexivity.
    + rewrite (A2 P HP), (existsb_compose P g (hg h) HP).
      replace (existsb (fun r => existsb (fun w => P (r, w, lineage_edge)) (h_write h)) (h_read h)) with false; [reflexivity|].
      symmetry. apply existsb_all_false. intros r Hr. apply existsb_all_false. intros w Hw. apply Hrw; assumption.
Qed.

Lemma plain_shape_nodes g h g' : plain_shape (compose g (hg h)) h g' ->
  map fst (gnodes g') = map fst (gnodes (compose g (hg h))).
Proof.
  intros Hs. destruct Hs.
  - apply map_fst_set_attr.
  - apply map_fst_set_attr.
  - destruct (add_product_spec (h_read h) (h_write h) (compose g (hg h))) as [A1 _].
    + intros r Hr. rewrite has_node_compose, (proj2 (h_read_In h r Hr)). reflexivity.
    + intros w Hw. rewrite has_node_compose, (proj2 (h_write_In h w Hw)). reflexivity.
    + rewrite A1. reflexivity.
Qed.

Lemma plain_shape_has_node g h g' n : plain_shape (compose g (hg h)) h g' ->
  has_node g' n = has_node (hg h) n || has_node g n.
Proof.
  intros Hs. unfold has_node at 1. rewrite has_node_memn, (plain_shape_nodes g h g' Hs), <- has_node_memn.
  apply has_node_compose.
Qed.

(** ** column edges *)
Lemma col_ds_neq a r : is_column a = true -> is_dataset r = true -> node_eqb a r = false.
Proof. destruct a, r; cbn [is_column is_dataset node_eqb]; try discriminate; reflexivity. Qed.

Lemma has_edge_compose g h u v : has_edge (compose g h) u v = has_edge g u v || has_edge h u v.
Proof. unfold has_edge. rewrite !has_edge_existsb. apply existsb_compose. apply eresp_edge_is. Qed.

Lemma col_edge_plain g h g' a b : plain_shape (compose g (hg h)) h g' ->
  col_edge g' a b = col_edge g a b || col_edge (hg h) a b.
Proof.
  intros Hs. unfold col_edge. destruct (is_column a) eqn:Ha; [|reflexivity]. destruct (is_column b) eqn:Hb; [|reflexivity].
  cbn [andb]. unfold has_edge. rewrite !has_edge_existsb.
  apply (plain_shape_edges g h g' Hs _ (eresp_edge_is a b)).
  intros r w Hr _. unfold edge_is; cbn [fst snd]. rewrite (col_ds_neq a r Ha (proj1 (h_read_In h r Hr))). reflexivity.
Qed.

Lemma col_edge_set_attr g ns k v a b : col_edge (set_attr g ns k v) a b = col_edge g a b.
Proof. reflexivity. Qed.

Lemma col_edge_cong g a a' b b' : node_eqb a a' = true -> node_eqb b b' = true -> col_edge g a b = col_edge g a' b'.
Proof.
  intros Ha Hb. unfold col_edge. rewrite (is_column_eqb _ _ Ha), (is_column_eqb _ _ Hb). f_equal.
  unfold has_edge. rewrite !has_edge_existsb. apply existsb_ext'. intros e. unfold edge_is.
  rewrite (node_eqb_cong_l _ _ _ Ha), (node_eqb_cong_l _ _ _ Hb). reflexivity.
Qed.

(** the accumulated column edges are the union of the statements' column edges *)
Lemma fold_col_edges hs : Forall (fun h => plain_holder h = true) hs -> forall g,
  exists g', fold_steps g hs = BOk g' /\ forall a b, col_edge g' a b = col_edge g a b || uE hs a b.
Proof.
  induction 1 as [|h r Hh Hr IH]; intros g; cbn [fold_steps].
  - exists g. split; [reflexivity|]. intros a b. cbn. rewrite Bool.orb_false_r. reflexivity.
  - destruct (plain_step g h Hh) as (g1 & E1 & S1). rewrite E1.
    destruct (IH g1) as (g' & E' & H'). exists g'. split; [exact E'|]. intros a b.
    rewrite H', (col_edge_plain g h g1 a b S1). unfold uE; cbn [existsb]. rewrite Bool.orb_assoc. reflexivity.
Qed.

(** * Part B: node objects; [resolve_all] *)
Lemma canon_l_cases n l : canon_l n l = n \/ In (canon_l n l) (map fst l).
Proof.
  induction l as [|[m a] r IH]; cbn [canon_l map fst In]; [left; reflexivity|].
  destruct (node_eqb n m); [right; left; reflexivity|]. destruct IH; [left|right; right]; assumption.
Qed.

Lemma In_upsert_edge e u v a l : In e (upsert_edge u v a l) ->
  fst e = (u, v) \/ exists e0, In e0 l /\ fst e = fst e0.
Proof.
  induction l as [|e1 r IH]; cbn [upsert_edge In].
  - intros [H|[]]. subst e. left; reflexivity.
  - destruct (edge_is u v e1).
    + intros [H|H].
      * subst e. right. exists e1. split; [left; reflexivity|reflexivity].
      * right. exists e. split; [right; exact H|reflexivity].
    + intros [H|H].
      * subst e. right. exists e1. split; [left; reflexivity|reflexivity].
      * destruct (IH H) as [H1|(e0 & H0 & H1)]; [left; exact H1|]. right. exists e0. split; [right; exact H0|exact H1].
Qed.

Lemma In_fold_edges f ns es : forall l0 e, In e (fold_edges f ns es l0) ->
  (exists e0, In e0 l0 /\ fst e = fst e0) \/
  (exists e0, In e0 es /\ fst e = (canon_l (f (esrc e0)) ns, canon_l (f (etgt e0)) ns)).
Proof.
  unfold fold_edges. induction es as [|e1 r IH]; intros l0 e; cbn [fold_left].
  - intros H. left. exists e. split; [exact H|reflexivity].
  - intros H. destruct (IH _ _ H) as [(e0 & H0 & H1)|(e0 & H0 & H1)].
    + destruct (In_upsert_edge _ _ _ _ _ H0) as [H2|(e2 & H2 & H3)].
      * right. exists e1. split; [left; reflexivity|]. rewrite H1, H2. reflexivity.
      * left. exists e2. split; [exact H2|]. rewrite H1. exact H3.
    + right. exists e0. split; [right; exact H0|exact H1].
Qed.

Definition nodes_ok (Q : node -> bool) (g : graph) : Prop := forall n, In n (map fst (gnodes g)) -> Q n = true.
Definition srcs_ok (Q : node -> bool) (g : graph) : Prop := forall e, In e (gedges g) -> Q (esrc e) = true.

Lemma nodes_ok_compose Q g h : nodes_ok Q g -> nodes_ok Q h -> nodes_ok Q (compose g h).
Proof.
  intros Hg Hh n Hn. rewrite gnodes_compose, map_fst_fold_upsert in Hn. apply In_nadd_all in Hn.
  destruct Hn as [Hn|Hn]; [apply Hh|apply Hg]; exact Hn.
Qed.

Lemma srcs_ok_compose Q g h : nodes_ok Q g -> nodes_ok Q h -> srcs_ok Q g -> srcs_ok Q h -> srcs_ok Q (compose g h).
Proof.
  intros Ng Nh Sg Sh e He. rewrite gedges_compose in He. apply In_fold_edges in He.
  destruct He as [(e0 & H0 & H1)|(e0 & H0 & H1)].
  - unfold esrc. rewrite H1. apply (Sg e0 H0).
  - unfold esrc at 1. rewrite H1. cbn [fst].
    destruct (canon_l_cases (esrc e0) (gnodes (compose g h))) as [Hc|Hc].
    + rewrite Hc. apply (Sh e0 H0).
    + apply (nodes_ok_compose Q g h Ng Nh). exact Hc.
Qed.

Lemma In_add_edge e g u v a : In e (gedges (add_edge g u v a)) ->
  node_eqb (esrc e) u = true \/ exists e0, In e0 (gedges g) /\ fst e = fst e0.
Proof.
  unfold add_edge; cbn [gedges add_node]. intros H. apply In_upsert_edge in H. destruct H as [H|H]; [left|right; exact H].
  unfold esrc. rewrite H. cbn [fst]. apply canon_eqb.
Qed.

Lemma In_add_edges_from e r ws : forall g, In e (gedges (fold_left (fun g' w => add_edge g' r w lineage_edge) ws g)) ->
  node_eqb (esrc e) r = true \/ exists e0, In e0 (gedges g) /\ fst e = fst e0.
Proof.
  induction ws as [|w rest IH]; intros g; cbn [fold_left].
  - intros H. right. exists e. split; [exact H|reflexivity].
  - intros H. destruct (IH _ H) as [H1|(e0 & H0 & H1)]; [left; exact H1|].
    destruct (In_add_edge _ _ _ _ _ H0) as [H2|(e2 & H2 & H3)].
    + left. unfold esrc in *. rewrite H1. exact H2.
    + right. exists e2. split; [exact H2|]. rewrite H1. exact H3.
Qed.

Lemma In_add_product e rs ws : forall g, In e (gedges (add_product rs ws g)) ->
  (exists r, In r rs /\ node_eqb (esrc e) r = true) \/ exists e0, In e0 (gedges g) /\ fst e = fst e0.
Proof.
  induction rs as [|r rest IH]; intros g; cbn [add_product].
  - intros H. right. exists e. split; [exact H|reflexivity].
  - intros H. destruct (IH _ H) as [(r' & Hr & H1)|(e0 & H0 & H1)].
    + left. exists r'. split; [right; exact Hr|exact H1].
    + destruct (In_add_edges_from _ _ _ _ H0) as [H2|(e2 & H2 & H3)].
      * left. exists r. split; [left; reflexivity|]. unfold esrc in *. rewrite H1. exact H2.
      * right. exists e2. split; [exact H2|]. rewrite H1. exact H3.
Qed.

Lemma resolvedn_ds n : is_dataset n = true -> resolvedn n = true.
Proof. destruct n; cbn [is_dataset]; try discriminate. reflexivity. Qed.

Definition rinv (g : graph) : Prop := nodes_ok resolvedn g /\ srcs_ok resolvedn g.

Lemma resolved_graph_rinv g : resolved_graph g = true <-> rinv g.
Proof.
  unfold resolved_graph, rinv, nodes_ok, srcs_ok. rewrite Bool.andb_true_iff, !forallb_forall. split.
  - intros [H1 H2]. split; [|exact H2]. intros n Hn. apply in_map_iff in Hn. destruct Hn as (p & Hp & Hin). subst n. apply H1; exact Hin.
  - intros [H1 H2]. split; [|exact H2]. intros p Hp. apply H1. apply in_map. exact Hp.
Qed.

Lemma rinv_plain g h g' : plain_shape (compose g (hg h)) h g' -> rinv g -> rinv (hg h) -> rinv g'.
Proof.
  intros Hs [Ng Sg] [Nh Sh].
  pose proof (nodes_ok_compose _ g (hg h) Ng Nh) as Nc. pose proof (srcs_ok_compose _ g (hg h) Ng Nh Sg Sh) as Sc.
  split.
  - intros n Hn. rewrite (plain_shape_nodes g h g' Hs) in Hn. apply Nc; exact Hn.
  - destruct Hs; [exact Sc|exact Sc|]. intros e He. apply In_add_product in He.
    destruct He as [(r & Hr & E)|(e0 & H0 & H1)].
    + apply resolvedn_ds. rewrite (is_dataset_eqb _ _ E). apply (proj1 (h_read_In h r Hr)).
    + unfold esrc. rewrite H1. apply (Sc e0 H0).
Qed.

Lemma rinv_empty : rinv empty_graph.
Proof. split; intros x []. Qed.

Lemma fold_rinv hs : Forall (fun h => plain_holder h = true) hs -> Forall (fun h => resolved_holder h = true) hs ->
  forall g g', rinv g -> fold_steps g hs = BOk g' -> rinv g'.
Proof.
  induction 1 as [|h r Hh Hr IH]; intros Hres g g' Hg; cbn [fold_steps].
  - intros E; inversion E; subst; exact Hg.
  - inversion Hres as [|h0 r0 Rh Rr]; subst. destruct (plain_step g h Hh) as (g1 & E1 & S1). rewrite E1.
    apply (IH Rr). apply (rinv_plain g h g1 S1 Hg). apply resolved_graph_rinv. exact Rh.
Qed.

(** ** [resolve_all] *)
Lemma resolve_one_srcs p g u tgt :
  resolve_one p g u tgt =
  let srcs := resolve_srcs p g u in
  let g1 := fold_left (fun g' c => add_edge g' (NCol c) tgt lineage_edge) srcs g in
  match srcs with
  | [] => g1
  | _ => match remove_edge g1 (NCol u) tgt with Some g2 => g2 | None => g1 end
  end.
Proof. reflexivity. Qed.

Lemma resolve_one_quiet p g u tgt : is_nil (resolve_srcs p g u) = true -> resolve_one p g u tgt = g.
Proof. intros H. apply is_nil_eq in H. rewrite resolve_one_srcs, H. reflexivity. Qed.

Lemma fold_resolve_quiet p g l : forallb (fun ut => is_nil (resolve_srcs p g (fst ut))) l = true ->
  fold_left (fun g' (ut : column * node) => resolve_one p g' (fst ut) (snd ut)) l g = g.
Proof.
  induction l as [|ut r IH]; cbn [forallb fold_left]; [reflexivity|]. intros H.
  apply Bool.andb_true_iff in H. destruct H as [H1 H2]. rewrite (resolve_one_quiet p g _ _ H1). apply IH; exact H2.
Qed.

Lemma degree_edges g g' n : gedges g' = gedges g -> degree g' n = degree g n.
Proof. intros H. unfold degree, out_edges, in_edges. rewrite H. reflexivity. Qed.

Lemma fold_cleanup_edges G (l : list (node * nattrs)) : forall g, gedges g = gedges G ->
  gedges (fold_left (fun g' pn => match unresolved (fst pn) with
                                  | Some _ => if Nat.eqb (degree G (fst pn)) 0 then remove_node g' (fst pn) else g'
                                  | None => g'
                                  end) l g) = gedges G.
Proof.
  induction l as [|pn r IH]; intros g Hg; cbn [fold_left]; [exact Hg|]. apply IH.
  destruct (unresolved (fst pn)); [|exact Hg]. destruct (Nat.eqb (degree G (fst pn)) 0) eqn:E; [|exact Hg].
  rewrite gedges_remove_isolated; [exact Hg|]. rewrite (degree_edges G g _ Hg). exact E.
Qed.

(** the precise condition: if no unresolved edge source has a candidate (in the graph; in the
    metadata when a provider is there), [resolve_all] keeps every edge; it only deletes isolated
    unresolved column nodes *)
Theorem resolve_all_quiet p g : resolve_quiet p g = true -> gedges (resolve_all p g) = gedges g.
Proof.
  intros H. unfold resolve_all. fold (pending g). unfold resolve_quiet in H.
  rewrite (fold_resolve_quiet p g (pending g) H). apply fold_cleanup_edges. reflexivity.
Qed.

Corollary resolve_all_quiet_col p g a b : resolve_quiet p g = true -> col_edge (resolve_all p g) a b = col_edge g a b.
Proof. intros H. unfold col_edge, has_edge. rewrite (resolve_all_quiet p g H). reflexivity. Qed.

Lemma remove_edge_form g u v g' : remove_edge g u v = Some g' ->
  g' = {| gnodes := gnodes g; gedges := filter (fun e => negb (edge_is u v e)) (gedges g) |}.
Proof. unfold remove_edge. destruct (has_edge g u v); [|discriminate]. intros H; inversion H; reflexivity. Qed.

(** ... and the condition is necessary: a candidate for some unresolved edge source makes
    [resolve_all] delete that edge for good *)
Lemma unresolved_parent n u : unresolved n = Some u -> n = NCol u /\ col_parent u = None.
Proof.
  destruct n as [d|c|x]; cbn [unresolved]; try discriminate.
  destruct (Nat.ltb 1 (List.length (cparents c))) eqn:E; [|discriminate]. intros H; inversion H; subst u. split; [reflexivity|].
  unfold col_parent. destruct (cparents c) as [|x [|y r]]; cbn [List.length] in E; try discriminate E. reflexivity.
Qed.

Lemma neq_unres_res u c d : col_parent u = None -> col_parent c = Some d -> node_eqb (NCol u) (NCol c) = false.
Proof. intros Hu Hc. cbn [node_eqb]. unfold col_eqb. rewrite Hu, Hc. cbn [opt_dataset_eqb]. apply Bool.andb_false_r. Qed.

Lemma srcs_resolved p g u c : In c (resolve_srcs p g u) -> exists d, col_parent c = Some d.
Proof.
  unfold resolve_srcs. cbv zeta.
  assert (Hg : In c (candidates_in_graph g u) -> exists d, col_parent c = Some d).
  { unfold candidates_in_graph. intros H. apply in_flat_map in H. destruct H as (d & _ & H).
    destruct (has_edge g (NData d) (NCol (mk_col (craw u) d))); [|destruct H]. destruct H as [<-|[]]. exists d. reflexivity. }
  assert (Hm : In c (candidates_in_metadata p u) -> exists d, col_parent c = Some d).
  { unfold candidates_in_metadata. intros H. apply in_flat_map in H. destruct H as (d & _ & H).
    destruct (dk d); try (destruct H; fail). destruct (String.eqb (dschema d) placeholder); [destruct H|].
    apply in_flat_map in H. destruct H as (cn & _ & H). destruct (String.eqb (craw u) (craw (mk_col cn d))); [|destruct H].
    destruct H as [<-|[]]. exists d. reflexivity. }
  destruct (candidates_in_graph g u) as [|c0 cr] eqn:Ec.
  - destruct (p_truthy p); [exact Hm|intros []].
  - exact Hg.
Qed.

Lemma has_edge_add_edge g x y a u v : has_edge (add_edge g x y a) u v = edge_is u v (x, y, a) || has_edge g u v.
Proof. unfold has_edge. rewrite !has_edge_existsb. apply existsb_add_edge. apply eresp_edge_is. Qed.

Lemma has_edge_add_cols u v tgt srcs : col_parent u = None -> (forall c, In c srcs -> exists d, col_parent c = Some d) ->
  forall g, has_edge (fold_left (fun g' c => add_edge g' (NCol c) tgt lineage_edge) srcs g) (NCol u) v = has_edge g (NCol u) v.
Proof.
  intros Hu. induction srcs as [|c r IH]; intros Hs g; cbn [fold_left]; [reflexivity|].
  rewrite IH; [|intros c' Hc'; apply Hs; right; exact Hc']. rewrite has_edge_add_edge.
  destruct (Hs c (or_introl eq_refl)) as (d & Hd). unfold edge_is; cbn [fst snd]. rewrite (neq_unres_res u c d Hu Hd). reflexivity.
Qed.

Lemma has_edge_mono_add_cols tgt srcs a b : forall g, has_edge g a b = true ->
  has_edge (fold_left (fun g' c => add_edge g' (NCol c) tgt lineage_edge) srcs g) a b = true.
Proof.
  induction srcs as [|c r IH]; intros g H; cbn [fold_left]; [exact H|]. apply IH. rewrite has_edge_add_edge, H. apply Bool.orb_true_r.
Qed.

Lemma has_edge_filter_false g a b (f : node * node * eattrs -> bool) : has_edge g a b = false ->
  has_edge_l a b (filter f (gedges g)) = false.
Proof.
  unfold has_edge. rewrite !has_edge_existsb, existsb_filter. intros H. apply existsb_all_false. intros e He.
  rewrite (existsb_false _ _ H e He). reflexivity.
Qed.

Lemma resolve_one_keeps_gone p g u tgt u0 t0 : col_parent u0 = None ->
  has_edge g (NCol u0) t0 = false -> has_edge (resolve_one p g u tgt) (NCol u0) t0 = false.
Proof.
  intros Hu0 H. rewrite resolve_one_srcs. cbv zeta.
  set (srcs := resolve_srcs p g u). set (g1 := fold_left (fun g' c => add_edge g' (NCol c) tgt lineage_edge) srcs g).
  assert (H1 : has_edge g1 (NCol u0) t0 = false).
  { unfold g1. rewrite (has_edge_add_cols u0 t0 tgt srcs Hu0 (fun c Hc => srcs_resolved p g u c Hc)). exact H. }
  destruct srcs as [|c0 cr]; [exact H1|]. destruct (remove_edge g1 (NCol u) tgt) as [g2|] eqn:E; [|exact H1].
  rewrite (remove_edge_form _ _ _ _ E). unfold has_edge at 1. cbn [gedges]. apply has_edge_filter_false. exact H1.
Qed.

Lemma resolve_one_removes p g u tgt : col_parent u = None -> has_edge g (NCol u) tgt = true ->
  is_nil (resolve_srcs p g u) = false -> has_edge (resolve_one p g u tgt) (NCol u) tgt = false.
Proof.
  intros Hu H Hq. rewrite resolve_one_srcs. cbv zeta.
  set (g1 := fold_left (fun g' c => add_edge g' (NCol c) tgt lineage_edge) (resolve_srcs p g u) g).
  assert (H1 : has_edge g1 (NCol u) tgt = true) by (apply has_edge_mono_add_cols; exact H).
  destruct (resolve_srcs p g u) as [|c0 cr]; [discriminate Hq|].
  unfold remove_edge. rewrite H1. unfold has_edge. cbn [gedges]. rewrite has_edge_existsb, existsb_filter.
  apply existsb_all_false. intros e _. destruct (edge_is (NCol u) tgt e); reflexivity.
Qed.

Lemma fold_resolve_keeps_gone p u0 t0 l : col_parent u0 = None -> forall g, has_edge g (NCol u0) t0 = false ->
  has_edge (fold_left (fun g' (ut : column * node) => resolve_one p g' (fst ut) (snd ut)) l g) (NCol u0) t0 = false.
Proof.
  intros Hu0. induction l as [|ut r IH]; intros g H; cbn [fold_left]; [exact H|]. apply IH. apply resolve_one_keeps_gone; assumption.
Qed.

Lemma fold_cleanup_keeps_gone G a b (l : list (node * nattrs)) : forall g, has_edge g a b = false ->
  has_edge (fold_left (fun g' pn => match unresolved (fst pn) with
                                    | Some _ => if Nat.eqb (degree G (fst pn)) 0 then remove_node g' (fst pn) else g'
                                    | None => g'
                                    end) l g) a b = false.
Proof.
  induction l as [|pn r IH]; intros g H; cbn [fold_left]; [exact H|]. apply IH.
  destruct (unresolved (fst pn)); [|exact H]. destruct (Nat.eqb (degree G (fst pn)) 0); [|exact H].
  unfold has_edge at 1, remove_node. cbn [gedges]. apply has_edge_filter_false. exact H.
Qed.

Lemma forallb_false_split {A} (f : A -> bool) l : forallb f l = false ->
  exists l1 x l2, l = l1 ++ x :: l2 /\ forallb f l1 = true /\ f x = false.
Proof.
  induction l as [|a r IH]; cbn [forallb]; [discriminate|]. destruct (f a) eqn:Ea.
  - cbn [andb]. intros H. destruct (IH H) as (l1 & x & l2 & Hl & H1 & Hx). exists (a :: l1), x, l2.
    split; [rewrite Hl; reflexivity|]. split; [cbn [forallb]; rewrite Ea, H1; reflexivity|exact Hx].
  - intros _. exists [], a, r. split; [reflexivity|]. split; [reflexivity|exact Ea].
Qed.

Lemma pending_In g u t : In (u, t) (pending g) -> col_parent u = None /\ has_edge g (NCol u) t = true.
Proof.
  unfold pending. intros H. apply in_flat_map in H. destruct H as (e & He & H).
  destruct (unresolved (fst (fst e))) as [u'|] eqn:Eu; [|destruct H]. destruct H as [H|[]]. inversion H; subst u' t.
  destruct (unresolved_parent _ _ Eu) as [Hn Hp]. split; [exact Hp|]. unfold has_edge. rewrite has_edge_existsb.
  apply existsb_exists. exists e. split; [exact He|]. unfold edge_is. rewrite <- Hn, !node_eqb_refl. reflexivity.
Qed.

Theorem resolve_all_loud p g : resolve_quiet p g = false ->
  exists u t, has_edge g (NCol u) t = true /\ has_edge (resolve_all p g) (NCol u) t = false.
Proof.
  unfold resolve_quiet. intros H. apply forallb_false_split in H. destruct H as (l1 & [u t] & l2 & Hl & H1 & Hx). cbn [fst] in Hx.
  destruct (pending_In g u t) as [Hu He]; [rewrite Hl; apply in_or_app; right; left; reflexivity|].
  exists u, t. split; [exact He|]. unfold resolve_all. fold (pending g). rewrite Hl, fold_left_app. cbn [fold_left fst snd].
  rewrite (fold_resolve_quiet p g l1 H1). apply fold_cleanup_keeps_gone. apply fold_resolve_keeps_gone; [exact Hu|].
  apply resolve_one_removes; assumption.
Qed.

(** the precise condition *)
Theorem resolve_all_precise p g :
  (forall a b, has_edge (resolve_all p g) a b = has_edge g a b) <-> resolve_quiet p g = true.
Proof.
  split.
  - intros H. destruct (resolve_quiet p g) eqn:E; [reflexivity|]. exfalso.
    destruct (resolve_all_loud p g E) as (u & t & H1 & H2). rewrite (H (NCol u) t), H1 in H2. discriminate.
  - intros H a b. unfold has_edge. rewrite (resolve_all_quiet p g H). reflexivity.
Qed.

Lemma pending_resolved g : srcs_ok resolvedn g -> pending g = [].
Proof.
  unfold srcs_ok, pending. induction (gedges g) as [|e r IH]; intros H; cbn [flat_map]; [reflexivity|].
  rewrite IH; [|intros e' He'; apply H; right; exact He'].
  pose proof (H e (or_introl eq_refl)) as He. unfold resolvedn, esrc in He.
  destruct (unresolved (fst (fst e))); [discriminate|reflexivity].
Qed.

Lemma fold_cleanup_id G (l : list (node * nattrs)) : (forall pn, In pn l -> resolvedn (fst pn) = true) -> forall g,
  fold_left (fun g' pn => match unresolved (fst pn) with
                          | Some _ => if Nat.eqb (degree G (fst pn)) 0 then remove_node g' (fst pn) else g'
                          | None => g'
                          end) l g = g.
Proof.
  induction l as [|pn r IH]; intros H g; cbn [fold_left]; [reflexivity|].
  pose proof (H pn (or_introl eq_refl)) as Hp. unfold resolvedn in Hp. destruct (unresolved (fst pn)); [discriminate|].
  apply IH. intros pn' Hin. apply H; right; exact Hin.
Qed.

(** without unresolved column objects [resolve_all] is the identity *)
Theorem resolve_all_resolved p g : rinv g -> resolve_all p g = g.
Proof.
  intros [Hn Hs]. unfold resolve_all. fold (pending g). rewrite (pending_resolved g Hs). cbn [fold_left].
  apply fold_cleanup_id. intros pn Hin. apply Hn. apply in_map. exact Hin.
Qed.

Lemma rinv_set_attr g ns k v : rinv g -> rinv (set_attr g ns k v).
Proof. intros [Hn Hs]. split; [|exact Hs]. intros n Hin. rewrite map_fst_set_attr in Hin. apply Hn; exact Hin. Qed.

(** ** the shape of [build] on plain, resolved holders *)
Definition all_plain (hs : list holder) : Prop := Forall (fun h => plain_holder h = true) hs.
Definition all_resolved (hs : list holder) : Prop := Forall (fun h => resolved_holder h = true) hs.

Lemma build_plain p hs : all_plain hs -> all_resolved hs ->
  exists g0, fold_steps empty_graph hs = BOk g0 /\ rinv g0 /\
             build p hs = BOk (set_attr g0 (selfloop_nodes g0) "selfloop" true) /\
             forall a b, col_edge g0 a b = uE hs a b.
Proof.
  intros Hp Hr. destruct (fold_col_edges hs Hp empty_graph) as (g0 & E0 & H0). exists g0.
  pose proof (fold_rinv hs Hp Hr empty_graph g0 rinv_empty E0) as R0.
  split; [exact E0|]. split; [exact R0|]. split.
  - unfold build. rewrite E0. rewrite (resolve_all_resolved p _ (rinv_set_attr g0 _ _ _ R0)). reflexivity.
  - intros a b. rewrite H0. unfold col_edge at 1, has_edge. cbn [empty_graph gedges has_edge_l].
    rewrite !Bool.andb_false_r. reflexivity.
Qed.

(** * Union theorem *)
Theorem union_edges_b p hs g : all_plain hs -> all_resolved hs -> build p hs = BOk g ->
  forall a b, col_edge g a b = uE hs a b.
Proof.
  intros Hp Hr E. destruct (build_plain p hs Hp Hr) as (g0 & _ & _ & E' & H). rewrite E' in E. inversion E; subst g.
  intros a b. rewrite col_edge_set_attr. apply H.
Qed.

Theorem union_edges p hs g : all_plain hs -> all_resolved hs -> build p hs = BOk g ->
  forall a b, col_edge g a b = true <-> exists h, In h hs /\ col_edge (hg h) a b = true.
Proof.
  intros Hp Hr E a b. rewrite (union_edges_b p hs g Hp Hr E). unfold uE. rewrite existsb_exists. tauto.
Qed.

Theorem build_plain_ok p hs : all_plain hs -> all_resolved hs -> exists g, build p hs = BOk g.
Proof. intros Hp Hr. destruct (build_plain p hs Hp Hr) as (g0 & _ & _ & E & _). eexists; exact E. Qed.

(** * Part C: the closure conditions are invariants of plain steps *)
Lemma forallb_negb_existsb' {A} (f : A -> bool) l : forallb f l = negb (existsb (fun x => negb (f x)) l).
Proof. induction l as [|a r IH]; cbn [forallb existsb]; [reflexivity|]. rewrite IH. destruct (f a); reflexivity. Qed.

Definition Pns (G : graph) (e : node * node * eattrs) : bool := negb (has_node G (esrc e)).
Definition Pco (e : node * node * eattrs) : bool := negb (negb (is_column (esrc e)) || is_column (etgt e)).

Lemma eresp_Pns G : eresp (Pns G).
Proof. intros u v a u' v' a' Hu Hv. unfold Pns, esrc; cbn [fst]. rewrite (has_node_cong G u u' Hu). reflexivity. Qed.
Lemma eresp_Pco : eresp Pco.
Proof.
  intros u v a u' v' a' Hu Hv. unfold Pco, esrc, etgt; cbn [fst snd].
  rewrite (is_column_eqb _ _ Hu), (is_column_eqb _ _ Hv). reflexivity.
Qed.

Lemma closed_src_existsb g : closed_src g = negb (existsb (Pns g) (gedges g)).
Proof. unfold closed_src. apply forallb_negb_existsb'. Qed.
Lemma col_out_existsb g : col_out_closed g = negb (existsb Pco (gedges g)).
Proof. unfold col_out_closed. apply forallb_negb_existsb'. Qed.

Lemma closed_src_In g : closed_src g = true <-> forall e, In e (gedges g) -> has_node g (esrc e) = true.
Proof. unfold closed_src. apply forallb_forall. Qed.
Lemma col_out_In g : col_out_closed g = true <->
  forall e, In e (gedges g) -> is_column (esrc e) = true -> is_column (etgt e) = true.
Proof.
  unfold col_out_closed. rewrite forallb_forall. split; intros H e He.
  - intros Hc. specialize (H e He). rewrite Hc in H. exact H.
  - specialize (H e He). destruct (is_column (esrc e)); [rewrite H; reflexivity|reflexivity].
Qed.

Definition cinv (g : graph) : Prop := closed_src g = true /\ closed_tgt g = true /\ col_out_closed g = true.

Lemma cwf_graph_cinv g : cwf_graph g = true <-> cinv g.
Proof. unfold cwf_graph, cinv. rewrite !Bool.andb_true_iff. tauto. Qed.

Lemma ds_not_col r : is_dataset r = true -> is_column r = false.
Proof. destruct r; cbn; try discriminate; reflexivity. Qed.

Lemma cinv_plain g h g' : plain_shape (compose g (hg h)) h g' -> cinv g -> cinv (hg h) -> cinv g'.
Proof.
  intros Hs (S1 & T1 & C1) (S2 & T2 & C2).
  pose proof (plain_shape_has_node g h g') as HN.
  split; [|split].
  - rewrite closed_src_existsb, (plain_shape_edges g h g' Hs _ (eresp_Pns g')).
    + apply Bool.negb_true_iff, Bool.orb_false_iff. split; apply existsb_all_false; intros e He; unfold Pns;
        apply Bool.negb_false_iff; rewrite (HN _ Hs).
      * rewrite (proj1 (closed_src_In g) S1 e He). apply Bool.orb_true_r.
      * rewrite (proj1 (closed_src_In (hg h)) S2 e He). reflexivity.
    + intros r w Hr _. unfold Pns, esrc; cbn [fst]. rewrite (HN _ Hs), (proj2 (h_read_In h r Hr)). reflexivity.
  - rewrite closed_existsb, (plain_shape_edges g h g' Hs _ (eresp_Pnh g')).
    + apply Bool.negb_true_iff, Bool.orb_false_iff. split; apply existsb_all_false; intros e He; unfold Pnh;
        apply Bool.negb_false_iff; rewrite (HN _ Hs).
      * rewrite (proj1 (closed_In g) T1 e He). apply Bool.orb_true_r.
      * rewrite (proj1 (closed_In (hg h)) T2 e He). reflexivity.
    + intros r w _ Hw. unfold Pnh, etgt; cbn [fst snd]. rewrite (HN _ Hs), (proj2 (h_write_In h w Hw)). reflexivity.
  - rewrite col_out_existsb, (plain_shape_edges g h g' Hs _ eresp_Pco).
    + rewrite col_out_existsb in C1, C2. apply Bool.negb_true_iff in C1, C2. rewrite C1, C2. reflexivity.
    + intros r w Hr _. unfold Pco, esrc; cbn [fst]. rewrite (ds_not_col r (proj1 (h_read_In h r Hr))). reflexivity.
Qed.

Lemma cinv_empty : cinv empty_graph.
Proof. repeat split. Qed.

Lemma cinv_set_attr g ns k v : cinv g -> cinv (set_attr g ns k v).
Proof.
  intros (S1 & T1 & C1). split; [|split].
  - apply closed_src_In. intros e He. rewrite has_node_set_attr. apply (proj1 (closed_src_In g) S1 e He).
  - rewrite closed_set_attr. exact T1.
  - exact C1.
Qed.

Definition all_cwf (hs : list holder) : Prop := Forall (fun h => cwf_holder h = true) hs.

Lemma fold_cinv hs : all_plain hs -> all_cwf hs -> forall g g', cinv g -> fold_steps g hs = BOk g' -> cinv g'.
Proof.
  induction 1 as [|h r Hh Hr IH]; intros Hc g g' Hg; cbn [fold_steps].
  - intros E; inversion E; subst; exact Hg.
  - inversion Hc as [|h0 r0 Ch Cr]; subst. destruct (plain_step g h Hh) as (g1 & E1 & S1). rewrite E1.
    apply (IH Cr). apply (cinv_plain g h g1 S1 Hg). apply cwf_graph_cinv. exact Ch.
Qed.

(** the third condition alone *)
Definition all_col_out (hs : list holder) : Prop := Forall (fun h => col_out_closed (hg h) = true) hs.

Lemma col_out_plain g h g' : plain_shape (compose g (hg h)) h g' ->
  col_out_closed g = true -> col_out_closed (hg h) = true -> col_out_closed g' = true.
Proof.
  intros Hs C1 C2. rewrite col_out_existsb, (plain_shape_edges g h g' Hs _ eresp_Pco).
  - rewrite col_out_existsb in C1, C2. apply Bool.negb_true_iff in C1, C2. rewrite C1, C2. reflexivity.
  - intros r w Hr _. unfold Pco, esrc; cbn [fst]. rewrite (ds_not_col r (proj1 (h_read_In h r Hr))). reflexivity.
Qed.

Lemma fold_col_out hs : all_plain hs -> all_col_out hs -> forall g g',
  col_out_closed g = true -> fold_steps g hs = BOk g' -> col_out_closed g' = true.
Proof.
  induction 1 as [|h r Hh Hr IH]; intros Hc g g' Hg; cbn [fold_steps].
  - intros E; inversion E; subst; exact Hg.
  - inversion Hc as [|h0 r0 Ch Cr]; subst. destruct (plain_step g h Hh) as (g1 & E1 & S1). rewrite E1.
    apply (IH Cr). apply (col_out_plain g h g1 S1 Hg Ch).
Qed.

Lemma build_col_out p hs g : all_plain hs -> all_resolved hs -> all_col_out hs -> build p hs = BOk g -> col_out_closed g = true.
Proof.
  intros Hp Hr Hc E. destruct (build_plain p hs Hp Hr) as (g0 & E0 & _ & E' & _). rewrite E' in E. inversion E; subst g.
  apply (fold_col_out hs Hp Hc empty_graph g0 eq_refl E0).
Qed.

Lemma build_cinv p hs g : all_plain hs -> all_resolved hs -> all_cwf hs -> build p hs = BOk g -> cinv g.
Proof.
  intros Hp Hr Hc E. destruct (build_plain p hs Hp Hr) as (g0 & E0 & _ & E' & _). rewrite E' in E. inversion E; subst g.
  apply cinv_set_attr. apply (fold_cinv hs Hp Hc empty_graph g0 cinv_empty E0).
Qed.

(** * Part D: walks, simple paths, literal paths *)
Section Rel.
  Variable E : node -> node -> bool.
  Hypothesis Econg : forall a a' b b', node_eqb a a' = true -> node_eqb b b' = true -> E a b = E a' b'.

  Fixpoint echain (p : list node) : Prop :=
    match p with
    | a :: ((b :: _) as r) => E a b = true /\ echain r
    | _ => True
    end.

  (** non-empty relational composition of [E] with itself *)
  Inductive tc : node -> node -> Prop :=
  | tc_one a b : E a b = true -> tc a b
  | tc_step a b c : E a b = true -> tc b c -> tc a c.

  Definition root (s : node) : Prop := forall x, E x s = false.
  Definition leaf (t : node) : Prop := forall y, E t y = false.

  Lemma echain_tail a r : echain (a :: r) -> echain r.
  Proof. destruct r as [|b r]; [intros _; exact I|]. intros [_ H]. exact H. Qed.

  Lemma echain_app_r q1 l : echain (q1 ++ l) -> echain l.
  Proof. induction q1 as [|a q1 IH]; cbn [app]; [tauto|]. intros H. apply IH. apply (echain_tail a). exact H. Qed.

  Lemma tc_walk a b : tc a b -> exists p, p <> [] /\ echain (a :: p) /\ last p a = b.
  Proof.
    induction 1 as [a b H|a b c H _ IH].
    - exists [b]. split; [discriminate|]. split; [split; [exact H|exact I]|reflexivity].
    - destruct IH as (p & Hne & Hch & Hl). exists (b :: p). split; [discriminate|]. split; [split; [exact H|exact Hch]|].
      rewrite last_cons. exact Hl.
  Qed.

  Lemma walk_tc p : forall a, p <> [] -> echain (a :: p) -> tc a (last p a).
  Proof.
    induction p as [|b p IH]; intros a Hne Hch; [contradiction Hne; reflexivity|].
    destruct Hch as [Hab Hch]. destruct p as [|c p'].
    - cbn [last]. apply tc_one. exact Hab.
    - rewrite last_cons. apply (tc_step a b); [exact Hab|]. apply IH; [discriminate|exact Hch].
  Qed.

  Lemma tc_cong a a' b b' : node_eqb a a' = true -> node_eqb b b' = true -> tc a b -> tc a' b'.
  Proof.
    intros Ha Hb H. revert a' b' Ha Hb. induction H as [a b H|a b c H _ IH]; intros a' b' Ha Hb.
    - apply tc_one. rewrite <- (Econg a a' b b' Ha Hb). exact H.
    - apply (tc_step a' b); [rewrite <- (Econg a a' b b Ha (node_eqb_refl b)); exact H|].
      apply IH; [apply node_eqb_refl|exact Hb].
  Qed.

  Lemma root_cong s s' : node_eqb s s' = true -> root s -> root s'.
  Proof. intros H Hr x. rewrite <- (Econg x x s s' (node_eqb_refl x) H). apply Hr. Qed.
  Lemma leaf_cong t t' : node_eqb t t' = true -> leaf t -> leaf t'.
  Proof. intros H Hr y. rewrite <- (Econg t t' y y H (node_eqb_refl y)). apply Hr. Qed.

  Lemma memn_split b q : memn b q = true -> exists q1 x q2, q = q1 ++ x :: q2 /\ node_eqb b x = true.
  Proof.
    unfold memn. induction q as [|y q IH]; cbn [existsb]; [discriminate|].
    destruct (node_eqb b y) eqn:Ey.
    - intros _. exists [], y, q. split; [reflexivity|exact Ey].
    - cbn [orb]. intros H. destruct (IH H) as (q1 & x & q2 & Hq & Hx). exists (y :: q1), x, q2. split; [rewrite Hq; reflexivity|exact Hx].
  Qed.

  Lemma simple_app_r q1 l : simple (q1 ++ l) -> simple l.
  Proof. induction q1 as [|a q1 IH]; cbn [app simple]; [tauto|]. intros [_ H]. apply IH; exact H. Qed.

  Lemma last_app_cons (q1 : list node) (x : node) q2 : forall d, last (q1 ++ x :: q2) d = last (x :: q2) d.
  Proof.
    induction q1 as [|a q1 IH]; intros d; cbn [app]; [reflexivity|].
    rewrite last_cons, IH. apply last_cons_indep.
  Qed.

  (** every walk contains a simple walk with the same end points *)
  Lemma simplify p : forall a, echain (a :: p) -> p <> [] ->
    exists q, q <> [] /\ echain (a :: q) /\ simple q /\ last q a = last p a.
  Proof.
    induction p as [|b p IH]; intros a Hch Hne; [contradiction Hne; reflexivity|].
    destruct p as [|c p'].
    - exists [b]. split; [discriminate|]. split; [exact Hch|]. split; [|reflexivity].
      cbn [simple]. split; [reflexivity|exact I].
    - destruct Hch as [Hab Hch']. destruct (IH b Hch') as (q' & Hq'ne & Hq'ch & Hq's & Hq'l); [discriminate|].
      assert (Hlast : last (b :: c :: p') a = last q' b).
      { rewrite last_cons. symmetry. exact Hq'l. }
      destruct (memn b q') eqn:Em.
      + apply memn_split in Em. destruct Em as (q1 & x & q2 & Hq & Hbx). exists (x :: q2).
        split; [discriminate|]. split; [|split].
        * split; [rewrite <- (Econg a a b x (node_eqb_refl a) Hbx); exact Hab|].
          apply (echain_app_r (b :: q1)). cbn [app]. rewrite <- Hq. exact Hq'ch.
        * apply (simple_app_r q1). rewrite <- Hq. exact Hq's.
        * rewrite Hlast, Hq, last_app_cons. apply last_cons_indep.
      + exists (b :: q'). split; [discriminate|]. split; [split; [exact Hab|exact Hq'ch]|]. split.
        * cbn [simple]. split; [exact Em|exact Hq's].
        * rewrite Hlast. apply last_cons.
  Qed.

  Lemma echain_pred q : forall a x, echain (a :: q) -> In x q -> exists y, E y x = true.
  Proof.
    induction q as [|b q IH]; intros a x Hch Hin; [destruct Hin|].
    destruct Hch as [Hab Hch]. destruct Hin as [Hin|Hin]; [subst x; exists a; exact Hab|]. apply (IH b x Hch Hin).
  Qed.

  Lemma echain_succ q : forall a x, echain (a :: q) -> In x (removelast (a :: q)) -> exists y, E x y = true.
  Proof.
    induction q as [|b q IH]; intros a x Hch Hin; [destruct Hin|].
    destruct Hch as [Hab Hch]. change (In x (a :: removelast (b :: q))) in Hin.
    destruct Hin as [Hin|Hin]; [subst x; exists b; exact Hab|]. apply (IH b x Hch Hin).
  Qed.

  Lemma root_not_in s q a : root s -> echain (a :: q) -> memn s q = false.
  Proof.
    intros Hr Hch. apply memn_false_all. intros y Hy. destruct (node_eqb s y) eqn:Es; [|reflexivity].
    destruct (echain_pred q a y Hch Hy) as (z & Hz).
    rewrite <- (Econg z z s y (node_eqb_refl z) Es), (Hr z) in Hz. discriminate.
  Qed.
End Rel.

(** pointwise equality of paths *)
Definition eqbl : list node -> list node -> Prop := Forall2 (fun a b => node_eqb a b = true).

Lemma eqbl_memn a a' r r' : node_eqb a a' = true -> eqbl r r' -> memn a r = memn a' r'.
Proof.
  intros Ha H. unfold memn. induction H as [|x x' r r' Hx _ IH]; cbn [existsb]; [reflexivity|].
  rewrite IH. f_equal. rewrite (node_eqb_cong_l a a' x Ha). apply eqb_cong_r. exact Hx.
Qed.

Lemma eqbl_simple p p' : eqbl p p' -> simple p -> simple p'.
Proof.
  induction 1 as [|x x' r r' Hx Hr IH]; cbn [simple]; [tauto|]. intros [H1 H2]. split; [|apply IH; exact H2].
  rewrite <- (eqbl_memn x x' r r' Hx Hr). exact H1.
Qed.

Lemma eqbl_last p p' : eqbl p p' -> forall d d', node_eqb d d' = true -> node_eqb (last p d) (last p' d') = true.
Proof.
  induction 1 as [|x x' r r' Hx Hr IH]; intros d d' Hd; [exact Hd|]. rewrite !last_cons. apply IH. exact Hx.
Qed.

Lemma existsb_memn_false a r y : memn a r = false -> In y r -> node_eqb a y = false.
Proof. unfold memn. intros H Hy. apply (existsb_false _ _ H y Hy). Qed.

(** pigeonhole up to node equality *)
Lemma simple_length p : forall l, simple p -> (forall x, In x p -> memn x l = true) -> List.length p <= List.length l.
Proof.
  induction p as [|a r IH]; intros l Hs Hin; cbn [List.length]; [lia|].
  destruct Hs as [Ha Hs]. pose proof (Hin a (or_introl eq_refl)) as Hal.
  apply memn_split in Hal. destruct Hal as (l1 & x & l2 & Hl & Hax).
  assert (Hr : forall y, In y r -> memn y (l1 ++ l2) = true).
  { intros y Hy. pose proof (Hin y (or_intror Hy)) as H. rewrite Hl, memn_app in H. rewrite memn_app.
    unfold memn at 2 in H. cbn [existsb] in H. fold (memn y l2) in H.
    assert (Hyx : node_eqb y x = false).
    { rewrite node_eqb_sym, <- (node_eqb_cong_l a x y Hax). apply (existsb_memn_false a r y Ha Hy). }
    rewrite Hyx in H. exact H. }
  pose proof (IH (l1 ++ l2) Hs Hr) as Hle. rewrite Hl. rewrite app_length in *. cbn [List.length]. lia.
Qed.

Lemma simple_removelast p : forall d x, simple p -> In x (removelast p) -> node_eqb x (last p d) = false.
Proof.
  induction p as [|a r IH]; intros d x Hs Hin; [destruct Hin|].
  destruct r as [|b r']; [destruct Hin|]. destruct Hs as [Ha Hs].
  change (In x (a :: removelast (b :: r'))) in Hin. rewrite last_cons.
  destruct Hin as [Hin|Hin].
  - subst x. apply (existsb_memn_false a (b :: r') _ Ha).
    clear. revert a b. induction r' as [|c r' IH]; intros a b; [left; reflexivity|]. rewrite last_cons. right. apply IH.
  - rewrite (last_cons_indep r' b a d). apply IH; assumption.
Qed.

Lemma last_In (p : list node) : forall a, p <> [] -> In (last p a) p.
Proof.
  induction p as [|b p IH]; intros a Hne; [contradiction Hne; reflexivity|]. rewrite last_cons.
  destruct p as [|c p']; [left; reflexivity|]. right. apply IH. discriminate.
Qed.

(** ** edges, successors, degrees in the column graph *)
Lemma has_edge_In g a b : has_edge g a b = true <->
  exists e, In e (gedges g) /\ node_eqb a (esrc e) = true /\ node_eqb b (etgt e) = true.
Proof.
  unfold has_edge. rewrite has_edge_existsb, existsb_exists. unfold edge_is, esrc, etgt. split.
  - intros (e & He & H). apply Bool.andb_true_iff in H. exists e. tauto.
  - intros (e & He & H1 & H2). exists e. rewrite H1, H2. auto.
Qed.

Lemma successors_In g a x : In x (successors g a) <-> exists e, In e (gedges g) /\ node_eqb a (esrc e) = true /\ x = etgt e.
Proof.
  unfold successors, out_edges. rewrite in_map_iff. split.
  - intros (e & Hx & He). apply filter_In in He. exists e. unfold esrc, etgt. intuition.
  - intros (e & He & Ha & Hx). exists e. split; [symmetry; exact Hx|]. apply filter_In. auto.
Qed.

Lemma has_node_In g n : has_node g n = true <-> exists m, In m (map fst (gnodes g)) /\ node_eqb n m = true.
Proof. unfold has_node. rewrite has_node_memn. unfold memn. apply existsb_exists. Qed.

Lemma length_filter_zero {A} (f : A -> bool) l : List.length (filter f l) = 0 <-> forall e, In e l -> f e = false.
Proof.
  induction l as [|a r IH]; cbn [filter]; [split; [intros _ e []|reflexivity]|].
  destruct (f a) eqn:Ea; cbn [List.length].
  - split; [discriminate|]. intros H. rewrite (H a (or_introl eq_refl)) in Ea. discriminate.
  - rewrite IH. split; [intros H e [He|He]; [subst; exact Ea|apply H; exact He]|intros H e He; apply H; right; exact He].
Qed.

Lemma indeg_cg g n : is_column n = true ->
  (indeg (column_graph g) n = 0 <-> forall x, col_edge g x n = false).
Proof.
  intros Hn. unfold indeg, in_edges, column_graph, subgraph. cbn [gedges]. rewrite length_filter_zero. split.
  - intros H x. destruct (col_edge g x n) eqn:Ec; [|reflexivity]. exfalso. unfold col_edge in Ec.
    apply Bool.andb_true_iff in Ec. destruct Ec as [Ec He]. apply Bool.andb_true_iff in Ec. destruct Ec as [Hx _].
    apply has_edge_In in He. destruct He as (e & He & H1 & H2). unfold esrc, etgt in H1, H2.
    assert (Hin : In e (filter (fun e => is_column (fst (fst e)) && is_column (snd (fst e))) (gedges g))).
    { apply filter_In. split; [exact He|]. unfold esrc, etgt in *. rewrite <- (is_column_eqb _ _ H1), <- (is_column_eqb _ _ H2), Hx, Hn. reflexivity. }
    rewrite (H e Hin) in H2. discriminate.
  - intros H e He. apply filter_In in He. destruct He as [He Hc]. apply Bool.andb_true_iff in Hc. destruct Hc as [C1 C2].
    destruct (node_eqb n (snd (fst e))) eqn:En; [|reflexivity]. exfalso.
    assert (Hc : col_edge g (esrc e) n = true).
    { unfold col_edge. unfold esrc at 1. rewrite C1, Hn. cbn [andb]. apply has_edge_In. exists e. split; [exact He|].
      split; [apply node_eqb_refl|exact En]. }
    rewrite (H (esrc e)) in Hc. discriminate.
Qed.

Lemma outdeg_cg g n : is_column n = true ->
  (outdeg (column_graph g) n = 0 <-> forall y, col_edge g n y = false).
Proof.
  intros Hn. unfold outdeg, out_edges, column_graph, subgraph. cbn [gedges]. rewrite length_filter_zero. split.
  - intros H y. destruct (col_edge g n y) eqn:Ec; [|reflexivity]. exfalso. unfold col_edge in Ec.
    apply Bool.andb_true_iff in Ec. destruct Ec as [Ec He]. apply Bool.andb_true_iff in Ec. destruct Ec as [_ Hy].
    apply has_edge_In in He. destruct He as (e & He & H1 & H2). unfold esrc, etgt in H1, H2.
    assert (Hin : In e (filter (fun e => is_column (fst (fst e)) && is_column (snd (fst e))) (gedges g))).
    { apply filter_In. split; [exact He|]. unfold esrc, etgt in *. rewrite <- (is_column_eqb _ _ H1), <- (is_column_eqb _ _ H2), Hy, Hn. reflexivity. }
    rewrite (H e Hin) in H1. discriminate.
  - intros H e He. apply filter_In in He. destruct He as [He Hc]. apply Bool.andb_true_iff in Hc. destruct Hc as [C1 C2].
    destruct (node_eqb n (fst (fst e))) eqn:En; [|reflexivity]. exfalso.
    assert (Hc : col_edge g n (etgt e) = true).
    { unfold col_edge. unfold etgt at 1. rewrite C2, Hn. cbn [andb]. apply has_edge_In. exists e. split; [exact He|].
      split; [exact En|apply node_eqb_refl]. }
    rewrite (H (etgt e)) in Hc. discriminate.
Qed.

Lemma In_cols g n : In n (map fst (gnodes g)) -> is_column n = true -> In n (map fst (gnodes (column_graph g))).
Proof.
  intros Hin Hc. apply in_map_iff in Hin. destruct Hin as (p & Hp & Hin). apply in_map_iff. exists p. split; [exact Hp|].
  unfold column_graph, subgraph. cbn [gnodes]. apply filter_In. split; [exact Hin|]. rewrite Hp. exact Hc.
Qed.

(** a chain of the graph that starts at a column is a chain of column edges *)
Lemma chain_cols g : col_out_closed g = true -> forall p a, is_column a = true -> chain g (a :: p) ->
  echain (col_edge g) (a :: p) /\ forall x, In x p -> is_column x = true.
Proof.
  intros Hco. induction p as [|b r IH]; intros a Ha Hch; [split; [exact I|intros x []]|].
  destruct Hch as [Hab Hch]. unfold memn in Hab. apply existsb_exists in Hab. destruct Hab as (b' & Hb' & Hbb).
  apply successors_In in Hb'. destruct Hb' as (e & He & Hae & Hbe). subst b'.
  assert (Hb : is_column b = true).
  { rewrite (is_column_eqb _ _ Hbb). apply (proj1 (col_out_In g) Hco e He). rewrite <- (is_column_eqb _ _ Hae). exact Ha. }
  destruct (IH b Hb Hch) as [I1 I2]. split.
  - split; [|exact I1]. unfold col_edge. rewrite Ha, Hb. cbn [andb]. apply has_edge_In. exists e. auto.
  - intros x [Hx|Hx]; [subst x; exact Hb|apply I2; exact Hx].
Qed.

(** every chain of column edges has a literal copy among the stored successors *)
Lemma literal g : forall p a a0, node_eqb a a0 = true -> echain (col_edge g) (a :: p) ->
  exists p', schain g (a0 :: p') /\ eqbl p p'.
Proof.
  induction p as [|b r IH]; intros a a0 Ha Hch; [exists []; split; [exact I|constructor]|].
  destruct Hch as [Hab Hch]. rewrite (col_edge_cong g a a0 b b Ha (node_eqb_refl b)) in Hab.
  unfold col_edge in Hab. apply Bool.andb_true_iff in Hab. destruct Hab as [_ Hab].
  apply has_edge_In in Hab. destruct Hab as (e & He & H1 & H2).
  destruct (IH b (etgt e) H2 Hch) as (p' & Hp' & Heq). exists (etgt e :: p'). split.
  - split; [|exact Hp']. apply successors_In. exists e. auto.
  - constructor; assumption.
Qed.

Lemma schain_nodes g : closed_tgt g = true -> forall p a, schain g (a :: p) -> forall x, In x p -> has_node g x = true.
Proof.
  intros Hc. induction p as [|b r IH]; intros a Hch x Hx; [destruct Hx|].
  destruct Hch as [Hab Hch]. destruct Hx as [Hx|Hx]; [|apply (IH b Hch x Hx)]. subst x.
  apply successors_In in Hab. destruct Hab as (e & He & _ & Hb). rewrite Hb. apply (proj1 (closed_In g) Hc e He).
Qed.

(** * The end-to-end pairs of a closed graph *)
Definition dflt : node := NStr "".
Definition reports (g : graph) (b : bool) (s t : node) : Prop :=
  exists path, In path (column_lineage g b false) /\
               node_eqb s (hd dflt path) = true /\ node_eqb t (last path dflt) = true.

Lemma col_edge_Econg g : forall a a' b b', node_eqb a a' = true -> node_eqb b b' = true -> col_edge g a b = col_edge g a' b'.
Proof. intros a a' b b'. apply col_edge_cong. Qed.

Lemma col_edge_cols g a b : col_edge g a b = true -> is_column a = true /\ is_column b = true.
Proof.
  unfold col_edge. intros H. apply Bool.andb_true_iff in H. destruct H as [H _]. apply Bool.andb_true_iff in H. exact H.
Qed.

Theorem pairs_sound g b s t : col_out_closed g = true -> reports g b s t ->
  root (col_edge g) s /\ leaf (col_edge g) t /\ (b = true -> parent_is KTable t = true) /\ tc (col_edge g) s t.
Proof.
  intros Hco (path & Hin & Hs & Ht).
  destruct (column_lineage_wf g b path Hin) as (Hlen & Hch & _ & (s0 & r & Hp & Hs0c & Hs0d) & (Hlc & Hld & Hlp)).
  subst path. cbn [hd] in Hs. fold dflt in *. rewrite last_cons in *.
  destruct (chain_cols g Hco r s0 Hs0c Hch) as [Hech _].
  assert (Hne : r <> []) by (intros ->; cbn [List.length] in Hlen; lia).
  pose proof (walk_tc (col_edge g) r s0 Hne Hech) as Htc.
  pose proof (eqb_sym_true _ _ Hs) as Hs'. pose proof (eqb_sym_true _ _ Ht) as Ht'.
  split; [|split; [|split]].
  - apply (root_cong _ (col_edge_Econg g) s0 s Hs'). exact (proj1 (indeg_cg g s0 Hs0c) Hs0d).
  - apply (leaf_cong _ (col_edge_Econg g) (last r s0) t Ht'). exact (proj1 (outdeg_cg g _ Hlc) Hld).
  - intros Hb. rewrite (parent_is_eqb _ _ _ Ht). apply Hlp. exact Hb.
  - apply (tc_cong _ (col_edge_Econg g) s0 s (last r s0) t Hs' Ht' Htc).
Qed.

(** every simple chain of column edges from a root to a leaf is reported (up to node equality) *)
Theorem path_complete g b s q t : closed_src g = true -> closed_tgt g = true ->
  root (col_edge g) s -> leaf (col_edge g) t -> (b = true -> parent_is KTable t = true) ->
  q <> [] -> echain (col_edge g) (s :: q) -> simple q -> last q s = t ->
  exists path, In path (column_lineage g b false) /\ eqbl (s :: q) path.
Proof.
  intros Hcs Hct Hroot Hleaf Hpar Hqne Hqch Hqs Hql.
  set (E := col_edge g) in *. pose proof (col_edge_Econg g) as Econg. fold E in Econg.
  (* the start is a node *)
  destruct q as [|y q']; [contradiction Hqne; reflexivity|].
  assert (Hsy : E s y = true) by (exact (proj1 Hqch)).
  destruct (col_edge_cols g s y Hsy) as [Hsc _].
  assert (Hsn : has_node g s = true).
  { unfold E, col_edge in Hsy. apply Bool.andb_true_iff in Hsy. destruct Hsy as [_ Hsy]. apply has_edge_In in Hsy.
    destruct Hsy as (e & He & H1 & _). rewrite (has_node_cong g s _ H1). apply (proj1 (closed_src_In g) Hcs e He). }
  apply has_node_In in Hsn. destruct Hsn as (s0 & Hs0in & Hs0).
  (* the literal path *)
  destruct (literal g (y :: q') s s0 Hs0 Hqch) as (p' & Hsch & Heq).
  assert (Hp'ne : p' <> []) by (inversion Heq; discriminate).
  pose proof (eqbl_simple _ _ Heq Hqs) as Hp's.
  pose proof (eqbl_last _ _ Heq s s0 Hs0) as Hlast. rewrite Hql in Hlast.
  assert (Hs0p' : memn s0 p' = false).
  { rewrite <- (eqbl_memn s s0 _ _ Hs0 Heq). apply (root_not_in E Econg s (y :: q') s Hroot Hqch). }
  pose proof (schain_nodes g Hct p' s0 Hsch) as Hnodes.
  (* the end is a node *)
  pose proof (Hnodes _ (last_In p' s0 Hp'ne)) as Htn. apply has_node_In in Htn. destruct Htn as (t1 & Ht1in & Ht1).
  assert (Htt1 : node_eqb t t1 = true) by (apply (node_eqb_trans _ _ _ Hlast Ht1)).
  assert (Hst : node_eqb s0 t1 = false).
  { destruct (node_eqb s0 t1) eqn:Est; [|reflexivity]. exfalso.
    assert (Hts : node_eqb t s = true).
    { apply (node_eqb_trans _ _ _ Htt1). apply eqb_sym_true. apply (node_eqb_trans _ _ _ Hs0 Est). }
    rewrite <- (Econg t s y y Hts (node_eqb_refl y)), (Hleaf y) in Hsy. discriminate. }
  assert (Hs0c : is_column s0 = true) by (rewrite <- (is_column_eqb _ _ Hs0); exact Hsc).
  assert (Htc' : is_column t = true).
  { destruct (echain_pred E (y :: q') s (last (y :: q') s) Hqch (last_In _ s Hqne)) as (z & Hz). rewrite Hql in Hz.
    apply (col_edge_cols g z t Hz). }
  assert (Ht1c : is_column t1 = true) by (rewrite <- (is_column_eqb _ _ Htt1); exact Htc').
  (* the path is enumerated *)
  assert (Hpf : In p' (paths_from g (List.length (gnodes g)) [s0] s0 t1)).
  { apply paths_from_complete.
    - exact Hp'ne.
    - assert (Hle : List.length (s0 :: p') <= List.length (map fst (gnodes g))).
      { apply simple_length.
        - cbn [simple]. split; [exact Hs0p'|exact Hp's].
        - intros x [Hx|Hx].
          + subst x. apply memn_in_refl. exact Hs0in.
          + rewrite <- has_node_memn. apply (Hnodes x Hx). }
      rewrite map_length in Hle. cbn [List.length] in Hle. lia.
    - exact Hsch.
    - exact Hp's.
    - intros x Hx. unfold memn. cbn [existsb]. rewrite Bool.orb_false_r, node_eqb_sym.
      apply (existsb_memn_false s0 p' x Hs0p' Hx).
    - exact Ht1.
    - intros x Hx. rewrite <- (eqb_cong_r _ _ x Ht1). apply simple_removelast; assumption. }
  exists (s0 :: p'). split.
  - unfold column_lineage. cbv zeta. apply in_flat_map. exists s0. split.
    { apply filter_In. split; [apply In_cols; assumption|]. apply Nat.eqb_eq. apply (indeg_cg g s0 Hs0c).
      apply (root_cong E Econg s s0 Hs0 Hroot). }
    apply in_flat_map. exists t1. split.
    { assert (Ht0 : In t1 (filter (fun n => Nat.eqb (outdeg (column_graph g) n) 0) (map fst (gnodes (column_graph g))))).
      { apply filter_In. split; [apply In_cols; assumption|]. apply Nat.eqb_eq. apply (outdeg_cg g t1 Ht1c).
        apply (leaf_cong E Econg t t1 Htt1 Hleaf). }
      destruct b; [|exact Ht0]. apply filter_In. split; [exact Ht0|].
      rewrite <- (parent_is_eqb _ _ _ Htt1). apply Hpar. reflexivity. }
    apply in_flat_map. exists (s0 :: p'). split.
    { unfold all_simple_paths. rewrite Hst. apply in_map. exact Hpf. }
    destruct p' as [|x1 p'']; [contradiction Hp'ne; reflexivity|]. left. reflexivity.
  - constructor; assumption.
Qed.

Lemma eqbl_hd p p' : eqbl p p' -> node_eqb (hd dflt p) (hd dflt p') = true.
Proof. intros H. destruct H; [reflexivity|assumption]. Qed.

Theorem pairs_complete g b s t : closed_src g = true -> closed_tgt g = true ->
  root (col_edge g) s -> leaf (col_edge g) t -> (b = true -> parent_is KTable t = true) -> tc (col_edge g) s t ->
  reports g b s t.
Proof.
  intros Hcs Hct Hroot Hleaf Hpar Htc.
  pose proof (col_edge_Econg g) as Econg.
  destruct (tc_walk _ s t Htc) as (p & Hpne & Hpch & Hpl).
  destruct (simplify _ Econg p s Hpch Hpne) as (q & Hqne & Hqch & Hqs & Hql). rewrite Hpl in Hql.
  destruct (path_complete g b s q t Hcs Hct Hroot Hleaf Hpar Hqne Hqch Hqs Hql) as (path & Hin & Heq).
  exists path. split; [exact Hin|]. split.
  - apply (eqbl_hd _ _ Heq).
  - pose proof (eqbl_last _ _ Heq dflt dflt (node_eqb_refl _)) as Hl. unfold dflt in Hl at 1. rewrite last_cons, Hql in Hl. exact Hl.
Qed.

(** ** the reported paths themselves *)
Definition good_path (E : node -> node -> bool) (b : bool) (q : list node) : Prop :=
  2 <= List.length q /\ echain E q /\ simple q /\ root E (hd dflt q) /\ leaf E (last q dflt) /\
  (b = true -> parent_is KTable (last q dflt) = true).

Theorem path_sound g b path : col_out_closed g = true -> In path (column_lineage g b false) ->
  good_path (col_edge g) b path.
Proof.
  intros Hco Hin.
  destruct (column_lineage_wf g b path Hin) as (Hlen & Hch & Hsimp & (s0 & r & Hp & Hs0c & Hs0d) & (Hlc & Hld & Hlp)).
  fold dflt in *. split; [exact Hlen|]. split; [|split; [exact Hsimp|split; [|split]]].
  - subst path. apply (chain_cols g Hco r s0 Hs0c Hch).
  - subst path. cbn [hd]. exact (proj1 (indeg_cg g s0 Hs0c) Hs0d).
  - exact (proj1 (outdeg_cg g _ Hlc) Hld).
  - exact Hlp.
Qed.

Lemma eqbl_sym p p' : eqbl p p' -> eqbl p' p.
Proof. induction 1; constructor; [apply eqb_sym_true; assumption|assumption]. Qed.

Lemma eqbl_echain E : (forall a a' b b', node_eqb a a' = true -> node_eqb b b' = true -> E a b = E a' b') ->
  forall p p', eqbl p p' -> echain E p -> echain E p'.
Proof.
  intros Econg p p' H. induction H as [|x x' r r' Hx Hr IH]; [tauto|].
  destruct Hr as [|y y' r r' Hy Hr]; [intros _; exact I|]. intros [Hxy Hch]. split.
  - rewrite <- (Econg x x' y y' Hx Hy). exact Hxy.
  - apply IH. exact Hch.
Qed.

Lemma eqbl_length p p' : eqbl p p' -> List.length p = List.length p'.
Proof. induction 1; cbn [List.length]; congruence. Qed.

Lemma good_path_eqbl E b p p' :
  (forall a a' b b', node_eqb a a' = true -> node_eqb b b' = true -> E a b = E a' b') ->
  eqbl p p' -> good_path E b p -> good_path E b p'.
Proof.
  intros Econg Heq (H1 & H2 & H3 & H4 & H5 & H6).
  pose proof (eqbl_last _ _ Heq dflt dflt (node_eqb_refl _)) as Hl.
  split; [rewrite <- (eqbl_length _ _ Heq); exact H1|]. split; [apply (eqbl_echain E Econg p p' Heq H2)|].
  split; [apply (eqbl_simple p p' Heq H3)|]. split; [apply (root_cong E Econg _ _ (eqbl_hd _ _ Heq) H4)|].
  split; [apply (leaf_cong E Econg _ _ Hl H5)|]. intros Hb. rewrite <- (parent_is_eqb _ _ _ Hl). apply H6; exact Hb.
Qed.

(** the reported paths of a closed graph are, up to node equality, exactly the simple chains of
    column edges that lead from a root to a leaf *)
Theorem paths_graph g b q : cinv g ->
  ((exists path, In path (column_lineage g b false) /\ eqbl q path) <-> good_path (col_edge g) b q).
Proof.
  intros (Hcs & Hct & Hco). split.
  - intros (path & Hin & Heq). apply (good_path_eqbl _ b path q (col_edge_Econg g) (eqbl_sym _ _ Heq)).
    apply path_sound; assumption.
  - intros (H1 & H2 & H3 & H4 & H5 & H6). destruct q as [|s q']; [cbn [List.length] in H1; lia|].
    assert (Hne : q' <> []) by (intros ->; cbn [List.length] in H1; lia).
    cbn [hd] in H4. unfold dflt in H5, H6. rewrite last_cons in H5, H6. destruct H3 as [_ H3].
    apply (path_complete g b s q' (last q' s) Hcs Hct H4 H5 H6 Hne H2 H3 eq_refl).
Qed.

(** the reported end-to-end pairs of a closed graph: exactly the pairs (root, leaf) of the column
    edge relation joined by a non-empty chain of column edges; no acyclicity is needed (columns
    on a cycle are neither roots nor leaves; a walk through a cycle is cut to a simple path) *)
Theorem pairs_graph g b s t : cinv g ->
  (reports g b s t <->
   root (col_edge g) s /\ leaf (col_edge g) t /\ (b = true -> parent_is KTable t = true) /\ tc (col_edge g) s t).
Proof.
  intros (Hcs & Hct & Hco). split.
  - apply pairs_sound; exact Hco.
  - intros (H1 & H2 & H3 & H4). apply pairs_complete; assumption.
Qed.

(** * Composition theorem (C04) *)
(** the dataflow of one statement *)
Definition flow (h : holder) (a b : node) : Prop := col_edge (hg h) a b = true.
(** non-empty relational composition of the dataflows of the statements (in any order, with
    repetition) *)
Inductive composed (hs : list holder) : node -> node -> Prop :=
| co_one h a b : In h hs -> flow h a b -> composed hs a b
| co_step h a b c : In h hs -> flow h a b -> composed hs b c -> composed hs a c.
(** some statement feeds the column / consumes the column *)
Definition fed (hs : list holder) (s : node) : Prop := exists h x, In h hs /\ flow h x s.
Definition consumed (hs : list holder) (t : node) : Prop := exists h y, In h hs /\ flow h t y.

(** what follows from "the column edges of [g] are the union of the statements' dataflows" *)
Section Script.
  Variables (hs : list holder) (g : graph).
  Hypothesis Hun : forall a b, col_edge g a b = true <-> exists h, In h hs /\ col_edge (hg h) a b = true.

  Lemma tc_composed a b : tc (col_edge g) a b <-> composed hs a b.
  Proof.
    split.
    - induction 1 as [a b H|a b c H _ IH].
      + apply Hun in H. destruct H as (h & Hin & H). apply (co_one hs h); assumption.
      + apply Hun in H. destruct H as (h & Hin & H). apply (co_step hs h a b c); assumption.
    - induction 1 as [h a b Hin H|h a b c Hin H _ IH].
      + apply tc_one. apply Hun. exists h. split; assumption.
      + apply (tc_step _ a b c); [|exact IH]. apply Hun. exists h. split; assumption.
  Qed.

  Lemma root_fed s : root (col_edge g) s <-> ~ fed hs s.
  Proof.
    unfold root, fed. split.
    - intros H (h & x & Hin & Hf). assert (Hc : col_edge g x s = true) by (apply Hun; exists h; split; assumption).
      rewrite (H x) in Hc. discriminate.
    - intros H x. destruct (col_edge g x s) eqn:Ec; [|reflexivity]. exfalso. apply H.
      apply Hun in Ec. destruct Ec as (h & Hin & Hf). exists h, x. split; assumption.
  Qed.

  Lemma leaf_consumed t : leaf (col_edge g) t <-> ~ consumed hs t.
  Proof.
    unfold leaf, consumed. split.
    - intros H (h & y & Hin & Hf). assert (Hc : col_edge g t y = true) by (apply Hun; exists h; split; assumption).
      rewrite (H y) in Hc. discriminate.
    - intros H y. destruct (col_edge g t y) eqn:Ec; [|reflexivity]. exfalso. apply H.
      apply Hun in Ec. destruct Ec as (h & Hin & Hf). exists h, y. split; assumption.
  Qed.

  Lemma composition_of_union : cinv g -> forall b s t,
    reports g b s t <->
    ~ fed hs s /\ ~ consumed hs t /\ (b = true -> parent_is KTable t = true) /\ composed hs s t.
  Proof.
    intros Hc b s t. rewrite (pairs_graph g b s t Hc). rewrite root_fed, leaf_consumed, tc_composed. tauto.
  Qed.

  Lemma sound_of_union : col_out_closed g = true -> forall b s t,
    reports g b s t ->
    ~ fed hs s /\ ~ consumed hs t /\ (b = true -> parent_is KTable t = true) /\ composed hs s t.
  Proof.
    intros Hc b s t H. apply (pairs_sound g b s t Hc) in H.
    rewrite root_fed, leaf_consumed, tc_composed in H. exact H.
  Qed.

  Lemma no_start_of_union : col_out_closed g = true -> (forall s, consumed hs s -> fed hs s) ->
    forall b, column_lineage g b false = [].
  Proof.
    intros Hc Hcyc b. destruct (column_lineage g b false) as [|path rest] eqn:El; [reflexivity|]. exfalso.
    assert (Hrep : reports g b (hd dflt path) (last path dflt)).
    { exists path. rewrite El. split; [left; reflexivity|]. split; apply node_eqb_refl. }
    destruct (sound_of_union Hc b _ _ Hrep) as (Hnf & _ & _ & Hco). apply Hnf. apply Hcyc.
    destruct Hco as [h a b' Hin Hf|h a b' c' Hin Hf _]; exists h, b'; split; assumption.
  Qed.
End Script.

(** C04: the reported end-to-end column pairs are the relational composition of the
    per-statement dataflows, restricted to columns that no statement feeds (start) and columns
    that no statement consumes (end; with [b = true]: owned by a table). *)
Theorem c04_composition p hs g : all_plain hs -> all_resolved hs -> all_cwf hs -> build p hs = BOk g ->
  forall b s t,
    reports g b s t <->
    ~ fed hs s /\ ~ consumed hs t /\ (b = true -> parent_is KTable t = true) /\ composed hs s t.
Proof.
  intros Hp Hr Hc Hb. apply (composition_of_union hs g (union_edges p hs g Hp Hr Hb)). apply (build_cinv p hs g Hp Hr Hc Hb).
Qed.

(** the direction "reported => composed" needs one closure condition only *)
Theorem c04_sound p hs g : all_plain hs -> all_resolved hs -> all_col_out hs -> build p hs = BOk g ->
  forall b s t,
    reports g b s t ->
    ~ fed hs s /\ ~ consumed hs t /\ (b = true -> parent_is KTable t = true) /\ composed hs s t.
Proof.
  intros Hp Hr Hc Hb. apply (sound_of_union hs g (union_edges p hs g Hp Hr Hb)). apply (build_col_out p hs g Hp Hr Hc Hb).
Qed.

(** a script whose dataflow has no start (every consumed column is fed, e.g. a cycle of
    statements) reports nothing *)
Theorem c04_no_start p hs g : all_plain hs -> all_resolved hs -> all_col_out hs -> build p hs = BOk g ->
  (forall s, consumed hs s -> fed hs s) -> forall b, column_lineage g b false = [].
Proof.
  intros Hp Hr Hc Hb. apply (no_start_of_union hs g (union_edges p hs g Hp Hr Hb)). apply (build_col_out p hs g Hp Hr Hc Hb).
Qed.

Lemma echain_ext E E' : (forall a b, E a b = E' a b) -> forall p, echain E p -> echain E' p.
Proof.
  intros H. induction p as [|a r IH]; [tauto|]. destruct r as [|b r']; [tauto|]. intros [H1 H2]. split; [rewrite <- H; exact H1|].
  apply IH. exact H2.
Qed.

(** C04 at the level of paths: the reported paths are exactly the simple chains of per-statement
    dataflow edges from a column no statement feeds to a column no statement consumes *)
Theorem c04_paths p hs g : all_plain hs -> all_resolved hs -> all_cwf hs -> build p hs = BOk g ->
  forall b q, (exists path, In path (column_lineage g b false) /\ eqbl q path) <-> good_path (uE hs) b q.
Proof.
  intros Hp Hr Hc Hb b q. rewrite (paths_graph g b q (build_cinv p hs g Hp Hr Hc Hb)).
  pose proof (union_edges_b p hs g Hp Hr Hb) as Hun.
  assert (Hun' : forall a b, uE hs a b = col_edge g a b) by (intros; symmetry; apply Hun).
  unfold good_path, root, leaf. split; intros (H1 & H2 & H3 & H4 & H5 & H6); (split; [exact H1|]); (split; [|split; [exact H3|split; [|split; [|exact H6]]]]).
  - apply (echain_ext _ _ Hun q H2).
  - intros x. rewrite <- Hun. apply H4.
  - intros y. rewrite <- Hun. apply H5.
  - apply (echain_ext _ _ Hun' q H2).
  - intros x. rewrite Hun. apply H4.
  - intros y. rewrite Hun. apply H5.
Qed.

(** * Part E: projection onto table lineage (C06) *)
(** [d] has an incoming dataset -> dataset edge *)
Definition Pin (d : node) (e : node * node * eattrs) : bool := dd e && String.eqb (key (etgt e)) (key d).
Lemma eresp_Pin d : eresp (Pin d).
Proof.
  intros u v a u' v' a' Hu Hv. unfold Pin, dd, esrc, etgt; cbn [fst snd].
  rewrite <- (is_dataset_eqb _ _ Hu), <- (is_dataset_eqb _ _ Hv).
  destruct (is_dataset u); [|reflexivity]. destruct (is_dataset v) eqn:Ev; [|reflexivity].
  rewrite (key_resp _ _ Hv Ev). reflexivity.
Qed.

(** ... or carries the tag target_only: then it is a target or an intermediate table *)
Definition tmark (g : graph) (d : node) : bool :=
  existsb (Pin d) (gedges g) || existsb (Qt "target_only" (key d)) (gnodes g).

Lemma memn_In d l : memn d l = true <-> exists w, In w l /\ node_eqb d w = true.
Proof. unfold memn. apply existsb_exists. Qed.

Lemma tag_set_attr_ne g ns k v k' x : String.eqb k' k = false ->
  existsb (Qt k' x) (gnodes (set_attr g ns k v)) = existsb (Qt k' x) (gnodes g).
Proof. intros H. rewrite tag_set_attr, H. reflexivity. Qed.

Lemma tag_set_attr_eq g ns k x :
  existsb (Qt k x) (gnodes (set_attr g ns k true)) =
  existsb (fun p => Qn x p && (if memn (fst p) ns then true else attr_true k (snd p))) (gnodes g).
Proof. rewrite tag_set_attr, String.eqb_refl. reflexivity. Qed.

Lemma tmark_plain g h g' d : plain_shape (compose g (hg h)) h g' ->
  tag_absent "target_only" (gnodes (hg h)) -> is_dataset d = true ->
  (has_node g d = true /\ tmark g d = true) \/ memn d (h_write h) = true ->
  has_node g' d = true /\ tmark g' d = true.
Proof.
  intros Hs Hab Hd H.
  assert (Hn : has_node g' d = true).
  { rewrite (plain_shape_has_node g h g' d Hs). destruct H as [[H _]|H]; [rewrite H; apply Bool.orb_true_r|].
    apply memn_In in H. destruct H as (w & Hw & E). rewrite (has_node_cong _ _ _ E), (proj2 (h_write_In h w Hw)). reflexivity. }
  split; [exact Hn|].
  assert (Hnc : has_node (compose g (hg h)) d = true).
  { rewrite (plain_shape_has_node g h g' d Hs) in Hn. rewrite has_node_compose. exact Hn. }
  pose proof (existsb_compose (Pin d) g (hg h) (eresp_Pin d)) as Hec.
  pose proof (tag_compose "target_only" (key d) g (hg h) Hab) as Htc.
  assert (Hmono : tmark g d = true ->
          existsb (Pin d) (gedges (compose g (hg h))) || existsb (Qt "target_only" (key d)) (gnodes (compose g (hg h))) = true).
  { unfold tmark. rewrite Hec, Htc. intros H0. apply Bool.orb_true_iff in H0. destruct H0 as [H0|H0]; rewrite H0; [reflexivity|apply Bool.orb_true_r]. }
  unfold tmark. destruct Hs as [Hw|Hr|Hrw].
  - rewrite Hw in H. destruct H as [[_ H]|H]; [|discriminate H].
    cbn [set_attr gedges]. rewrite (tag_set_attr_ne _ _ "source_only" true "target_only" _ eq_refl). apply Hmono; exact H.
  - cbn [set_attr gedges]. rewrite tag_set_attr_eq. destruct H as [[_ H]|H].
    + apply Hmono in H. apply Bool.orb_true_iff in H. destruct H as [H|H]; [rewrite H; reflexivity|].
      apply Bool.orb_true_iff. right. apply existsb_exists in H. destruct H as (q & Hq & HQ). apply existsb_exists. exists q.
      split; [exact Hq|]. unfold Qt in HQ. apply Bool.andb_true_iff in HQ. destruct HQ as [HQ Ha]. unfold Qn. rewrite HQ, Ha.
      destruct (memn (fst q) (h_write h)); reflexivity.
    + apply Bool.orb_true_iff. right. apply has_node_In in Hnc. destruct Hnc as (m & Hm & Hdm).
      apply in_map_iff in Hm. destruct Hm as (q & Hq & Hqin). apply existsb_exists. exists q. split; [exact Hqin|].
      unfold Qn. rewrite Hq, <- (is_dataset_eqb _ _ Hdm), Hd, <- (key_resp _ _ Hdm Hd), String.eqb_refl.
      rewrite <- (memn_cong d m _ Hdm), H. reflexivity.
  - destruct (add_product_spec (h_read h) (h_write h) (compose g (hg h))) as [A1 A2].
    + intros r Hr. rewrite has_node_compose, (proj2 (h_read_In h r Hr)). reflexivity.
    + intros w Hw. rewrite has_node_compose, (proj2 (h_write_In h w Hw)). reflexivity.
    + rewrite A1, (A2 _ (eresp_Pin d)). destruct H as [[_ H]|H].
      * apply Hmono in H. apply Bool.orb_true_iff in H. destruct H as [H|H]; rewrite H; [|apply Bool.orb_true_r].
        rewrite Bool.orb_true_r. reflexivity.
      * apply memn_In in H. destruct H as (w & Hw & E).
        assert (Hne : h_read h <> []) by (apply Hrw; intros Hnil; rewrite Hnil in Hw; destruct Hw).
        assert (Hex : existsb (fun r => existsb (fun w0 => Pin d (r, w0, lineage_edge)) (h_write h)) (h_read h) = true).
        { destruct (h_read h) as [|r0 rr] eqn:Er; [contradiction Hne; reflexivity|].
          assert (Hr0 : In r0 (h_read h)) by (rewrite Er; left; reflexivity).
          cbn [existsb]. apply Bool.orb_true_iff. left. apply existsb_exists. exists w. split; [exact Hw|].
          unfold Pin, dd, esrc, etgt; cbn [fst snd].
          rewrite (proj1 (h_read_In h r0 Hr0)), (proj1 (h_write_In h w Hw)), <- (key_resp _ _ E Hd), String.eqb_refl. reflexivity. }
        rewrite Hex. reflexivity.
Qed.

Lemma tag_free_absent g : tag_free g = true -> tag_absent "target_only" (gnodes g).
Proof.
  unfold tag_free. rewrite forallb_forall. intros W3 q Hin Hd. specialize (W3 q Hin). rewrite Hd in W3. cbn [negb orb] in W3.
  repeat (apply Bool.andb_true_iff in W3; destruct W3 as [W3 ?]).
  destruct (attr_get "target_only" (snd q)); [discriminate|reflexivity].
Qed.

Definition all_tag_free (hs : list holder) : Prop := Forall (fun h => tag_free (hg h) = true) hs.
Definition all_owners (hs : list holder) : Prop := Forall (fun h => owners_dir h = true) hs.

Lemma fold_tmark hs : all_plain hs -> all_tag_free hs -> forall d, is_dataset d = true -> forall g g',
  fold_steps g hs = BOk g' ->
  (has_node g d = true /\ tmark g d = true) \/ (exists h, In h hs /\ memn d (h_write h) = true) ->
  has_node g' d = true /\ tmark g' d = true.
Proof.
  induction 1 as [|h r Hh Hr IH]; intros Htf d Hd g g'; cbn [fold_steps].
  - intros E; inversion E; subst. intros [H|(h & [] & _)]. exact H.
  - inversion Htf as [|h0 r0 Th Tr]; subst. destruct (plain_step g h Hh) as (g1 & E1 & S1). rewrite E1. intros E H.
    apply (IH Tr d Hd g1 g' E).
    destruct H as [H|(h' & [Hin|Hin] & Hm)].
    + left. apply (tmark_plain g h g1 d S1 (tag_free_absent _ Th) Hd). left; exact H.
    + subst h'. left. apply (tmark_plain g h g1 d S1 (tag_free_absent _ Th) Hd). right; exact Hm.
    + right. exists h'. split; assumption.
Qed.

Lemma role_bool (i o sl to : bool) :
  negb i || to = true -> ((o && negb i) || sl || to) || (negb i && negb o && negb sl) = true.
Proof. destruct i, o, sl, to; cbn; intros H; try reflexivity; discriminate H. Qed.

Lemma memn_filter_In d m (f : node -> bool) l : In m l -> node_eqb d m = true -> f m = true -> memn d (filter f l) = true.
Proof. intros Hin E Hf. apply memn_In. exists m. split; [apply filter_In; split; assumption|exact E]. Qed.

(** a marked dataset is a target or an intermediate table of the final graph *)
Lemma tmark_roles g0 d : is_dataset d = true -> has_node g0 d = true -> tmark g0 d = true ->
  let g2 := set_attr g0 (selfloop_nodes g0) "selfloop" true in
  memn d (target_tables g2 ++ intermediate_tables g2) = true.
Proof.
  intros Hd Hn Hm g2.
  apply has_node_In in Hn. destruct Hn as (m & Hmin & Hdm).
  assert (Hmd : is_dataset m = true) by (rewrite <- (is_dataset_eqb _ _ Hdm); exact Hd).
  assert (Hns : map fst (gnodes (table_graph g2)) = dnodes (gnodes g0)).
  { rewrite table_graph_form. cbn [gnodes]. rewrite map_fst_filter_dsp. unfold dnodes, g2. rewrite map_fst_set_attr. reflexivity. }
  assert (Hmin' : In m (map fst (gnodes (table_graph g2)))).
  { rewrite Hns. unfold dnodes. apply filter_In. split; assumption. }
  assert (Hkey : key d = key m) by (apply key_resp; assumption).
  assert (Hcond : negb (Nat.eqb (indeg (table_graph g2) m) 0) || memn m (retrieve_tag g2 "target_only") = true).
  { unfold tmark in Hm. apply Bool.orb_true_iff in Hm. destruct Hm as [Hm|Hm]; apply Bool.orb_true_iff.
    - left. apply Bool.negb_true_iff. apply Nat.eqb_neq. intros Hz.
      unfold indeg, in_edges in Hz. rewrite table_graph_form in Hz. cbn [gedges] in Hz. unfold g2 in Hz. cbn [set_attr gedges] in Hz.
      rewrite length_filter_zero in Hz. apply existsb_exists in Hm. destruct Hm as (e & He & HP). unfold Pin in HP.
      apply Bool.andb_true_iff in HP. destruct HP as [Hdd Hk]. apply String.eqb_eq in Hk.
      assert (Hin : In e (filter dd (gedges g0))) by (apply filter_In; split; assumption).
      specialize (Hz e Hin). cbv beta in Hz.
      assert (Hme : node_eqb m (etgt e) = true) by (apply key_inj; [exact Hmd|congruence]).
      unfold etgt in Hme. rewrite Hme in Hz. discriminate.
    - right. unfold g2. rewrite (tag_g2_other g0 _ "target_only" m Hmd eq_refl), mem_tag_keys, <- Hkey. exact Hm. }
  apply role_bool with (o := Nat.eqb (outdeg (table_graph g2) m) 0) (sl := memn m (retrieve_tag g2 "selfloop")) in Hcond.
  rewrite memn_app. apply Bool.orb_true_iff. apply Bool.orb_true_iff in Hcond. destruct Hcond as [Hc|Hc]; [left|right].
  - unfold target_tables. cbv zeta. apply (memn_filter_In d m _ _ Hmin' Hdm). exact Hc.
  - unfold intermediate_tables. cbv zeta. apply (memn_filter_In d m _ _ Hmin' Hdm). exact Hc.
Qed.

(** ** owners *)
Lemma owner_in_cong a b l : node_eqb a b = true -> owner_in a l = owner_in b l.
Proof.
  destruct a as [x|x|x], b as [y|y|y]; cbn [node_eqb]; intros H; try discriminate H; try reflexivity.
  unfold col_eqb in H. apply Bool.andb_true_iff in H. destruct H as [_ H].
  unfold owner_in, ds_owner, owner. destruct (col_parent x) as [dx|], (col_parent y) as [dy|]; cbn [opt_dataset_eqb] in H;
    try discriminate H; try reflexivity.
  assert (E : node_eqb (NData dx) (NData dy) = true) by exact H.
  rewrite (is_dataset_eqb _ _ E). destruct (is_dataset (NData dy)); [|reflexivity]. apply memn_cong. exact E.
Qed.

Lemma ds_owner_ds n d : ds_owner n = Some d -> is_dataset d = true.
Proof.
  unfold ds_owner. destruct (owner n) as [d0|]; [|discriminate]. destruct (is_dataset (NData d0)) eqn:E; [|discriminate].
  intros H; inversion H; subst. exact E.
Qed.

Lemma flow_owner h a b : owners_dir h = true -> col_edge (hg h) a b = true ->
  owner_in a (h_read h) = true /\ owner_in b (h_write h) = true.
Proof.
  unfold owners_dir. rewrite forallb_forall. intros Ho Hc. destruct (col_edge_cols _ _ _ Hc) as [Ca Cb].
  unfold col_edge in Hc. apply Bool.andb_true_iff in Hc. destruct Hc as [_ Hc]. apply has_edge_In in Hc.
  destruct Hc as (e & He & H1 & H2). specialize (Ho e He).
  assert (Hcc : is_cc e = true).
  { unfold is_cc. rewrite <- (is_column_eqb _ _ H1), <- (is_column_eqb _ _ H2), Ca, Cb. reflexivity. }
  rewrite Hcc in Ho. cbn [negb orb] in Ho. apply Bool.andb_true_iff in Ho. destruct Ho as [O1 O2].
  rewrite (owner_in_cong a _ _ H1), (owner_in_cong b _ _ H2). split; assumption.
Qed.

(** C06: every reported path projects onto table lineage.  On a reported path every column
    but the first one belongs (when its owner is a Table or a Path) to a target or intermediate
    table of the script; every column but the last one to a dataset that some statement reads. *)
Theorem c06_projection p hs g b path :
  all_plain hs -> all_resolved hs -> all_col_out hs -> all_tag_free hs -> all_owners hs ->
  build p hs = BOk g -> In path (column_lineage g b false) ->
  (forall n, In n (tl path) -> owner_in n (target_tables g ++ intermediate_tables g) = true) /\
  (forall n, In n (removelast path) -> exists h, In h hs /\ owner_in n (h_read h) = true).
Proof.
  intros Hp Hr Hco Htf Hown Hb Hin.
  destruct (column_lineage_wf g b path Hin) as (_ & Hch & _ & (s0 & r & Hpath & Hs0c & _) & _). subst path.
  destruct (chain_cols g (build_col_out p hs g Hp Hr Hco Hb) r s0 Hs0c Hch) as [Hech _].
  pose proof (col_edge_Econg g) as Econg.
  pose proof (union_edges p hs g Hp Hr Hb) as Hun.
  destruct (build_plain p hs Hp Hr) as (g0 & E0 & _ & E' & _). rewrite E' in Hb. inversion Hb as [Hg].
  assert (Hflow : forall x y, col_edge g x y = true -> exists h, In h hs /\ col_edge (hg h) x y = true /\ owners_dir h = true).
  { intros x y Hxy. apply Hun in Hxy. destruct Hxy as (h & Hh & Hf). exists h. split; [exact Hh|]. split; [exact Hf|].
    apply (proj1 (Forall_forall _ hs) Hown h Hh). }
  split.
  - intros n Hn. cbn [tl] in Hn. destruct (echain_pred _ r s0 n Hech Hn) as (x & Hx).
    destruct (Hflow x n Hx) as (h & Hh & Hf & Ho). destruct (flow_owner h x n Ho Hf) as [_ Hw].
    unfold owner_in in *. destruct (ds_owner n) as [d|] eqn:Ed; [|reflexivity].
    pose proof (ds_owner_ds n d Ed) as Hd.
    destruct (fold_tmark hs Hp Htf d Hd empty_graph g0 E0) as [Hn0 Hm0].
    { right. exists h. split; assumption. }
    apply (tmark_roles g0 d Hd Hn0 Hm0).
  - intros n Hn. destruct (echain_succ _ r s0 n Hech Hn) as (y & Hy).
    destruct (Hflow n y Hy) as (h & Hh & Hf & Ho). exists h. split; [exact Hh|]. apply (flow_owner h n y Ho Hf).
Qed.

(** the same for the two ends of a path, as C06 states it: the owner of the last column is a
    target or intermediate table, the owner of the first column is read by some statement *)
Lemma owner_in_memn n d l : owner n = Some d -> is_dataset (NData d) = true -> owner_in n l = memn (NData d) l.
Proof. intros Ho Hd. unfold owner_in, ds_owner. rewrite Ho, Hd. reflexivity. Qed.

Corollary c06_ends p hs g b path :
  all_plain hs -> all_resolved hs -> all_col_out hs -> all_tag_free hs -> all_owners hs ->
  build p hs = BOk g -> In path (column_lineage g b false) ->
  (forall d, owner (last path dflt) = Some d -> is_dataset (NData d) = true ->
             memn (NData d) (target_tables g ++ intermediate_tables g) = true) /\
  (forall d, owner (hd dflt path) = Some d -> is_dataset (NData d) = true ->
             exists h, In h hs /\ memn (NData d) (h_read h) = true) /\
  (b = true -> exists d, owner (last path dflt) = Some d /\ dk d = KTable).
Proof.
  intros Hp Hr Hco Htf Hown Hb Hin.
  destruct (c06_projection p hs g b path Hp Hr Hco Htf Hown Hb Hin) as [P1 P2].
  destruct (column_lineage_wf g b path Hin) as (Hlen & _ & _ & (s0 & r & Hpath & _ & _) & (_ & _ & Hpar)). subst path.
  assert (Hne : r <> []) by (intros ->; cbn [List.length] in Hlen; lia).
  split; [|split].
  - intros d Ho Hd. rewrite <- (owner_in_memn _ d _ Ho Hd). apply P1. cbn [tl]. unfold dflt. rewrite last_cons.
    apply last_In. exact Hne.
  - intros d Ho Hd. destruct (P2 s0) as (h & Hh & Hoi).
    { destruct r as [|x r']; [contradiction Hne; reflexivity|]. left. reflexivity. }
    exists h. split; [exact Hh|]. rewrite <- (owner_in_memn _ d _ Ho Hd). exact Hoi.
  - intros Hbt. specialize (Hpar Hbt). fold dflt in Hpar. unfold parent_is in Hpar. unfold owner.
    destruct (last (s0 :: r) dflt) as [x|c|x]; try discriminate Hpar.
    destruct (col_parent c) as [d|]; [|discriminate Hpar]. exists d. split; [reflexivity|]. apply dkind_beq_eq. exact Hpar.
Qed.

(** * exclude_subquery_columns = True: the third list the tie compares
    is the image of the second one under "drop the sub-query columns, keep what still has a hop" *)
Definition drop_subq (path : list node) : list node := filter (fun n => negb (parent_is KSubq n)) path.
Definition keep_hop (q : list node) : list (list node) := if Nat.ltb 1 (List.length q) then [q] else [].

Lemma flat_map_flat_map {A B C} (f : A -> list B) (k : B -> list C) l :
  flat_map k (flat_map f l) = flat_map (fun x => flat_map k (f x)) l.
Proof. induction l as [|a r IH]; cbn [flat_map]; [reflexivity|]. rewrite flat_map_app, IH. reflexivity. Qed.

Lemma filter_length_le {A} (f : A -> bool) l : List.length (filter f l) <= List.length l.
Proof. induction l as [|a r IH]; cbn [filter List.length]; [lia|]. destruct (f a); cbn [List.length]; lia. Qed.

Theorem column_lineage_subq g b :
  column_lineage g b true = flat_map (fun path => keep_hop (drop_subq path)) (column_lineage g b false).
Proof.
  unfold column_lineage. cbv zeta. rewrite flat_map_flat_map. apply flat_map_ext. intros s.
  rewrite flat_map_flat_map. apply flat_map_ext. intros t.
  rewrite flat_map_flat_map. apply flat_map_ext. intros path. cbv beta iota. fold (drop_subq path). fold (keep_hop (drop_subq path)).
  destruct (Nat.ltb 1 (List.length path)) eqn:E; cbn [flat_map]; [rewrite app_nil_r; reflexivity|].
  unfold keep_hop. apply Nat.ltb_ge in E. pose proof (filter_length_le (fun n => negb (parent_is KSubq n)) path) as Hle.
  fold (drop_subq path) in Hle. destruct (Nat.ltb 1 (List.length (drop_subq path))) eqn:E2; [|reflexivity].
  apply Nat.ltb_lt in E2. lia.
Qed.

Lemma tl_filter_In {A} (f : A -> bool) l x : In x (tl (filter f l)) -> In x (tl l).
Proof.
  destruct l as [|a r]; [intros []|]. cbn [filter tl]. destruct (f a); cbn [tl].
  - intros H. apply filter_In in H. exact (proj1 H).
  - intros H. assert (H' : In x (filter f r)) by (destruct (filter f r); [destruct H|right; exact H]).
    apply filter_In in H'. exact (proj1 H').
Qed.

Lemma removelast_In {A} (l : list A) x : In x (removelast l) -> In x l.
Proof.
  induction l as [|a r IH]; [intros []|]. destruct r as [|b r']; [intros []|].
  change (In x (a :: removelast (b :: r')) -> In x (a :: b :: r')). intros [H|H]; [left; exact H|right; apply IH; exact H].
Qed.

Lemma removelast_filter_In {A} (f : A -> bool) l x : In x (removelast (filter f l)) -> In x (removelast l).
Proof.
  destruct l as [|a0 r0] eqn:El; [intros []|]. rewrite <- El.
  assert (Hne : l <> []) by (rewrite El; discriminate).
  rewrite (app_removelast_last a0 Hne) at 1. rewrite filter_app. cbn [filter]. destruct (f (last l a0)).
  - rewrite removelast_app; [|discriminate]. cbn [removelast]. rewrite app_nil_r. intros H. apply filter_In in H. exact (proj1 H).
  - rewrite app_nil_r. intros H. apply removelast_In in H. apply filter_In in H. exact (proj1 H).
Qed.

(** projection for the paths without sub-query columns *)
Corollary c06_projection_subq p hs g b path' :
  all_plain hs -> all_resolved hs -> all_col_out hs -> all_tag_free hs -> all_owners hs ->
  build p hs = BOk g -> In path' (column_lineage g b true) ->
  (forall n, In n (tl path') -> owner_in n (target_tables g ++ intermediate_tables g) = true) /\
  (forall n, In n (removelast path') -> exists h, In h hs /\ owner_in n (h_read h) = true).
Proof.
  intros Hp Hr Hco Htf Hown Hb Hin. rewrite column_lineage_subq in Hin. apply in_flat_map in Hin.
  destruct Hin as (path & Hpath & Hin). unfold keep_hop in Hin. destruct (Nat.ltb 1 (List.length (drop_subq path))); [|destruct Hin].
  destruct Hin as [<-|[]]. destruct (c06_projection p hs g b path Hp Hr Hco Htf Hown Hb Hpath) as [P1 P2]. split.
  - intros n Hn. apply P1. apply (tl_filter_In _ _ _ Hn).
  - intros n Hn. apply P2. apply (removelast_filter_In _ _ _ Hn).
Qed.

(** * A generalisation of the union theorem: unresolved columns that stay unresolved.
    [resolve_quiet] is evaluated on the accumulated graph (after the selfloop tagging). *)
Theorem union_edges_quiet p hs g0 : all_plain hs -> fold_steps empty_graph hs = BOk g0 ->
  resolve_quiet p (set_attr g0 (selfloop_nodes g0) "selfloop" true) = true ->
  exists g, build p hs = BOk g /\ forall a b, col_edge g a b = uE hs a b.
Proof.
  intros Hp E0 Hq. unfold build. rewrite E0. eexists. split; [reflexivity|]. intros a b.
  rewrite (resolve_all_quiet_col p _ a b Hq), col_edge_set_attr.
  destruct (fold_col_edges hs Hp empty_graph) as (g0' & E0' & H0). rewrite E0 in E0'. inversion E0'; subst g0'.
  rewrite H0. unfold col_edge at 1, has_edge. cbn [empty_graph gedges has_edge_l]. rewrite !Bool.andb_false_r. reflexivity.
Qed.

(** * DROP statements: union and composition still hold
    ([do_drops] only removes nodes of degree zero: no edge changes, no column of a path
    disappears).  RENAME is excluded here; projection needs plain holders, see CompDefs. *)
Definition all_norename (hs : list holder) : Prop := Forall (fun h => norename_holder h = true) hs.

Lemma gedges_do_drops ds : forall g, gedges (do_drops ds g) = gedges g.
Proof.
  induction ds as [|t r IH]; intros g; cbn [do_drops]; [reflexivity|].
  destruct (has_node g t && Nat.eqb (degree g t) 0) eqn:E; rewrite IH; [|reflexivity].
  apply Bool.andb_true_iff in E. apply gedges_remove_isolated. exact (proj2 E).
Qed.

Lemma nodes_do_drops ds : forall g n, In n (map fst (gnodes (do_drops ds g))) -> In n (map fst (gnodes g)).
Proof.
  induction ds as [|t r IH]; intros g n; cbn [do_drops]; [tauto|]. intros H. apply IH in H.
  destruct (has_node g t && Nat.eqb (degree g t) 0); [|exact H].
  rewrite gnodes_remove_node in H. apply in_map_iff in H. destruct H as (q & Hq & Hin). apply filter_In in Hin.
  apply in_map_iff. exists q. split; [exact Hq|exact (proj1 Hin)].
Qed.

Lemma degree_cong g a b : node_eqb a b = true -> degree g a = degree g b.
Proof.
  intros H. unfold degree, out_edges, in_edges. f_equal; f_equal; apply filter_ext; intros e; apply node_eqb_cong_l; exact H.
Qed.

Lemma has_node_do_drops ds : forall g n, has_node g n = true -> Nat.eqb (degree g n) 0 = false ->
  has_node (do_drops ds g) n = true.
Proof.
  induction ds as [|t r IH]; intros g n Hn Hd; cbn [do_drops]; [exact Hn|].
  destruct (has_node g t && Nat.eqb (degree g t) 0) eqn:E; [|apply IH; assumption].
  apply Bool.andb_true_iff in E. destruct E as [_ E]. apply IH.
  - rewrite has_node_remove, Hn. destruct (node_eqb t n) eqn:Etn; [|reflexivity].
    rewrite (degree_cong g t n Etn) in E. rewrite E in Hd. discriminate.
  - rewrite (degree_edges g (remove_node g t) n (gedges_remove_isolated g t E)). exact Hd.
Qed.

Lemma degree_src g e : In e (gedges g) -> Nat.eqb (degree g (esrc e)) 0 = false.
Proof.
  intros He. rewrite degree_zero. apply Bool.negb_false_iff. apply existsb_exists. exists e. split; [exact He|].
  unfold Pinc. rewrite node_eqb_refl. reflexivity.
Qed.
Lemma degree_tgt g e : In e (gedges g) -> Nat.eqb (degree g (etgt e)) 0 = false.
Proof.
  intros He. rewrite degree_zero. apply Bool.negb_false_iff. apply existsb_exists. exists e. split; [exact He|].
  unfold Pinc. rewrite node_eqb_refl. apply Bool.orb_true_r.
Qed.

Lemma cinv_compose g h : cinv g -> cinv h -> cinv (compose g h).
Proof.
  intros (S1 & T1 & C1) (S2 & T2 & C2). split; [|split].
  - rewrite closed_src_existsb, (existsb_compose _ g h (eresp_Pns _)). apply Bool.negb_true_iff, Bool.orb_false_iff.
    split; apply existsb_all_false; intros e He; unfold Pns; apply Bool.negb_false_iff; rewrite has_node_compose.
    + rewrite (proj1 (closed_src_In g) S1 e He). apply Bool.orb_true_r.
    + rewrite (proj1 (closed_src_In h) S2 e He). reflexivity.
  - apply closed_compose; assumption.
  - rewrite col_out_existsb, (existsb_compose _ g h eresp_Pco). rewrite col_out_existsb in C1, C2.
    apply Bool.negb_true_iff in C1, C2. rewrite C1, C2. reflexivity.
Qed.

Lemma cinv_do_drops ds g : cinv g -> cinv (do_drops ds g).
Proof.
  intros (S1 & T1 & C1). split; [|split].
  - apply closed_src_In. intros e He. rewrite gedges_do_drops in He.
    apply has_node_do_drops; [apply (proj1 (closed_src_In g) S1 e He)|apply degree_src; exact He].
  - apply closed_In. intros e He. rewrite gedges_do_drops in He.
    apply has_node_do_drops; [apply (proj1 (closed_In g) T1 e He)|apply degree_tgt; exact He].
  - unfold col_out_closed. rewrite gedges_do_drops. exact C1.
Qed.

Lemma rinv_compose g h : rinv g -> rinv h -> rinv (compose g h).
Proof.
  intros [Ng Sg] [Nh Sh]. split; [apply nodes_ok_compose; assumption|apply srcs_ok_compose; assumption].
Qed.

Lemma rinv_do_drops ds g : rinv g -> rinv (do_drops ds g).
Proof.
  intros [Ng Sg]. split.
  - intros n Hn. apply Ng. apply (nodes_do_drops ds g n Hn).
  - intros e He. rewrite gedges_do_drops in He. apply Sg; exact He.
Qed.

(** what the union and composition theorems use of a step *)
Record good_step (g : graph) (h : holder) (g' : graph) : Prop := {
  gs_edges : forall a b, col_edge g' a b = col_edge g a b || col_edge (hg h) a b;
  gs_rinv : rinv g -> rinv (hg h) -> rinv g';
  gs_cinv : cinv g -> cinv (hg h) -> cinv g';
  gs_col_out : col_out_closed g = true -> col_out_closed (hg h) = true -> col_out_closed g' = true
}.

Lemma norename_step g h : norename_holder h = true -> exists g', step g h = BOk g' /\ good_step g h g'.
Proof.
  intros Hn. destruct (h_drop h) as [|d0 dr] eqn:Ed.
  - assert (Hp : plain_holder h = true) by (unfold plain_holder; rewrite Ed; exact Hn).
    destruct (plain_step g h Hp) as (g' & E & S). exists g'. split; [exact E|]. constructor.
    + intros a b. apply (col_edge_plain g h g' a b S).
    + apply (rinv_plain g h g' S).
    + apply (cinv_plain g h g' S).
    + apply (col_out_plain g h g' S).
  - exists (do_drops (h_drop h) (compose g (hg h))). split; [unfold step; rewrite Ed; reflexivity|]. constructor.
    + intros a b. unfold col_edge, has_edge. rewrite gedges_do_drops. fold (has_edge (compose g (hg h)) a b).
      rewrite has_edge_compose. destruct (is_column a && is_column b); reflexivity.
    + intros R1 R2. apply rinv_do_drops. apply rinv_compose; assumption.
    + intros C1 C2. apply cinv_do_drops. apply cinv_compose; assumption.
    + intros C1 C2. unfold col_out_closed. rewrite gedges_do_drops. fold (col_out_closed (compose g (hg h))).
      rewrite col_out_existsb, (existsb_compose _ g (hg h) eresp_Pco). rewrite col_out_existsb in C1, C2.
      apply Bool.negb_true_iff in C1, C2. rewrite C1, C2. reflexivity.
Qed.

Lemma fold_norename hs : all_norename hs -> forall g,
  exists g', fold_steps g hs = BOk g' /\
    (forall a b, col_edge g' a b = col_edge g a b || uE hs a b) /\
    (all_resolved hs -> rinv g -> rinv g') /\
    (all_cwf hs -> cinv g -> cinv g') /\
    (all_col_out hs -> col_out_closed g = true -> col_out_closed g' = true).
Proof.
  induction 1 as [|h r Hh Hr IH]; intros g; cbn [fold_steps].
  - exists g. split; [reflexivity|]. split; [intros a b; cbn; rewrite Bool.orb_false_r; reflexivity|]. tauto.
  - destruct (norename_step g h Hh) as (g1 & E1 & [G1 G2 G3 G4]). rewrite E1.
    destruct (IH g1) as (g' & E' & H1 & H2 & H3 & H4). exists g'. split; [exact E'|]. split; [|split; [|split]].
    + intros a b. rewrite H1, G1. unfold uE; cbn [existsb]. rewrite Bool.orb_assoc. reflexivity.
    + intros Ha Rg. inversion Ha; subst. apply H2; [assumption|]. apply G2; [exact Rg|]. apply resolved_graph_rinv. assumption.
    + intros Ha Cg. inversion Ha; subst. apply H3; [assumption|]. apply G3; [exact Cg|]. apply cwf_graph_cinv. assumption.
    + intros Ha Cg. inversion Ha; subst. apply H4; [assumption|]. apply G4; assumption.
Qed.

Lemma build_norename p hs : all_norename hs -> all_resolved hs ->
  exists g, build p hs = BOk g /\ (forall a b, col_edge g a b = uE hs a b) /\
            (all_cwf hs -> cinv g) /\ (all_col_out hs -> col_out_closed g = true).
Proof.
  intros Hn Hr. destruct (fold_norename hs Hn empty_graph) as (g0 & E0 & H1 & H2 & H3 & H4).
  pose proof (H2 Hr rinv_empty) as R0. eexists. split; [|split; [|split]].
  - unfold build. rewrite E0, (resolve_all_resolved p _ (rinv_set_attr g0 _ _ _ R0)). reflexivity.
  - intros a b. rewrite col_edge_set_attr, H1. unfold col_edge at 1, has_edge. cbn [empty_graph gedges has_edge_l].
    rewrite !Bool.andb_false_r. reflexivity.
  - intros Hc. apply cinv_set_attr. apply (H3 Hc cinv_empty).
  - intros Hc. apply (H4 Hc eq_refl).
Qed.

Theorem union_edges_norename p hs g : all_norename hs -> all_resolved hs -> build p hs = BOk g ->
  forall a b, col_edge g a b = true <-> exists h, In h hs /\ col_edge (hg h) a b = true.
Proof.
  intros Hn Hr Hb a b. destruct (build_norename p hs Hn Hr) as (g' & E & H & _). rewrite E in Hb. inversion Hb; subst g'.
  rewrite H. unfold uE. rewrite existsb_exists. tauto.
Qed.

Theorem c04_composition_norename p hs g : all_norename hs -> all_resolved hs -> all_cwf hs -> build p hs = BOk g ->
  forall b s t,
    reports g b s t <->
    ~ fed hs s /\ ~ consumed hs t /\ (b = true -> parent_is KTable t = true) /\ composed hs s t.
Proof.
  intros Hn Hr Hc Hb. apply (composition_of_union hs g (union_edges_norename p hs g Hn Hr Hb)).
  destruct (build_norename p hs Hn Hr) as (g' & E & _ & H & _). rewrite E in Hb. inversion Hb; subst g'. apply H; exact Hc.
Qed.

(** * RENAME statements: union and composition hold for every script that builds
    (RENAME pairs are datasets: W2 of RefineDefs implies it).  A RENAME relabels dataset nodes
    only; the column nodes keep their owner, which is why projection fails (CompDefs.cx_rename). *)
Definition all_rename_ok (hs : list holder) : Prop := Forall (fun h => rename_ok h = true) hs.

Lemma col_rename_eqb a old new x : is_column a = true -> is_dataset old = true -> is_dataset new = true ->
  node_eqb a (rename_node old new x) = node_eqb a x.
Proof.
  intros Ha Ho Hn. unfold rename_node. destruct (node_eqb x old) eqn:E; [|reflexivity].
  rewrite (col_ds_neq a new Ha Hn). symmetry. apply col_ds_neq; [exact Ha|]. rewrite (is_dataset_eqb _ _ E). exact Ho.
Qed.

Lemma rename_is_column old new x : is_dataset old = true -> is_dataset new = true ->
  is_column (rename_node old new x) = is_column x.
Proof.
  intros Ho Hn. unfold rename_node. destruct (node_eqb x old) eqn:E; [|reflexivity].
  rewrite (ds_not_col new Hn). symmetry. apply ds_not_col. rewrite (is_dataset_eqb _ _ E). exact Ho.
Qed.

Lemma col_edge_relabel g old new a b : is_dataset old = true -> is_dataset new = true ->
  col_edge (relabel g old new) a b = col_edge g a b.
Proof.
  intros Ho Hn. destruct (has_node g old) eqn:Hp; [|rewrite (relabel_absent_g g old new Hp); reflexivity].
  unfold col_edge. destruct (is_column a) eqn:Ha; [|reflexivity]. destruct (is_column b) eqn:Hb; [|reflexivity]. cbn [andb].
  unfold has_edge. rewrite !has_edge_existsb, (existsb_relabel _ g old new (eresp_edge_is a b) Hp).
  apply existsb_ext'. intros e. unfold edge_is, esrc, etgt; cbn [fst snd].
  rewrite (col_rename_eqb a old new _ Ha Ho Hn), (col_rename_eqb b old new _ Hb Ho Hn). reflexivity.
Qed.

Lemma col_edge_remove_ds_edge g n g' a b : is_dataset n = true -> remove_edge g n n = Some g' ->
  col_edge g' a b = col_edge g a b.
Proof.
  intros Hn E. rewrite (remove_edge_form _ _ _ _ E). unfold col_edge. destruct (is_column a) eqn:Ha; [|reflexivity].
  destruct (is_column b); [|reflexivity]. cbn [andb]. unfold has_edge. cbn [gedges]. rewrite !has_edge_existsb, existsb_filter.
  apply existsb_ext'. intros e. destruct (edge_is a b e) eqn:Ee; [|reflexivity]. cbn [andb]. apply Bool.negb_true_iff.
  unfold edge_is in *. apply Bool.andb_true_iff in Ee. destruct Ee as [E1 _].
  assert (Hc : is_column (fst (fst e)) = true) by (rewrite <- (is_column_eqb _ _ E1); exact Ha).
  destruct (node_eqb n (fst (fst e))) eqn:En; [|reflexivity].
  rewrite (is_column_eqb _ _ (eqb_sym_true _ _ En)), (ds_not_col n Hn) in Hc. discriminate.
Qed.

Lemma col_edge_remove_isolated g n a b : Nat.eqb (degree g n) 0 = true -> col_edge (remove_node g n) a b = col_edge g a b.
Proof. intros H. unfold col_edge, has_edge. rewrite (gedges_remove_isolated g n H). reflexivity. Qed.

(** ** node objects *)
Lemma nodes_relabel g old new n : In n (map fst (gnodes (relabel g old new))) -> n = new \/ In n (map fst (gnodes g)).
Proof.
  destruct (has_node g old) eqn:Hp; [|rewrite (relabel_absent_g g old new Hp); tauto].
  rewrite (relabel_present g old new Hp). cbn [gnodes]. rewrite map_fst_merge. intros H. apply In_nadd_all in H.
  destruct H as [H|[]]. rewrite map_map in H. cbn [fst] in H. apply in_map_iff in H. destruct H as (q & Hq & Hin).
  unfold rename_node in Hq. destruct (node_eqb (fst q) old); [left; symmetry; exact Hq|]. right. subst n. apply in_map. exact Hin.
Qed.

Lemma rinv_relabel g old new : is_dataset new = true -> rinv g -> rinv (relabel g old new).
Proof.
  intros Hn [Ng Sg]. assert (Nr : nodes_ok resolvedn (relabel g old new)).
  { intros n Hin. apply nodes_relabel in Hin. destruct Hin as [->|Hin]; [apply resolvedn_ds; exact Hn|apply Ng; exact Hin]. }
  split; [exact Nr|]. destruct (has_node g old) eqn:Hp; [|rewrite (relabel_absent_g g old new Hp); exact Sg].
  intros e He. pose proof Nr as Nr'. rewrite (relabel_present g old new Hp) in He, Nr'. cbn [gedges] in He.
  apply In_fold_edges in He. destruct He as [(e0 & [] & _)|(e0 & H0 & H1)]. unfold esrc at 1. rewrite H1. cbn [fst].
  match goal with |- resolvedn (canon_l ?x ?l) = true => destruct (canon_l_cases x l) as [Hc|Hc] end.
  - rewrite Hc. unfold rename_node. destruct (node_eqb (esrc e0) old); [apply resolvedn_ds; exact Hn|apply Sg; exact H0].
  - apply Nr'. exact Hc.
Qed.

Lemma rinv_remove_edge g u v g' : remove_edge g u v = Some g' -> rinv g -> rinv g'.
Proof.
  intros E [Ng Sg]. rewrite (remove_edge_form _ _ _ _ E). split; [exact Ng|].
  intros e He. cbn [gedges] in He. apply filter_In in He. apply Sg. exact (proj1 He).
Qed.

Lemma rinv_remove_node g n : rinv g -> rinv (remove_node g n).
Proof.
  intros [Ng Sg]. split.
  - intros m Hm. rewrite gnodes_remove_node in Hm. apply in_map_iff in Hm. destruct Hm as (q & Hq & Hin). apply filter_In in Hin.
    apply Ng. apply in_map_iff. exists q. split; [exact Hq|exact (proj1 Hin)].
  - intros e He. unfold remove_node in He. cbn [gedges] in He. apply filter_In in He. apply Sg. exact (proj1 He).
Qed.

(** ** closure *)
Lemma cinv_relabel g old new : is_dataset old = true -> is_dataset new = true -> cinv g -> cinv (relabel g old new).
Proof.
  intros Ho Hn (S1 & T1 & C1). destruct (has_node g old) eqn:Hp; [|rewrite (relabel_absent_g g old new Hp); repeat split; assumption].
  split; [|split].
  - rewrite closed_src_existsb, (existsb_relabel _ g old new (eresp_Pns _) Hp). apply Bool.negb_true_iff.
    apply existsb_all_false. intros e Hin. unfold Pns, esrc; cbn [fst]. apply Bool.negb_false_iff.
    apply has_node_relabel; [exact Hp|]. apply (proj1 (closed_src_In g) S1 e Hin).
  - apply closed_relabel. exact T1.
  - rewrite col_out_existsb, (existsb_relabel _ g old new eresp_Pco Hp). rewrite col_out_existsb in C1.
    apply Bool.negb_true_iff in C1. apply Bool.negb_true_iff. rewrite <- C1. apply existsb_ext'. intros e.
    unfold Pco, esrc, etgt; cbn [fst snd]. rewrite !(rename_is_column old new _ Ho Hn). reflexivity.
Qed.

Lemma cinv_remove_edge g u v g' : remove_edge g u v = Some g' -> cinv g -> cinv g'.
Proof.
  intros E (S1 & T1 & C1). pose proof (remove_edge_form _ _ _ _ E) as F. split; [|split].
  - apply closed_src_In. intros e He. rewrite F in He. cbn [gedges] in He. apply filter_In in He.
    unfold has_node. rewrite (remove_edge_nodes _ _ _ _ E). apply (proj1 (closed_src_In g) S1 e (proj1 He)).
  - apply (closed_remove_edge _ _ _ _ E T1).
  - apply col_out_In. intros e He. rewrite F in He. cbn [gedges] in He. apply filter_In in He.
    apply (proj1 (col_out_In g) C1 e (proj1 He)).
Qed.

Lemma cinv_remove_isolated g n : Nat.eqb (degree g n) 0 = true -> cinv g -> cinv (remove_node g n).
Proof.
  intros Hz (S1 & T1 & C1). pose proof (gedges_remove_isolated g n Hz) as F.
  assert (Hne : forall v, Nat.eqb (degree g v) 0 = false -> node_eqb n v = false).
  { intros v Hv. destruct (node_eqb n v) eqn:E; [|reflexivity]. rewrite (degree_cong g n v E), Hv in Hz. discriminate. }
  split; [|split].
  - apply closed_src_In. intros e He. rewrite F in He. rewrite has_node_remove, (proj1 (closed_src_In g) S1 e He).
    rewrite (Hne _ (degree_src g e He)). reflexivity.
  - apply closed_In. intros e He. rewrite F in He. rewrite has_node_remove, (proj1 (closed_In g) T1 e He).
    rewrite (Hne _ (degree_tgt g e He)). reflexivity.
  - unfold col_out_closed. rewrite F. exact C1.
Qed.

Lemma col_out_of_cinv_free g g' : (forall e, In e (gedges g') -> In e (gedges g)) -> col_out_closed g = true -> col_out_closed g' = true.
Proof. intros H C. apply col_out_In. intros e He. apply (proj1 (col_out_In g) C e (H e He)). Qed.

Lemma col_out_relabel g old new : is_dataset old = true -> is_dataset new = true ->
  col_out_closed g = true -> col_out_closed (relabel g old new) = true.
Proof.
  intros Ho Hn C1. destruct (has_node g old) eqn:Hp; [|rewrite (relabel_absent_g g old new Hp); exact C1].
  rewrite col_out_existsb, (existsb_relabel _ g old new eresp_Pco Hp). rewrite col_out_existsb in C1.
  apply Bool.negb_true_iff in C1. apply Bool.negb_true_iff. rewrite <- C1. apply existsb_ext'. intros e.
  unfold Pco, esrc, etgt; cbn [fst snd]. rewrite !(rename_is_column old new _ Ho Hn). reflexivity.
Qed.

(** ** the whole RENAME loop *)
Lemma do_renames_facts rs : (forall pr, In pr rs -> is_dataset (fst pr) = true /\ is_dataset (snd pr) = true) ->
  forall g g', do_renames rs g = BOk g' ->
    (forall a b, col_edge g' a b = col_edge g a b) /\ (rinv g -> rinv g') /\ (cinv g -> cinv g') /\
    (col_out_closed g = true -> col_out_closed g' = true).
Proof.
  induction rs as [|[old new] r IH]; intros Hds g g'; cbn [do_renames].
  - intros E; inversion E; subst. tauto.
  - destruct (Hds (old, new) (or_introl eq_refl)) as [Ho Hn]. cbn [fst snd] in Ho, Hn.
    destruct (remove_edge (relabel g old new) new new) as [g1|] eqn:E1; [|discriminate]. intros E.
    set (g2 := if Nat.eqb (degree g1 new) 0 then remove_node g1 new else g1) in *.
    destruct (IH (fun pr Hin => Hds pr (or_intror Hin)) g2 g' E) as (I1 & I2 & I3 & I4).
    assert (F1 : forall a b, col_edge g2 a b = col_edge g a b).
    { intros a b. transitivity (col_edge g1 a b).
      - unfold g2. destruct (Nat.eqb (degree g1 new) 0) eqn:Ez; [apply col_edge_remove_isolated; exact Ez|reflexivity].
      - rewrite (col_edge_remove_ds_edge _ new g1 a b Hn E1). apply col_edge_relabel; assumption. }
    split; [intros a b; rewrite I1; apply F1|]. split; [|split].
    + intros R. apply I2. assert (R1 : rinv g1) by (apply (rinv_remove_edge _ _ _ _ E1); apply rinv_relabel; assumption).
      unfold g2. destruct (Nat.eqb (degree g1 new) 0); [apply rinv_remove_node|]; exact R1.
    + intros C. apply I3. assert (C1 : cinv g1) by (apply (cinv_remove_edge _ _ _ _ E1); apply cinv_relabel; assumption).
      unfold g2. destruct (Nat.eqb (degree g1 new) 0) eqn:Ez; [apply cinv_remove_isolated; assumption|exact C1].
    + intros C. apply I4.
      assert (C1 : col_out_closed g1 = true).
      { apply (col_out_of_cinv_free (relabel g old new)); [|apply col_out_relabel; assumption].
        intros e He. rewrite (remove_edge_form _ _ _ _ E1) in He. cbn [gedges] in He. apply filter_In in He. exact (proj1 He). }
      unfold g2. destruct (Nat.eqb (degree g1 new) 0) eqn:Ez; [|exact C1].
      unfold col_out_closed. rewrite (gedges_remove_isolated g1 new Ez). exact C1.
Qed.

Lemma col_out_compose g h : col_out_closed g = true -> col_out_closed h = true -> col_out_closed (compose g h) = true.
Proof.
  intros C1 C2. rewrite col_out_existsb, (existsb_compose _ g h eresp_Pco). rewrite col_out_existsb in C1, C2.
  apply Bool.negb_true_iff in C1, C2. rewrite C1, C2. reflexivity.
Qed.

Lemma any_step g h g' : rename_ok h = true -> step g h = BOk g' -> good_step g h g'.
Proof.
  intros Hok E. destruct (h_renames h) as [|p0 pr] eqn:Er.
  - assert (Hn : norename_holder h = true) by (unfold norename_holder; rewrite Er; reflexivity).
    destruct (norename_step g h Hn) as (g1 & E1 & G). rewrite E1 in E. inversion E; subst. exact G.
  - destruct (h_drop h) as [|d0 dr] eqn:Ed.
    + assert (E' : do_renames (h_renames h) (compose g (hg h)) = BOk g').
      { unfold step in E. rewrite Ed, Er in E. rewrite Er. exact E. }
      unfold rename_ok in Hok. rewrite forallb_forall in Hok.
      destruct (do_renames_facts (h_renames h)) with (g := compose g (hg h)) (g' := g') as (F1 & F2 & F3 & F4).
      { intros q Hin. specialize (Hok q Hin). apply Bool.andb_true_iff in Hok. exact Hok. }
      { exact E'. }
      constructor.
      * intros a b. rewrite F1. unfold col_edge. rewrite has_edge_compose. destruct (is_column a && is_column b); reflexivity.
      * intros R1 R2. apply F2. apply rinv_compose; assumption.
      * intros C1 C2. apply F3. apply cinv_compose; assumption.
      * intros C1 C2. apply F4. apply col_out_compose; assumption.
    + assert (Hg' : g' = do_drops (h_drop h) (compose g (hg h))).
      { unfold step in E. rewrite Ed in E. rewrite Ed. inversion E. reflexivity. }
      subst g'. constructor.
      * intros a b. unfold col_edge, has_edge. rewrite gedges_do_drops. fold (has_edge (compose g (hg h)) a b).
        rewrite has_edge_compose. destruct (is_column a && is_column b); reflexivity.
      * intros R1 R2. apply rinv_do_drops. apply rinv_compose; assumption.
      * intros C1 C2. apply cinv_do_drops. apply cinv_compose; assumption.
      * intros C1 C2. unfold col_out_closed. rewrite gedges_do_drops. apply col_out_compose; assumption.
Qed.

Lemma fold_any hs : all_rename_ok hs -> forall g g', fold_steps g hs = BOk g' ->
    (forall a b, col_edge g' a b = col_edge g a b || uE hs a b) /\
    (all_resolved hs -> rinv g -> rinv g') /\
    (all_cwf hs -> cinv g -> cinv g') /\
    (all_col_out hs -> col_out_closed g = true -> col_out_closed g' = true).
Proof.
  induction 1 as [|h r Hh Hr IH]; intros g g'; cbn [fold_steps].
  - intros E; inversion E; subst. split; [intros a b; cbn; rewrite Bool.orb_false_r; reflexivity|]. tauto.
  - destruct (step g h) as [g1| |] eqn:E1; try discriminate. intros E.
    destruct (any_step g h g1 Hh E1) as [G1 G2 G3 G4]. destruct (IH g1 g' E) as (H1 & H2 & H3 & H4).
    split; [|split; [|split]].
    + intros a b. rewrite H1, G1. unfold uE; cbn [existsb]. rewrite Bool.orb_assoc. reflexivity.
    + intros Ha Rg. inversion Ha; subst. apply H2; [assumption|]. apply G2; [exact Rg|]. apply resolved_graph_rinv. assumption.
    + intros Ha Cg. inversion Ha; subst. apply H3; [assumption|]. apply G3; [exact Cg|]. apply cwf_graph_cinv. assumption.
    + intros Ha Cg. inversion Ha; subst. apply H4; [assumption|]. apply G4; assumption.
Qed.

Lemma build_any p hs g : all_rename_ok hs -> all_resolved hs -> build p hs = BOk g ->
  (forall a b, col_edge g a b = uE hs a b) /\ (all_cwf hs -> cinv g) /\ (all_col_out hs -> col_out_closed g = true).
Proof.
  intros Hn Hr Hb. unfold build in Hb. destruct (fold_steps empty_graph hs) as [g0| |] eqn:E0; try discriminate.
  destruct (fold_any hs Hn empty_graph g0 E0) as (H1 & H2 & H3 & H4).
  pose proof (H2 Hr rinv_empty) as R0. rewrite (resolve_all_resolved p _ (rinv_set_attr g0 _ _ _ R0)) in Hb.
  inversion Hb; subst g. split; [|split].
  - intros a b. rewrite col_edge_set_attr, H1. unfold col_edge at 1, has_edge. cbn [empty_graph gedges has_edge_l].
    rewrite !Bool.andb_false_r. reflexivity.
  - intros Hc. apply cinv_set_attr. apply (H3 Hc cinv_empty).
  - intros Hc. apply (H4 Hc eq_refl).
Qed.

(** the union theorem for any script that builds (plain statements, DROP, RENAME) *)
Theorem union_edges_any p hs g : all_rename_ok hs -> all_resolved hs -> build p hs = BOk g ->
  forall a b, col_edge g a b = true <-> exists h, In h hs /\ col_edge (hg h) a b = true.
Proof.
  intros Hn Hr Hb a b. destruct (build_any p hs g Hn Hr Hb) as (H & _). rewrite H. unfold uE. rewrite existsb_exists. tauto.
Qed.

(** ... and the composition theorem *)
Theorem c04_composition_any p hs g : all_rename_ok hs -> all_resolved hs -> all_cwf hs -> build p hs = BOk g ->
  forall b s t,
    reports g b s t <->
    ~ fed hs s /\ ~ consumed hs t /\ (b = true -> parent_is KTable t = true) /\ composed hs s t.
Proof.
  intros Hn Hr Hc Hb. apply (composition_of_union hs g (union_edges_any p hs g Hn Hr Hb)).
  apply (proj1 (proj2 (build_any p hs g Hn Hr Hb)) Hc).
Qed.

(** * Executable hypotheses, packaged *)
Lemma forallb_Forall {A} (f : A -> bool) l : forallb f l = true <-> Forall (fun x => f x = true) l.
Proof. rewrite forallb_forall, Forall_forall. tauto. Qed.

Definition c04_hyps (hs : list holder) : bool :=
  forallb plain_holder hs && forallb resolved_holder hs && forallb cwf_holder hs.
Definition c06_hyps (hs : list holder) : bool :=
  forallb plain_holder hs && forallb resolved_holder hs && forallb (fun h => col_out_closed (hg h)) hs &&
  forallb (fun h => tag_free (hg h)) hs && forallb owners_dir hs.

Theorem c04_main p hs : c04_hyps hs = true ->
  exists g, build p hs = BOk g /\
    (forall a b, col_edge g a b = true <-> exists h, In h hs /\ col_edge (hg h) a b = true) /\
    forall b s t,
      reports g b s t <->
      ~ fed hs s /\ ~ consumed hs t /\ (b = true -> parent_is KTable t = true) /\ composed hs s t.
Proof.
  unfold c04_hyps. rewrite !Bool.andb_true_iff, !forallb_Forall. intros [[Hp Hr] Hc].
  destruct (build_plain_ok p hs Hp Hr) as (g & Hb). exists g. split; [exact Hb|]. split.
  - apply (union_edges p hs g Hp Hr Hb).
  - apply (c04_composition p hs g Hp Hr Hc Hb).
Qed.

Theorem c06_main p hs : c06_hyps hs = true ->
  exists g, build p hs = BOk g /\
    forall b path, In path (column_lineage g b false) ->
      (forall n, In n (tl path) -> owner_in n (target_tables g ++ intermediate_tables g) = true) /\
      (forall n, In n (removelast path) -> exists h, In h hs /\ owner_in n (h_read h) = true).
Proof.
  unfold c06_hyps. rewrite !Bool.andb_true_iff, !forallb_Forall. intros [[[[Hp Hr] Hc] Ht] Ho].
  destruct (build_plain_ok p hs Hp Hr) as (g & Hb). exists g. split; [exact Hb|].
  intros b path. apply (c06_projection p hs g b path Hp Hr Hc Ht Ho Hb).
Qed.

(** executable forms of [fed] and [consumed] *)
Definition fedb (hs : list holder) (s : node) : bool :=
  existsb (fun h => existsb (fun e => is_cc e && node_eqb s (etgt e)) (gedges (hg h))) hs.
Definition consumedb (hs : list holder) (t : node) : bool :=
  existsb (fun h => existsb (fun e => is_cc e && node_eqb t (esrc e)) (gedges (hg h))) hs.

Lemma fed_fedb hs s : fed hs s <-> fedb hs s = true.
Proof.
  unfold fed, fedb, flow. rewrite existsb_exists. split.
  - intros (h & x & Hin & Hf). exists h. split; [exact Hin|]. destruct (col_edge_cols _ _ _ Hf) as [Cx Cs].
    unfold col_edge in Hf. apply Bool.andb_true_iff in Hf. destruct Hf as [_ Hf]. apply has_edge_In in Hf.
    destruct Hf as (e & He & H1 & H2). apply existsb_exists. exists e. split; [exact He|].
    unfold is_cc. rewrite <- (is_column_eqb _ _ H1), <- (is_column_eqb _ _ H2), Cx, Cs, H2. reflexivity.
  - intros (h & Hin & Hex). apply existsb_exists in Hex. destruct Hex as (e & He & H). apply Bool.andb_true_iff in H.
    destruct H as [Hcc Hs]. unfold is_cc in Hcc. apply Bool.andb_true_iff in Hcc. destruct Hcc as [C1 C2].
    exists h, (esrc e). split; [exact Hin|]. unfold col_edge. rewrite C1, (is_column_eqb _ _ Hs), C2. cbn [andb].
    apply has_edge_In. exists e. split; [exact He|]. split; [apply node_eqb_refl|exact Hs].
Qed.

Lemma consumed_consumedb hs t : consumed hs t <-> consumedb hs t = true.
Proof.
  unfold consumed, consumedb, flow. rewrite existsb_exists. split.
  - intros (h & y & Hin & Hf). exists h. split; [exact Hin|]. destruct (col_edge_cols _ _ _ Hf) as [Ct Cy].
    unfold col_edge in Hf. apply Bool.andb_true_iff in Hf. destruct Hf as [_ Hf]. apply has_edge_In in Hf.
    destruct Hf as (e & He & H1 & H2). apply existsb_exists. exists e. split; [exact He|].
    unfold is_cc. rewrite <- (is_column_eqb _ _ H1), <- (is_column_eqb _ _ H2), Ct, Cy, H1. reflexivity.
  - intros (h & Hin & Hex). apply existsb_exists in Hex. destruct Hex as (e & He & H). apply Bool.andb_true_iff in H.
    destruct H as [Hcc Hs]. unfold is_cc in Hcc. apply Bool.andb_true_iff in Hcc. destruct Hcc as [C1 C2].
    exists h, (etgt e). split; [exact Hin|]. unfold col_edge. rewrite C2, (is_column_eqb _ _ Hs), C1. cbn [andb].
    apply has_edge_In. exists e. split; [exact He|]. split; [exact Hs|apply node_eqb_refl].
Qed.

(** the theorems are not vacuous: test 2 of CompDefs (a.x > b.x > c.x, a.y > b.y; b is
    intermediate).  The pair (a.y, b.y) is reported - the column that is not consumed downstream
    ends at the intermediate table - and (a.x, b.x) is not. *)
Example c04_nonvacuous :
  let hs := [stmt [a] [b] [(cx a, cx b); (cy a, cy b)]; stmt [b] [c] [(cx b, cx c)]] in
  exists g, build p0 hs = BOk g /\ reports g true (cy a) (cy b) /\ reports g true (cx a) (cx c) /\ ~ reports g true (cx a) (cx b).
Proof.
  intros hs. destruct (c04_main p0 hs) as (g & Hb & _ & H); [vm_compute; reflexivity|].
  exists g. split; [exact Hb|]. split; [|split].
  - apply H. rewrite fed_fedb, consumed_consumedb. split; [|split; [|split]].
    + vm_compute. discriminate.
    + vm_compute. discriminate.
    + intros _. vm_compute. reflexivity.
    + apply (co_one hs (stmt [a] [b] [(cx a, cx b); (cy a, cy b)])); [left; reflexivity|vm_compute; reflexivity].
  - apply H. rewrite fed_fedb, consumed_consumedb. split; [|split; [|split]].
    + vm_compute. discriminate.
    + vm_compute. discriminate.
    + intros _. vm_compute. reflexivity.
    + apply (co_step hs (stmt [a] [b] [(cx a, cx b); (cy a, cy b)]) _ (cx b)); [left; reflexivity|vm_compute; reflexivity|].
      apply (co_one hs (stmt [b] [c] [(cx b, cx c)])); [right; left; reflexivity|vm_compute; reflexivity].
  - intros Hrep. apply H in Hrep. destruct Hrep as (_ & Hnc & _). apply Hnc. apply consumed_consumedb. vm_compute. reflexivity.
Qed.

Print Assumptions resolve_all_quiet.
Print Assumptions resolve_all_precise.
Print Assumptions resolve_all_resolved.
Print Assumptions union_edges.
Print Assumptions union_edges_quiet.
Print Assumptions union_edges_norename.
Print Assumptions pairs_graph.
Print Assumptions paths_graph.
Print Assumptions c04_paths.
Print Assumptions c04_composition.
Print Assumptions c04_composition_norename.
Print Assumptions union_edges_any.
Print Assumptions c04_composition_any.
Print Assumptions c04_sound.
Print Assumptions c04_no_start.
Print Assumptions c06_projection.
Print Assumptions c06_ends.
Print Assumptions column_lineage_subq.
Print Assumptions c06_projection_subq.
Print Assumptions c04_main.
Print Assumptions c06_main.
Print Assumptions c04_nonvacuous.
