(** C11 for the FULL graph model (Holder/Build.v): the reported column pairs, their printed form and
    the table roles do not depend on any iteration order.

    The Python implementation iterates hash-ordered sets (statements' read / write sets, the node and
    edge sets of the statement graphs); the model uses insertion-ordered lists.  "Every iteration
    order" is therefore "every order (and multiplicity) of the same members".

    - [column_pairs_depend_on_flows_only], [column_pairs_statement_order_free] (+ one-sided
      [column_pairs_statement_order_free_strong]): order / repetition of the STATEMENTS.
    - [holder_equiv], [flow_equiv], [column_pairs_insertion_order_free] (+ one-sided forms): insertion
      order of nodes and edges INSIDE each statement graph; [c04_hyps_equiv_plain_cwf]: two of the three
      conjuncts of [c04_hyps] are invariant, [resolved_not_invariant] / [resolved_order_sensitive]:
      the third is not (it looks at the stored node OBJECT), [holder_equiv_lit] repairs it.
    - [printed_pairs_equal], [printed_pairs_order_free]: the printed sorted pair lists are EQUAL lists.
    - [roles_full_model_order_free]: source / target / intermediate tables of the full model.
    - examples, and the contrast [rename_order_dependent_full_model]. *)
From SV Require Import Holder.CompDefs Holder.RefineGraph Holder.Refinement Holder.PathProofs Holder.Composition.
From SV Require Tree.Observe Tree.LemmaBProofs Holder.TableProofs.
From Coq Require Import Permutation.

(** * 1. Statement order: the reported pairs depend on the per-statement flows only *)
Definition some_flow (hs : list holder) (a b : node) : Prop := exists h, In h hs /\ flow h a b.

Lemma composed_mono hs hs' : (forall a b, some_flow hs a b -> some_flow hs' a b) ->
  forall s t, composed hs s t -> composed hs' s t.
Proof.
  intros H s t Hc. induction Hc as [h a b Hin Hf|h a b c Hin Hf _ IH].
  - destruct (H a b (ex_intro _ h (conj Hin Hf))) as (h' & Hin' & Hf'). apply (co_one hs' h'); assumption.
  - destruct (H a b (ex_intro _ h (conj Hin Hf))) as (h' & Hin' & Hf'). apply (co_step hs' h' a b c); assumption.
Qed.

Lemma fed_mono hs hs' : (forall a b, some_flow hs a b -> some_flow hs' a b) -> forall s, fed hs s -> fed hs' s.
Proof.
  intros H s (h & x & Hin & Hf). destruct (H x s (ex_intro _ h (conj Hin Hf))) as (h' & Hin' & Hf').
  exists h', x. split; assumption.
Qed.

Lemma consumed_mono hs hs' : (forall a b, some_flow hs a b -> some_flow hs' a b) -> forall t, consumed hs t -> consumed hs' t.
Proof.
  intros H t (h & y & Hin & Hf). destruct (H t y (ex_intro _ h (conj Hin Hf))) as (h' & Hin' & Hf').
  exists h', y. split; assumption.
Qed.

(** the right-hand side of [c04_main] is a function of the relation [some_flow] *)
Lemma spec_flows_only hs hs' : (forall a b, some_flow hs a b <-> some_flow hs' a b) ->
  forall (b : bool) s t,
    (~ fed hs s /\ ~ consumed hs t /\ (b = true -> parent_is KTable t = true) /\ composed hs s t) <->
    (~ fed hs' s /\ ~ consumed hs' t /\ (b = true -> parent_is KTable t = true) /\ composed hs' s t).
Proof.
  intros H b s t.
  assert (H1 : forall a b, some_flow hs a b -> some_flow hs' a b) by (intros a0 b0; apply H).
  assert (H2 : forall a b, some_flow hs' a b -> some_flow hs a b) by (intros a0 b0; apply H).
  split; intros (A & B & C & D); (split; [|split; [|split; [exact C|]]]).
  - intros X; apply A; apply (fed_mono hs' hs H2); exact X.
  - intros X; apply B; apply (consumed_mono hs' hs H2); exact X.
  - apply (composed_mono hs hs' H1); exact D.
  - intros X; apply A; apply (fed_mono hs hs' H1); exact X.
  - intros X; apply B; apply (consumed_mono hs hs' H1); exact X.
  - apply (composed_mono hs' hs H2); exact D.
Qed.

Lemma BOk_inj (g g' : graph) : BOk g = BOk g' -> g = g'.
Proof. intros H; inversion H; reflexivity. Qed.

Theorem column_pairs_depend_on_flows_only : forall p hs hs',
  c04_hyps hs = true -> c04_hyps hs' = true ->
  (forall a b, (exists h, In h hs /\ flow h a b) <-> (exists h, In h hs' /\ flow h a b)) ->
  forall g g', build p hs = BOk g -> build p hs' = BOk g' ->
  forall b s t, reports g b s t <-> reports g' b s t.
Proof.
  intros p hs hs' Hh Hh' Hf g g' Hb Hb' b s t.
  destruct (c04_main p hs Hh) as (g1 & E1 & _ & R1). rewrite Hb in E1. apply BOk_inj in E1. subst g1.
  destruct (c04_main p hs' Hh') as (g2 & E2 & _ & R2). rewrite Hb' in E2. apply BOk_inj in E2. subst g2.
  rewrite R1, R2. apply (spec_flows_only hs hs' Hf).
Qed.
Print Assumptions column_pairs_depend_on_flows_only.

Theorem column_pairs_statement_order_free : forall p hs hs',
  c04_hyps hs = true -> c04_hyps hs' = true -> (forall h, In h hs <-> In h hs') ->
  forall g g', build p hs = BOk g -> build p hs' = BOk g' ->
  forall b s t, reports g b s t <-> reports g' b s t.
Proof.
  intros p hs hs' Hh Hh' Hm. apply (column_pairs_depend_on_flows_only p hs hs' Hh Hh').
  intros a0 b0. split; intros (h & Hin & Hf); exists h; (split; [apply Hm; exact Hin|exact Hf]).
Qed.
Print Assumptions column_pairs_statement_order_free.

(** the hypotheses are themselves a property of the set of statements: one side suffices, and both
    scripts build *)
Lemma forallb_incl {A} (f : A -> bool) l l' : (forall x, In x l' -> In x l) -> forallb f l = true -> forallb f l' = true.
Proof. rewrite !forallb_forall. intros H H1 x Hx. apply H1, H, Hx. Qed.

Lemma c04_hyps_members hs hs' : (forall h, In h hs' -> In h hs) -> c04_hyps hs = true -> c04_hyps hs' = true.
Proof.
  unfold c04_hyps. rewrite !Bool.andb_true_iff. intros H [[H1 H2] H3].
  split; [split|]; eapply forallb_incl; eassumption.
Qed.

Theorem column_pairs_statement_order_free_strong : forall p hs hs',
  c04_hyps hs = true -> (forall h, In h hs <-> In h hs') ->
  exists g g', build p hs = BOk g /\ build p hs' = BOk g' /\
    forall b s t, reports g b s t <-> reports g' b s t.
Proof.
  intros p hs hs' Hh Hm.
  assert (Hh' : c04_hyps hs' = true) by (apply (c04_hyps_members hs hs'); [intros h; apply Hm|exact Hh]).
  destruct (c04_main p hs Hh) as (g & Hb & _). destruct (c04_main p hs' Hh') as (g' & Hb' & _).
  exists g, g'. split; [exact Hb|]. split; [exact Hb'|].
  apply (column_pairs_statement_order_free p hs hs' Hh Hh' Hm g g' Hb Hb').
Qed.
Print Assumptions column_pairs_statement_order_free_strong.

(** * 2. Insertion order inside the statement graphs *)
Lemma beq_iff (x y : bool) : (x = true <-> y = true) -> x = y.
Proof. destruct x, y; intros [H1 H2]; auto; try (symmetry; auto). Qed.

(** the same nodes and the same edges as SETS, up to Python equality of the objects: what remains
    of a graph when the insertion order of its nodes and edges (and hence the choice of the stored
    representative among equal objects) is forgotten *)
Definition graph_equiv (g g' : graph) : Prop :=
  (forall n, has_node g n = has_node g' n) /\ (forall u v, has_edge g u v = has_edge g' u v).
Definition ren_mem (x y : node) (l : list (node * node)) : bool :=
  existsb (fun pr => node_eqb x (fst pr) && node_eqb y (snd pr)) l.
(** ... and, of the attributes, the same DROP set and the same RENAME set (the read and write sets
    are not even needed) *)
Definition holder_equiv (h h' : holder) : Prop :=
  graph_equiv (hg h) (hg h') /\
  (forall n, memn n (h_drop h) = memn n (h_drop h')) /\
  (forall x y, ren_mem x y (h_renames h) = ren_mem x y (h_renames h')).

Lemma graph_equiv_sym g g' : graph_equiv g g' -> graph_equiv g' g.
Proof. intros [H1 H2]. split; [intros n; symmetry; apply H1|intros u v; symmetry; apply H2]. Qed.
Lemma holder_equiv_refl h : holder_equiv h h.
Proof. repeat split. Qed.
Lemma holder_equiv_sym h h' : holder_equiv h h' -> holder_equiv h' h.
Proof.
  intros (H1 & H2 & H3). split; [apply graph_equiv_sym; exact H1|].
  split; [intros n; symmetry; apply H2|intros x y; symmetry; apply H3].
Qed.
Lemma holder_equiv_trans h1 h2 h3 : holder_equiv h1 h2 -> holder_equiv h2 h3 -> holder_equiv h1 h3.
Proof.
  intros ((A1 & A2) & A3 & A4) ((B1 & B2) & B3 & B4). split; [split|split].
  - intros n. rewrite A1. apply B1.
  - intros u v. rewrite A2. apply B2.
  - intros n. rewrite A3. apply B3.
  - intros x y. rewrite A4. apply B4.
Qed.

Theorem flow_equiv h h' : holder_equiv h h' -> forall a b, flow h a b <-> flow h' a b.
Proof. intros ((_ & H2) & _) a0 b0. unfold flow, col_edge. rewrite H2. tauto. Qed.

(** ** the conjuncts of [c04_hyps] *)
Lemma has_edge_cong g u u' v v' : node_eqb u u' = true -> node_eqb v v' = true -> has_edge g u v = has_edge g u' v'.
Proof.
  intros Hu Hv. unfold has_edge. rewrite !has_edge_existsb. apply existsb_ext'. intros e. unfold edge_is.
  rewrite (node_eqb_cong_l _ _ _ Hu), (node_eqb_cong_l _ _ _ Hv). reflexivity.
Qed.

Lemma closed_src_char g : closed_src g = true <-> forall u v, has_edge g u v = true -> has_node g u = true.
Proof.
  rewrite closed_src_In. split.
  - intros H u v Huv. apply has_edge_In in Huv. destruct Huv as (e & He & H1 & _).
    rewrite (has_node_cong g u _ H1). apply H; exact He.
  - intros H e He. apply (H (esrc e) (etgt e)). apply has_edge_In. exists e.
    split; [exact He|]. split; apply node_eqb_refl.
Qed.
Lemma closed_tgt_char g : closed_tgt g = true <-> forall u v, has_edge g u v = true -> has_node g v = true.
Proof.
  rewrite closed_In. split.
  - intros H u v Huv. apply has_edge_In in Huv. destruct Huv as (e & He & _ & H2).
    rewrite (has_node_cong g v _ H2). apply H; exact He.
  - intros H e He. apply (H (esrc e) (etgt e)). apply has_edge_In. exists e.
    split; [exact He|]. split; apply node_eqb_refl.
Qed.
Lemma col_out_char g : col_out_closed g = true <->
  forall u v, has_edge g u v = true -> is_column u = true -> is_column v = true.
Proof.
  rewrite col_out_In. split.
  - intros H u v Huv Hc. apply has_edge_In in Huv. destruct Huv as (e & He & H1 & H2).
    rewrite (is_column_eqb _ _ H2). apply (H e He). rewrite <- (is_column_eqb _ _ H1). exact Hc.
  - intros H e He. apply (H (esrc e) (etgt e)). apply has_edge_In. exists e.
    split; [exact He|]. split; apply node_eqb_refl.
Qed.

Lemma cwf_graph_equiv g g' : graph_equiv g g' -> cwf_graph g = cwf_graph g'.
Proof.
  intros [H1 H2]. unfold cwf_graph. f_equal; [f_equal|]; apply beq_iff.
  - rewrite !closed_src_char. split; intros H u v Huv.
    + rewrite <- H1. apply (H u v). rewrite H2. exact Huv.
    + rewrite H1. apply (H u v). rewrite <- H2. exact Huv.
  - rewrite !closed_tgt_char. split; intros H u v Huv.
    + rewrite <- H1. apply (H u v). rewrite H2. exact Huv.
    + rewrite H1. apply (H u v). rewrite <- H2. exact Huv.
  - rewrite !col_out_char. split; intros H u v Huv.
    + apply (H u v). rewrite H2. exact Huv.
    + apply (H u v). rewrite <- H2. exact Huv.
Qed.

Lemma is_nil_memn l l' : (forall n, memn n l = memn n l') -> is_nil l = is_nil l'.
Proof.
  intros H. destruct l as [|x r], l' as [|y r']; try reflexivity; exfalso.
  - specialize (H y). cbn in H. rewrite node_eqb_refl in H. discriminate.
  - specialize (H x). cbn in H. rewrite node_eqb_refl in H. discriminate.
Qed.
Lemma is_nil_ren l l' : (forall x y, ren_mem x y l = ren_mem x y l') -> is_nil l = is_nil l'.
Proof.
  intros H. destruct l as [|[x1 x2] r], l' as [|[y1 y2] r']; try reflexivity; exfalso.
  - specialize (H y1 y2). cbn in H. rewrite !node_eqb_refl in H. discriminate.
  - specialize (H x1 x2). cbn in H. rewrite !node_eqb_refl in H. discriminate.
Qed.

Lemma plain_holder_equiv h h' : holder_equiv h h' -> plain_holder h = plain_holder h'.
Proof. intros (_ & H2 & H3). unfold plain_holder. rewrite (is_nil_memn _ _ H2), (is_nil_ren _ _ H3). reflexivity. Qed.
Lemma cwf_holder_equiv h h' : holder_equiv h h' -> cwf_holder h = cwf_holder h'.
Proof. intros (H1 & _). apply cwf_graph_equiv. exact H1. Qed.

(** two of the three conjuncts of [c04_hyps] are invariant ... *)
Theorem c04_hyps_equiv_plain_cwf h h' : holder_equiv h h' ->
  plain_holder h = plain_holder h' /\ cwf_holder h = cwf_holder h'.
Proof. intros H. split; [apply plain_holder_equiv|apply cwf_holder_equiv]; exact H. Qed.

(** ... the third, [resolved_holder], is NOT: it inspects the stored node OBJECT (the number of
    candidate parents of a column), and which of two equal objects is stored is decided by the
    insertion order.  A column object "x" without any parent and the unresolved "x" with candidate
    parents {a, b} are equal in Python (same str, [parent] is None for both); inserting one or the
    other first gives a resolved or an unresolved statement graph - and different reported pairs. *)
Definition x_none : node := col "x" [].
Definition x_ab : node := col "x" [a; b].
Definition h_res (first second : node) : holder :=
  mk [(a, R); (b, R); (c, W); (first, []); (second, [])]
     [(a, cx a, e_col); (x_ab, cy c, lineage_edge); (c, cy c, e_col)] [].

Definition nodes_subb (g g' : graph) : bool := forallb (has_node g') (map fst (gnodes g)).
Definition edges_subb (g g' : graph) : bool := forallb (fun e => has_edge g' (esrc e) (etgt e)) (gedges g).
Definition graph_equivb (g g' : graph) : bool :=
  nodes_subb g g' && nodes_subb g' g && edges_subb g g' && edges_subb g' g.
Definition holder_equivb (h h' : holder) : bool :=
  graph_equivb (hg h) (hg h') &&
  forallb (fun n => memn n (h_drop h')) (h_drop h) && forallb (fun n => memn n (h_drop h)) (h_drop h') &&
  forallb (fun pr => ren_mem (fst pr) (snd pr) (h_renames h')) (h_renames h) &&
  forallb (fun pr => ren_mem (fst pr) (snd pr) (h_renames h)) (h_renames h').

Lemma nodes_subb_spec g g' : nodes_subb g g' = true -> forall n, has_node g n = true -> has_node g' n = true.
Proof.
  unfold nodes_subb. rewrite forallb_forall. intros H n Hn. apply has_node_In in Hn. destruct Hn as (m & Hm & E).
  rewrite (has_node_cong g' n m E). apply H; exact Hm.
Qed.
Lemma edges_subb_spec g g' : edges_subb g g' = true -> forall u v, has_edge g u v = true -> has_edge g' u v = true.
Proof.
  unfold edges_subb. rewrite forallb_forall. intros H u v Huv. apply has_edge_In in Huv. destruct Huv as (e & He & E1 & E2).
  rewrite (has_edge_cong g' u (esrc e) v (etgt e) E1 E2). apply H; exact He.
Qed.
Lemma graph_equivb_sound g g' : graph_equivb g g' = true -> graph_equiv g g'.
Proof.
  unfold graph_equivb. rewrite !Bool.andb_true_iff. intros [[[H1 H2] H3] H4]. split.
  - intros n. apply beq_iff. split; [apply nodes_subb_spec; exact H1|apply nodes_subb_spec; exact H2].
  - intros u v. apply beq_iff. split; [apply edges_subb_spec; exact H3|apply edges_subb_spec; exact H4].
Qed.
Lemma memn_subb l l' : forallb (fun n => memn n l') l = true -> forall n, memn n l = true -> memn n l' = true.
Proof.
  rewrite forallb_forall. intros H n Hn. apply memn_In in Hn. destruct Hn as (w & Hw & E).
  rewrite (memn_cong n w l' E). apply H; exact Hw.
Qed.
Lemma ren_mem_cong x x' y y' l : node_eqb x x' = true -> node_eqb y y' = true -> ren_mem x y l = ren_mem x' y' l.
Proof.
  intros Hx Hy. unfold ren_mem. apply existsb_ext'. intros pr.
  rewrite (node_eqb_cong_l _ _ _ Hx), (node_eqb_cong_l _ _ _ Hy). reflexivity.
Qed.
Lemma ren_subb l l' : forallb (fun pr => ren_mem (fst pr) (snd pr) l') l = true ->
  forall x y, ren_mem x y l = true -> ren_mem x y l' = true.
Proof.
  rewrite forallb_forall. intros H x y Hxy. unfold ren_mem in Hxy. apply existsb_exists in Hxy.
  destruct Hxy as (pr & Hpr & E). apply Bool.andb_true_iff in E. destruct E as [E1 E2].
  rewrite (ren_mem_cong x (fst pr) y (snd pr) l' E1 E2). apply H; exact Hpr.
Qed.
Theorem holder_equivb_sound h h' : holder_equivb h h' = true -> holder_equiv h h'.
Proof.
  unfold holder_equivb. rewrite !Bool.andb_true_iff. intros [[[[H1 H2] H3] H4] H5]. split; [|split].
  - apply graph_equivb_sound; exact H1.
  - intros n. apply beq_iff. split; [apply memn_subb; exact H2|apply memn_subb; exact H3].
  - intros x y. apply beq_iff. split; [apply ren_subb; exact H4|apply ren_subb; exact H5].
Qed.

Definition pairs_of (p : provider) (hs : list holder) : list string :=
  match build p hs with
  | BOk g => uniq_sorted (sort_strings (map Observe.pair_str (column_lineage g true false)))
  | _ => ["ERR"]
  end.

(** the counterexample: equivalent statement graphs, only one of them resolved, and the reported
    pairs differ ("x{}>c.y" against "a.x>c.y": [resolve_all] attributes the unresolved object to a.x) *)
Theorem resolved_not_invariant :
  holder_equiv (h_res x_none x_ab) (h_res x_ab x_none) /\
  resolved_holder (h_res x_none x_ab) = true /\ resolved_holder (h_res x_ab x_none) = false.
Proof. split; [apply holder_equivb_sound; vm_compute; reflexivity|split; vm_compute; reflexivity]. Qed.
Print Assumptions resolved_not_invariant.

(** hence the hypotheses are needed on BOTH sides of [column_pairs_insertion_order_free] below:
    with [c04_hyps] on one side only, the statement is false *)
Theorem resolved_order_sensitive :
  let hs := [h_res x_none x_ab] in let hs' := [h_res x_ab x_none] in
  Forall2 holder_equiv hs hs' /\ c04_hyps hs = true /\ c04_hyps hs' = false /\
  pairs_of p0 hs = ["x{}>c.y"] /\ pairs_of p0 hs' = ["a.x>c.y"] /\
  exists g g', build p0 hs = BOk g /\ build p0 hs' = BOk g' /\
    reports g true x_none (cy c) /\ ~ reports g' true x_none (cy c).
Proof.
  cbv zeta. split; [constructor; [apply (proj1 resolved_not_invariant)|constructor]|].
  split; [vm_compute; reflexivity|]. split; [vm_compute; reflexivity|].
  split; [vm_compute; reflexivity|]. split; [vm_compute; reflexivity|].
  destruct (build p0 [h_res x_none x_ab]) as [g| |] eqn:Eg; try (vm_compute in Eg; discriminate Eg).
  destruct (build p0 [h_res x_ab x_none]) as [g'| |] eqn:Eg'; try (vm_compute in Eg'; discriminate Eg').
  exists g, g'. split; [reflexivity|]. split; [reflexivity|].
  vm_compute in Eg. apply BOk_inj in Eg. vm_compute in Eg'. apply BOk_inj in Eg'. subst g g'. split.
  - eexists. split; [vm_compute; left; reflexivity|]. split; vm_compute; reflexivity.
  - intros (path & Hin & Hs & _). vm_compute in Hin. destruct Hin as [<-|[]]. vm_compute in Hs. discriminate Hs.
Qed.
Print Assumptions resolved_order_sensitive.

(** ** the theorems *)
Definition covers (hs hs' : list holder) : Prop := forall h, In h hs -> exists h', In h' hs' /\ holder_equiv h h'.

Lemma covers_flow hs hs' : covers hs hs' -> forall a b, some_flow hs a b -> some_flow hs' a b.
Proof.
  intros H a0 b0 (h & Hin & Hf). destruct (H h Hin) as (h' & Hin' & He). exists h'. split; [exact Hin'|].
  apply (flow_equiv h h' He). exact Hf.
Qed.

(** the most general form: both orders at once.  Every statement of one script has an equivalent
    statement (the same graph inserted in another order) in the other script, and conversely;
    order and repetition of the statements are free. *)
Theorem column_pairs_order_free : forall p hs hs',
  covers hs hs' -> covers hs' hs -> c04_hyps hs = true -> c04_hyps hs' = true ->
  forall g g', build p hs = BOk g -> build p hs' = BOk g' ->
  forall b s t, reports g b s t <-> reports g' b s t.
Proof.
  intros p hs hs' C1 C2 Hh Hh'. apply (column_pairs_depend_on_flows_only p hs hs' Hh Hh').
  intros a0 b0. split; [apply (covers_flow hs hs' C1)|apply (covers_flow hs' hs C2)].
Qed.
Print Assumptions column_pairs_order_free.

Lemma Forall2_covers_l hs hs' : Forall2 holder_equiv hs hs' -> covers hs hs'.
Proof.
  induction 1 as [|h h' r r' He _ IH]; intros x Hx; [destruct Hx|]. destruct Hx as [<-|Hx].
  - exists h'. split; [left; reflexivity|exact He].
  - destruct (IH x Hx) as (y & Hy & E). exists y. split; [right; exact Hy|exact E].
Qed.
Lemma Forall2_covers_r hs hs' : Forall2 holder_equiv hs hs' -> covers hs' hs.
Proof.
  induction 1 as [|h h' r r' He _ IH]; intros x Hx; [destruct Hx|]. destruct Hx as [<-|Hx].
  - exists h. split; [left; reflexivity|apply holder_equiv_sym; exact He].
  - destruct (IH x Hx) as (y & Hy & E). exists y. split; [right; exact Hy|exact E].
Qed.

Theorem column_pairs_insertion_order_free : forall p hs hs',
  Forall2 holder_equiv hs hs' -> c04_hyps hs = true -> c04_hyps hs' = true ->
  forall g g', build p hs = BOk g -> build p hs' = BOk g' ->
  forall b s t, reports g b s t <-> reports g' b s t.
Proof.
  intros p hs hs' H. apply (column_pairs_order_free p hs hs' (Forall2_covers_l _ _ H) (Forall2_covers_r _ _ H)).
Qed.
Print Assumptions column_pairs_insertion_order_free.

(** one side, variant 1: only the order-sensitive conjunct is asked of the second script *)
Theorem c04_hyps_equiv : forall hs hs', covers hs' hs ->
  c04_hyps hs = true -> forallb resolved_holder hs' = true -> c04_hyps hs' = true.
Proof.
  intros hs hs' C. unfold c04_hyps. rewrite !Bool.andb_true_iff, !forallb_forall. intros [[H1 H2] H3] Hr.
  split; [split; [|exact Hr]|]; intros h' Hin'; destruct (C h' Hin') as (h & Hin & He).
  - rewrite (plain_holder_equiv h' h He). apply H1; exact Hin.
  - rewrite (cwf_holder_equiv h' h He). apply H3; exact Hin.
Qed.

Theorem column_pairs_insertion_order_free_resolved : forall p hs hs',
  Forall2 holder_equiv hs hs' -> c04_hyps hs = true -> forallb resolved_holder hs' = true ->
  exists g g', build p hs = BOk g /\ build p hs' = BOk g' /\
    forall b s t, reports g b s t <-> reports g' b s t.
Proof.
  intros p hs hs' H Hh Hr.
  assert (Hh' : c04_hyps hs' = true) by (apply (c04_hyps_equiv hs hs' (Forall2_covers_r _ _ H) Hh Hr)).
  destruct (c04_main p hs Hh) as (g & Hb & _). destruct (c04_main p hs' Hh') as (g' & Hb' & _).
  exists g, g'. split; [exact Hb|]. split; [exact Hb'|].
  apply (column_pairs_insertion_order_free p hs hs' H Hh Hh' g g' Hb Hb').
Qed.
Print Assumptions column_pairs_insertion_order_free_resolved.

(** one side, variant 2: the same node OBJECTS (not only equal ones) and the same edge-source
    objects, as sets - e.g. the same entries in any order and multiplicity - make [resolved_holder],
    hence all of [c04_hyps], invariant *)
Definition holder_equiv_lit (h h' : holder) : Prop :=
  holder_equiv h h' /\
  (forall n, In n (map fst (gnodes (hg h))) <-> In n (map fst (gnodes (hg h')))) /\
  (forall n, In n (map esrc (gedges (hg h))) <-> In n (map esrc (gedges (hg h')))).

Lemma resolved_holder_lit h h' : holder_equiv_lit h h' -> resolved_holder h = resolved_holder h'.
Proof.
  intros (_ & Hn & He). unfold resolved_holder. apply beq_iff. rewrite !resolved_graph_rinv.
  unfold rinv, nodes_ok, srcs_ok. split; intros [A B]; split.
  - intros n Hin. apply A, Hn, Hin.
  - intros e Hin. apply (in_map esrc) in Hin. apply He in Hin. apply in_map_iff in Hin.
    destruct Hin as (e0 & E0 & Hin0). rewrite <- E0. apply B; exact Hin0.
  - intros n Hin. apply A, Hn, Hin.
  - intros e Hin. apply (in_map esrc) in Hin. apply He in Hin. apply in_map_iff in Hin.
    destruct Hin as (e0 & E0 & Hin0). rewrite <- E0. apply B; exact Hin0.
Qed.

Theorem c04_hyps_equiv_lit : forall hs hs', Forall2 holder_equiv_lit hs hs' -> c04_hyps hs = c04_hyps hs'.
Proof.
  intros hs hs' H. unfold c04_hyps. induction H as [|h h' r r' He _ IH]; [reflexivity|].
  cbn [forallb]. pose proof He as (He' & _).
  rewrite (plain_holder_equiv h h' He'), (cwf_holder_equiv h h' He'), (resolved_holder_lit h h' He).
  destruct (plain_holder h'), (resolved_holder h'), (cwf_holder h'); cbn [andb]; try exact IH;
    rewrite ?Bool.andb_false_r; reflexivity.
Qed.
Print Assumptions c04_hyps_equiv_lit.

Lemma Forall2_lit_equiv hs hs' : Forall2 holder_equiv_lit hs hs' -> Forall2 holder_equiv hs hs'.
Proof. induction 1 as [|h h' r r' He _ IH]; constructor; [exact (proj1 He)|exact IH]. Qed.

Theorem column_pairs_insertion_order_free_lit : forall p hs hs',
  Forall2 holder_equiv_lit hs hs' -> c04_hyps hs = true ->
  exists g g', build p hs = BOk g /\ build p hs' = BOk g' /\
    forall b s t, reports g b s t <-> reports g' b s t.
Proof.
  intros p hs hs' H Hh.
  assert (Hh' : c04_hyps hs' = true) by (rewrite <- (c04_hyps_equiv_lit hs hs' H); exact Hh).
  destruct (c04_main p hs Hh) as (g & Hb & _). destruct (c04_main p hs' Hh') as (g' & Hb' & _).
  exists g, g'. split; [exact Hb|]. split; [exact Hb'|].
  apply (column_pairs_insertion_order_free p hs hs' (Forall2_lit_equiv _ _ H) Hh Hh' g g' Hb Hb').
Qed.
Print Assumptions column_pairs_insertion_order_free_lit.

(** the same entries (node with its attribute dictionary; edge; RENAME pair) as sets, in any
    order and multiplicity, give [holder_equiv_lit]; in particular permutations do *)
Theorem same_entries_equiv_lit h h' :
  (forall x, In x (gnodes (hg h)) <-> In x (gnodes (hg h'))) ->
  (forall e, In e (gedges (hg h)) <-> In e (gedges (hg h'))) ->
  (forall pr, In pr (h_renames h) <-> In pr (h_renames h')) ->
  holder_equiv_lit h h'.
Proof.
  intros Hn He Hr.
  assert (Hn' : forall n, In n (map fst (gnodes (hg h))) <-> In n (map fst (gnodes (hg h')))).
  { intros n. rewrite !in_map_iff. split; intros (x & E & Hx); exists x; (split; [exact E|apply Hn; exact Hx]). }
  assert (Hs' : forall n, In n (map esrc (gedges (hg h))) <-> In n (map esrc (gedges (hg h')))).
  { intros n. rewrite !in_map_iff. split; intros (x & E & Hx); exists x; (split; [exact E|apply He; exact Hx]). }
  split; [|split; [exact Hn'|exact Hs']]. split; [split|split].
  - intros n. apply beq_iff. rewrite !has_node_In. split; intros (m & Hm & E); exists m; (split; [apply Hn'; exact Hm|exact E]).
  - intros u v. apply beq_iff. rewrite !has_edge_In. split; intros (e & Hin & E); exists e; (split; [apply He; exact Hin|exact E]).
  - intros n. apply beq_iff. rewrite !memn_In. unfold h_drop, tagged.
    split; intros (w & Hw & E); exists w; (split; [|exact E]); apply in_map_iff in Hw; destruct Hw as (x & Ex & Hx);
      apply filter_In in Hx; destruct Hx as [Hx Hf]; apply in_map_iff; exists x; (split; [exact Ex|]);
      apply filter_In; (split; [apply Hn; exact Hx|exact Hf]).
  - intros x y. apply beq_iff. unfold ren_mem. rewrite !existsb_exists.
    split; intros (pr & Hpr & E); exists pr; (split; [apply Hr; exact Hpr|exact E]).
Qed.

Corollary permuted_equiv_lit h h' :
  Permutation (gnodes (hg h)) (gnodes (hg h')) -> Permutation (gedges (hg h)) (gedges (hg h')) ->
  Permutation (h_renames h) (h_renames h') -> holder_equiv_lit h h'.
Proof.
  intros P1 P2 P3. apply same_entries_equiv_lit; intros x; split; apply Permutation_in;
    try assumption; apply Permutation_sym; assumption.
Qed.
Print Assumptions permuted_equiv_lit.

(** * 3. The printed form: equal pair relations print as EQUAL sorted lists *)
(** what [Observe.pair_str] prints for the first node of a path *)
Definition start_str (n : node) : string :=
  match n with
  | NCol c => match col_parent c with
              | Some _ => col_str c
              | None => (craw c ++ "{" ++ join "," (sort_strings (map dstr (cparents c))) ++ "}")%string
              end
  | _ => node_str n
  end.
Lemma pair_str_ends s r : Observe.pair_str (s :: r) = (start_str s ++ ">" ++ node_str (last (s :: r) s))%string.
Proof. reflexivity. Qed.

(** get_column_lineage(exclude_path_ending_in_subquery = b), as [Observe.script_pairs] prints it *)
Definition printed_pairs (b : bool) (g : graph) : list string :=
  uniq_sorted (sort_strings (map Observe.pair_str (column_lineage g b false))).

(** "node printing is a function of the node": the last node of a path is printed by [node_str],
    which respects Python equality of columns; the first one by [start_str], which also prints the
    candidate parents of an unresolved column - these are not part of its identity, so this has
    to be assumed (or derived from resolvedness, below) *)
Definition starts_print_alike (b : bool) (g g' : graph) : Prop :=
  forall p p', In p (column_lineage g b false) -> In p' (column_lineage g' b false) ->
    node_eqb (hd dflt p) (hd dflt p') = true -> start_str (hd dflt p) = start_str (hd dflt p').

Lemma starts_print_alike_sym b g g' : starts_print_alike b g g' -> starts_print_alike b g' g.
Proof. intros H p p' Hp Hp' E. symmetry. apply (H p' p Hp' Hp). apply eqb_sym_true. exact E. Qed.

Lemma node_str_eqb_column n m : node_eqb n m = true -> is_column n = true -> node_str n = node_str m.
Proof.
  destruct n as [|x|], m as [|y|]; cbn [node_eqb is_column node_str]; try discriminate. intros H _.
  unfold col_eqb in H. apply Bool.andb_true_iff in H. destruct H as [H _]. apply String.eqb_eq. exact H.
Qed.

(** a reported path is printed from its two ends *)
Lemma lineage_path_shape g b p : In p (column_lineage g b false) ->
  exists s r, p = s :: r /\ hd dflt p = s /\ last p dflt = last (s :: r) s /\ is_column (last p dflt) = true.
Proof.
  intros Hin. destruct (column_lineage_wf g b p Hin) as (_ & _ & _ & (s & r & Hp & _ & _) & (Hc & _)).
  exists s, r. subst p. split; [reflexivity|]. split; [reflexivity|]. split; [apply last_cons_indep|exact Hc].
Qed.

Lemma printed_sub b g g' : (forall s t, reports g b s t -> reports g' b s t) -> starts_print_alike b g g' ->
  forall x, In x (map Observe.pair_str (column_lineage g b false)) -> In x (map Observe.pair_str (column_lineage g' b false)).
Proof.
  intros Hr Ha x Hx. apply in_map_iff in Hx. destruct Hx as (p & Ex & Hin).
  assert (Hrep : reports g b (hd dflt p) (last p dflt)).
  { exists p. split; [exact Hin|]. split; apply node_eqb_refl. }
  apply Hr in Hrep. destruct Hrep as (p' & Hin' & E1 & E2).
  apply in_map_iff. exists p'. split; [|exact Hin'].
  pose proof (Ha p p' Hin Hin' E1) as Es.
  destruct (lineage_path_shape g b p Hin) as (s & r & Hp & Hh & Hl & Hc).
  destruct (lineage_path_shape g' b p' Hin') as (s' & r' & Hp' & Hh' & Hl' & _).
  pose proof (node_str_eqb_column _ _ E2 Hc) as El.
  rewrite <- Ex. rewrite Hh, Hh' in Es. rewrite Hl, Hl' in El. rewrite Hp, Hp', !pair_str_ends, Es, El. reflexivity.
Qed.

Theorem printed_pairs_equal : forall b g g',
  (forall s t, reports g b s t <-> reports g' b s t) -> starts_print_alike b g g' ->
  printed_pairs b g = printed_pairs b g'.
Proof.
  intros b g g' Hr Ha. unfold printed_pairs. apply LemmaBProofs.us_ext. intros x. split.
  - apply (printed_sub b g g'); [intros s t; apply Hr|exact Ha].
  - apply (printed_sub b g' g); [intros s t; apply Hr|apply starts_print_alike_sym; exact Ha].
Qed.
Print Assumptions printed_pairs_equal.

(** the printing condition holds when the node objects are resolved columns (at most one parent) *)
Lemma start_str_resolved n m : node_eqb n m = true -> is_column n = true ->
  resolvedn n = true -> resolvedn m = true -> start_str n = start_str m.
Proof.
  destruct n as [|x|], m as [|y|]; cbn [node_eqb is_column]; try discriminate. intros H _ Rx Ry.
  unfold col_eqb in H. apply Bool.andb_true_iff in H. destruct H as [H1 H2]. apply String.eqb_eq in H1.
  unfold resolvedn, unresolved in Rx, Ry. cbn [start_str]. unfold col_str, col_parent in *.
  destruct (cparents x) as [|dx [|dx' rx]], (cparents y) as [|dy [|dy' ry]];
    cbn [List.length Nat.ltb Nat.leb is_none opt_dataset_eqb map] in *; try discriminate.
  - rewrite H1. reflexivity.
  - exact H1.
Qed.

Lemma lineage_head_node g b p : In p (column_lineage g b false) ->
  In (hd dflt p) (map fst (gnodes g)) /\ is_column (hd dflt p) = true.
Proof.
  intros Hin. destruct (column_lineage_wf g b p Hin) as (_ & _ & _ & (s0 & r0 & Hp0 & Hc0 & _) & _).
  split; [|subst p; exact Hc0].
  unfold column_lineage in Hin. cbv zeta in Hin.
  apply in_flat_map in Hin. destruct Hin as (s & Hs & Hin).
  apply in_flat_map in Hin. destruct Hin as (t & _ & Hin).
  apply in_flat_map in Hin. destruct Hin as (path & Hpath & Hin).
  destruct (Nat.ltb 1 (List.length path)); [|destruct Hin]. destruct Hin as [<-|[]].
  apply all_simple_paths_sound in Hpath. destruct Hpath as (r & Hp & _). subst path. cbn [hd].
  apply filter_In in Hs. destruct Hs as [Hs _]. apply in_map_iff in Hs. destruct Hs as (x & Ex & Hx).
  unfold column_graph, subgraph in Hx. cbn [gnodes] in Hx. apply filter_In in Hx. destruct Hx as [Hx _].
  apply in_map_iff. exists x. split; [exact Ex|exact Hx].
Qed.

Lemma resolved_prints_alike b g g' : nodes_ok resolvedn g -> nodes_ok resolvedn g' -> starts_print_alike b g g'.
Proof.
  intros Hg Hg' p p' Hp Hp' E. destruct (lineage_head_node g b p Hp) as [Hn Hc].
  destruct (lineage_head_node g' b p' Hp') as [Hn' _].
  apply (start_str_resolved _ _ E Hc); [apply Hg; exact Hn|apply Hg'; exact Hn'].
Qed.

Corollary printed_pairs_equal_resolved : forall b g g',
  nodes_ok resolvedn g -> nodes_ok resolvedn g' ->
  (forall s t, reports g b s t <-> reports g' b s t) -> printed_pairs b g = printed_pairs b g'.
Proof. intros b g g' Hg Hg' Hr. apply (printed_pairs_equal b g g' Hr). apply resolved_prints_alike; assumption. Qed.
Print Assumptions printed_pairs_equal_resolved.

(** ... which is the case for the graph of a script that satisfies [c04_hyps] *)
Lemma c04_hyps_unfold hs : c04_hyps hs = true -> all_plain hs /\ all_resolved hs /\ all_cwf hs.
Proof. unfold c04_hyps. rewrite !Bool.andb_true_iff, !forallb_Forall. tauto. Qed.

Lemma c04_hyps_rinv p hs g : c04_hyps hs = true -> build p hs = BOk g -> rinv g.
Proof.
  intros Hh Hb. destruct (c04_hyps_unfold hs Hh) as (Hp & Hr & _).
  destruct (build_plain p hs Hp Hr) as (g0 & _ & R0 & E & _). rewrite E in Hb. apply BOk_inj in Hb. subst g.
  apply rinv_set_attr. exact R0.
Qed.

(** end to end: statement order, repetition and insertion order do not change the printed list *)
Theorem printed_pairs_order_free : forall p hs hs',
  covers hs hs' -> covers hs' hs -> c04_hyps hs = true -> c04_hyps hs' = true ->
  forall g g', build p hs = BOk g -> build p hs' = BOk g' ->
  forall b, printed_pairs b g = printed_pairs b g'.
Proof.
  intros p hs hs' C1 C2 Hh Hh' g g' Hb Hb' b. apply printed_pairs_equal_resolved.
  - exact (proj1 (c04_hyps_rinv p hs g Hh Hb)).
  - exact (proj1 (c04_hyps_rinv p hs' g' Hh' Hb')).
  - intros s t. apply (column_pairs_order_free p hs hs' C1 C2 Hh Hh' g g' Hb Hb').
Qed.
Print Assumptions printed_pairs_order_free.

Lemma covers_members hs hs' : (forall h, In h hs -> In h hs') -> covers hs hs'.
Proof. intros H h Hin. exists h. split; [apply H; exact Hin|apply holder_equiv_refl]. Qed.

(** the observable of the tie ([pairs_of] = what [Observe.script_pairs] returns for the script's
    holders): the same members in any order, one-sided *)
Theorem pairs_of_statement_order_free : forall p hs hs',
  c04_hyps hs = true -> (forall h, In h hs <-> In h hs') -> pairs_of p hs = pairs_of p hs'.
Proof.
  intros p hs hs' Hh Hm.
  assert (Hh' : c04_hyps hs' = true) by (apply (c04_hyps_members hs hs'); [intros h; apply Hm|exact Hh]).
  destruct (c04_main p hs Hh) as (g & Hb & _). destruct (c04_main p hs' Hh') as (g' & Hb' & _).
  unfold pairs_of. rewrite Hb, Hb'.
  apply (printed_pairs_order_free p hs hs'); try assumption; apply covers_members; intros h; apply Hm.
Qed.
Print Assumptions pairs_of_statement_order_free.

Theorem pairs_of_insertion_order_free : forall p hs hs',
  Forall2 holder_equiv_lit hs hs' -> c04_hyps hs = true -> pairs_of p hs = pairs_of p hs'.
Proof.
  intros p hs hs' H Hh.
  assert (Hh' : c04_hyps hs' = true) by (rewrite <- (c04_hyps_equiv_lit hs hs' H); exact Hh).
  destruct (c04_main p hs Hh) as (g & Hb & _). destruct (c04_main p hs' Hh') as (g' & Hb' & _).
  unfold pairs_of. rewrite Hb, Hb'. apply Forall2_lit_equiv in H.
  apply (printed_pairs_order_free p hs hs'); try assumption; [apply Forall2_covers_l|apply Forall2_covers_r]; exact H.
Qed.
Print Assumptions pairs_of_insertion_order_free.

(** * 4. Table level: the roles of the full model *)
Lemma abs_plain h : plain_holder h = true -> TP.plain (abs_holder h).
Proof.
  intros H. destruct (plain_unfold h H) as [Hd Hr]. unfold TP.plain, abs_holder. cbn [T.drops T.renames].
  rewrite Hd, Hr. split; reflexivity.
Qed.

Lemma tagged_dnodes g k n : In n (tagged g k is_dataset) -> In n (dnodes (gnodes g)).
Proof.
  unfold tagged, dnodes. intros H. apply in_map_iff in H. destruct H as (x & Ex & Hx). apply filter_In in Hx.
  destruct Hx as [Hx Hf]. apply Bool.andb_true_iff in Hf. destruct Hf as [_ Hd]. apply filter_In. split.
  - apply in_map_iff. exists x. split; [exact Ex|exact Hx].
  - rewrite <- Ex. exact Hd.
Qed.

(** the abstraction of a holder is always well-formed in the sense of Holder/TableProofs.v: what a
    statement reads or writes is a node of its graph *)
Lemma abs_wf h : TP.wf (abs_holder h).
Proof.
  unfold TP.wf, abs_holder. cbn [T.reads T.writes T.hnodes]. unfold dkeys.
  split; intros t Ht; apply in_map_iff in Ht; destruct Ht as (n & En & Hn); apply in_map_iff; exists n;
    (split; [exact En|]); [apply (tagged_dnodes _ "read")|apply (tagged_dnodes _ "write")]; exact Hn.
Qed.

Lemma Forall_abs_plain hs : all_plain hs -> Forall TP.plain (map abs_holder hs).
Proof. induction 1 as [|h r Hh _ IH]; cbn [map]; constructor; [apply abs_plain; exact Hh|exact IH]. Qed.
Lemma Forall_abs_wf hs : Forall TP.wf (map abs_holder hs).
Proof. induction hs as [|h r IH]; cbn [map]; constructor; [apply abs_wf|exact IH]. Qed.

Lemma In_sources s t : In t (T.sources s) <-> T.is_source s t = true.
Proof.
  unfold T.sources. rewrite filter_In. split; [tauto|]. intros H. split; [|exact H].
  unfold T.is_source in H. apply Bool.andb_true_iff in H. apply TP.mem_In. exact (proj1 H).
Qed.
Lemma In_targets s t : In t (T.targets s) <-> T.is_target s t = true.
Proof.
  unfold T.targets. rewrite filter_In. split; [tauto|]. intros H. split; [|exact H].
  unfold T.is_target in H. apply Bool.andb_true_iff in H. apply TP.mem_In. exact (proj1 H).
Qed.
Lemma In_intermediates s t : In t (T.intermediates s) <-> T.is_intermediate s t = true.
Proof.
  unfold T.intermediates. rewrite filter_In. split; [tauto|]. intros H. split; [|exact H].
  unfold T.is_intermediate in H. rewrite !Bool.andb_true_iff in H. apply TP.mem_In. tauto.
Qed.

(** scripts without DROP / RENAME: the source / target / intermediate tables of the FULL model
    depend only on the set of (abstractions of) the statements *)
Theorem roles_full_model_order_free : forall p hs hs',
  all_wf hs -> all_wf hs' -> all_plain hs -> all_plain hs' ->
  (forall x, In x (map abs_holder hs) <-> In x (map abs_holder hs')) ->
  forall g g', build p hs = BOk g -> build p hs' = BOk g' ->
  forall t,
    (In t (map key (source_tables g)) <-> In t (map key (source_tables g'))) /\
    (In t (map key (target_tables g)) <-> In t (map key (target_tables g'))) /\
    (In t (map key (intermediate_tables g)) <-> In t (map key (intermediate_tables g'))).
Proof.
  intros p hs hs' Hw Hw' Hp Hp' Hm g g' Hb Hb' t.
  pose proof (roles_refine p hs Hw) as R. rewrite Hb in R.
  destruct (T.build (map abs_holder hs)) as [s|] eqn:Es; [|contradiction]. destruct R as (R1 & R2 & R3).
  pose proof (roles_refine p hs' Hw') as R'. rewrite Hb' in R'.
  destruct (T.build (map abs_holder hs')) as [s'|] eqn:Es'; [|contradiction]. destruct R' as (R1' & R2' & R3').
  destruct (TP.order_dup_invariant _ _ s s' t (Forall_abs_plain hs Hp) (Forall_abs_wf hs)
              (Forall_abs_plain hs' Hp') (Forall_abs_wf hs') Hm Es Es') as (I1 & I2 & I3 & _).
  rewrite R1, R2, R3, R1', R2', R3', !In_sources, !In_targets, !In_intermediates, I1, I2, I3. tauto.
Qed.
Print Assumptions roles_full_model_order_free.

(** plain scripts always build *)
Lemma build_plain_total p hs : all_plain hs -> exists g, build p hs = BOk g.
Proof.
  intros Hp. destruct (fold_col_edges hs Hp empty_graph) as (g0 & E & _). unfold build. rewrite E.
  eexists; reflexivity.
Qed.

Lemma Forall_incl {A} (P : A -> Prop) l l' : (forall x, In x l' -> In x l) -> Forall P l -> Forall P l'.
Proof. rewrite !Forall_forall. intros H H1 x Hx. apply H1, H, Hx. Qed.

(** one-sided, literally the same statements in any order and multiplicity; and as printed
    (sorted, duplicates removed) *)
Definition printed_roles (g : graph) : list string * list string * list string :=
  (uniq_sorted (sort_strings (map key (source_tables g))),
   uniq_sorted (sort_strings (map key (target_tables g))),
   uniq_sorted (sort_strings (map key (intermediate_tables g)))).

Theorem roles_full_model_statement_order_free : forall p hs hs',
  all_wf hs -> all_plain hs -> (forall h, In h hs <-> In h hs') ->
  exists g g', build p hs = BOk g /\ build p hs' = BOk g' /\ printed_roles g = printed_roles g'.
Proof.
  intros p hs hs' Hw Hp Hm.
  assert (Hw' : all_wf hs') by (apply (Forall_incl _ hs hs'); [intros h; apply Hm|exact Hw]).
  assert (Hp' : all_plain hs') by (apply (Forall_incl _ hs hs'); [intros h; apply Hm|exact Hp]).
  destruct (build_plain_total p hs Hp) as (g & Hb). destruct (build_plain_total p hs' Hp') as (g' & Hb').
  exists g, g'. split; [exact Hb|]. split; [exact Hb'|].
  assert (Hm' : forall x, In x (map abs_holder hs) <-> In x (map abs_holder hs')).
  { intros x. rewrite !in_map_iff. split; intros (h & E & Hin); exists h; (split; [exact E|apply Hm; exact Hin]). }
  pose proof (roles_full_model_order_free p hs hs' Hw Hw' Hp Hp' Hm' g g' Hb Hb') as H.
  unfold printed_roles. f_equal; [f_equal|]; apply LemmaBProofs.us_ext; intros t; apply (H t).
Qed.
Print Assumptions roles_full_model_statement_order_free.

(** * 5. Non-vacuity *)
(** an executable sufficient condition for "the flows of [hs] are flows of [hs']" *)
Definition flows_subb (hs hs' : list holder) : bool :=
  forallb (fun h => forallb (fun e => negb (is_cc e) || uE hs' (esrc e) (etgt e)) (gedges (hg h))) hs.
Lemma flows_subb_sound hs hs' : flows_subb hs hs' = true -> forall a b, some_flow hs a b -> some_flow hs' a b.
Proof.
  unfold flows_subb. rewrite forallb_forall. intros H a0 b0 (h & Hin & Hf). specialize (H h Hin). rewrite forallb_forall in H.
  unfold flow in Hf. destruct (col_edge_cols _ _ _ Hf) as [Ca Cb]. unfold col_edge in Hf.
  apply Bool.andb_true_iff in Hf. destruct Hf as [_ Hf]. apply has_edge_In in Hf. destruct Hf as (e & He & E1 & E2).
  specialize (H e He). unfold is_cc in H. rewrite <- (is_column_eqb _ _ E1), <- (is_column_eqb _ _ E2), Ca, Cb in H.
  cbn [andb negb orb] in H. unfold uE in H. apply existsb_exists in H. destruct H as (h' & Hin' & Hc).
  exists h'. split; [exact Hin'|]. unfold flow. rewrite (col_edge_cong (hg h') a0 (esrc e) b0 (etgt e) E1 E2). exact Hc.
Qed.

Definition ex_hs : list holder :=
  [stmt [a] [b] [(cx a, cx b); (cy a, cy b)]; rw [b] []; stmt [b] [c] [(cx b, cx c)]].
(** permuted, with repetitions *)
Definition ex_hs' : list holder :=
  [stmt [b] [c] [(cx b, cx c)]; stmt [a] [b] [(cx a, cx b); (cy a, cy b)]; rw [b] []; stmt [b] [c] [(cx b, cx c)];
   stmt [a] [b] [(cx a, cx b); (cy a, cy b)]].
(** other statements with the same flows: the first INSERT split in two *)
Definition ex_hs'' : list holder :=
  [stmt [b] [c] [(cx b, cx c)]; stmt [a] [b] [(cy a, cy b)]; stmt [a] [b] [(cx a, cx b)]].
(** the same statement graphs, every graph re-inserted in the reverse order *)
Definition reinsert (h : holder) : holder := mk (rev (gnodes (hg h))) (rev (gedges (hg h))) (rev (h_renames h)).

Lemma ex_reports g : build p0 ex_hs = BOk g -> reports g true (cx a) (cx c) /\ reports g true (cy a) (cy b).
Proof.
  intros Hb. destruct (c04_main p0 ex_hs) as (g1 & Hb1 & _ & H); [vm_compute; reflexivity|].
  rewrite Hb in Hb1. apply BOk_inj in Hb1. subst g1. split.
  - apply H. rewrite fed_fedb, consumed_consumedb. split; [|split; [|split]].
    + vm_compute. discriminate.
    + vm_compute. discriminate.
    + intros _. vm_compute. reflexivity.
    + apply (co_step ex_hs (stmt [a] [b] [(cx a, cx b); (cy a, cy b)]) _ (cx b)); [left; reflexivity|vm_compute; reflexivity|].
      apply (co_one ex_hs (stmt [b] [c] [(cx b, cx c)])); [right; right; left; reflexivity|vm_compute; reflexivity].
  - apply H. rewrite fed_fedb, consumed_consumedb. split; [|split; [|split]].
    + vm_compute. discriminate.
    + vm_compute. discriminate.
    + intros _. vm_compute. reflexivity.
    + apply (co_one ex_hs (stmt [a] [b] [(cx a, cx b); (cy a, cy b)])); [left; reflexivity|vm_compute; reflexivity].
Qed.

Example ex_statement_order :
  c04_hyps ex_hs = true /\ (forall h, In h ex_hs <-> In h ex_hs') /\
  pairs_of p0 ex_hs = ["a.x>c.x"; "a.y>b.y"] /\ pairs_of p0 ex_hs' = ["a.x>c.x"; "a.y>b.y"] /\
  exists g g', build p0 ex_hs = BOk g /\ build p0 ex_hs' = BOk g' /\
    (forall b s t, reports g b s t <-> reports g' b s t) /\
    reports g true (cx a) (cx c) /\ reports g' true (cx a) (cx c).
Proof.
  assert (Hh : c04_hyps ex_hs = true) by (vm_compute; reflexivity).
  assert (Hm : forall h, In h ex_hs <-> In h ex_hs') by (intros h; unfold ex_hs, ex_hs'; cbn [In]; tauto).
  split; [exact Hh|]. split; [exact Hm|]. split; [vm_compute; reflexivity|]. split; [vm_compute; reflexivity|].
  destruct (column_pairs_statement_order_free_strong p0 ex_hs ex_hs' Hh Hm) as (g & g' & Hb & Hb' & H).
  exists g, g'. split; [exact Hb|]. split; [exact Hb'|]. split; [exact H|].
  pose proof (proj1 (ex_reports g Hb)) as R. split; [exact R|apply H; exact R].
Qed.

Example ex_flows_only :
  c04_hyps ex_hs = true /\ c04_hyps ex_hs'' = true /\
  (forall a b, (exists h, In h ex_hs /\ flow h a b) <-> (exists h, In h ex_hs'' /\ flow h a b)) /\
  ~ (forall h, In h ex_hs -> In h ex_hs'') /\
  pairs_of p0 ex_hs'' = ["a.x>c.x"; "a.y>b.y"] /\
  exists g g', build p0 ex_hs = BOk g /\ build p0 ex_hs'' = BOk g' /\
    (forall b s t, reports g b s t <-> reports g' b s t) /\ reports g' true (cy a) (cy b).
Proof.
  assert (Hh : c04_hyps ex_hs = true) by (vm_compute; reflexivity).
  assert (Hh' : c04_hyps ex_hs'' = true) by (vm_compute; reflexivity).
  assert (Hf : forall a b, (exists h, In h ex_hs /\ flow h a b) <-> (exists h, In h ex_hs'' /\ flow h a b)).
  { intros a0 b0. split; [apply (flows_subb_sound ex_hs ex_hs'')|apply (flows_subb_sound ex_hs'' ex_hs)]; vm_compute; reflexivity. }
  split; [exact Hh|]. split; [exact Hh'|]. split; [exact Hf|]. split.
  { intros H. specialize (H (rw [b] []) (or_intror (or_introl eq_refl))). unfold ex_hs'' in H. cbn [In] in H.
    destruct H as [H|[H|[H|[]]]]; apply (f_equal (fun h => List.length (gnodes (hg h)))) in H; vm_compute in H; discriminate H. }
  split; [vm_compute; reflexivity|].
  destruct (c04_main p0 ex_hs Hh) as (g & Hb & _). destruct (c04_main p0 ex_hs'' Hh') as (g' & Hb' & _).
  exists g, g'. split; [exact Hb|]. split; [exact Hb'|].
  pose proof (column_pairs_depend_on_flows_only p0 ex_hs ex_hs'' Hh Hh' Hf g g' Hb Hb') as H.
  split; [exact H|]. apply H. exact (proj2 (ex_reports g Hb)).
Qed.

Example ex_insertion_order :
  Forall2 holder_equiv_lit ex_hs (map reinsert ex_hs) /\
  map (fun h => map (fun p => show_node (fst p)) (gnodes (hg h))) ex_hs <>
  map (fun h => map (fun p => show_node (fst p)) (gnodes (hg h))) (map reinsert ex_hs) /\
  pairs_of p0 (map reinsert ex_hs) = ["a.x>c.x"; "a.y>b.y"] /\
  exists g g', build p0 ex_hs = BOk g /\ build p0 (map reinsert ex_hs) = BOk g' /\
    (forall b s t, reports g b s t <-> reports g' b s t) /\ reports g' true (cx a) (cx c).
Proof.
  assert (Hh : c04_hyps ex_hs = true) by (vm_compute; reflexivity).
  assert (He : Forall2 holder_equiv_lit ex_hs (map reinsert ex_hs)).
  { unfold ex_hs. cbn [map]. constructor; [|constructor; [|constructor; [|constructor]]];
      apply same_entries_equiv_lit; vm_compute; intros x; tauto. }
  split; [exact He|]. split; [vm_compute; discriminate|]. split; [vm_compute; reflexivity|].
  destruct (column_pairs_insertion_order_free_lit p0 ex_hs (map reinsert ex_hs) He Hh) as (g & g' & Hb & Hb' & H).
  exists g, g'. split; [exact Hb|]. split; [exact Hb'|]. split; [exact H|]. apply H. exact (proj1 (ex_reports g Hb)).
Qed.

Example ex_printed :
  pairs_of p0 ex_hs = pairs_of p0 ex_hs' /\ pairs_of p0 ex_hs = pairs_of p0 (map reinsert ex_hs) /\ pairs_of p0 ex_hs <> [].
Proof.
  split; [|split].
  - apply pairs_of_statement_order_free; [vm_compute; reflexivity|]. intros h; unfold ex_hs, ex_hs'; cbn [In]; tauto.
  - apply pairs_of_insertion_order_free; [exact (proj1 ex_insertion_order)|vm_compute; reflexivity].
  - vm_compute. discriminate.
Qed.

Example ex_roles :
  all_wf ex_hs /\ all_plain ex_hs /\
  exists g g', build p0 ex_hs = BOk g /\ build p0 ex_hs' = BOk g' /\ printed_roles g = printed_roles g' /\
    printed_roles g = (["T:a"; "T:b"], ["T:c"], ["T:b"]).
Proof.
  assert (Hw : all_wf ex_hs) by (repeat constructor).
  assert (Hp : all_plain ex_hs) by (repeat constructor).
  split; [exact Hw|]. split; [exact Hp|].
  destruct (roles_full_model_statement_order_free p0 ex_hs ex_hs' Hw Hp) as (g & g' & Hb & Hb' & H).
  { intros h; unfold ex_hs, ex_hs'; cbn [In]; tauto. }
  exists g, g'. split; [exact Hb|]. split; [exact Hb'|]. split; [exact H|].
  vm_compute in Hb. apply BOk_inj in Hb. subst g. vm_compute. reflexivity.
Qed.

(** * 6. Contrast: without [plain_holder] the result depends on the order
    K-C03-1 in the full model: a RENAME statement with chained pairs a -> b, b -> c.  The two
    holders below are the same graph with the same RENAME set ([holder_equiv_lit]); the
    implementation iterates the pairs in set order.  In one order the script builds (c is the target,
    the column pair is reported), in the other it raises NetworkXError. *)
Lemma holder_equiv_lit_refl h : holder_equiv_lit h h.
Proof. split; [apply holder_equiv_refl|split; intros n; tauto]. Qed.

Definition rn_good : list holder := [stmt [d] [a] [(cx d, cx a)]; ren [(a, b); (b, c)]].
Definition rn_bad : list holder := [stmt [d] [a] [(cx d, cx a)]; ren [(b, c); (a, b)]].

Theorem rename_order_dependent_full_model :
  Forall2 holder_equiv_lit rn_good rn_bad /\
  forallb plain_holder rn_good = false /\ forallb resolved_holder rn_good = true /\ forallb cwf_holder rn_good = true /\
  all_wf rn_good /\ all_wf rn_bad /\
  (exists g, build p0 rn_good = BOk g /\ map show_node (target_tables g) = ["T:c"] /\ printed_pairs true g = ["d.x>a.x"]) /\
  build p0 rn_bad = ErrNetworkX /\ pairs_of p0 rn_good <> pairs_of p0 rn_bad.
Proof.
  split.
  { unfold rn_good, rn_bad. constructor; [apply holder_equiv_lit_refl|]. constructor; [|constructor].
    apply same_entries_equiv_lit; vm_compute; intros x; tauto. }
  split; [vm_compute; reflexivity|]. split; [vm_compute; reflexivity|]. split; [vm_compute; reflexivity|].
  split; [repeat constructor|]. split; [repeat constructor|]. split.
  { destruct (build p0 rn_good) as [g| |] eqn:Eg; try (vm_compute in Eg; discriminate Eg).
    exists g. split; [reflexivity|]. vm_compute in Eg. apply BOk_inj in Eg. subst g. split; vm_compute; reflexivity. }
  split; [vm_compute; reflexivity|vm_compute; discriminate].
Qed.
Print Assumptions rename_order_dependent_full_model.

(** statement order does matter for DROP (as it should: the statements do not commute) *)
Theorem drop_statement_order_dependent :
  let hs := [rw_bare [] [a]; drop [a]] in let hs' := [drop [a]; rw_bare [] [a]] in
  (forall h, In h hs <-> In h hs') /\ forallb plain_holder hs = false /\ all_wf hs /\
  match build p0 hs, build p0 hs' with
  | BOk g, BOk g' => map show_node (target_tables g) = [] /\ map show_node (target_tables g') = ["T:a"]
  | _, _ => False
  end.
Proof.
  cbv zeta. split; [intros h; cbn [In]; tauto|]. split; [vm_compute; reflexivity|]. split; [repeat constructor|].
  vm_compute. split; reflexivity.
Qed.
Print Assumptions drop_statement_order_dependent.

Print Assumptions ex_statement_order.
Print Assumptions ex_flows_only.
Print Assumptions ex_insertion_order.
Print Assumptions ex_printed.
Print Assumptions ex_roles.

(** the variant that asks only [resolved_holder] of the second script, on the same example *)
Example ex_insertion_order_resolved :
  Forall2 holder_equiv ex_hs (map reinsert ex_hs) /\ c04_hyps ex_hs = true /\
  forallb resolved_holder (map reinsert ex_hs) = true /\ c04_hyps (map reinsert ex_hs) = true.
Proof.
  pose proof (Forall2_lit_equiv _ _ (proj1 ex_insertion_order)) as He.
  assert (Hh : c04_hyps ex_hs = true) by (vm_compute; reflexivity).
  assert (Hr : forallb resolved_holder (map reinsert ex_hs) = true) by (vm_compute; reflexivity).
  split; [exact He|]. split; [exact Hh|]. split; [exact Hr|].
  apply (c04_hyps_equiv ex_hs (map reinsert ex_hs) (Forall2_covers_r _ _ He) Hh Hr).
Qed.
Print Assumptions ex_insertion_order_resolved.
Print Assumptions flow_equiv.
Print Assumptions c04_hyps_equiv_plain_cwf.
Print Assumptions holder_equivb_sound.
Print Assumptions c04_hyps_equiv.
Print Assumptions same_entries_equiv_lit.
