(** Refinement, part 2: what the graph operations of NX/Graph.v do to the dataset-level view
    (dataset nodes in order, dataset -> dataset edges, wired datasets, tags). *)
From SV Require Import Holder.RefineDefs Holder.PathProofs.
From SV Require Holder.TableProofs.
Module TP := SV.Holder.TableProofs.

Lemma existsb_ext' {A} (f g : A -> bool) l : (forall x, f x = g x) -> existsb f l = existsb g l.
Proof. intros H. induction l as [|a r IH]; cbn [existsb]; [reflexivity|]. rewrite H, IH; reflexivity. Qed.

(** * Keys *)
Lemma key_eqb n m : is_dataset n = true -> node_eqb n m = String.eqb (key n) (key m).
Proof.
  destruct n as [d|c0|s0]; try discriminate. cbn [is_dataset]. intros Hd.
  destruct m as [e|c|s]; cbn [node_eqb key]; unfold dataset_eqb, dkey.
  - destruct (dk d), (dk e); try discriminate; reflexivity.
  - destruct (dk d); try discriminate; reflexivity.
  - destruct (dk d); try discriminate; reflexivity.
Qed.

Lemma is_dataset_eqb n m : node_eqb n m = true -> is_dataset n = is_dataset m.
Proof.
  destruct n as [d| |], m as [e| |]; cbn [node_eqb is_dataset]; try discriminate; try reflexivity.
  unfold dataset_eqb. intros H. apply Bool.andb_true_iff in H. destruct H as [H _].
  apply dkind_beq_eq in H. rewrite H. reflexivity.
Qed.

Lemma key_resp n m : node_eqb n m = true -> is_dataset n = true -> key n = key m.
Proof. intros H Hd. rewrite (key_eqb n m Hd) in H. apply String.eqb_eq; exact H. Qed.

Lemma key_inj n m : is_dataset n = true -> key n = key m -> node_eqb n m = true.
Proof. intros Hd H. rewrite (key_eqb n m Hd), H. apply String.eqb_refl. Qed.

Lemma key_is_dataset n m : is_dataset n = true -> key m = key n -> is_dataset m = true.
Proof.
  intros Hd H. rewrite <- (is_dataset_eqb n m); [exact Hd|]. apply key_inj; [exact Hd|]. symmetry; exact H.
Qed.

Lemma eqb_sym_true a b : node_eqb a b = true -> node_eqb b a = true.
Proof. rewrite node_eqb_sym. tauto. Qed.

Lemma eqb_cong_r a b x : node_eqb a b = true -> node_eqb x a = node_eqb x b.
Proof. intros H. rewrite (node_eqb_sym x a), (node_eqb_sym x b). apply node_eqb_cong_l; exact H. Qed.

Lemma mem_key n l : is_dataset n = true -> T.mem (key n) (map key l) = memn n l.
Proof.
  intros Hd. unfold T.mem, memn. induction l as [|m r IH]; cbn [map mem_string existsb]; [reflexivity|].
  rewrite IH, (key_eqb n m Hd). reflexivity.
Qed.

Lemma memn_filter_ds n l : is_dataset n = true -> memn n (filter is_dataset l) = memn n l.
Proof.
  intros Hd. unfold memn. induction l as [|m r IH]; cbn [filter existsb]; [reflexivity|].
  destruct (is_dataset m) eqn:E; cbn [existsb]; rewrite IH; [reflexivity|].
  destruct (node_eqb n m) eqn:E2; [|reflexivity].
  rewrite (is_dataset_eqb _ _ E2) in Hd. congruence.
Qed.

Lemma has_node_memn n l : has_node_l n l = memn n (map fst l).
Proof.
  unfold memn. induction l as [|[m a] r IH]; cbn [has_node_l map existsb fst]; [reflexivity|].
  rewrite IH; reflexivity.
Qed.

Lemma mem_dkeys g n : is_dataset n = true -> T.mem (key n) (dkeys g) = has_node g n.
Proof.
  intros Hd. unfold dkeys, dnodes, has_node. rewrite (mem_key n _ Hd), (memn_filter_ds n _ Hd), has_node_memn.
  reflexivity.
Qed.

(** a key that is not a dataset key is not in [dkeys] *)
Lemma In_dkeys_ds l x : In x (map key (filter is_dataset l)) -> exists n, In n l /\ is_dataset n = true /\ key n = x.
Proof.
  rewrite in_map_iff. intros (n & Hk & Hin). apply filter_In in Hin. destruct Hin as [Hin Hd].
  exists n; auto.
Qed.

Lemma mem_dkeys_nonds g n : is_dataset n = false -> T.mem (key n) (dkeys g) = false.
Proof.
  intros Hd. apply TP.mem_false. intros Hin. apply In_dkeys_ds in Hin.
  destruct Hin as (m & _ & Hm & Hk). rewrite (key_is_dataset m n Hm) in Hd; [discriminate|]. symmetry; exact Hk.
Qed.

(** * Predicates that respect node equality *)
Definition eresp (P : node * node * eattrs -> bool) : Prop :=
  forall u v a u' v' a', node_eqb u u' = true -> node_eqb v v' = true -> P (u, v, a) = P (u', v', a').

Definition Pk (x y : string) (e : node * node * eattrs) : bool :=
  dd e && String.eqb (key (esrc e)) x && String.eqb (key (etgt e)) y.
Definition Pw (x : string) (e : node * node * eattrs) : bool :=
  (is_dataset (esrc e) && negb (is_dataset (etgt e)) && String.eqb (key (esrc e)) x) ||
  (is_dataset (etgt e) && negb (is_dataset (esrc e)) && String.eqb (key (etgt e)) x).
Definition Pinc (n : node) (e : node * node * eattrs) : bool :=
  node_eqb n (esrc e) || node_eqb n (etgt e).

Lemma eresp_Pk x y : eresp (Pk x y).
Proof.
  intros u v a u' v' a' Hu Hv. unfold Pk, dd, esrc, etgt; cbn [fst snd].
  rewrite <- (is_dataset_eqb _ _ Hu), <- (is_dataset_eqb _ _ Hv).
  destruct (is_dataset u) eqn:Eu; [|reflexivity]. destruct (is_dataset v) eqn:Ev; [|reflexivity].
  rewrite (key_resp _ _ Hu Eu), (key_resp _ _ Hv Ev). reflexivity.
Qed.
Lemma eresp_Pw x : eresp (Pw x).
Proof.
  intros u v a u' v' a' Hu Hv. unfold Pw, esrc, etgt; cbn [fst snd].
  rewrite <- (is_dataset_eqb _ _ Hu), <- (is_dataset_eqb _ _ Hv).
  destruct (is_dataset u) eqn:Eu, (is_dataset v) eqn:Ev; cbn [andb negb orb]; try reflexivity.
  - rewrite (key_resp _ _ Hu Eu). reflexivity.
  - rewrite (key_resp _ _ Hv Ev). reflexivity.
Qed.
Lemma eresp_edge_is x y : eresp (edge_is x y).
Proof.
  intros u v a u' v' a' Hu Hv. unfold edge_is; cbn [fst snd].
  rewrite (eqb_cong_r _ _ x Hu), (eqb_cong_r _ _ y Hv). reflexivity.
Qed.
Lemma eresp_Pinc n : eresp (Pinc n).
Proof.
  intros u v a u' v' a' Hu Hv. unfold Pinc, esrc, etgt; cbn [fst snd].
  rewrite (eqb_cong_r _ _ n Hu), (eqb_cong_r _ _ n Hv). reflexivity.
Qed.
Lemma eresp_and P Q : eresp P -> eresp Q -> eresp (fun e => P e && Q e).
Proof. intros HP HQ u v a u' v' a' Hu Hv. rewrite (HP u v a u' v' a' Hu Hv), (HQ u v a u' v' a' Hu Hv). reflexivity. Qed.
Lemma eresp_neg P : eresp P -> eresp (fun e => negb (P e)).
Proof. intros HP u v a u' v' a' Hu Hv. rewrite (HP u v a u' v' a' Hu Hv). reflexivity. Qed.

Lemma has_edge_existsb u v l : has_edge_l u v l = existsb (edge_is u v) l.
Proof. induction l as [|e r IH]; cbn [has_edge_l existsb]; [reflexivity|]. rewrite IH; reflexivity. Qed.

(** bridges between the abstraction (lists of keys) and boolean searches in the graph *)
Lemma In_dd_keys g x y : In (x, y) (dd_keys g) <-> existsb (Pk x y) (gedges g) = true.
Proof.
  unfold dd_keys. rewrite in_map_iff, existsb_exists. split.
  - intros (e & Hk & Hin). apply filter_In in Hin. destruct Hin as [Hin Hd]. exists e. split; [exact Hin|].
    unfold Pk. rewrite Hd. unfold kp in Hk. inversion Hk. unfold esrc, etgt. rewrite !String.eqb_refl. reflexivity.
  - intros (e & Hin & HP). unfold Pk in HP. apply Bool.andb_true_iff in HP. destruct HP as [HP H2].
    apply Bool.andb_true_iff in HP. destruct HP as [Hd H1].
    apply String.eqb_eq in H1, H2. exists e. split; [|apply filter_In; auto].
    unfold kp. unfold esrc in H1; unfold etgt in H2. rewrite H1, H2. reflexivity.
Qed.

Lemma In_wired_keys g x : In x (wired_keys g) <-> existsb (Pw x) (gedges g) = true.
Proof.
  unfold wired_keys. rewrite in_flat_map, existsb_exists. split.
  - intros (e & Hin & Hx). exists e. split; [exact Hin|]. unfold Pw. apply in_app_iff in Hx. destruct Hx as [Hx|Hx].
    + destruct (is_dataset (esrc e) && negb (is_dataset (etgt e))); [|destruct Hx].
      destruct Hx as [Hx|[]]. rewrite Hx, String.eqb_refl. reflexivity.
    + destruct (is_dataset (etgt e) && negb (is_dataset (esrc e))); [|destruct Hx].
      destruct Hx as [Hx|[]]. rewrite Hx, String.eqb_refl. cbn [andb]. apply Bool.orb_true_r.
  - intros (e & Hin & HP). exists e. split; [exact Hin|]. unfold Pw in HP. apply in_app_iff.
    apply Bool.orb_true_iff in HP. destruct HP as [HP|HP]; apply Bool.andb_true_iff in HP; destruct HP as [HP Hk];
      apply String.eqb_eq in Hk; rewrite HP; [left|right]; left; exact Hk.
Qed.

Definition Qt (k x : string) (p : node * nattrs) : bool :=
  is_dataset (fst p) && String.eqb (key (fst p)) x && attr_true k (snd p).
Definition Qn (x : string) (p : node * nattrs) : bool :=
  is_dataset (fst p) && String.eqb (key (fst p)) x.

Lemma In_tag_keys g k x : In x (tag_keys g k) <-> existsb (Qt k x) (gnodes g) = true.
Proof.
  unfold tag_keys, retrieve_tag, tagged. rewrite map_map, in_map_iff, existsb_exists. split.
  - intros (p & Hk & Hin). apply filter_In in Hin. destruct Hin as [Hin Hf]. exists p. split; [exact Hin|].
    apply Bool.andb_true_iff in Hf. destruct Hf as [Ha Hd]. unfold Qt. rewrite Ha, Hd, Hk, String.eqb_refl. reflexivity.
  - intros (p & Hin & HQ). unfold Qt in HQ. apply Bool.andb_true_iff in HQ. destruct HQ as [HQ Ha].
    apply Bool.andb_true_iff in HQ. destruct HQ as [Hd Hk]. apply String.eqb_eq in Hk.
    exists p. split; [exact Hk|]. apply filter_In. split; [exact Hin|]. rewrite Ha, Hd. reflexivity.
Qed.

Lemma In_dkeys g x : In x (dkeys g) <-> existsb (Qn x) (gnodes g) = true.
Proof.
  unfold dkeys, dnodes. rewrite in_map_iff, existsb_exists. split.
  - intros (n & Hk & Hin). apply filter_In in Hin. destruct Hin as [Hin Hd]. apply in_map_iff in Hin.
    destruct Hin as (p & Hp & Hin). exists p. split; [exact Hin|]. unfold Qn. rewrite Hp, Hd, Hk, String.eqb_refl. reflexivity.
  - intros (p & Hin & HQ). unfold Qn in HQ. apply Bool.andb_true_iff in HQ. destruct HQ as [Hd Hk].
    apply String.eqb_eq in Hk. exists (fst p). split; [exact Hk|]. apply filter_In. split; [|exact Hd].
    apply in_map. exact Hin.
Qed.

(** * Edges *)
Lemma canon_eqb n l : node_eqb (canon_l n l) n = true.
Proof.
  induction l as [|[m a] r IH]; cbn [canon_l]; [apply node_eqb_refl|].
  destruct (node_eqb n m) eqn:E; [apply eqb_sym_true; exact E|exact IH].
Qed.

Lemma existsb_upsert_edge P u v a l : eresp P ->
  existsb P (upsert_edge u v a l) = P (u, v, a) || existsb P l.
Proof.
  intros HP. induction l as [|e r IH]; cbn [upsert_edge existsb]; [reflexivity|].
  destruct (edge_is u v e) eqn:E; cbn [existsb].
  - destruct e as [[u' v'] a']. unfold edge_is in E; cbn [fst snd] in E |- *.
    apply Bool.andb_true_iff in E. destruct E as [E1 E2].
    rewrite (HP u v a u' v' a' E1 E2), (HP u' v' (eattr_update a' a) u' v' a' (node_eqb_refl _) (node_eqb_refl _)).
    destruct (P (u', v', a')); reflexivity.
  - rewrite IH. destruct (P e), (P (u, v, a)); reflexivity.
Qed.

Definition fold_edges (f : node -> node) (ns : list (node * nattrs)) (es l0 : list (node * node * eattrs)) :=
  fold_left (fun l e => upsert_edge (canon_l (f (fst (fst e))) ns) (canon_l (f (snd (fst e))) ns) (snd e) l) es l0.

Lemma existsb_fold_edges P f ns es : eresp P -> forall l0,
  existsb P (fold_edges f ns es l0) =
  existsb P l0 || existsb (fun e => P (f (esrc e), f (etgt e), snd e)) es.
Proof.
  intros HP. unfold fold_edges. induction es as [|e r IH]; intros l0; cbn [fold_left existsb].
  - rewrite Bool.orb_false_r; reflexivity.
  - rewrite IH, (existsb_upsert_edge P _ _ _ _ HP).
    rewrite (HP _ _ (snd e) (f (fst (fst e))) (f (snd (fst e))) (snd e) (canon_eqb _ _) (canon_eqb _ _)).
    unfold esrc, etgt. destruct (P (f (fst (fst e)), f (snd (fst e)), snd e)), (existsb P l0); reflexivity.
Qed.

Lemma gedges_compose g h : gedges (compose g h) = fold_edges (fun x => x) (gnodes (compose g h)) (gedges h) (gedges g).
Proof. reflexivity. Qed.

Lemma existsb_compose P g h : eresp P ->
  existsb P (gedges (compose g h)) = existsb P (gedges g) || existsb P (gedges h).
Proof.
  intros HP. rewrite gedges_compose, (existsb_fold_edges P _ _ _ HP). f_equal.
  apply existsb_ext'. intros [[u v] a]. reflexivity.
Qed.


(** * Nodes *)
Definition nadd (n : node) (l : list node) : list node := if memn n l then l else l ++ [n].
Fixpoint nadd_all (xs l : list node) : list node :=
  match xs with [] => l | x :: r => nadd_all r (nadd x l) end.

Lemma memn_cong a b l : node_eqb a b = true -> memn a l = memn b l.
Proof.
  intros H. unfold memn. induction l as [|m r IH]; cbn [existsb]; [reflexivity|].
  rewrite IH, (node_eqb_cong_l a b m H). reflexivity.
Qed.

Lemma memn_app n l1 l2 : memn n (l1 ++ l2) = memn n l1 || memn n l2.
Proof. unfold memn. apply existsb_app. Qed.

Lemma memn_nadd n x l : memn n (nadd x l) = node_eqb n x || memn n l.
Proof.
  unfold nadd. destruct (memn x l) eqn:E.
  - destruct (node_eqb n x) eqn:E2; [|reflexivity]. rewrite (memn_cong n x l E2), E. reflexivity.
  - rewrite memn_app. unfold memn at 2; cbn [existsb]. rewrite Bool.orb_false_r. apply Bool.orb_comm.
Qed.

Lemma memn_nadd_all n xs : forall l, memn n (nadd_all xs l) = memn n xs || memn n l.
Proof.
  induction xs as [|x r IH]; intros l; cbn [nadd_all]; [reflexivity|].
  rewrite IH, memn_nadd. unfold memn at 3; cbn [existsb]. fold (memn n r).
  destruct (node_eqb n x), (memn n r); reflexivity.
Qed.

Lemma map_fst_upsert n a l : map fst (upsert_node n a l) = nadd n (map fst l).
Proof.
  induction l as [|[m b] r IH]; cbn [upsert_node map fst]; [reflexivity|].
  destruct (node_eqb n m) eqn:E; cbn [map fst].
  - unfold nadd, memn; cbn [existsb]. rewrite E. reflexivity.
  - rewrite IH. unfold nadd, memn; cbn [existsb]. rewrite E. cbn [orb].
    destruct (existsb (node_eqb n) (map fst r)); reflexivity.
Qed.

Definition fold_upsert (hs l0 : list (node * nattrs)) : list (node * nattrs) :=
  fold_left (fun l p => upsert_node (fst p) (snd p) l) hs l0.

Lemma map_fst_fold_upsert hs : forall l0, map fst (fold_upsert hs l0) = nadd_all (map fst hs) (map fst l0).
Proof.
  unfold fold_upsert. induction hs as [|p r IH]; intros l0; cbn [fold_left map nadd_all]; [reflexivity|].
  rewrite IH, map_fst_upsert. reflexivity.
Qed.

Lemma gnodes_compose g h : gnodes (compose g h) = fold_upsert (gnodes h) (gnodes g).
Proof. reflexivity. Qed.

Lemma dkeys_nadd n l :
  map key (filter is_dataset (nadd n l)) =
  if is_dataset n then T.add (key n) (map key (filter is_dataset l)) else map key (filter is_dataset l).
Proof.
  unfold nadd, T.add. destruct (is_dataset n) eqn:Hd.
  - rewrite (mem_key n _ Hd), (memn_filter_ds n l Hd). destruct (memn n l); [reflexivity|].
    rewrite filter_app, map_app. cbn [filter]. rewrite Hd. reflexivity.
  - destruct (memn n l); [reflexivity|]. rewrite filter_app. cbn [filter]. rewrite Hd, app_nil_r. reflexivity.
Qed.

Lemma dkeys_nadd_all xs : forall l,
  map key (filter is_dataset (nadd_all xs l)) =
  T.add_all (map key (filter is_dataset xs)) (map key (filter is_dataset l)).
Proof.
  induction xs as [|x r IH]; intros l; cbn [nadd_all filter]; [reflexivity|].
  rewrite IH, dkeys_nadd. destruct (is_dataset x); cbn [map T.add_all]; reflexivity.
Qed.

Lemma dkeys_compose g h : dkeys (compose g h) = T.add_all (dkeys h) (dkeys g).
Proof.
  unfold dkeys, dnodes. rewrite gnodes_compose, map_fst_fold_upsert, dkeys_nadd_all. reflexivity.
Qed.

Lemma has_node_compose g h n : has_node (compose g h) n = has_node h n || has_node g n.
Proof.
  unfold has_node. rewrite gnodes_compose, !has_node_memn, map_fst_fold_upsert, memn_nadd_all. reflexivity.
Qed.

(** ** attributes *)
Lemma attr_get_set k k' v a : attr_get k (attr_set k' v a) = if String.eqb k k' then Some v else attr_get k a.
Proof.
  induction a as [|[k2 v2] r IH]; cbn [attr_set attr_get]; [reflexivity|].
  destruct (String.eqb k' k2) eqn:E; cbn [attr_get].
  - apply String.eqb_eq in E; subst k2. destruct (String.eqb k k'); reflexivity.
  - rewrite IH. destruct (String.eqb k k') eqn:E1, (String.eqb k k2) eqn:E2; try reflexivity.
    apply String.eqb_eq in E1, E2. subst. rewrite String.eqb_refl in E. discriminate.
Qed.

Lemma attr_get_update k a : forall b, attr_get k a = None -> attr_get k (attr_update b a) = attr_get k b.
Proof.
  induction a as [|[k' v] r IH]; intros b; cbn [attr_update attr_get]; [reflexivity|].
  destruct (String.eqb k k') eqn:E; [discriminate|]. intros H. rewrite (IH _ H), attr_get_set, E. reflexivity.
Qed.

Lemma attr_true_set k k' v a : attr_true k (attr_set k' v a) = if String.eqb k k' then v else attr_true k a.
Proof. unfold attr_true. rewrite attr_get_set. destruct (String.eqb k k'); [destruct v|]; reflexivity. Qed.

Lemma no_true_set k k' v a : no_true k a = true -> negb (String.eqb k' k && v) = true -> no_true k (attr_set k' v a) = true.
Proof.
  intros Ha Hv. unfold no_true in *. induction a as [|[k2 v2] r IH]; cbn [attr_set forallb fst snd] in *.
  - rewrite Hv. reflexivity.
  - apply Bool.andb_true_iff in Ha. destruct Ha as [H1 H2].
    destruct (String.eqb k' k2); cbn [forallb fst snd].
    + rewrite Hv, H2. reflexivity.
    + rewrite H1, (IH H2). reflexivity.
Qed.

Lemma no_true_update k a : forall b, no_true k b = true -> no_true k a = true -> no_true k (attr_update b a) = true.
Proof.
  induction a as [|[k' v] r IH]; intros b Hb Ha; cbn [attr_update]; [exact Hb|].
  unfold no_true in Ha; cbn [forallb fst snd] in Ha. apply Bool.andb_true_iff in Ha. destruct Ha as [H1 H2].
  apply IH; [apply no_true_set; assumption|exact H2].
Qed.

Lemma no_true_attr_true k a : no_true k a = true -> attr_true k a = false.
Proof.
  unfold no_true, attr_true. induction a as [|[k' v] r IH]; cbn [forallb attr_get fst snd]; [reflexivity|].
  intros H. apply Bool.andb_true_iff in H. destruct H as [H1 H2]. rewrite (String.eqb_sym k k').
  destruct (String.eqb k' k); [|apply IH; exact H2]. destruct v; [discriminate|reflexivity].
Qed.

Lemma attr_get_none_true k a : attr_get k a = None -> attr_true k a = false.
Proof. unfold attr_true. intros H; rewrite H; reflexivity. Qed.

(** ** searches in the node list under upsert *)
Lemma existsb_upsert_node Q n a l :
  Q (n, a) = false ->
  (forall m b, node_eqb n m = true -> Q (m, attr_update b a) = Q (m, b)) ->
  existsb Q (upsert_node n a l) = existsb Q l.
Proof.
  intros Hn Hu. induction l as [|[m b] r IH]; cbn [upsert_node existsb].
  - rewrite Hn; reflexivity.
  - destruct (node_eqb n m) eqn:E; cbn [existsb]; [rewrite (Hu m b E); reflexivity|]. rewrite IH; reflexivity.
Qed.

Lemma existsb_fold_upsert Q hs :
  (forall p, In p hs -> Q p = false) ->
  (forall p, In p hs -> forall m b, node_eqb (fst p) m = true -> Q (m, attr_update b (snd p)) = Q (m, b)) ->
  forall l0, existsb Q (fold_upsert hs l0) = existsb Q l0.
Proof.
  unfold fold_upsert. induction hs as [|[n a] r IH]; intros Hn Hu l0; cbn [fold_left]; [reflexivity|].
  rewrite IH.
  - apply existsb_upsert_node; [apply (Hn (n, a)); left; reflexivity|].
    intros m b E. apply (Hu (n, a)); [left; reflexivity|exact E].
  - intros p Hp. apply Hn; right; exact Hp.
  - intros p Hp. apply Hu; right; exact Hp.
Qed.

(** the tag [k] is not mentioned by the dataset nodes of [l] *)
Definition tag_absent (k : string) (l : list (node * nattrs)) : Prop :=
  forall p, In p l -> is_dataset (fst p) = true -> attr_get k (snd p) = None.

Lemma tag_compose k x g h : tag_absent k (gnodes h) ->
  existsb (Qt k x) (gnodes (compose g h)) = existsb (Qt k x) (gnodes g).
Proof.
  intros Hab. rewrite gnodes_compose. apply existsb_fold_upsert.
  - intros [n a] Hin. unfold Qt; cbn [fst snd]. destruct (is_dataset n) eqn:Hd; [|reflexivity].
    rewrite (attr_get_none_true k a (Hab _ Hin Hd)). apply Bool.andb_false_r.
  - intros [n a] Hin m b E. unfold Qt; cbn [fst snd] in *. destruct (is_dataset m) eqn:Hd; [|reflexivity].
    rewrite <- (is_dataset_eqb _ _ E) in Hd. unfold attr_true. rewrite (attr_get_update k a b (Hab _ Hin Hd)). reflexivity.
Qed.

(** * set_attr *)
Lemma existsb_map {A B} (f : A -> B) (Q : B -> bool) l : existsb Q (map f l) = existsb (fun x => Q (f x)) l.
Proof. induction l as [|a r IH]; cbn [map existsb]; [reflexivity|]. rewrite IH; reflexivity. Qed.

Lemma existsb_false {A} (f : A -> bool) l : existsb f l = false -> forall x, In x l -> f x = false.
Proof.
  intros H x Hin. destruct (f x) eqn:E; [|reflexivity].
  assert (existsb f l = true) by (apply existsb_exists; exists x; auto). congruence.
Qed.

Lemma existsb_andc {A} (f : A -> bool) (c : bool) l : existsb (fun x => f x && c) l = existsb f l && c.
Proof.
  induction l as [|a r IH]; cbn [existsb]; [reflexivity|]. rewrite IH. destruct (f a), c, (existsb f r); reflexivity.
Qed.

Lemma existsb_filter {A} (Q f : A -> bool) l : existsb Q (filter f l) = existsb (fun x => Q x && f x) l.
Proof.
  induction l as [|a r IH]; cbn [filter existsb]; [reflexivity|].
  destruct (f a); cbn [existsb]; rewrite IH; [rewrite Bool.andb_true_r|rewrite Bool.andb_false_r]; reflexivity.
Qed.

Lemma map_fst_set_attr g ns k v : map fst (gnodes (set_attr g ns k v)) = map fst (gnodes g).
Proof.
  unfold set_attr; cbn [gnodes]. rewrite map_map. apply map_ext. intros p.
  destruct (existsb (node_eqb (fst p)) ns); reflexivity.
Qed.

Lemma dkeys_set_attr g ns k v : dkeys (set_attr g ns k v) = dkeys g.
Proof. unfold dkeys, dnodes. rewrite map_fst_set_attr. reflexivity. Qed.

Lemma has_node_set_attr g ns k v n : has_node (set_attr g ns k v) n = has_node g n.
Proof. unfold has_node. rewrite !has_node_memn, map_fst_set_attr. reflexivity. Qed.

Lemma tag_set_attr g ns k v k' x :
  existsb (Qt k' x) (gnodes (set_attr g ns k v)) =
  existsb (fun p => Qn x p && (if String.eqb k' k then (if memn (fst p) ns then v else attr_true k' (snd p))
                               else attr_true k' (snd p))) (gnodes g).
Proof.
  unfold set_attr; cbn [gnodes]. rewrite existsb_map. apply existsb_ext'. intros p. unfold Qt, Qn, memn.
  destruct (existsb (node_eqb (fst p)) ns); cbn [fst snd]; [|destruct (String.eqb k' k); reflexivity].
  rewrite attr_true_set. reflexivity.
Qed.

(** * add_edge, add_product *)
Lemma upsert_nil_present n l : has_node_l n l = true -> upsert_node n [] l = l.
Proof.
  induction l as [|[m b] r IH]; cbn [has_node_l upsert_node]; [discriminate|].
  destruct (node_eqb n m); cbn [orb]; [reflexivity|]. intros H. rewrite (IH H). reflexivity.
Qed.

Lemma gnodes_add_edge_present g u v a : has_node g u = true -> has_node g v = true ->
  gnodes (add_edge g u v a) = gnodes g.
Proof.
  intros Hu Hv. unfold add_edge, add_node; cbn [gnodes]. unfold has_node in *.
  rewrite (upsert_nil_present u _ Hu), (upsert_nil_present v _ Hv). reflexivity.
Qed.

Lemma existsb_add_edge P g u v a : eresp P ->
  existsb P (gedges (add_edge g u v a)) = P (u, v, a) || existsb P (gedges g).
Proof.
  intros HP. unfold add_edge; cbn [gedges add_node]. rewrite (existsb_upsert_edge P _ _ _ _ HP).
  rewrite (HP _ _ a u v a (canon_eqb _ _) (canon_eqb _ _)). reflexivity.
Qed.

Lemma add_edges_from g r ws : has_node g r = true -> (forall w, In w ws -> has_node g w = true) ->
  let g' := fold_left (fun g' w => add_edge g' r w lineage_edge) ws g in
  gnodes g' = gnodes g /\
  forall P, eresp P -> existsb P (gedges g') = existsb (fun w => P (r, w, lineage_edge)) ws || existsb P (gedges g).
Proof.
  revert g. induction ws as [|w rest IH]; intros g Hr Hw; cbn [fold_left existsb]; [split; reflexivity|].
  assert (Hn : gnodes (add_edge g r w lineage_edge) = gnodes g).
  { apply gnodes_add_edge_present; [exact Hr|apply Hw; left; reflexivity]. }
  destruct (IH (add_edge g r w lineage_edge)) as [I1 I2].
  - unfold has_node in *. rewrite Hn. exact Hr.
  - intros w' Hin. unfold has_node in *. rewrite Hn. apply Hw; right; exact Hin.
  - split; [rewrite I1; exact Hn|]. intros P HP. rewrite (I2 P HP), (existsb_add_edge P _ _ _ _ HP).
    destruct (P (r, w, lineage_edge)), (existsb (fun w0 => P (r, w0, lineage_edge)) rest); reflexivity.
Qed.

Lemma add_product_spec rs ws : forall g,
  (forall r, In r rs -> has_node g r = true) -> (forall w, In w ws -> has_node g w = true) ->
  gnodes (add_product rs ws g) = gnodes g /\
  forall P, eresp P ->
    existsb P (gedges (add_product rs ws g)) =
    existsb (fun r => existsb (fun w => P (r, w, lineage_edge)) ws) rs || existsb P (gedges g).
Proof.
  induction rs as [|r rest IH]; intros g Hr Hw; cbn [add_product existsb]; [split; reflexivity|].
  destruct (add_edges_from g r ws (Hr r (or_introl eq_refl)) Hw) as [A1 A2].
  destruct (IH (fold_left (fun g' w => add_edge g' r w lineage_edge) ws g)) as [I1 I2].
  - intros r' Hin. unfold has_node in *. rewrite A1. apply Hr; right; exact Hin.
  - intros w Hin. unfold has_node in *. rewrite A1. apply Hw; exact Hin.
  - split; [rewrite I1; exact A1|]. intros P HP. rewrite (I2 P HP), (A2 P HP).
    destruct (existsb (fun w => P (r, w, lineage_edge)) ws), (existsb (fun r0 => existsb (fun w => P (r0, w, lineage_edge)) ws) rest); reflexivity.
Qed.

(** * degree, remove_node *)
Lemma len_filter2 {A} (f g : A -> bool) l :
  Nat.eqb (List.length (filter f l) + List.length (filter g l)) 0 = negb (existsb (fun x => f x || g x) l).
Proof.
  induction l as [|a r IH]; cbn [filter existsb List.length]; [reflexivity|].
  destruct (f a), (g a); cbn [List.length orb negb plus]; try reflexivity.
  - rewrite Nat.add_succ_r. reflexivity.
  - exact IH.
Qed.

Lemma degree_zero g n : Nat.eqb (degree g n) 0 = negb (existsb (Pinc n) (gedges g)).
Proof. unfold degree, out_edges, in_edges. rewrite len_filter2. reflexivity. Qed.

Lemma gedges_remove_isolated g n : Nat.eqb (degree g n) 0 = true -> gedges (remove_node g n) = gedges g.
Proof.
  rewrite degree_zero, Bool.negb_true_iff. intros H. unfold remove_node; cbn [gedges].
  apply TP.filter_all. intros e Hin. pose proof (existsb_false _ _ H e Hin) as HP. unfold Pinc, esrc, etgt in HP.
  apply Bool.orb_false_iff in HP. destruct HP as [H1 H2]. rewrite H1, H2. reflexivity.
Qed.

Lemma gnodes_remove_node g n : gnodes (remove_node g n) = filter (fun p => negb (node_eqb n (fst p))) (gnodes g).
Proof. reflexivity. Qed.

Lemma dkeys_remove_ds g n : is_dataset n = true -> dkeys (remove_node g n) = T.remove (key n) (dkeys g).
Proof.
  intros Hd. unfold dkeys, dnodes. rewrite gnodes_remove_node.
  induction (gnodes g) as [|[m a] r IH]; cbn [filter map fst T.remove]; [reflexivity|].
  destruct (node_eqb n m) eqn:E; cbn [negb filter map fst].
  - rewrite <- (is_dataset_eqb _ _ E), Hd. cbn [map T.remove]. rewrite <- (key_resp _ _ E Hd), String.eqb_refl. exact IH.
  - destruct (is_dataset m) eqn:Hm; cbn [map T.remove]; [|exact IH].
    rewrite <- (key_eqb n m Hd), E, IH. reflexivity.
Qed.

Lemma dkeys_remove_nonds g n : is_dataset n = false -> dkeys (remove_node g n) = dkeys g.
Proof.
  intros Hd. unfold dkeys, dnodes. rewrite gnodes_remove_node.
  induction (gnodes g) as [|[m a] r IH]; cbn [filter map fst]; [reflexivity|].
  destruct (node_eqb n m) eqn:E; cbn [negb filter map fst].
  - rewrite <- (is_dataset_eqb _ _ E), Hd. exact IH.
  - destruct (is_dataset m); cbn [map]; rewrite IH; reflexivity.
Qed.

Lemma tag_remove_ds g n k x : is_dataset n = true ->
  existsb (Qt k x) (gnodes (remove_node g n)) = existsb (Qt k x) (gnodes g) && negb (String.eqb (key n) x).
Proof.
  intros Hd. rewrite gnodes_remove_node, existsb_filter, <- existsb_andc. apply existsb_ext'. intros p.
  unfold Qt. destruct (is_dataset (fst p)) eqn:Hp; [|reflexivity]. cbn [andb].
  destruct (String.eqb (key (fst p)) x) eqn:Hk; [|reflexivity]. apply String.eqb_eq in Hk.
  rewrite (key_eqb n (fst p) Hd), Hk. reflexivity.
Qed.

Lemma tag_remove_nonds g n k x : is_dataset n = false ->
  existsb (Qt k x) (gnodes (remove_node g n)) = existsb (Qt k x) (gnodes g).
Proof.
  intros Hd. rewrite gnodes_remove_node, existsb_filter. apply existsb_ext'. intros p.
  unfold Qt. destruct (is_dataset (fst p)) eqn:Hp; [|reflexivity].
  destruct (node_eqb n (fst p)) eqn:E; [|rewrite Bool.andb_true_r; reflexivity].
  rewrite (is_dataset_eqb _ _ E) in Hd. congruence.
Qed.

(** the abstract notion of isolation is degree zero *)
Lemma isolated_degree g n : is_dataset n = true ->
  T.isolated (abs_graph g) (key n) = Nat.eqb (degree g n) 0.
Proof.
  intros Hd. rewrite degree_zero. apply TP.bool_eq_iff. rewrite isolated_iff, Bool.negb_true_iff.
  cbn [abs_graph T.te T.tw]. split.
  - intros (H1 & H2 & H3). destruct (existsb (Pinc n) (gedges g)) eqn:E; [|reflexivity]. exfalso.
    apply existsb_exists in E. destruct E as (e & Hin & HP). unfold Pinc in HP. apply Bool.orb_true_iff in HP.
    destruct HP as [HP|HP].
    + pose proof (is_dataset_eqb _ _ HP) as Hs. rewrite Hd in Hs. pose proof (key_resp _ _ HP Hd) as Hk.
      destruct (is_dataset (etgt e)) eqn:Ht.
      * apply (H2 (key (etgt e))). apply In_dd_keys. apply existsb_exists. exists e. split; [exact Hin|].
        unfold Pk, dd. rewrite <- Hs, Ht, Hk, !String.eqb_refl. reflexivity.
      * apply H3. apply In_wired_keys. apply existsb_exists. exists e. split; [exact Hin|].
        unfold Pw. rewrite <- Hs, Ht, Hk, String.eqb_refl. reflexivity.
    + pose proof (is_dataset_eqb _ _ HP) as Hs. rewrite Hd in Hs. pose proof (key_resp _ _ HP Hd) as Hk.
      destruct (is_dataset (esrc e)) eqn:Ht.
      * apply (H1 (key (esrc e))). apply In_dd_keys. apply existsb_exists. exists e. split; [exact Hin|].
        unfold Pk, dd. rewrite <- Hs, Ht, Hk, !String.eqb_refl. reflexivity.
      * apply H3. apply In_wired_keys. apply existsb_exists. exists e. split; [exact Hin|].
        unfold Pw. rewrite <- Hs, Ht, Hk, String.eqb_refl. cbn [andb negb]. apply Bool.orb_true_r.
  - intros E. pose proof (existsb_false _ _ E) as Hall. repeat split.
    + intros r Hr. apply In_dd_keys in Hr. apply existsb_exists in Hr. destruct Hr as (e & Hin & HP).
      unfold Pk in HP. apply Bool.andb_true_iff in HP. destruct HP as [HP Hk]. apply String.eqb_eq in Hk.
      specialize (Hall e Hin). unfold Pinc in Hall. apply Bool.orb_false_iff in Hall. destruct Hall as [_ Hall].
      rewrite (key_inj n (etgt e) Hd) in Hall; [discriminate|]. symmetry; exact Hk.
    + intros w Hr. apply In_dd_keys in Hr. apply existsb_exists in Hr. destruct Hr as (e & Hin & HP).
      unfold Pk in HP. apply Bool.andb_true_iff in HP. destruct HP as [HP _]. apply Bool.andb_true_iff in HP.
      destruct HP as [_ Hk]. apply String.eqb_eq in Hk.
      specialize (Hall e Hin). unfold Pinc in Hall. apply Bool.orb_false_iff in Hall. destruct Hall as [Hall _].
      rewrite (key_inj n (esrc e) Hd) in Hall; [discriminate|]. symmetry; exact Hk.
    + intros Hr. apply In_wired_keys in Hr. apply existsb_exists in Hr. destruct Hr as (e & Hin & HP).
      specialize (Hall e Hin). unfold Pinc in Hall. apply Bool.orb_false_iff in Hall. destruct Hall as [A1 A2].
      unfold Pw in HP. apply Bool.orb_true_iff in HP.
      destruct HP as [HP|HP]; apply Bool.andb_true_iff in HP; destruct HP as [_ Hk]; apply String.eqb_eq in Hk.
      * rewrite (key_inj n (esrc e) Hd) in A1; [discriminate|]. symmetry; exact Hk.
      * rewrite (key_inj n (etgt e) Hd) in A2; [discriminate|]. symmetry; exact Hk.
Qed.

(** * relabel *)
Lemma relabel_present g old new : has_node g old = true ->
  relabel g old new =
  let ns := merge_nodes (map (fun p => (rename_node old new (fst p), snd p)) (gnodes g)) [] in
  {| gnodes := ns; gedges := fold_edges (rename_node old new) ns (gedges g) [] |}.
Proof. intros H. unfold relabel. rewrite H. reflexivity. Qed.
Lemma relabel_absent_g g old new : has_node g old = false -> relabel g old new = g.
Proof. intros H. unfold relabel. rewrite H. reflexivity. Qed.

Lemma map_fst_merge l : forall acc, map fst (merge_nodes l acc) = nadd_all (map fst l) (map fst acc).
Proof.
  induction l as [|[n a] r IH]; intros acc; cbn [merge_nodes map nadd_all fst]; [reflexivity|].
  rewrite IH. f_equal. unfold nadd. rewrite <- has_node_memn. destruct (has_node_l n acc).
  - rewrite map_map. apply map_ext. intros p. destruct (node_eqb n (fst p)); reflexivity.
  - rewrite map_app. reflexivity.
Qed.

Lemma mem_app x l1 l2 : T.mem x (l1 ++ l2) = T.mem x l1 || T.mem x l2.
Proof.
  unfold T.mem. induction l1 as [|y r IH]; cbn [app mem_string]; [reflexivity|]. rewrite IH, Bool.orb_assoc. reflexivity.
Qed.

Lemma dedup_ext l : forall s1 s2, (forall y, T.mem y s1 = T.mem y s2) -> T.dedup l s1 = T.dedup l s2.
Proof.
  induction l as [|x r IH]; intros s1 s2 H; cbn [T.dedup]; [reflexivity|]. rewrite (H x).
  destruct (T.mem x s2); [apply IH; exact H|]. f_equal. apply IH. intros y. unfold T.mem in *; cbn [mem_string].
  rewrite (H y). reflexivity.
Qed.

Lemma add_all_dedup xs : forall l, T.add_all xs l = l ++ T.dedup xs l.
Proof.
  induction xs as [|x r IH]; intros l; cbn [T.add_all T.dedup]; [rewrite app_nil_r; reflexivity|].
  unfold T.add. destruct (T.mem x l) eqn:E; [apply IH|]. rewrite IH, <- app_assoc. cbn [app]. f_equal. f_equal.
  apply dedup_ext. intros y. rewrite mem_app. unfold T.mem; cbn [mem_string]. rewrite Bool.orb_false_r. apply Bool.orb_comm.
Qed.

Lemma rename_ds old new m : is_dataset old = true -> is_dataset new = true ->
  is_dataset (rename_node old new m) = is_dataset m.
Proof.
  intros Ho Hn. unfold rename_node. destruct (node_eqb m old) eqn:E; [|reflexivity].
  rewrite (is_dataset_eqb _ _ E), Ho, Hn. reflexivity.
Qed.

Lemma rename_key old new m : is_dataset m = true ->
  key (rename_node old new m) = T.rn (key old) (key new) (key m).
Proof.
  intros Hm. unfold rename_node, T.rn. rewrite (key_eqb m old Hm). destruct (String.eqb (key m) (key old)); reflexivity.
Qed.

Lemma rename_resp old new a b : node_eqb a b = true -> node_eqb (rename_node old new a) (rename_node old new b) = true.
Proof.
  intros H. unfold rename_node. rewrite (node_eqb_cong_l a b old H). destruct (node_eqb b old); [apply node_eqb_refl|exact H].
Qed.

Lemma dkeys_rename old new ns : is_dataset old = true -> is_dataset new = true ->
  map key (filter is_dataset (map (rename_node old new) ns)) =
  map (T.rn (key old) (key new)) (map key (filter is_dataset ns)).
Proof.
  intros Ho Hn. induction ns as [|m r IH]; cbn [map filter]; [reflexivity|].
  rewrite (rename_ds old new m Ho Hn). destruct (is_dataset m) eqn:Hm; cbn [map]; [|exact IH].
  rewrite IH, (rename_key old new m Hm). reflexivity.
Qed.

Lemma dkeys_relabel g old new : has_node g old = true -> is_dataset old = true -> is_dataset new = true ->
  dkeys (relabel g old new) = T.dedup (map (T.rn (key old) (key new)) (dkeys g)) [].
Proof.
  intros Hp Ho Hn. rewrite (relabel_present g old new Hp). unfold dkeys, dnodes. cbn [gnodes].
  rewrite map_fst_merge, dkeys_nadd_all. cbn [map filter]. rewrite add_all_dedup. cbn [app].
  rewrite map_map. cbn [fst]. rewrite <- (map_map fst (rename_node old new)), (dkeys_rename old new _ Ho Hn). reflexivity.
Qed.

Lemma existsb_relabel P g old new : eresp P -> has_node g old = true ->
  existsb P (gedges (relabel g old new)) =
  existsb (fun e => P (rename_node old new (esrc e), rename_node old new (etgt e), snd e)) (gedges g).
Proof.
  intros HP Hp. rewrite (relabel_present g old new Hp). cbn [gedges]. rewrite (existsb_fold_edges P _ _ _ HP). reflexivity.
Qed.

Lemma has_node_relabel g old new v : has_node g old = true -> has_node g v = true ->
  has_node (relabel g old new) (rename_node old new v) = true.
Proof.
  intros Hp Hv. rewrite (relabel_present g old new Hp). unfold has_node in *. cbn [gnodes].
  rewrite has_node_memn, map_fst_merge, memn_nadd_all. cbn [map]. rewrite Bool.orb_false_r.
  rewrite has_node_memn in Hv. rewrite map_map. cbn [fst]. unfold memn in *.
  apply existsb_exists in Hv. destruct Hv as (m & Hin & E). apply existsb_exists.
  apply in_map_iff in Hin. destruct Hin as (p & Hp' & Hin). exists (rename_node old new (fst p)). split.
  - apply in_map_iff. exists p. split; [reflexivity|exact Hin].
  - subst m. apply rename_resp. exact E.
Qed.

(** ** attributes after the merge *)
Fixpoint last_attr (mu : node -> bool) (l : list (node * nattrs)) : option nattrs :=
  match l with
  | [] => None
  | p :: r => match last_attr mu r with
              | Some b => Some b
              | None => if mu (fst p) then Some (snd p) else None
              end
  end.
Definition oF (F : nattrs -> bool) (o : option nattrs) : bool := match o with Some a => F a | None => false end.
Definition cls (mu : node -> bool) : Prop :=
  (forall a b, node_eqb a b = true -> mu a = mu b) /\ (forall a b, mu a = true -> mu b = true -> node_eqb a b = true).

Lemma merge_last mu F l : cls mu -> forall acc,
  existsb (fun p => mu (fst p) && F (snd p)) (merge_nodes l acc) =
  match last_attr mu l with
  | Some a => F a
  | None => existsb (fun p => mu (fst p) && F (snd p)) acc
  end.
Proof.
  intros [C1 C2]. induction l as [|[m a] r IH]; intros acc; cbn [merge_nodes last_attr fst snd]; [reflexivity|].
  rewrite IH. destruct (last_attr mu r); [reflexivity|]. clear IH.
  destruct (has_node_l m acc) eqn:E.
  - rewrite existsb_map. destruct (mu m) eqn:Em.
    + induction acc as [|[q b] acc' IHa]; cbn [has_node_l] in E; [discriminate|]. cbn [existsb fst snd].
      destruct (node_eqb m q) eqn:E2; cbn [fst snd].
      * rewrite <- (C1 _ _ E2), Em. cbn [andb]. destruct (F a) eqn:EF; [reflexivity|]. cbn [orb].
        clear IHa E. induction acc' as [|[q' b'] acc'' IHb]; cbn [existsb fst snd]; [reflexivity|].
        rewrite IHb. destruct (node_eqb m q') eqn:E3; cbn [fst snd].
        -- rewrite EF, Bool.andb_false_r. reflexivity.
        -- destruct (mu q') eqn:Eq; [|reflexivity]. rewrite (C2 m q' Em Eq) in E3. discriminate.
      * cbn [orb] in E. rewrite (IHa E). destruct (mu q) eqn:Eq; [|reflexivity].
        rewrite (C2 m q Em Eq) in E2. discriminate.
    + apply existsb_ext'. intros [q b]. cbn [fst snd]. destruct (node_eqb m q) eqn:E2; [|reflexivity].
      cbn [fst snd]. rewrite <- (C1 _ _ E2), Em. reflexivity.
  - rewrite existsb_app. cbn [existsb fst snd]. rewrite Bool.orb_false_r. destruct (mu m) eqn:Em; [|apply Bool.orb_false_r].
    cbn [andb]. replace (existsb (fun p => mu (fst p) && F (snd p)) acc) with false; [reflexivity|].
    symmetry. induction acc as [|[q b] acc' IHa]; cbn [existsb has_node_l fst snd] in *; [reflexivity|].
    apply Bool.orb_false_iff in E. destruct E as [E1 E2]. rewrite (IHa E2), Bool.orb_false_r.
    destruct (mu q) eqn:Eq; [|reflexivity]. rewrite (C2 m q Em Eq) in E1. discriminate.
Qed.

Lemma last_attr_map (f : node -> node) mu l :
  last_attr mu (map (fun p => (f (fst p), snd p)) l) = last_attr (fun m => mu (f m)) l.
Proof. induction l as [|p r IH]; cbn [map last_attr fst snd]; [reflexivity|]. rewrite IH. reflexivity. Qed.

Lemma last_attr_ext mu mu' l : (forall p, In p l -> mu (fst p) = mu' (fst p)) -> last_attr mu l = last_attr mu' l.
Proof.
  induction l as [|p r IH]; intros H; cbn [last_attr]; [reflexivity|].
  rewrite IH, (H p (or_introl eq_refl)); [reflexivity|]. intros q Hq. apply H; right; exact Hq.
Qed.

Lemma last_attr_none mu l : last_attr mu l = None <-> existsb (fun p => mu (fst p)) l = false.
Proof.
  induction l as [|p r IH]; cbn [last_attr existsb]; [tauto|].
  destruct (last_attr mu r) eqn:E.
  - split; [discriminate|]. intros H. apply Bool.orb_false_iff in H. destruct H as [_ H]. apply IH in H. discriminate.
  - destruct IH as [IH _]. rewrite (IH eq_refl), Bool.orb_false_r. destruct (mu (fst p)); split; congruence.
Qed.

Lemma last_attr_nodup mu F l : cls mu -> nodup_nodes l = true ->
  oF F (last_attr mu l) = existsb (fun p => mu (fst p) && F (snd p)) l.
Proof.
  intros [C1 C2]. induction l as [|[m a] r IH]; intros Hnd; cbn [last_attr existsb fst snd]; [reflexivity|].
  cbn [nodup_nodes] in Hnd. apply Bool.andb_true_iff in Hnd. destruct Hnd as [H1 H2]. apply Bool.negb_true_iff in H1.
  specialize (IH H2). destruct (last_attr mu r) eqn:E.
  - cbn [oF] in *. rewrite <- IH. destruct (mu m) eqn:Em; [|reflexivity]. exfalso.
    assert (Hex : existsb (fun p => mu (fst p)) r = true).
    { destruct (existsb (fun p => mu (fst p)) r) eqn:E2; [reflexivity|]. apply last_attr_none in E2. congruence. }
    apply existsb_exists in Hex. destruct Hex as ([q b] & Hin & Hq). cbn [fst] in Hq.
    assert (has_node_l m r = true); [|congruence].
    rewrite has_node_memn. unfold memn. apply existsb_exists. exists q. split; [apply (in_map fst _ _ Hin)|apply C2; assumption].
  - cbn [oF] in IH. rewrite <- IH, Bool.orb_false_r. destruct (mu m); reflexivity.
Qed.

Definition mu_key (x : string) (m : node) : bool := is_dataset m && String.eqb (key m) x.
Lemma cls_mu_key x : cls (mu_key x).
Proof.
  split; unfold mu_key.
  - intros a b H. rewrite <- (is_dataset_eqb _ _ H). destruct (is_dataset a) eqn:Ha; [|reflexivity].
    rewrite (key_resp _ _ H Ha). reflexivity.
  - intros a b Ha Hb. apply Bool.andb_true_iff in Ha, Hb. destruct Ha as [Ha Ka], Hb as [Hb Kb].
    apply String.eqb_eq in Ka, Kb. apply key_inj; [exact Ha|congruence].
Qed.

Lemma Qt_mu k x l : existsb (Qt k x) l = existsb (fun p => mu_key x (fst p) && attr_true k (snd p)) l.
Proof. reflexivity. Qed.

Definition dkeysL (l : list (node * nattrs)) : list string := map key (dnodes l).

Lemma mem_dkeysL l n : is_dataset n = true -> T.mem (key n) (dkeysL l) = has_node_l n l.
Proof.
  intros Hd. unfold dkeysL, dnodes. rewrite (mem_key n _ Hd), (memn_filter_ds n _ Hd), has_node_memn. reflexivity.
Qed.

Lemma mem_dkeysL_Qn l x : T.mem x (dkeysL l) = existsb (Qn x) l.
Proof.
  apply TP.bool_eq_iff. rewrite TP.mem_In. apply (In_dkeys {| gnodes := l; gedges := [] |} x).
Qed.

Lemma dkeysL_cons m a r : dkeysL ((m, a) :: r) = if is_dataset m then key m :: dkeysL r else dkeysL r.
Proof. unfold dkeysL, dnodes. cbn [map fst filter]. destruct (is_dataset m); reflexivity. Qed.

Lemma no_key_no_tag k x r : T.mem x (dkeysL r) = false -> existsb (Qt k x) r = false.
Proof.
  intros H. destruct (existsb (Qt k x) r) eqn:E; [|reflexivity]. exfalso.
  apply existsb_exists in E. destruct E as (p & Hin & HQ).
  assert (existsb (Qn x) r = true).
  { apply existsb_exists. exists p. split; [exact Hin|]. unfold Qt in HQ. apply Bool.andb_true_iff in HQ. destruct HQ as [HQ _]. exact HQ. }
  rewrite <- mem_dkeysL_Qn in H0. congruence.
Qed.

Lemma no_key_mu x y r : T.mem x (dkeysL r) = false ->
  last_attr (fun m => is_dataset m && (String.eqb (key m) x || String.eqb (key m) y)) r = last_attr (mu_key y) r /\
  last_attr (fun m => is_dataset m && (String.eqb (key m) y || String.eqb (key m) x)) r = last_attr (mu_key y) r.
Proof.
  intros H. split; apply last_attr_ext; intros p Hp; unfold mu_key; destruct (is_dataset (fst p)) eqn:Hpd; try reflexivity;
    (destruct (String.eqb (key (fst p)) x) eqn:Ep; [|rewrite ?Bool.orb_false_r; reflexivity]); exfalso;
    (assert (existsb (Qn x) r = true) by (apply existsb_exists; exists p; split; [exact Hp|]; unfold Qn; rewrite Hpd, Ep; reflexivity));
    rewrite <- mem_dkeysL_Qn in H0; congruence.
Qed.

Lemma last_some_tag k x r : nodup_nodes r = true -> T.mem x (dkeysL r) = true ->
  exists b, last_attr (mu_key x) r = Some b /\ attr_true k b = existsb (Qt k x) r.
Proof.
  intros Hnd Hm. pose proof (last_attr_nodup (mu_key x) (attr_true k) r (cls_mu_key x) Hnd) as H.
  destruct (last_attr (mu_key x) r) as [b|] eqn:El.
  - exists b. split; [reflexivity|]. exact H.
  - exfalso. apply last_attr_none in El. rewrite mem_dkeysL_Qn in Hm. unfold Qn in Hm. unfold mu_key in El. congruence.
Qed.

(** the node that keeps its attributes when [old] is renamed to [new] and both exist *)
Lemma last_two k ko kn l : nodup_nodes l = true -> ko <> kn -> T.mem ko (dkeysL l) = true ->
  oF (attr_true k) (last_attr (fun m => is_dataset m && (String.eqb (key m) ko || String.eqb (key m) kn)) l) =
  if lio ko kn (dkeysL l) then existsb (Qt k ko) l else existsb (Qt k kn) l.
Proof.
  intros Hnd Hne. set (mu2 := fun m => is_dataset m && (String.eqb (key m) ko || String.eqb (key m) kn)).
  assert (Hne1 : String.eqb ko kn = false) by (apply String.eqb_neq; exact Hne).
  assert (Hne2 : String.eqb kn ko = false) by (apply String.eqb_neq; congruence).
  induction l as [|[m a] r IH]; intros Hm; [discriminate|].
  cbn [nodup_nodes] in Hnd. apply Bool.andb_true_iff in Hnd. destruct Hnd as [H1 H2]. apply Bool.negb_true_iff in H1.
  specialize (IH H2). rewrite dkeysL_cons in *. cbn [last_attr existsb fst snd].
  destruct (is_dataset m) eqn:Hd.
  - cbn [lio]. rewrite <- (mem_dkeysL r m Hd) in H1. unfold Qt at 1 3. unfold mu2 at 2. cbn [fst snd]. rewrite Hd. cbn [andb].
    destruct (String.eqb (key m) ko) eqn:E1.
    + apply String.eqb_eq in E1. rewrite E1 in *. rewrite Hne1. cbn [orb andb].
      rewrite (no_key_no_tag k ko r H1), Bool.orb_false_r.
      destruct (no_key_mu ko kn r H1) as [Hext _]. fold mu2 in Hext. rewrite Hext.
      destruct (T.mem kn (dkeysL r)) eqn:Emk; cbn [negb].
      * destruct (last_some_tag k kn r H2 Emk) as (b & Hb & Hb2). rewrite Hb. cbn [oF]. exact Hb2.
      * assert (El : last_attr (mu_key kn) r = None).
        { apply last_attr_none. rewrite mem_dkeysL_Qn in Emk. exact Emk. }
        rewrite El. reflexivity.
    + unfold T.mem in Hm; cbn [mem_string] in Hm. rewrite String.eqb_sym, E1 in Hm. cbn [orb] in Hm. fold (T.mem ko (dkeysL r)) in Hm.
      destruct (String.eqb (key m) kn) eqn:E2.
      * apply String.eqb_eq in E2. rewrite E2 in *. cbn [orb andb].
        destruct (no_key_mu kn ko r H1) as [_ Hext]. fold mu2 in Hext. rewrite Hext.
        destruct (last_some_tag k ko r H2 Hm) as (b & Hb & Hb2). rewrite Hb. cbn [oF]. exact Hb2.
      * cbn [orb andb]. rewrite <- (IH Hm). destruct (last_attr mu2 r); reflexivity.
  - unfold mu2 at 2. rewrite Hd. cbn [andb]. unfold Qt at 1 3. cbn [fst snd]. rewrite Hd. cbn [andb orb].
    rewrite <- (IH Hm). destruct (last_attr mu2 r); reflexivity.
Qed.

Lemma existsb_const_false {A} (l : list A) : existsb (fun _ => false) l = false.
Proof. induction l; cbn [existsb]; auto. Qed.

Lemma rn_eqb_new ko kn y : String.eqb (T.rn ko kn y) kn = String.eqb y ko || String.eqb y kn.
Proof. unfold T.rn. destruct (String.eqb y ko); [apply String.eqb_refl|reflexivity]. Qed.

Lemma rn_eqb_other ko kn y x : String.eqb x kn = false ->
  String.eqb (T.rn ko kn y) x = negb (String.eqb y ko) && String.eqb y x.
Proof.
  intros H. unfold T.rn. destruct (String.eqb y ko); cbn [negb andb]; [|reflexivity].
  rewrite String.eqb_sym. exact H.
Qed.

Lemma tag_relabel g old new k x :
  has_node g old = true -> is_dataset old = true -> is_dataset new = true -> nodup_nodes (gnodes g) = true ->
  existsb (Qt k x) (gnodes (relabel g old new)) =
  if String.eqb (key old) (key new) then existsb (Qt k x) (gnodes g)
  else if String.eqb x (key new)
       then (if lio (key old) (key new) (dkeys g) then existsb (Qt k (key old)) (gnodes g)
             else existsb (Qt k (key new)) (gnodes g))
       else if String.eqb x (key old) then false else existsb (Qt k x) (gnodes g).
Proof.
  intros Hp Ho Hn Hnd. rewrite (relabel_present g old new Hp). cbn [gnodes].
  rewrite Qt_mu, (merge_last (mu_key x) (attr_true k) _ (cls_mu_key x) []). cbn [existsb].
  rewrite last_attr_map.
  change (oF (attr_true k) (last_attr (fun m => mu_key x (rename_node old new m)) (gnodes g)) =
          if String.eqb (key old) (key new) then existsb (Qt k x) (gnodes g)
          else if String.eqb x (key new)
               then (if lio (key old) (key new) (dkeys g) then existsb (Qt k (key old)) (gnodes g)
                     else existsb (Qt k (key new)) (gnodes g))
               else if String.eqb x (key old) then false else existsb (Qt k x) (gnodes g)).
  assert (Hmu : forall m, mu_key x (rename_node old new m) =
                          is_dataset m && String.eqb (T.rn (key old) (key new) (key m)) x).
  { intros m. unfold mu_key. rewrite (rename_ds old new m Ho Hn). destruct (is_dataset m) eqn:Hm; [|reflexivity].
    rewrite (rename_key old new m Hm). reflexivity. }
  destruct (String.eqb (key old) (key new)) eqn:Eon.
  - apply String.eqb_eq in Eon.
    rewrite (last_attr_ext _ (mu_key x)).
    + rewrite (last_attr_nodup (mu_key x) (attr_true k) _ (cls_mu_key x) Hnd). reflexivity.
    + intros p _. rewrite Hmu. unfold mu_key, T.rn. rewrite <- Eon.
      destruct (String.eqb (key (fst p)) (key old)) eqn:E; [|reflexivity]. apply String.eqb_eq in E. rewrite E. reflexivity.
  - destruct (String.eqb x (key new)) eqn:Exn.
    + apply String.eqb_eq in Exn. subst x.
      rewrite (last_attr_ext _ (fun m => is_dataset m && (String.eqb (key m) (key old) || String.eqb (key m) (key new)))).
      * apply (last_two k (key old) (key new) (gnodes g) Hnd).
        -- apply String.eqb_neq; exact Eon.
        -- change (dkeysL (gnodes g)) with (dkeys g). rewrite (mem_dkeys g old Ho). exact Hp.
      * intros p _. rewrite Hmu, rn_eqb_new. reflexivity.
    + destruct (String.eqb x (key old)) eqn:Exo.
      * apply String.eqb_eq in Exo. subst x.
        rewrite (last_attr_ext _ (fun _ => false)).
        -- assert (El : last_attr (fun _ => false) (gnodes g) = None) by (apply last_attr_none; apply existsb_const_false).
           rewrite El. reflexivity.
        -- intros p _. rewrite Hmu, (rn_eqb_other _ _ _ _ Exn). destruct (String.eqb (key (fst p)) (key old)); cbn [negb andb];
             apply Bool.andb_false_r.
      * rewrite (last_attr_ext _ (mu_key x)).
        -- rewrite (last_attr_nodup (mu_key x) (attr_true k) _ (cls_mu_key x) Hnd). reflexivity.
        -- intros p _. rewrite Hmu, (rn_eqb_other _ _ _ _ Exn). unfold mu_key.
           destruct (String.eqb (key (fst p)) (key old)) eqn:E; cbn [negb andb]; [|reflexivity].
           apply String.eqb_eq in E. rewrite E, String.eqb_sym, Exo. rewrite Bool.andb_false_r. reflexivity.
Qed.

(** * Invariants *)
Fixpoint nodupn (l : list node) : bool :=
  match l with [] => true | n :: r => negb (memn n r) && nodupn r end.

Lemma nodup_nodes_map l : nodup_nodes l = nodupn (map fst l).
Proof.
  induction l as [|[n a] r IH]; cbn [nodup_nodes nodupn map fst]; [reflexivity|]. rewrite IH, has_node_memn. reflexivity.
Qed.

Lemma nodupn_nadd x l : nodupn l = true -> nodupn (nadd x l) = true.
Proof.
  unfold nadd. destruct (memn x l) eqn:E; [tauto|]. induction l as [|n r IH]; cbn [app nodupn]; [reflexivity|].
  intros H. apply Bool.andb_true_iff in H. destruct H as [H1 H2].
  unfold memn in E; cbn [existsb] in E. apply Bool.orb_false_iff in E. destruct E as [E1 E2].
  rewrite (IH E2 H2), memn_app. apply Bool.negb_true_iff in H1. rewrite H1. unfold memn; cbn [existsb].
  rewrite node_eqb_sym, E1. reflexivity.
Qed.

Lemma nodupn_nadd_all xs : forall l, nodupn l = true -> nodupn (nadd_all xs l) = true.
Proof. induction xs as [|x r IH]; intros l H; cbn [nadd_all]; [exact H|]. apply IH. apply nodupn_nadd; exact H. Qed.

Lemma nodup_compose g h : nodup_nodes (gnodes g) = true -> nodup_nodes (gnodes (compose g h)) = true.
Proof.
  rewrite !nodup_nodes_map, gnodes_compose, map_fst_fold_upsert. apply nodupn_nadd_all.
Qed.

Lemma nodup_relabel g old new : nodup_nodes (gnodes g) = true -> nodup_nodes (gnodes (relabel g old new)) = true.
Proof.
  intros H. destruct (has_node g old) eqn:E.
  - rewrite (relabel_present g old new E). cbn [gnodes]. rewrite nodup_nodes_map, map_fst_merge. apply nodupn_nadd_all. reflexivity.
  - rewrite (relabel_absent_g g old new E). exact H.
Qed.

Lemma has_node_filter n f l : has_node_l n (filter f l) = true -> has_node_l n l = true.
Proof.
  induction l as [|[m a] r IH]; cbn [filter has_node_l]; [tauto|].
  destruct (f (m, a)); cbn [has_node_l]; [|intros H; rewrite (IH H); apply Bool.orb_true_r].
  intros H. apply Bool.orb_true_iff in H. destruct H as [H|H]; [rewrite H; reflexivity|]. rewrite (IH H). apply Bool.orb_true_r.
Qed.

Lemma nodup_filter f l : nodup_nodes l = true -> nodup_nodes (filter f l) = true.
Proof.
  induction l as [|[m a] r IH]; cbn [filter nodup_nodes]; [tauto|]. intros H.
  apply Bool.andb_true_iff in H. destruct H as [H1 H2]. destruct (f (m, a)); [|apply IH; exact H2].
  cbn [nodup_nodes]. rewrite (IH H2), Bool.andb_true_r. apply Bool.negb_true_iff in H1. apply Bool.negb_true_iff.
  destruct (has_node_l m (filter f r)) eqn:E; [|reflexivity]. apply has_node_filter in E. congruence.
Qed.

Lemma nodup_remove_node g n : nodup_nodes (gnodes g) = true -> nodup_nodes (gnodes (remove_node g n)) = true.
Proof. apply nodup_filter. Qed.

Lemma nodup_set_attr g ns k v : nodup_nodes (gnodes (set_attr g ns k v)) = nodup_nodes (gnodes g).
Proof. rewrite !nodup_nodes_map, map_fst_set_attr. reflexivity. Qed.

(** ** every edge target is a node *)
Definition Pnh (G : graph) (e : node * node * eattrs) : bool := negb (has_node G (etgt e)).

Lemma has_node_cong G a b : node_eqb a b = true -> has_node G a = has_node G b.
Proof. intros H. unfold has_node. rewrite !has_node_memn. apply memn_cong; exact H. Qed.

Lemma eresp_Pnh G : eresp (Pnh G).
Proof. intros u v a u' v' a' Hu Hv. unfold Pnh, etgt; cbn [fst snd]. rewrite (has_node_cong G v v' Hv). reflexivity. Qed.

Lemma closed_existsb g : closed_tgt g = negb (existsb (Pnh g) (gedges g)).
Proof.
  unfold closed_tgt, Pnh. induction (gedges g) as [|e r IH]; cbn [forallb existsb]; [reflexivity|].
  rewrite IH. destruct (has_node g (etgt e)), (existsb (fun e0 => negb (has_node g (etgt e0))) r); reflexivity.
Qed.

Lemma closed_In g : closed_tgt g = true <-> forall e, In e (gedges g) -> has_node g (etgt e) = true.
Proof. unfold closed_tgt. apply forallb_forall. Qed.

Lemma existsb_all_false {A} (f : A -> bool) l : (forall x, In x l -> f x = false) -> existsb f l = false.
Proof.
  intros H. destruct (existsb f l) eqn:E; [|reflexivity]. apply existsb_exists in E. destruct E as (x & Hin & Hx).
  rewrite (H x Hin) in Hx. discriminate.
Qed.

Lemma closed_compose g h : closed_tgt g = true -> closed_tgt h = true -> closed_tgt (compose g h) = true.
Proof.
  intros Hg Hh. rewrite closed_existsb, (existsb_compose _ g h (eresp_Pnh _)). apply Bool.negb_true_iff.
  apply Bool.orb_false_iff. split; apply existsb_all_false; intros e Hin; unfold Pnh; apply Bool.negb_false_iff;
    rewrite has_node_compose.
  - rewrite (proj1 (closed_In g) Hg e Hin). apply Bool.orb_true_r.
  - rewrite (proj1 (closed_In h) Hh e Hin). reflexivity.
Qed.

Lemma closed_same_nodes g g' : gnodes g' = gnodes g -> gedges g' = gedges g -> closed_tgt g' = closed_tgt g.
Proof. intros H1 H2. unfold closed_tgt, has_node. rewrite H1, H2. reflexivity. Qed.

Lemma closed_set_attr g ns k v : closed_tgt (set_attr g ns k v) = closed_tgt g.
Proof.
  unfold closed_tgt. cbn [set_attr gedges]. induction (gedges g) as [|e r IH]; cbn [forallb]; [reflexivity|].
  rewrite IH. f_equal. apply (has_node_set_attr g ns k v).
Qed.

Lemma closed_add_product rs ws g :
  (forall r, In r rs -> has_node g r = true) -> (forall w, In w ws -> has_node g w = true) ->
  closed_tgt g = true -> closed_tgt (add_product rs ws g) = true.
Proof.
  intros Hr Hw Hc. destruct (add_product_spec rs ws g Hr Hw) as [A1 A2].
  rewrite closed_existsb, (A2 _ (eresp_Pnh _)). apply Bool.negb_true_iff. apply Bool.orb_false_iff. split.
  - apply existsb_all_false. intros r _. apply existsb_all_false. intros w Hin. unfold Pnh, etgt; cbn [fst snd].
    apply Bool.negb_false_iff. unfold has_node in *. rewrite A1. apply Hw; exact Hin.
  - apply existsb_all_false. intros e Hin. unfold Pnh. apply Bool.negb_false_iff. unfold has_node. rewrite A1.
    apply (proj1 (closed_In g) Hc e Hin).
Qed.

Lemma has_node_remove g n v : has_node (remove_node g n) v = has_node g v && negb (node_eqb n v).
Proof.
  unfold has_node. rewrite gnodes_remove_node. induction (gnodes g) as [|[m a] r IH]; cbn [filter has_node_l fst]; [reflexivity|].
  destruct (node_eqb n m) eqn:E; cbn [negb has_node_l].
  - rewrite IH. destruct (node_eqb v m) eqn:E2; [|reflexivity].
    assert (node_eqb n v = true) by (apply (node_eqb_trans n m v E); apply eqb_sym_true; exact E2).
    rewrite H. cbn [negb]. rewrite !Bool.andb_false_r. reflexivity.
  - rewrite IH. destruct (node_eqb v m) eqn:E2; [|reflexivity]. cbn [orb].
    rewrite (eqb_cong_r v m n E2), E. reflexivity.
Qed.

Lemma closed_remove_node g n : closed_tgt g = true -> closed_tgt (remove_node g n) = true.
Proof.
  intros Hc. apply closed_In. intros e Hin. unfold remove_node in Hin; cbn [gedges] in Hin.
  apply filter_In in Hin. destruct Hin as [Hin Hf]. apply Bool.andb_true_iff in Hf. destruct Hf as [_ Hf].
  rewrite has_node_remove. unfold etgt. rewrite Hf, Bool.andb_true_r. apply (proj1 (closed_In g) Hc e Hin).
Qed.

Lemma closed_relabel g old new : closed_tgt g = true -> closed_tgt (relabel g old new) = true.
Proof.
  intros Hc. destruct (has_node g old) eqn:E; [|rewrite (relabel_absent_g g old new E); exact Hc].
  rewrite closed_existsb, (existsb_relabel _ g old new (eresp_Pnh _) E). apply Bool.negb_true_iff.
  apply existsb_all_false. intros e Hin. unfold Pnh, etgt; cbn [fst snd]. apply Bool.negb_false_iff.
  apply has_node_relabel; [exact E|]. apply (proj1 (closed_In g) Hc e Hin).
Qed.

Lemma closed_remove_edge g u v g' : remove_edge g u v = Some g' -> closed_tgt g = true -> closed_tgt g' = true.
Proof.
  unfold remove_edge. destruct (has_edge g u v); [|discriminate]. intros H; inversion H; subst g'. intros Hc.
  apply closed_In. cbn [gedges]. intros e Hin. apply filter_In in Hin. destruct Hin as [Hin _].
  apply (proj1 (closed_In g) Hc e Hin).
Qed.

(** ** no dataset node is tagged selfloop *)
Definition clean (p : node * nattrs) : bool := negb (is_dataset (fst p)) || no_true "selfloop" (snd p).

Lemma clean_upsert n a l : forallb clean l = true -> clean (n, a) = true -> forallb clean (upsert_node n a l) = true.
Proof.
  intros Hl Hn. induction l as [|[m b] r IH]; cbn [upsert_node forallb] in *; [rewrite Hn; reflexivity|].
  apply Bool.andb_true_iff in Hl. destruct Hl as [H1 H2].
  destruct (node_eqb n m) eqn:E; cbn [forallb].
  - rewrite H2, Bool.andb_true_r. unfold clean in *; cbn [fst snd] in *. rewrite <- (is_dataset_eqb _ _ E).
    destruct (is_dataset n) eqn:Hd; cbn [negb orb] in *; [|reflexivity].
    rewrite (is_dataset_eqb _ _ E) in Hd. rewrite Hd in H1. cbn [negb orb] in H1. apply no_true_update; assumption.
  - rewrite H1, (IH H2). reflexivity.
Qed.

Lemma clean_fold_upsert hs : forall l0, forallb clean l0 = true -> forallb clean hs = true ->
  forallb clean (fold_upsert hs l0) = true.
Proof.
  unfold fold_upsert. induction hs as [|[n a] r IH]; intros l0 H0 Hh; cbn [fold_left]; [exact H0|].
  cbn [forallb] in Hh. apply Bool.andb_true_iff in Hh. destruct Hh as [H1 H2].
  apply IH; [apply clean_upsert; assumption|exact H2].
Qed.

Lemma clean_merge l : forall acc, forallb clean l = true -> forallb clean acc = true -> forallb clean (merge_nodes l acc) = true.
Proof.
  induction l as [|[n a] r IH]; intros acc Hl Ha; cbn [merge_nodes]; [exact Ha|].
  cbn [forallb] in Hl. apply Bool.andb_true_iff in Hl. destruct Hl as [H1 H2]. apply IH; [exact H2|].
  destruct (has_node_l n acc).
  - apply forallb_forall. intros q Hq. apply in_map_iff in Hq. destruct Hq as (p & Hp & Hin).
    pose proof (proj1 (forallb_forall clean acc) Ha p Hin) as Hc.
    destruct (node_eqb n (fst p)) eqn:E; [|subst q; exact Hc]. subst q. unfold clean in *; cbn [fst snd] in *.
    rewrite <- (is_dataset_eqb _ _ E). exact H1.
  - rewrite forallb_app, Ha. cbn [forallb]. rewrite H1. reflexivity.
Qed.

Lemma clean_relabel g old new : is_dataset old = true -> is_dataset new = true ->
  forallb clean (gnodes g) = true -> forallb clean (gnodes (relabel g old new)) = true.
Proof.
  intros Ho Hn Hc. destruct (has_node g old) eqn:E; [|rewrite (relabel_absent_g g old new E); exact Hc].
  rewrite (relabel_present g old new E). cbn [gnodes]. apply clean_merge; [|reflexivity].
  apply forallb_forall. intros q Hq. apply in_map_iff in Hq. destruct Hq as (p & Hp & Hin). subst q.
  pose proof (proj1 (forallb_forall clean _) Hc p Hin) as Hcp. unfold clean in *; cbn [fst snd].
  rewrite (rename_ds old new (fst p) Ho Hn). exact Hcp.
Qed.

Lemma clean_filter f l : forallb clean l = true -> forallb clean (filter f l) = true.
Proof.
  intros H. apply forallb_forall. intros p Hp. apply filter_In in Hp. destruct Hp as [Hp _].
  apply (proj1 (forallb_forall clean l) H p Hp).
Qed.

Lemma clean_set_attr g ns k : String.eqb k "selfloop" = false ->
  forallb clean (gnodes g) = true -> forallb clean (gnodes (set_attr g ns k true)) = true.
Proof.
  intros Hk Hc. unfold set_attr; cbn [gnodes]. apply forallb_forall. intros q Hq. apply in_map_iff in Hq.
  destruct Hq as (p & Hp & Hin). pose proof (proj1 (forallb_forall clean _) Hc p Hin) as Hcp.
  destruct (existsb (node_eqb (fst p)) ns); subst q; [|exact Hcp]. unfold clean in *; cbn [fst snd].
  destruct (is_dataset (fst p)); cbn [negb orb] in *; [|reflexivity]. apply no_true_set; [exact Hcp|].
  rewrite Hk. reflexivity.
Qed.
