(** L2: SQLLineageHolder._build_digraph on full graphs (datasets, sub-queries,
    columns, aliases), the role accessors, ColumnLineageMixin.get_column_lineage
    and io.to_cytoscape.  Follows sqllineage/core/holders.py and io.py. *)
From SV Require Export NX.Graph.

(** * Provider view: truthiness and the columns it reports per table (keyed by str(table)) *)
Record provider := { p_truthy : bool; p_cols : list (string * list string) }.
Fixpoint assoc_str {A} (k : string) (l : list (string * A)) : option A :=
  match l with [] => None | (k', v) :: r => if String.eqb k k' then Some v else assoc_str k r end.
Definition provider_cols (p : provider) (t : dataset) : list string :=
  match assoc_str (dstr t) (p_cols p) with Some l => l | None => [] end.

(** * Statement holders *)
Record holder := {
  hg : graph;
  h_renames : list (node * node)     (* holder.rename in the implementation's iteration order *)
}.

Definition tagged (g : graph) (k : string) (keep : node -> bool) : list node :=
  map fst (filter (fun p => attr_true k (snd p) && keep (fst p)) (gnodes g)).

Definition h_read (h : holder) := tagged (hg h) "read" is_dataset.
Definition h_write (h : holder) := tagged (hg h) "write" is_dataset.
Definition h_drop (h : holder) := tagged (hg h) "drop" (fun _ => true).

Definition lineage_edge : eattrs := {| etype := "lineage"; eindex := None |}.

Inductive result (A : Type) := BOk (a : A) | ErrNetworkX | ErrKey.
Arguments BOk {A} a.
Arguments ErrNetworkX {A}.
Arguments ErrKey {A}.

Fixpoint do_drops (ds : list node) (g : graph) : graph :=
  match ds with
  | [] => g
  | t :: r => do_drops r (if has_node g t && Nat.eqb (degree g t) 0 then remove_node g t else g)
  end.

Fixpoint do_renames (rs : list (node * node)) (g : graph) : result graph :=
  match rs with
  | [] => BOk g
  | (old, new) :: r =>
      match remove_edge (relabel g old new) new new with
      | None => ErrNetworkX
      | Some g1 => do_renames r (if Nat.eqb (degree g1 new) 0 then remove_node g1 new else g1)
      end
  end.

Fixpoint add_product (rs ws : list node) (g : graph) : graph :=
  match rs with
  | [] => g
  | r :: rest => add_product rest ws (fold_left (fun g' w => add_edge g' r w lineage_edge) ws g)
  end.

Definition step (g0 : graph) (h : holder) : result graph :=
  let g := compose g0 (hg h) in
  match h_drop h, h_renames h with
  | _ :: _, _ => BOk (do_drops (h_drop h) g)
  | [], _ :: _ => do_renames (h_renames h) g
  | [], [] =>
      match h_read h, h_write h with
      | _ :: _, [] => BOk (set_attr g (h_read h) "source_only" true)
      | [], _ :: _ => BOk (set_attr g (h_write h) "target_only" true)
      | rs, ws => BOk (add_product rs ws g)
      end
  end.

Fixpoint fold_steps (g : graph) (hs : list holder) : result graph :=
  match hs with
  | [] => BOk g
  | h :: r => match step g h with BOk g1 => fold_steps g1 r | ErrNetworkX => ErrNetworkX | ErrKey => ErrKey end
  end.

(** ** resolution of columns with several candidate parents *)
Definition mk_col (raw : string) (parent : dataset) : column := {| craw := escape raw; cparents := [parent] |}.

Definition candidates_in_graph (g : graph) (u : column) : list column :=
  flat_map (fun parent =>
              let c := mk_col (craw u) parent in
              if has_edge g (NData parent) (NCol c) then [c] else []) (cparents u).

Definition candidates_in_metadata (p : provider) (u : column) : list column :=
  flat_map (fun parent =>
              match dk parent with
              | KTable =>
                  if String.eqb (dschema parent) placeholder then []
                  else flat_map (fun cn => let c := mk_col cn parent in
                                           if String.eqb (craw u) (craw c) then [c] else [])
                                (provider_cols p parent)
              | _ => []
              end) (cparents u).

Definition unresolved (n : node) : option column :=
  match n with
  | NCol c => if Nat.ltb 1 (List.length (cparents c)) then Some c else None
  | _ => None
  end.

Definition resolve_one (p : provider) (g : graph) (u : column) (tgt : node) : graph :=
  let in_g := candidates_in_graph g u in
  let srcs := match in_g with
              | [] => if p_truthy p then candidates_in_metadata p u else []
              | _ => in_g
              end in
  let g1 := fold_left (fun g' c => add_edge g' (NCol c) tgt lineage_edge) srcs g in
  match srcs with
  | [] => g1
  | _ => match remove_edge g1 (NCol u) tgt with Some g2 => g2 | None => g1 end
  end.

Definition resolve_all (p : provider) (g : graph) : graph :=
  let pending := flat_map (fun e => match unresolved (fst (fst e)) with
                                    | Some u => [(u, snd (fst e))] | None => [] end) (gedges g) in
  let g1 := fold_left (fun g' ut => resolve_one p g' (fst ut) (snd ut)) pending g in
  fold_left (fun g' pn =>
               match unresolved (fst pn) with
               | Some _ => if Nat.eqb (degree g1 (fst pn)) 0 then remove_node g' (fst pn) else g'
               | None => g'
               end) (gnodes g1) g1.

Definition selfloop_nodes (g : graph) : list node :=
  map (fun e => fst (fst e)) (filter (fun e => node_eqb (fst (fst e)) (snd (fst e))) (gedges g)).

Definition build (p : provider) (hs : list holder) : result graph :=
  match fold_steps empty_graph hs with
  | BOk g => BOk (resolve_all p (set_attr g (selfloop_nodes g) "selfloop" true))
  | ErrNetworkX => ErrNetworkX
  | ErrKey => ErrKey
  end.

(** * Accessors *)
Definition table_graph (g : graph) : graph := subgraph g is_dataset.
Definition column_graph (g : graph) : graph := subgraph g is_column.

Definition indeg (g : graph) (n : node) : nat := List.length (in_edges g n).
Definition outdeg (g : graph) (n : node) : nat := List.length (out_edges g n).

Definition retrieve_tag (g : graph) (k : string) : list node := tagged g k is_dataset.
Definition memn (n : node) (l : list node) : bool := existsb (node_eqb n) l.

Definition source_tables (g : graph) : list node :=
  let tg := table_graph g in
  filter (fun n => (Nat.eqb (indeg tg n) 0 && negb (Nat.eqb (outdeg tg n) 0))
                   || memn n (retrieve_tag g "selfloop") || memn n (retrieve_tag g "source_only"))
         (map fst (gnodes tg)).
Definition target_tables (g : graph) : list node :=
  let tg := table_graph g in
  filter (fun n => (Nat.eqb (outdeg tg n) 0 && negb (Nat.eqb (indeg tg n) 0))
                   || memn n (retrieve_tag g "selfloop") || memn n (retrieve_tag g "target_only"))
         (map fst (gnodes tg)).
Definition intermediate_tables (g : graph) : list node :=
  let tg := table_graph g in
  filter (fun n => negb (Nat.eqb (indeg tg n) 0) && negb (Nat.eqb (outdeg tg n) 0)
                   && negb (memn n (retrieve_tag g "selfloop")))
         (map fst (gnodes tg)).

(** ** simple paths (networkx all_simple_paths with a single target) *)
Fixpoint paths_from (g : graph) (fuel : nat) (visited : list node) (cur tgt : node) : list (list node) :=
  match fuel with
  | O => []
  | S k =>
      flat_map (fun nx =>
                  if memn nx visited then []
                  else if node_eqb nx tgt then [[nx]]
                  else map (cons nx) (paths_from g k (nx :: visited) nx tgt))
               (successors g cur)
  end.

Definition all_simple_paths (g : graph) (s t : node) : list (list node) :=
  if node_eqb s t then [[s]]
  else map (cons s) (paths_from g (List.length (gnodes g)) [s] s t).

Definition parent_is (k : dkind) (n : node) : bool :=
  match n with
  | NCol c => match col_parent c with Some d => dkind_beq (dk d) k | None => false end
  | _ => false
  end.

(** get_column_lineage(exclude_path_ending_in_subquery, exclude_subquery_columns), after fix F4 *)
Definition column_lineage (g : graph) (excl_end_subq excl_subq_cols : bool) : list (list node) :=
  let cg := column_graph g in
  let cols := map fst (gnodes cg) in
  let sources := filter (fun n => Nat.eqb (indeg cg n) 0) cols in
  let targets0 := filter (fun n => Nat.eqb (outdeg cg n) 0) cols in
  let targets := if excl_end_subq then filter (parent_is KTable) targets0 else targets0 in
  flat_map (fun s =>
    flat_map (fun t =>
      flat_map (fun path =>
                  let path' := if excl_subq_cols then filter (fun n => negb (parent_is KSubq n)) path else path in
                  if Nat.ltb 1 (List.length path') then [path'] else [])
               (all_simple_paths g s t)) targets) sources.

(** * io.to_cytoscape *)
Record cy_node := { cy_id : string; cy_parent : option string; cy_type : string }.
Record cy_edge := { cy_src : string; cy_tgt : string }.

Definition kind_name (k : dkind) : string :=
  match k with KTable => "Table" | KPath => "Path" | KSubq => "SubQuery" end.

(** parents_dict: keyed by the parent object (Python equality), later value wins, first position kept *)
Definition pkey := option dataset.
Definition pname (p : pkey) : string := match p with Some d => dstr d | None => "<unknown>" end.
Definition ptype (p : pkey) : string := match p with Some d => kind_name (dk d) | None => "Table or SubQuery" end.

Fixpoint pd_upsert (p : pkey) (l : list (pkey * (string * string))) :=
  match l with
  | [] => [(p, (pname p, ptype p))]
  | (q, v) :: r => if opt_dataset_eqb p q then (q, (pname p, ptype p)) :: r else (q, v) :: pd_upsert p r
  end.
Fixpoint pd_get (p : pkey) (l : list (pkey * (string * string))) : option string :=
  match l with
  | [] => None
  | (q, v) :: r => if opt_dataset_eqb p q then Some (fst v) else pd_get p r
  end.

Definition node_parent (n : node) : pkey := match n with NCol c => col_parent c | _ => None end.

Definition to_cytoscape_compound (g : graph) : list cy_node * list cy_edge :=
  let ns := map fst (gnodes g) in
  let pd := fold_left (fun l n => pd_upsert (node_parent n) l) ns [] in
  (map (fun n => {| cy_id := node_str n; cy_parent := pd_get (node_parent n) pd; cy_type := "Column" |}) ns
   ++ map (fun e => {| cy_id := fst (snd e); cy_parent := None; cy_type := snd (snd e) |}) pd,
   map (fun e => {| cy_src := node_str (fst (fst e)); cy_tgt := node_str (snd (fst e)) |}) (gedges g)).

Definition to_cytoscape_plain (g : graph) : list cy_node * list cy_edge :=
  (map (fun p => {| cy_id := node_str (fst p); cy_parent := None; cy_type := "" |}) (gnodes g),
   map (fun e => {| cy_src := node_str (fst (fst e)); cy_tgt := node_str (snd (fst e)) |}) (gedges g)).

(** * Printing (canonical: sorted) *)
Fixpoint insert_sorted (x : string) (l : list string) : list string :=
  match l with [] => [x] | y :: r => if String.leb x y then x :: l else y :: insert_sorted x r end.
Definition sort_strings (l : list string) : list string := fold_right insert_sorted [] l.

Definition show_dataset (d : dataset) : string :=
  (match dk d with KTable => "T:" | KPath => "P:" | KSubq => "Q:" end) ++ dstr d.
Definition show_node (n : node) : string :=
  match n with
  | NData d => show_dataset d
  | NCol c => "C:" ++ col_str c ++ "{" ++ join "," (sort_strings (map show_dataset (cparents c))) ++ "}"
  | NStr s => "A:" ++ s
  end.
Definition show_attrs (a : nattrs) : string :=
  join "," (sort_strings (flat_map (fun kv : string * bool => if snd kv then [fst kv] else []) a)).
Definition show_graph (g : graph) : string :=
  "N=" ++ join ";" (sort_strings (map (fun p => (show_node (fst p) ++ "[" ++ show_attrs (snd p) ++ "]")%string) (gnodes g)))
  ++ "#E=" ++ join ";" (sort_strings (map (fun e => (show_node (fst (fst e)) ++ ">" ++ show_node (snd (fst e))
                                                     ++ ":" ++ etype (snd e))%string) (gedges g))).
Definition show_result (r : result graph) : string :=
  match r with BOk g => show_graph g | ErrNetworkX => "ERR:NetworkXError" | ErrKey => "ERR:KeyError" end.

Definition show_names (l : list node) : string := join "," (sort_strings (map show_node l)).
Definition show_roles (g : graph) : string :=
  "S=" ++ show_names (source_tables g) ++ ";T=" ++ show_names (target_tables g)
  ++ ";I=" ++ show_names (intermediate_tables g).
Fixpoint uniq_sorted (l : list string) : list string :=
  match l with
  | x :: ((y :: _) as r) => if String.eqb x y then uniq_sorted r else x :: uniq_sorted r
  | _ => l
  end.
Definition show_paths (ps : list (list node)) : string :=
  join ";" (uniq_sorted (sort_strings (map (fun p => join "<" (map show_node p)) ps))).
Definition show_cy (r : list cy_node * list cy_edge) : string :=
  join ";" (map (fun n => (cy_id n ++ "^" ++ match cy_parent n with Some p => p | None => "-" end ++ "^" ++ cy_type n)%string) (fst r))
  ++ "#" ++ join ";" (map (fun e => (cy_src e ++ ">" ++ cy_tgt e)%string) (snd r)).

(** everything the tie compares, for one script *)
Definition show_all (p : provider) (hs : list holder) : string :=
  match build p hs with
  | BOk g => show_graph g ++ "@" ++ show_roles g ++ "@" ++ show_paths (column_lineage g true false)
            ++ "@" ++ show_paths (column_lineage g false false) ++ "@" ++ show_paths (column_lineage g true true)
  | ErrNetworkX => "ERR:NetworkXError"
  | ErrKey => "ERR:KeyError"
  end.
