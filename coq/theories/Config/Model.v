(** Model of sqllineage/config.py:_SQLLineageConfigLoader (after fix F1).
    One [step] per Python-level operation on the loader; thread identity is an
    explicit argument (the value of [get_ident()]). *)
From SV Require Export Base.Util.

Inductive key := DIRECTORY | DEFAULT_SCHEMA | TSQL_NO_SEMICOLON | LCAR.
Scheme Equality for key.

Inductive rawkey := Known (k : key) | Unknown (s : string).
Inductive rawval := RStr (s : string) | RInt (z : Z) | RBool (b : bool).
Inductive val := VStr (s : string) | VBool (b : bool).
Inductive exn := ConfigExc | OtherExc.
Inductive out := OVal (v : val) | ORaise (e : exn) | ODone.

Definition tid := nat.

(** [config[k][0]]: the type of a key. *)
Definition is_bool_key (k : key) : bool :=
  match k with TSQL_NO_SEMICOLON | LCAR => true | _ => false end.

(** Python [int(str)] for ASCII text: optional blanks, optional sign, decimal digits
    with single underscores between digits, optional blanks. *)
Fixpoint digits_us (s : string) (acc : Z) (prev_digit : bool) : option Z :=
  match s with
  | EmptyString => if prev_digit then Some acc else None
  | String c r =>
      if is_digit c then digits_us r (acc * 10 + Z.of_nat (nat_of_ascii c - 48)) true
      else if Ascii.eqb c "_"%char then (if prev_digit then digits_us r acc false else None)
      else None
  end.

Definition py_int_of_string (s : string) : option Z :=
  match strip is_space_int s with
  | EmptyString => None
  | String c r =>
      if Ascii.eqb c "-"%char then option_map Z.opp (digits_us r 0 false)
      else if Ascii.eqb c "+"%char then digits_us r 0 false
      else digits_us (String c r) 0 false
  end.

Definition truthy_words : list string := ["true"; "on"; "ok"; "y"; "yes"; "1"].

(** [str(x)] for the raw values modelled. *)
Definition py_str (r : rawval) : string :=
  match r with
  | RStr s => s
  | RInt z => string_of_Z z
  | RBool true => "True"
  | RBool false => "False"
  end.

(** [parse_value(value, cast)] *)
Definition coerce (k : key) (r : rawval) : val :=
  if is_bool_key k then
    match r with
    | RInt z => VBool (negb (Z.eqb z 0))
    | RBool b => VBool b
    | RStr s =>
        match py_int_of_string s with
        | Some z => VBool (negb (Z.eqb z 0))
        | None => VBool (mem_string (strip is_space (lower s)) truthy_words)
        end
    end
  else VStr (py_str r).

Record state := {
  tcfg : list (tid * list (key * val));   (* _thread_config: at most one entry per tid *)
  inctx : list tid;                       (* _thread_in_context_manager *)
  env : list (key * string);              (* SQLLINEAGE_<KEY> environment variables *)
  dirdef : string                         (* default of DIRECTORY (installation dependent) *)
}.

Definition default (s : state) (k : key) : rawval :=
  match k with
  | DIRECTORY => RStr (dirdef s)
  | DEFAULT_SCHEMA => RStr ""
  | TSQL_NO_SEMICOLON => RBool false
  | LCAR => RBool false
  end.

Fixpoint lookup_key {A} (k : key) (l : list (key * A)) : option A :=
  match l with
  | [] => None
  | (k', v) :: r => if key_beq k k' then Some v else lookup_key k r
  end.

Fixpoint lookup_tid {A} (t : tid) (l : list (tid * A)) : option A :=
  match l with
  | [] => None
  | (t', v) :: r => if Nat.eqb t t' then Some v else lookup_tid t r
  end.

Fixpoint remove_tid {A} (t : tid) (l : list (tid * A)) : list (tid * A) :=
  match l with
  | [] => []
  | (t', v) :: r => if Nat.eqb t t' then remove_tid t r else (t', v) :: remove_tid t r
  end.

Fixpoint set_key {A} (k : key) (v : A) (l : list (key * A)) : list (key * A) :=
  match l with
  | [] => [(k, v)]
  | (k', v') :: r => if key_beq k k' then (k, v) :: r else (k', v') :: set_key k v r
  end.

Definition is_unknown (kv : rawkey * rawval) : bool :=
  match fst kv with Unknown _ => true | Known _ => false end.

(** dict.update with the parsed kwargs, in kwargs order *)
Fixpoint set_all (kw : list (rawkey * rawval)) (d : list (key * val)) : list (key * val) :=
  match kw with
  | [] => d
  | (Known k, r) :: rest => set_all rest (set_key k (coerce k r) d)
  | (Unknown _, _) :: rest => set_all rest d
  end.

Definition entry (t : tid) (s : state) : list (key * val) :=
  match lookup_tid t (tcfg s) with Some d => d | None => [] end.

Definition with_tcfg (s : state) c := {| tcfg := c; inctx := inctx s; env := env s; dirdef := dirdef s |}.
Definition with_inctx (s : state) c := {| tcfg := tcfg s; inctx := c; env := env s; dirdef := dirdef s |}.

Definition read_value (s : state) (t : tid) (k : key) : val :=
  match lookup_key k (entry t s) with
  | Some v => v
  | None => coerce k (match lookup_key k (env s) with Some x => RStr x | None => default s k end)
  end.

Inductive op :=
| Call (t : tid) (kw : list (rawkey * rawval))
| Enter (t : tid)
| Exit (t : tid)
| Read (t : tid) (k : key)
| Assign (t : tid) (k : key).

Definition step (s : state) (o : op) : state * out :=
  match o with
  | Call t kw =>
      if mem_nat t (inctx s) then (s, ORaise ConfigExc)
      else if existsb is_unknown kw then (s, ORaise ConfigExc)
      else (with_tcfg s ((t, set_all kw (entry t s)) :: remove_tid t (tcfg s)), ODone)
  | Enter t =>
      if mem_nat t (inctx s) then (s, ORaise ConfigExc)
      else (with_inctx s (t :: inctx s), ODone)
  | Exit t =>
      (with_inctx (with_tcfg s (remove_tid t (tcfg s))) (remove_nat t (inctx s)), ODone)
  | Read t k => (s, OVal (read_value s t k))
  | Assign t k => (s, ORaise ConfigExc)
  end.

Definition tid_of (o : op) : tid :=
  match o with Call t _ | Enter t | Exit t | Read t _ | Assign t _ => t end.

Fixpoint run (s : state) (h : list op) : state * list (tid * out) :=
  match h with
  | [] => (s, [])
  | o :: r =>
      let '(s1, x) := step s o in
      let '(s2, xs) := run s1 r in
      (s2, (tid_of o, x) :: xs)
  end.

(** What a thread can observe of the state: its own dictionary (as a lookup
    function over the four keys) and whether it is inside a scope. *)
Definition all_keys := [DIRECTORY; DEFAULT_SCHEMA; TSQL_NO_SEMICOLON; LCAR].
Definition view (t : tid) (s : state) : list (option val) * bool :=
  (map (fun k => lookup_key k (entry t s)) all_keys, mem_nat t (inctx s)).

Definition outs_of (t : tid) (xs : list (tid * out)) : list out :=
  map snd (filter (fun p => Nat.eqb (fst p) t) xs).

Definition clean (t : tid) (s : state) : Prop :=
  lookup_tid t (tcfg s) = None /\ mem_nat t (inctx s) = false.

(** * Thread programs: what the with-statement over SQLLineageConfig(kw) means.
    A top-level program is a list of items; an exception raised by an item
    unwinds every enclosing scope (running [__exit__] of each scope whose
    [__enter__] returned) and is caught at top level, after which the next
    item runs. *)
Inductive item :=
| IRead (k : key)
| IAssign (k : key)
| IRaise
| IWith (kw : list (rawkey * rawval)) (body : items)
with items := INil | ICons (i : item) (r : items).

(** result: state, ops issued (with their outputs), exception propagating? *)
Fixpoint exec_item (t : tid) (i : item) (s : state) : state * list (op * out) * bool :=
  match i with
  | IRead k => let '(s1, x) := step s (Read t k) in (s1, [(Read t k, x)], false)
  | IAssign k => let '(s1, x) := step s (Assign t k) in (s1, [(Assign t k, x)], true)
  | IRaise => (s, [], true)
  | IWith kw body =>
      let '(s1, x1) := step s (Call t kw) in
      match x1 with
      | ORaise _ => (s1, [(Call t kw, x1)], true)
      | _ =>
          let '(s2, x2) := step s1 (Enter t) in
          match x2 with
          | ORaise _ => (s2, [(Call t kw, x1); (Enter t, x2)], true)
          | _ =>
              let '(s3, tr, ex) := exec_items t body s2 in
              let '(s4, x4) := step s3 (Exit t) in
              (s4, (Call t kw, x1) :: (Enter t, x2) :: tr ++ [(Exit t, x4)], ex)
          end
      end
  end
with exec_items (t : tid) (is : items) (s : state) : state * list (op * out) * bool :=
  match is with
  | INil => (s, [], false)
  | ICons i r =>
      let '(s1, tr1, ex) := exec_item t i s in
      if ex then (s1, tr1, true)
      else let '(s2, tr2, ex2) := exec_items t r s1 in (s2, tr1 ++ tr2, ex2)
  end.

Fixpoint exec_top (t : tid) (is : list item) (s : state) : state * list (op * out) :=
  match is with
  | [] => (s, [])
  | i :: r =>
      let '(s1, tr1, _) := exec_item t i s in
      let '(s2, tr2) := exec_top t r s1 in
      (s2, tr1 ++ tr2)
  end.

(** * Specification of the property, as a function of the program text only.
    [scope] is the override in force ([None] outside every scope). *)
Definition base_value (s : state) (k : key) : val :=
  coerce k (match lookup_key k (env s) with Some x => RStr x | None => default s k end).

Definition scope_value (s : state) (sc : list (key * val)) (k : key) : val :=
  match lookup_key k sc with Some v => v | None => base_value s k end.

(** expected outputs of the reads / refused operations of an item, and whether it raises *)
Fixpoint spec_item (s : state) (depth : nat) (sc : list (key * val)) (i : item) : list out * bool :=
  match i with
  | IRead k => ([OVal (scope_value s sc k)], false)
  | IAssign k => ([ORaise ConfigExc], true)
  | IRaise => ([], true)
  | IWith kw body =>
      match depth with
      | S _ => ([ORaise ConfigExc], true)                          (* nested: refused *)
      | O =>
          if existsb is_unknown kw then ([ORaise ConfigExc], true)  (* unknown key: refused *)
          else
            let '(xs, ex) := spec_items s 1 (set_all kw []) body in
            (ODone :: ODone :: xs ++ [ODone], ex)
      end
  end
with spec_items (s : state) (depth : nat) (sc : list (key * val)) (is : items) : list out * bool :=
  match is with
  | INil => ([], false)
  | ICons i r =>
      let '(xs, ex) := spec_item s depth sc i in
      if ex then (xs, true)
      else let '(ys, ex2) := spec_items s depth sc r in (xs ++ ys, ex2)
  end.

Fixpoint spec_top (s : state) (is : list item) : list out :=
  match is with
  | [] => []
  | i :: r => fst (spec_item s 0 [] i) ++ spec_top s r
  end.

(** * Printing (for the correspondence check) *)
Definition show_val (v : val) : string :=
  match v with
  | VStr s => "s:" ++ s
  | VBool true => "b:1"
  | VBool false => "b:0"
  end.
Definition show_out (x : out) : string :=
  match x with
  | OVal v => "V" ++ show_val v
  | ORaise ConfigExc => "RC"
  | ORaise OtherExc => "RO"
  | ODone => "D"
  end.
Definition show_key (k : key) : string :=
  match k with
  | DIRECTORY => "DIRECTORY" | DEFAULT_SCHEMA => "DEFAULT_SCHEMA"
  | TSQL_NO_SEMICOLON => "TSQL_NO_SEMICOLON" | LCAR => "LATERAL_COLUMN_ALIAS_REFERENCE"
  end.
Definition show_oval (o : option val) : string :=
  match o with Some v => show_val v | None => "-" end.
Definition show_view (v : list (option val) * bool) : string :=
  join "," (map show_oval (fst v)) ++ (if snd v then "/in" else "/out").

(** history-level result: outputs in order, then the final view of each listed thread *)
Definition show_run (s : state) (h : list op) (tids : list tid) : string :=
  let '(s1, xs) := run s h in
  join "|" (map (fun p => show_out (snd p)) xs) ++ "#" ++
  join ";" (map (fun t => show_view (view t s1)) tids).

Definition show_hist (s : state) (h : list op) : string :=
  join "|" (map (fun p => show_out (snd p)) (snd (run s h))).
Definition show_spec (s : state) (p : list item) : string :=
  join "|" (map show_out (spec_top s p)).
Definition show_exec (t : tid) (p : list item) (s : state) : string :=
  join "|" (map (fun q => show_out (snd q)) (snd (exec_top t p s))).
Definition show_coerce (k : key) (r : rawval) : string := show_val (coerce k r).
