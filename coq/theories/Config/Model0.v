(** The unrepaired [__call__] of config.py (before fix F1), kept only for the
    two refutation witnesses in Props/C15.v. *)
From SV Require Export Config.Model.

(** for key, value in kwargs.items(): known -> store; unknown -> raise (what was stored stays) *)
Fixpoint set_until_unknown (kw : list (rawkey * rawval)) (d : list (key * val))
  : list (key * val) * bool :=
  match kw with
  | [] => (d, false)
  | (Known k, r) :: rest => set_until_unknown rest (set_key k (coerce k r) d)
  | (Unknown _, _) :: _ => (d, true)
  end.

Definition step0 (s : state) (o : op) : state * out :=
  match o with
  | Call t kw =>
      let '(d, bad) := set_until_unknown kw (entry t s) in
      (with_tcfg s ((t, d) :: remove_tid t (tcfg s)), if bad then ORaise ConfigExc else ODone)
  | _ => step s o
  end.

Fixpoint run0 (s : state) (h : list op) : state * list (tid * out) :=
  match h with
  | [] => (s, [])
  | o :: r =>
      let '(s1, x) := step0 s o in
      let '(s2, xs) := run0 s1 r in
      (s2, (tid_of o, x) :: xs)
  end.
