From SV Require Import Config.Model.

(** * Association-list facts *)
Lemma key_beq_refl k : key_beq k k = true.
Proof. destruct k; reflexivity. Qed.

Lemma key_beq_eq k k' : key_beq k k' = true <-> k = k'.
Proof. split; [apply internal_key_dec_bl | apply internal_key_dec_lb]. Qed.

Lemma lookup_set_key {A} k k' (v : A) d :
  lookup_key k (set_key k' v d) = if key_beq k k' then Some v else lookup_key k d.
Proof.
  induction d as [|[k0 v0] d IH]; cbn.
  - destruct (key_beq k k'); reflexivity.
  - destruct (key_beq k' k0) eqn:E0; cbn.
    + apply key_beq_eq in E0; subst k0. destruct (key_beq k k'); reflexivity.
    + rewrite IH. destruct (key_beq k k0) eqn:E1; [|reflexivity].
      apply key_beq_eq in E1; subst k0.
      destruct (key_beq k k') eqn:E2; [|reflexivity].
      apply key_beq_eq in E2; subst k'. rewrite key_beq_refl in E0. discriminate.
Qed.

Lemma lookup_set_all_ext kw d d' :
  (forall k, lookup_key k d = lookup_key k d') ->
  forall k, lookup_key k (set_all kw d) = lookup_key k (set_all kw d').
Proof.
  revert d d'; induction kw as [|[[k0|u] r] kw IH]; intros d d' H k; cbn; auto.
  apply IH. intro k1. rewrite !lookup_set_key. destruct (key_beq k1 k0); auto.
Qed.

Lemma lookup_remove_tid_other {A} t t' (l : list (tid * A)) :
  t <> t' -> lookup_tid t (remove_tid t' l) = lookup_tid t l.
Proof.
  intro Hne. induction l as [|[t0 v] l IH]; cbn; [reflexivity|].
  destruct (Nat.eqb t' t0) eqn:E; cbn.
  - apply Nat.eqb_eq in E; subst t0.
    destruct (Nat.eqb t t') eqn:E2; [apply Nat.eqb_eq in E2; contradiction|exact IH].
  - rewrite IH. reflexivity.
Qed.

Lemma lookup_remove_tid_same {A} t (l : list (tid * A)) :
  lookup_tid t (remove_tid t l) = None.
Proof.
  induction l as [|[t0 v] l IH]; cbn; [reflexivity|].
  destruct (Nat.eqb t t0) eqn:E; cbn; [exact IH|]. rewrite E. exact IH.
Qed.

Lemma mem_remove_nat_other t t' l : t <> t' -> mem_nat t (remove_nat t' l) = mem_nat t l.
Proof.
  intro Hne. induction l as [|t0 l IH]; cbn; [reflexivity|].
  destruct (Nat.eqb t' t0) eqn:E; cbn.
  - apply Nat.eqb_eq in E; subst t0.
    destruct (Nat.eqb t t') eqn:E2; [apply Nat.eqb_eq in E2; contradiction|exact IH].
  - rewrite IH. reflexivity.
Qed.

Lemma mem_remove_nat_same t l : mem_nat t (remove_nat t l) = false.
Proof.
  induction l as [|t0 l IH]; cbn; [reflexivity|].
  destruct (Nat.eqb t t0) eqn:E; cbn; [exact IH|]. rewrite E. exact IH.
Qed.

(** * What one thread observes *)
Definition sees_same (t : tid) (s s' : state) : Prop :=
  (forall k, lookup_key k (entry t s) = lookup_key k (entry t s')) /\
  mem_nat t (inctx s) = mem_nat t (inctx s') /\
  env s = env s' /\ dirdef s = dirdef s'.

Lemma sees_same_refl t s : sees_same t s s.
Proof. repeat split. Qed.

Lemma sees_same_view t s s' : sees_same t s s' -> view t s = view t s'.
Proof.
  intros (H1 & H2 & _). unfold view. rewrite H2. f_equal.
  unfold all_keys; cbn [map]. rewrite !H1. reflexivity.
Qed.

Lemma view_sees_same t s s' :
  view t s = view t s' -> env s = env s' -> dirdef s = dirdef s' -> sees_same t s s'.
Proof.
  unfold view, all_keys; cbn [map]. intros H He Hd. inversion H as [[H1 H2 H3 H4 H5]].
  repeat split; auto. intros []; assumption.
Qed.

Lemma entry_cons_same t d c s : entry t (with_tcfg s ((t, d) :: c)) = d.
Proof. unfold entry; cbn. rewrite Nat.eqb_refl. reflexivity. Qed.

Lemma entry_with_inctx t s c : entry t (with_inctx s c) = entry t s.
Proof. reflexivity. Qed.

(** a step of another thread is invisible *)
Lemma step_other t s o : tid_of o <> t -> sees_same t (fst (step s o)) s.
Proof.
  intro Hne. destruct o as [t' kw|t'|t'|t' k|t' k]; cbn [tid_of] in Hne; cbn [step].
  - destruct (mem_nat t' (inctx s)); [apply sees_same_refl|].
    destruct (existsb is_unknown kw); [apply sees_same_refl|]. cbn [fst].
    repeat split. intro k. unfold entry; cbn.
    destruct (Nat.eqb t t') eqn:E; [apply Nat.eqb_eq in E; congruence|].
    rewrite lookup_remove_tid_other by congruence. reflexivity.
  - destruct (mem_nat t' (inctx s)); [apply sees_same_refl|]. cbn [fst].
    repeat split. cbn. destruct (Nat.eqb t t') eqn:E; [apply Nat.eqb_eq in E; congruence|reflexivity].
  - cbn [fst]. repeat split.
    + intro k. unfold entry; cbn. rewrite lookup_remove_tid_other by congruence. reflexivity.
    + cbn. apply mem_remove_nat_other. congruence.
  - apply sees_same_refl.
  - apply sees_same_refl.
Qed.

(** a thread's own step depends only on what it sees *)
Lemma step_own t s s' o :
  tid_of o = t -> sees_same t s s' ->
  snd (step s o) = snd (step s' o) /\ sees_same t (fst (step s o)) (fst (step s' o)).
Proof.
  intros Ht Hs. pose proof Hs as (H1 & H2 & H3 & H4).
  destruct o as [t' kw|t'|t'|t' k|t' k]; cbn [tid_of] in Ht; subst t'; cbn [step].
  - rewrite <- H2. destruct (mem_nat t (inctx s)) eqn:Em; [split; [reflexivity|exact Hs]|].
    destruct (existsb is_unknown kw); [split; [reflexivity|exact Hs]|].
    cbn [fst snd]. split; [reflexivity|]. repeat split; auto; [|cbn; congruence].
    intro k. rewrite !entry_cons_same. apply lookup_set_all_ext. exact H1.
  - rewrite <- H2. destruct (mem_nat t (inctx s)) eqn:Em; [split; [reflexivity|exact Hs]|].
    cbn [fst snd]. split; [reflexivity|]. repeat split; auto.
    cbn. rewrite Nat.eqb_refl. reflexivity.
  - cbn [fst snd]. split; [reflexivity|]. repeat split; auto.
    + intro k. unfold entry; cbn. rewrite !lookup_remove_tid_same. reflexivity.
    + cbn. rewrite !mem_remove_nat_same. reflexivity.
  - cbn [fst snd]. split; [|exact Hs].
    unfold read_value. rewrite H1, H3. destruct (lookup_key k (entry t s')); [reflexivity|].
    destruct (lookup_key k (env s')); [reflexivity|].
    f_equal. f_equal. destruct k; cbn; congruence.
  - cbn [fst snd]. split; [reflexivity|exact Hs].
Qed.

Lemma sees_same_trans t a b c : sees_same t a b -> sees_same t b c -> sees_same t a c.
Proof.
  intros (A1 & A2 & A3 & A4) (B1 & B2 & B3 & B4). repeat split; try congruence.
  all: intro k; rewrite A1; apply B1.
Qed.

Definition is_of (t : tid) (o : op) : bool := Nat.eqb (tid_of o) t.

Lemma run_local_gen t h : forall s s',
  sees_same t s s' ->
  sees_same t (fst (run s h)) (fst (run s' (filter (is_of t) h))) /\
  outs_of t (snd (run s h)) = outs_of t (snd (run s' (filter (is_of t) h))).
Proof.
  induction h as [|o h IH]; intros s s' Hs.
  - cbn. split; [exact Hs|reflexivity].
  - cbn [filter]. destruct (is_of t o) eqn:E; unfold is_of in E.
    + cbn [run]. apply Nat.eqb_eq in E.
      destruct (step_own t s s' o E Hs) as [Ho Hn].
      destruct (step s o) as [s1 x] eqn:E1. destruct (step s' o) as [s1' x'] eqn:E1'.
      cbn [fst snd] in Ho, Hn. subst x'.
      specialize (IH s1 s1' Hn).
      destruct (run s1 h) as [s2 xs]. destruct (run s1' (filter (is_of t) h)) as [s2' xs'].
      cbn [fst snd] in *. destruct IH as [IH1 IH2]. split; [exact IH1|].
      unfold outs_of in *. cbn [filter fst]. rewrite E, Nat.eqb_refl.
      cbn [map snd]. f_equal. exact IH2.
    + cbn [run]. pose proof E as E'. apply Nat.eqb_neq in E.
      pose proof (step_other t s o E) as Hn.
      destruct (step s o) as [s1 x] eqn:E1. cbn [fst] in Hn.
      specialize (IH s1 s' (sees_same_trans _ _ _ _ Hn Hs)).
      destruct (run s1 h) as [s2 xs]. cbn [fst snd] in *. destruct IH as [IH1 IH2].
      split; [exact IH1|]. unfold outs_of in *. cbn [filter fst].
      rewrite E'. exact IH2.
Qed.

Theorem run_local s h t :
  view t (fst (run s h)) = view t (fst (run s (filter (is_of t) h))) /\
  outs_of t (snd (run s h)) = outs_of t (snd (run s (filter (is_of t) h))).
Proof.
  destruct (run_local_gen t h s s (sees_same_refl t s)) as [H1 H2].
  split; [apply sees_same_view; exact H1|exact H2].
Qed.

(** a refused operation changes nothing *)
Theorem step_reject s o e : snd (step s o) = ORaise e -> fst (step s o) = s.
Proof.
  destruct o as [t kw|t|t|t k|t k]; cbn [step].
  - destruct (mem_nat t (inctx s)); [reflexivity|].
    destruct (existsb is_unknown kw); [reflexivity|]. cbn. discriminate.
  - destruct (mem_nat t (inctx s)); [reflexivity|]. cbn. discriminate.
  - cbn. discriminate.
  - reflexivity.
  - reflexivity.
Qed.

Theorem assign_refused s t k : step s (Assign t k) = (s, ORaise ConfigExc).
Proof. reflexivity. Qed.

(** * Scope semantics: a thread program run from a clean thread state produces
    exactly the outputs the specification [spec_top] computes from the program
    text and the environment, and leaves the thread clean again. *)
Scheme item_ind2 := Induction for item Sort Prop
  with items_ind2 := Induction for items Sort Prop.
Combined Scheme item_items_ind from item_ind2, items_ind2.

Definition inscope (t : tid) (sc : list (key * val)) (s : state) : Prop :=
  (forall k, lookup_key k (entry t s) = lookup_key k sc) /\ mem_nat t (inctx s) = true.

Lemma read_in_scope t sc s k : inscope t sc s -> read_value s t k = scope_value s sc k.
Proof.
  intros [H _]. unfold read_value, scope_value, base_value. rewrite H. reflexivity.
Qed.

Lemma exec_in_scope t :
  (forall i s sc, inscope t sc s ->
     exists tr, exec_item t i s = (s, tr, snd (spec_item s 1 sc i)) /\
                map snd tr = fst (spec_item s 1 sc i)) /\
  (forall is s sc, inscope t sc s ->
     exists tr, exec_items t is s = (s, tr, snd (spec_items s 1 sc is)) /\
                map snd tr = fst (spec_items s 1 sc is)).
Proof.
  apply item_items_ind.
  - intros k s sc H. cbn [exec_item spec_item step fst snd].
    eexists; split; [reflexivity|]. cbn. rewrite (read_in_scope _ _ _ _ H). reflexivity.
  - intros k s sc H. cbn. eexists; split; reflexivity.
  - intros s sc H. cbn. eexists; split; reflexivity.
  - intros kw body IHb s sc H. cbn [exec_item spec_item step].
    destruct H as [_ Hin]. rewrite Hin. cbn. eexists; split; reflexivity.
  - intros s sc H. cbn. eexists; split; reflexivity.
  - intros i IHi r IHr s sc H. cbn [exec_items spec_items].
    destruct (IHi s sc H) as (tr1 & E1 & M1). rewrite E1.
    destruct (spec_item s 1 sc i) as [xs ex] eqn:Es. cbn [fst snd] in *.
    destruct ex.
    + eexists; split; [reflexivity|exact M1].
    + destruct (IHr s sc H) as (tr2 & E2 & M2). rewrite E2.
      destruct (spec_items s 1 sc r) as [ys ex2] eqn:Er. cbn [fst snd] in *.
      eexists; split; [reflexivity|]. rewrite map_app, M1, M2. reflexivity.
Qed.

Definition same_base (s s' : state) : Prop := env s = env s' /\ dirdef s = dirdef s'.

Lemma spec_same_base s s' :
  same_base s s' ->
  (forall i d sc, spec_item s d sc i = spec_item s' d sc i) /\
  (forall is d sc, spec_items s d sc is = spec_items s' d sc is).
Proof.
  intros [He Hd]. apply item_items_ind.
  - intros k d sc. cbn. unfold scope_value, base_value. rewrite He.
    destruct (lookup_key k sc); [reflexivity|].
    destruct (lookup_key k (env s')); [reflexivity|]. destruct k; cbn; congruence.
  - reflexivity.
  - reflexivity.
  - intros kw body IHb d sc. cbn. destruct d; [|reflexivity].
    destruct (existsb is_unknown kw); [reflexivity|]. rewrite IHb. reflexivity.
  - reflexivity.
  - intros i IHi r IHr d sc. cbn. rewrite IHi, IHr. reflexivity.
Qed.

Lemma set_all_known_lookup kw : forall d d' k,
  (forall k, lookup_key k d = lookup_key k d') ->
  lookup_key k (set_all kw d) = lookup_key k (set_all kw d').
Proof. intros; apply lookup_set_all_ext; assumption. Qed.

(** one top-level item, from a clean thread *)
Lemma exec_item_clean t i s :
  clean t s ->
  exists s' tr ex,
    exec_item t i s = (s', tr, ex) /\
    map snd tr = fst (spec_item s 0 [] i) /\
    clean t s' /\ same_base s' s /\
    (forall t', t' <> t -> sees_same t' s' s).
Proof.
  intros [Hc1 Hc2]. destruct i as [k|k| |kw body].
  - cbn. do 3 eexists. split; [reflexivity|]. split.
    + cbn. unfold read_value, scope_value, base_value, entry. rewrite Hc1. reflexivity.
    + repeat split; auto.
  - cbn. do 3 eexists. split; [reflexivity|]. repeat split; auto.
  - cbn. do 3 eexists. split; [reflexivity|]. repeat split; auto.
  - cbn [exec_item spec_item step]. rewrite Hc2.
    destruct (existsb is_unknown kw) eqn:Eu.
    + do 3 eexists. split; [reflexivity|]. repeat split; auto.
    + cbn [inctx with_tcfg]. rewrite Hc2.
      set (s2 := with_inctx (with_tcfg s ((t, set_all kw (entry t s)) :: remove_tid t (tcfg s)))
                            (t :: inctx s)).
      assert (Hin : inscope t (set_all kw []) s2).
      { split.
        - intro k. unfold s2. rewrite entry_with_inctx, entry_cons_same.
          apply lookup_set_all_ext. intro k0. unfold entry. rewrite Hc1. reflexivity.
        - unfold s2; cbn. rewrite Nat.eqb_refl. reflexivity. }
      destruct (proj2 (exec_in_scope t) body s2 (set_all kw []) Hin) as (tr & E & M).
      rewrite E. cbn [step fst snd].
      assert (Hb : same_base s2 s) by (split; reflexivity).
      rewrite (proj2 (spec_same_base s2 s Hb)) in M.
      destruct (spec_items s 1 (set_all kw []) body) as [xs ex] eqn:Es.
      do 3 eexists. split; [reflexivity|]. split.
      { cbn [map snd fst]. rewrite map_app. cbn [map snd]. cbn [fst] in M. rewrite M. reflexivity. }
      split.
      { split; cbn.
        - rewrite Nat.eqb_refl. apply lookup_remove_tid_same.
        - rewrite Nat.eqb_refl. apply mem_remove_nat_same. }
      split; [split; reflexivity|].
      intros t' Hne. repeat split; cbn.
      * intro k. unfold entry; cbn. rewrite Nat.eqb_refl.
        rewrite !lookup_remove_tid_other by congruence. reflexivity.
      * rewrite Nat.eqb_refl. rewrite mem_remove_nat_other by congruence. reflexivity.
Qed.

Theorem scope_spec t p : forall s,
  clean t s ->
  map snd (snd (exec_top t p s)) = spec_top s p /\
  clean t (fst (exec_top t p s)) /\
  same_base (fst (exec_top t p s)) s /\
  (forall t', t' <> t -> sees_same t' (fst (exec_top t p s)) s).
Proof.
  induction p as [|i p IH]; intros s Hc.
  - cbn. repeat split; auto; apply Hc.
  - cbn [exec_top spec_top].
    destruct (exec_item_clean t i s Hc) as (s1 & tr1 & ex & E & M & Hc1 & Hb1 & Ho1).
    rewrite E. specialize (IH s1 Hc1). destruct (exec_top t p s1) as [s2 tr2].
    cbn [fst snd] in *. destruct IH as (M2 & Hc2 & Hb2 & Ho2).
    split; [|split; [exact Hc2|split]].
    + rewrite map_app, M, M2. f_equal.
      clear - Hb1. induction p as [|j p IHp]; [reflexivity|]. cbn [spec_top].
      rewrite (proj1 (spec_same_base s1 s Hb1)), IHp. reflexivity.
    + destruct Hb1, Hb2. split; congruence.
    + intros t' Hne. eapply sees_same_trans; [apply Ho2; exact Hne|apply Ho1; exact Hne].
Qed.

(** * The op trace of a program replays through [run] *)
Definition tagged (tr : list (op * out)) : list (tid * out) :=
  map (fun p => (tid_of (fst p), snd p)) tr.

Definition replays (s : state) (tr : list (op * out)) (s' : state) : Prop :=
  run s (map fst tr) = (s', tagged tr).

Lemma replays_nil s : replays s [] s.
Proof. reflexivity. Qed.

Lemma replays_cons s o x s1 tr s2 :
  step s o = (s1, x) -> replays s1 tr s2 -> replays s ((o, x) :: tr) s2.
Proof.
  unfold replays. intros H1 H2. cbn [map fst run]. rewrite H1, H2. reflexivity.
Qed.

Lemma replays_app s tr1 s1 tr2 s2 :
  replays s tr1 s1 -> replays s1 tr2 s2 -> replays s (tr1 ++ tr2) s2.
Proof.
  unfold replays. revert s. induction tr1 as [|[o x] tr1 IH]; intros s H1 H2.
  - cbn in H1. inversion H1; subst. exact H2.
  - cbn [map fst app run] in *. destruct (step s o) as [sa xa] eqn:Es.
    destruct (run sa (map fst tr1)) as [sb xs] eqn:Er.
    inversion H1; subst. specialize (IH sa). rewrite Er in IH.
    unfold tagged in *. rewrite (IH eq_refl H2). reflexivity.
Qed.

Lemma exec_replays t :
  (forall i s s' tr ex, exec_item t i s = (s', tr, ex) ->
     replays s tr s' /\ Forall (fun p => tid_of (fst p) = t) tr) /\
  (forall is s s' tr ex, exec_items t is s = (s', tr, ex) ->
     replays s tr s' /\ Forall (fun p => tid_of (fst p) = t) tr).
Proof.
  apply item_items_ind.
  - intros k s s' tr ex H. cbn in H. inversion H; subst. split.
    + eapply replays_cons; [reflexivity|apply replays_nil].
    + repeat constructor.
  - intros k s s' tr ex H. cbn in H. inversion H; subst. split.
    + eapply replays_cons; [reflexivity|apply replays_nil].
    + repeat constructor.
  - intros s s' tr ex H. cbn in H. inversion H; subst. split; [apply replays_nil|constructor].
  - intros kw body IHb s s' tr ex H. cbn [exec_item] in H.
    destruct (step s (Call t kw)) as [s1 x1] eqn:E1.
    destruct x1 as [v|e|].
    + (* OVal: impossible for Call, but handled uniformly *)
      destruct (step s1 (Enter t)) as [s2 x2] eqn:E2.
      destruct x2 as [v2|e2|].
      * destruct (exec_items t body s2) as [[s3 trb] exb] eqn:E3.
        destruct (step s3 (Exit t)) as [s4 x4] eqn:E4. inversion H; subst.
        destruct (IHb _ _ _ _ E3) as [R3 F3]. split.
        -- eapply replays_cons; [exact E1|]. eapply replays_cons; [exact E2|].
           eapply replays_app; [exact R3|]. eapply replays_cons; [exact E4|apply replays_nil].
        -- constructor; [reflexivity|]. constructor; [reflexivity|].
           apply Forall_app. split; [exact F3|repeat constructor].
      * inversion H; subst. split.
        -- eapply replays_cons; [exact E1|]. eapply replays_cons; [exact E2|apply replays_nil].
        -- repeat constructor.
      * destruct (exec_items t body s2) as [[s3 trb] exb] eqn:E3.
        destruct (step s3 (Exit t)) as [s4 x4] eqn:E4. inversion H; subst.
        destruct (IHb _ _ _ _ E3) as [R3 F3]. split.
        -- eapply replays_cons; [exact E1|]. eapply replays_cons; [exact E2|].
           eapply replays_app; [exact R3|]. eapply replays_cons; [exact E4|apply replays_nil].
        -- constructor; [reflexivity|]. constructor; [reflexivity|].
           apply Forall_app. split; [exact F3|repeat constructor].
    + inversion H; subst. split.
      * eapply replays_cons; [exact E1|apply replays_nil].
      * repeat constructor.
    + destruct (step s1 (Enter t)) as [s2 x2] eqn:E2.
      destruct x2 as [v2|e2|].
      * destruct (exec_items t body s2) as [[s3 trb] exb] eqn:E3.
        destruct (step s3 (Exit t)) as [s4 x4] eqn:E4. inversion H; subst.
        destruct (IHb _ _ _ _ E3) as [R3 F3]. split.
        -- eapply replays_cons; [exact E1|]. eapply replays_cons; [exact E2|].
           eapply replays_app; [exact R3|]. eapply replays_cons; [exact E4|apply replays_nil].
        -- constructor; [reflexivity|]. constructor; [reflexivity|].
           apply Forall_app. split; [exact F3|repeat constructor].
      * inversion H; subst. split.
        -- eapply replays_cons; [exact E1|]. eapply replays_cons; [exact E2|apply replays_nil].
        -- repeat constructor.
      * destruct (exec_items t body s2) as [[s3 trb] exb] eqn:E3.
        destruct (step s3 (Exit t)) as [s4 x4] eqn:E4. inversion H; subst.
        destruct (IHb _ _ _ _ E3) as [R3 F3]. split.
        -- eapply replays_cons; [exact E1|]. eapply replays_cons; [exact E2|].
           eapply replays_app; [exact R3|]. eapply replays_cons; [exact E4|apply replays_nil].
        -- constructor; [reflexivity|]. constructor; [reflexivity|].
           apply Forall_app. split; [exact F3|repeat constructor].
  - intros s s' tr ex H. cbn in H. inversion H; subst. split; [apply replays_nil|constructor].
  - intros i IHi r IHr s s' tr ex H. cbn [exec_items] in H.
    destruct (exec_item t i s) as [[s1 tr1] ex1] eqn:E1.
    destruct (IHi _ _ _ _ E1) as [R1 F1]. destruct ex1.
    + inversion H; subst. split; assumption.
    + destruct (exec_items t r s1) as [[s2 tr2] ex2] eqn:E2. inversion H; subst.
      destruct (IHr _ _ _ _ E2) as [R2 F2]. split.
      * eapply replays_app; eassumption.
      * apply Forall_app; split; assumption.
Qed.

Lemma exec_top_replays t p : forall s,
  replays s (snd (exec_top t p s)) (fst (exec_top t p s)) /\
  Forall (fun q => tid_of (fst q) = t) (snd (exec_top t p s)).
Proof.
  induction p as [|i p IH]; intro s; cbn [exec_top].
  - split; [apply replays_nil|constructor].
  - destruct (exec_item t i s) as [[s1 tr1] ex1] eqn:E1.
    destruct (proj1 (exec_replays t) _ _ _ _ _ E1) as [R1 F1].
    specialize (IH s1). destruct (exec_top t p s1) as [s2 tr2]. cbn [fst snd] in *.
    destruct IH as [R2 F2]. split.
    + eapply replays_app; eassumption.
    + apply Forall_app; split; assumption.
Qed.

Lemma outs_of_tagged_all t tr :
  Forall (fun q => tid_of (fst q) = t) tr -> outs_of t (tagged tr) = map snd tr.
Proof.
  induction 1 as [|[o x] tr H _ IH]; [reflexivity|].
  cbn in H. unfold outs_of, tagged in *. cbn [map filter fst snd]. rewrite H, Nat.eqb_refl.
  cbn [map snd]. f_equal. exact IH.
Qed.

(** Every interleaving: if thread [t] starts clean and the operations of [t]
    inside an arbitrary history [h] are those of its program [p], then what [t]
    reads is what the specification says, and it ends clean -- whatever the
    other threads do in between. *)
Theorem interleaving_spec s h t p :
  clean t s ->
  filter (is_of t) h = map fst (snd (exec_top t p s)) ->
  outs_of t (snd (run s h)) = spec_top s p /\
  view t (fst (run s h)) = view t s.
Proof.
  intros Hc Hf.
  destruct (run_local s h t) as [Hv Ho]. rewrite Hf in Hv, Ho.
  destruct (exec_top_replays t p s) as [R F]. unfold replays in R. rewrite R in Hv, Ho.
  cbn [fst snd] in Hv, Ho.
  destruct (scope_spec t p s Hc) as (M & Hc' & _ & _).
  split.
  - rewrite Ho, outs_of_tagged_all by exact F. exact M.
  - rewrite Hv. destruct Hc as [C1 C2], Hc' as [C1' C2'].
    unfold view, entry. rewrite C1, C1', C2, C2'. reflexivity.
Qed.
