(** Shared helpers: ASCII string utilities, printing of numbers, association lists.
    Models only; proofs about these live in Base/UtilProofs.v. *)
From Coq Require Export List Bool Arith ZArith String Ascii Lia.
From Coq Require Import DecimalString.
Export ListNotations.
Open Scope string_scope.
Open Scope list_scope.

Definition string_of_Z (z : Z) : string := NilZero.string_of_int (Z.to_int z).
Definition string_of_nat (n : nat) : string := NilZero.string_of_uint (Nat.to_uint n).

Fixpoint join (sep : string) (l : list string) : string :=
  match l with
  | [] => ""
  | [x] => x
  | x :: r => x ++ sep ++ join sep r
  end.

Fixpoint concat_str (l : list string) : string :=
  match l with [] => "" | x :: r => x ++ concat_str r end.

Definition nat_of_ascii' (c : ascii) : nat := nat_of_ascii c.

Definition is_upper (c : ascii) : bool :=
  let n := nat_of_ascii c in Nat.leb 65 n && Nat.leb n 90.
Definition is_lower (c : ascii) : bool :=
  let n := nat_of_ascii c in Nat.leb 97 n && Nat.leb n 122.
Definition is_digit (c : ascii) : bool :=
  let n := nat_of_ascii c in Nat.leb 48 n && Nat.leb n 57.
Definition to_lower (c : ascii) : ascii :=
  if is_upper c then ascii_of_nat (nat_of_ascii c + 32) else c.
Definition to_upper (c : ascii) : ascii :=
  if is_lower c then ascii_of_nat (nat_of_ascii c - 32) else c.

Fixpoint smap (f : ascii -> ascii) (s : string) : string :=
  match s with
  | EmptyString => EmptyString
  | String c r => String (f c) (smap f r)
  end.
Definition lower (s : string) : string := smap to_lower s.
Definition upper (s : string) : string := smap to_upper s.

Fixpoint sforall (p : ascii -> bool) (s : string) : bool :=
  match s with
  | EmptyString => true
  | String c r => p c && sforall p r
  end.
Fixpoint sexists (p : ascii -> bool) (s : string) : bool :=
  match s with
  | EmptyString => false
  | String c r => p c || sexists p r
  end.

Fixpoint srev_app (s acc : string) : string :=
  match s with
  | EmptyString => acc
  | String c r => srev_app r (String c acc)
  end.
Definition srev (s : string) : string := srev_app s EmptyString.

(** Python [str.lstrip(chars)] / [rstrip] / [strip] for a character predicate. *)
Fixpoint lstrip (p : ascii -> bool) (s : string) : string :=
  match s with
  | EmptyString => EmptyString
  | String c r => if p c then lstrip p r else s
  end.
Fixpoint rstrip (p : ascii -> bool) (s : string) : string :=
  match s with
  | EmptyString => EmptyString
  | String c r =>
      match rstrip p r with
      | EmptyString => if p c then EmptyString else String c EmptyString
      | r' => String c r'
      end
  end.
Definition strip (p : ascii -> bool) (s : string) : string := rstrip p (lstrip p s).

(** Python's notion of white space restricted to ASCII: 9-13, 28-31, 32. *)
Definition is_space (c : ascii) : bool :=
  let n := nat_of_ascii c in
  (Nat.leb 9 n && Nat.leb n 13) || (Nat.leb 28 n && Nat.leb n 32).

(** the white space [int(str)] skips: 9-13 and 32 only (measured on CPython 3.12) *)
Definition is_space_int (c : ascii) : bool :=
  let n := nat_of_ascii c in
  (Nat.leb 9 n && Nat.leb n 13) || Nat.eqb n 32.

Definition ascii_eqb := Ascii.eqb.

Fixpoint mem_string (x : string) (l : list string) : bool :=
  match l with
  | [] => false
  | y :: r => String.eqb x y || mem_string x r
  end.

Fixpoint mem_nat (x : nat) (l : list nat) : bool :=
  match l with
  | [] => false
  | y :: r => Nat.eqb x y || mem_nat x r
  end.

Fixpoint remove_nat (x : nat) (l : list nat) : list nat :=
  match l with
  | [] => []
  | y :: r => if Nat.eqb x y then remove_nat x r else y :: remove_nat x r
  end.
