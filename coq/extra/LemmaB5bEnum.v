(** Lemma B, step 5b: the statement tested by exhaustive enumeration over two small grammars of UNION statements
    (52 400 statements; 6 562 inside all guards of [lemma_B_statement]): no instance with [lemma_B_check] = "FAILS";
    how many of those inside the guards are covered by [lemma_B_union_partial]. *)
From SV Require Import Tree.Render Tree.LemmaA Tree.LemmaAProofs Tree.LemmaB Tree.LemmaBProofs Tree.LemmaB5bDefs Tree.LemmaB5b Ident.Escape.
Open Scope string_scope. Open Scope list_scope.

(** 0: outside the guards; 1: holds, and inside [lemma_B_union_partial]; 2: holds, outside it; 3: FAILS *)
Definition b5_code (e : env) (s : stmt) : nat :=
  let r := lemma_B_check [] e s in
  if String.eqb r "FAILS" then 3
  else if String.eqb r "holds" then (if sel_union_syntactic s && union_alias_coherent s then 1 else 2)
  else 0.
Definition b5_count (l : list nat) : nat * nat * nat * nat :=
  (List.length (filter (Nat.eqb 0) l), List.length (filter (Nat.eqb 1) l), List.length (filter (Nat.eqb 2) l), List.length (filter (Nat.eqb 3) l)).

(** grammar 1: one item per branch; INSERT without and with a column list *)
Definition en1_items : list item :=
  [ci None "a"; ci None "b"; ci (Some "t") "a"; ci (Some "u") "a"; ci (Some "p") "b"; cia None "a" "b"; cia (Some "t") "b" "a";
   IStar None; IStar (Some "t"); IStar (Some "p")].
Definition en1_froms : list (list rel) :=
  [[tb "t"]; [tb "u"]; [tba "t" "p"]; [tba "u" "p"]; [tb "t"; tb "u"]; [tba "t" "p"; tb "u"]; [tba "t" "u"; tba "u" "t"];
   [tbs "s1" "t" None]; [tbs "s1" "t" (Some "p"); tb "u"]; [tba "u" "t"]].
Definition en1_branches : list query := flat_map (fun i => map (fun f => sel1 [i] f) en1_froms) en1_items.
Definition en1_stmts : list stmt :=
  flat_map (fun a => flat_map (fun b => [SInsert tx None (QUnion a b); SInsert tx (Some ["c"]) (QUnion a b)]) en1_branches) en1_branches.

(** grammar 2: two items per branch, comma joins, a default schema; CREATE TABLE AS *)
Definition en2_items : list item := [ci None "a"; ci (Some "t") "a"; ci (Some "p") "b"; cia None "b" "a"; IStar (Some "t"); ci None "c"].
Definition en2_froms : list (list rel) := [[tb "t"]; [tba "t" "p"]; [tb "t"; tb "u"]; [tba "u" "p"; tb "t"]; [tba "u" "t"; tb "w"]].
Definition en2_branches : list query :=
  flat_map (fun il => map (fun f => QSelect il f true None) en2_froms) (flat_map (fun i => map (fun j => [i; j]) en2_items) en2_items).
Definition en2_stmts : list stmt := flat_map (fun a => map (fun b => SCtas tx (QUnion a b)) en2_branches) en2_branches.

(** 20 000 statements: 3 388 inside the guards, all "holds"; 2 116 of them inside [lemma_B_union_partial] *)
Lemma b5b_enum1 : b5_count (map (b5_code b5_e1) en1_stmts) = (16612, 2116, 1272, 0).
Proof. vm_cast_no_check (@eq_refl (nat * nat * nat * nat) (16612, 2116, 1272, 0)). Qed.

(** 32 400 statements: 3 174 inside the guards, all "holds"; 2 090 of them inside [lemma_B_union_partial] *)
Lemma b5b_enum2 : b5_count (map (b5_code b5_e2) en2_stmts) = (29226, 2090, 1084, 0).
Proof. vm_cast_no_check (@eq_refl (nat * nat * nat * nat) (29226, 2090, 1084, 0)). Qed.

(** the instances inside the guards but outside the proved fragment all have a table under two different aliases
    (or once aliased, once not) in the two branches: [union_alias_coherent] is the only gap *)
Lemma b5b_enum_gap :
  forallb (fun s => negb (Nat.eqb (b5_code b5_e1 s) 2) || (sel_union_syntactic s && negb (union_alias_coherent s))) en1_stmts &&
  forallb (fun s => negb (Nat.eqb (b5_code b5_e2 s) 2) || (sel_union_syntactic s && negb (union_alias_coherent s))) en2_stmts = true.
Proof. vm_cast_no_check (@eq_refl bool true). Qed.
Print Assumptions b5b_enum_gap.
