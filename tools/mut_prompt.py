import json, sys
props={json.loads(l)['id']:json.loads(l) for l in open('/verif/properties.jsonl')}
pid=sys.argv[1]; wt=sys.argv[2] if len(sys.argv)>2 else f"/tmp/mut_{pid}"
p=props[pid]
print(open('/verif/tools/mut_prompt.txt').read().format(wt=wt,id=pid,title=p['title'],statement=p['statement'],quant=p['quantifier']['text'],files=", ".join(p['anchors']['files'])))
