import json, sys, glob, os
# usage: mut_prompt_r.py <pid> <worktree>  -- prompt for a later round: also lists what was submitted before
props={json.loads(l)['id']:json.loads(l) for l in open('/verif/properties.jsonl')}
pid=sys.argv[1]; wt=sys.argv[2]
p=props[pid]
txt=open('/verif/tools/mut_prompt.txt').read().format(wt=wt,id=pid,title=p['title'],statement=p['statement'],quant=p['quantifier']['text'],files=", ".join(p['anchors']['files']))
prev=[]
for d in sorted(glob.glob(f'/verif/seeded/{pid}_*/meta.json')):
    m=json.load(open(d)); prev.append("- "+(m.get('summary') or m.get('what') or '')[:400].replace('\n',' ')+" [needs: "+str(m.get('needs_to_manifest') or m.get('needs') or '')[:250].replace('\n',' ')+"]")
if prev:
    txt+="\n\nChanges already submitted by earlier participants for this property (pick a DIFFERENT code site and a DIFFERENT mechanism; the more unlike these the better):\n"+"\n".join(prev)
print(txt)
