"""Suite T2: the same parse tree into the implementation's extractors and into the
Gallina model Tree/Extract.v (M_tree).  The statement segment is taken from the
analyzer, serialised, and handed back to analyze() through its statement cache, so
both sides provably see the same tree object."""
from __future__ import annotations

import multiprocessing as mp
import warnings

from common import NCPU, coq_eval, coq_string

HEADER = "From SV Require Import Tree.Extract.\nOpen Scope string_scope."


def g_seg(s) -> str:
    cls = sorted(c for c in s.class_types if c != "base")
    kids = s.segments
    return "Seg %s %s [%s] %s %s %s %s [%s]" % (
        coq_string(s.type), coq_string(s.get_type()), "; ".join(coq_string(c) for c in cls),
        coq_string(s.raw if not kids else ""),
        "true" if s.is_whitespace else "false", "true" if s.is_comment else "false", "true" if s.is_meta else "false",
        "; ".join("(" + g_seg(k) + ")" for k in kids))


QUERIED_TYPES = {"select_statement", "set_expression", "with_compound_statement", "expression", "bracketed",
                 "from_expression_element", "from_expression", "join_clause", "select_clause", "select_clause_element",
                 "case_expression", "when_clause", "alias_expression", "function", "table_expression", "values_clause",
                 "column_reference", "column_definition", "identifier", "literal", "window_specification", "function_name",
                 "function_contents", "storage_location", "set_clause_list", "set_clause", "merge_update_clause",
                 "merge_insert_clause", "merge_when_matched_clause", "merge_when_not_matched_clause", "merge_match",
                 "common_table_expression", "table_reference", "object_reference", "file_reference", "statement"}


def check_wf(s, problems):
    """assumptions of the tree model and of the trivia theorems (Tree/TriviaProofs.v: wf, trivia_types_ok,
    not_trivia_types_in), monitored on every tree"""
    kids = s.segments
    if kids and s.raw != "".join(k.raw for k in kids):
        problems.append("raw of %s is not the concatenation of its children" % s.type)
    trivia = s.is_whitespace or s.is_comment or bool(s.is_meta)
    if (trivia or s.type == "symbol") and kids:
        problems.append("%s segment %s has children" % ("trivia" if trivia else "symbol", s.type))
    if trivia and (QUERIED_TYPES & set(s.class_types) or s.type in QUERIED_TYPES):
        problems.append("trivia segment %s carries a type the extractors query" % s.type)
    for k in kids:
        check_wf(k, problems)


def g_env(cfg, dialect, truthy, cols, scalar) -> str:
    from implgraph import g_provider
    sc = "; ".join("(%s, [%s])" % (coq_string(k), "; ".join(
        "(%s, %s)" % (coq_string(c), "None" if q is None else "Some " + coq_string(q)) for c, q in v)) for k, v in scalar.items())
    # after fix F5 the default schema of Table() is resolved per call: import-time value = call-time value
    return ("(mk_env %s %s %s (%s) [%s])"
            % (coq_string(dialect), coq_string(cfg), coq_string(cfg), g_provider(truthy, cols), sc))


def analyse(rec: dict) -> list[dict]:
    """worker: one result per statement of the record"""
    warnings.filterwarnings("ignore")
    import logging
    logging.disable(logging.CRITICAL)
    import implgraph
    from sqllineage.config import SQLLineageConfig
    from sqllineage.core.metadata.dummy import DummyMetaDataProvider
    from sqllineage.core.parser.sqlfluff.analyzer import SqlFluffLineageAnalyzer
    from sqllineage.core.parser.sqlfluff.models import SqlFluffColumn
    from sqllineage.utils.helpers import split

    outs = []
    dialect = rec.get("dialect", "ansi")
    if dialect == "non-validating":
        return outs
    cfgd = {k: v for k, v in (rec.get("config") or {}).items() if v not in ("", False, None)}
    if cfgd.get("LATERAL_COLUMN_ALIAS_REFERENCE") or cfgd.get("TSQL_NO_SEMICOLON"):
        return [{"rec": rec, "skip": "LATERAL_COLUMN_ALIAS_REFERENCE / TSQL_NO_SEMICOLON not modelled at L4"}]
    md = rec.get("metadata")
    try:
        stmts = split(rec["sql"].strip())
    except Exception as e:
        return [{"rec": rec, "skip": "split failed: " + type(e).__name__}]
    for stmt in stmts:
        out = {"rec": rec, "stmt": stmt}
        outs.append(out)
        if not all(32 <= ord(c) < 127 or c in "\t\n\r" for c in stmt):
            out["skip"] = "non-ascii"
            continue
        provider = DummyMetaDataProvider(md) if md else DummyMetaDataProvider()
        an = SqlFluffLineageAnalyzer(".", dialect, rec.get("silent", False))
        try:
            segs = an._list_specific_statement_segment(stmt)
        except Exception as e:
            out["parse_error"] = type(e).__name__
            continue
        if not segs:
            out["skip"] = "no statement segment"
            continue
        seg = segs[0]
        problems = []
        check_wf(seg, problems)
        out["wf_problems"] = problems
        an.tsql_split_cache[stmt] = seg
        scalar = {}
        orig = SqlFluffColumn._get_column_from_subquery

        def rec_scalar(sub_segment, _orig=orig):
            r = _orig(sub_segment)
            scalar[sub_segment.raw] = [(c.column, c.qualifier) for c in r]
            return r
        SqlFluffColumn._get_column_from_subquery = staticmethod(rec_scalar)
        try:
            if cfgd:
                with SQLLineageConfig(**cfgd):
                    h = an.analyze(stmt, provider)
            else:
                h = an.analyze(stmt, provider)
            out["impl"] = implgraph.s_graph(h.graph, canon=True)
            out["stats"] = {"type": seg.type, "nodes": h.graph.number_of_nodes(), "edges": h.graph.number_of_edges()}
        except Exception as e:
            out["impl"] = "ERR:" + type(e).__name__
            out["stats"] = {"type": seg.type, "nodes": 0, "edges": 0}
        finally:
            SqlFluffColumn._get_column_from_subquery = orig
        try:
            out["seg_term"] = g_seg(seg)
            out["expr"] = "show_analysis (%s) %s (%s)" % (
                g_env(cfgd.get("DEFAULT_SCHEMA", ""), dialect, bool(provider), md or {}, scalar),
                "true" if rec.get("silent") else "false", out["seg_term"])
        except ValueError as e:
            out["skip"] = "unserialisable: " + str(e)[:60]
    return outs


EF_HEADER = "From SV Require Import Tree.Extract Tree.TotalDefs Tree.TotalValue3.\nOpen Scope string_scope."


def run(records: list[dict], shard: int = 30, escape_free: bool = False) -> list[dict]:
    """escape_free=True additionally evaluates the executable hypothesis of c10_total_on_all_trees_partial (Tree/TotalDefs.v)
    on every serialised parse tree: res[i]["escape_free"] in {"ef", "not-ef"}"""
    ctx = mp.get_context("fork")
    with ctx.Pool(min(NCPU, 16)) as pool:
        res = [x for part in pool.map(analyse, records, chunksize=4) for x in part]
    idx = [i for i, r in enumerate(res) if "expr" in r and "skip" not in r]
    model = coq_eval(HEADER, [res[i]["expr"] for i in idx], shard=shard)
    for i, m in zip(idx, model):
        res[i]["model"] = m
    if escape_free:
        efs = coq_eval(EF_HEADER, ['((if escape_free (%s) then "ef" else "not-ef") ++ (if nw_inner (%s) then "+nw" else ""))%%string' % (res[i]["seg_term"], res[i]["seg_term"]) for i in idx], shard=shard)
        for i, m in zip(idx, efs):
            res[i]["escape_free"] = m
    for r in res:
        r.pop("expr", None)
        r.pop("seg_term", None)
    return res


# ---------------------------------------------------------------------------
# whole scripts: LineageRunner vs Tree/Script.v (statement loop with session metadata + build)
# ---------------------------------------------------------------------------
SCRIPT_HEADER = "From SV Require Import Tree.Script.\nOpen Scope string_scope."


def _pair(p) -> str:
    s, t = p[0], p[-1]
    ss = str(s) if s.parent is not None else s.raw_name + "{" + ",".join(sorted(str(c) for c in s.parent_candidates)) + "}"
    return ss + ">>" + str(t)


def summary(lr) -> str:
    """what a user sees: source / target / intermediate tables and end-to-end column pairs"""
    src = sorted(str(t) for t in lr.source_tables)
    tgt = sorted(str(t) for t in lr.target_tables)
    mid = sorted(str(t) for t in lr.intermediate_tables)
    pairs = set()
    for p in lr.get_column_lineage():
        s, t = p[0], p[-1]
        ss = str(s) if s.parent is not None else s.raw_name + "{" + ",".join(sorted(str(c) for c in s.parent_candidates)) + "}"
        pairs.add(ss + ">" + str(t))
    return "R=%s;W=%s%s#%s" % (",".join(src), ",".join(tgt), (";I=" + ",".join(mid)) if mid else "", ";".join(sorted(pairs)))


def analyse_script(rec: dict) -> dict:
    warnings.filterwarnings("ignore")
    import logging
    logging.disable(logging.CRITICAL)
    import implgraph
    from sqllineage.config import SQLLineageConfig
    from sqllineage.core.metadata.dummy import DummyMetaDataProvider
    from sqllineage.core.parser.sqlfluff.analyzer import SqlFluffLineageAnalyzer
    from sqllineage.core.parser.sqlfluff.models import SqlFluffColumn
    from sqllineage.runner import LineageRunner

    out = {"rec": rec}
    dialect = rec.get("dialect", "ansi")
    cfgd = {k: v for k, v in (rec.get("config") or {}).items() if v not in ("", False, None)}
    if dialect == "non-validating" or cfgd.get("LATERAL_COLUMN_ALIAS_REFERENCE") or cfgd.get("TSQL_NO_SEMICOLON"):
        out["skip"] = "not modelled at L4"
        return out
    if not all(32 <= ord(c) < 127 or c in "\t\n\r" for c in rec["sql"]):
        out["skip"] = "non-ascii"
        return out
    md = rec.get("metadata")
    provider = DummyMetaDataProvider(md) if md else DummyMetaDataProvider()
    segs, scalar = [], {}
    orig_list = SqlFluffLineageAnalyzer._list_specific_statement_segment
    orig_sc = SqlFluffColumn._get_column_from_subquery

    def rec_list(self, sql, _o=orig_list):
        r = _o(self, sql)
        segs.append(r[0] if r else None)
        return r

    def rec_scalar(sub_segment, _o=orig_sc):
        r = _o(sub_segment)
        scalar[sub_segment.raw] = [(c.column, c.qualifier) for c in r]
        return r
    SqlFluffLineageAnalyzer._list_specific_statement_segment = rec_list
    SqlFluffColumn._get_column_from_subquery = staticmethod(rec_scalar)
    try:
        with implgraph.StatementTap() as tap:
            lr = LineageRunner(rec["sql"], dialect=dialect, metadata_provider=provider, silent_mode=rec.get("silent", False))
            try:
                if cfgd:
                    with SQLLineageConfig(**cfgd):
                        lr._eval()
                else:
                    lr._eval()
                holders = [h for _, h in tap.of_runner(lr)]
                sh = lr._sql_holder
                out["impl"] = "$".join(implgraph.s_graph(h.graph, canon=True) for h in holders) + "%" + "@".join([
                    implgraph.s_graph(sh.graph, canon=True), implgraph.s_roles(sh),
                    implgraph.s_paths(sh.get_column_lineage(True, False), True),
                    implgraph.s_paths(sh.get_column_lineage(False, False), True),
                    implgraph.s_paths(sh.get_column_lineage(True, True), True)])
                out["stats"] = {"statements": len(holders), "nodes": sh.graph.number_of_nodes(),
                                "multi_rename": any(len(h.rename) > 1 for h in holders)}
                out["summary"] = summary(lr)
                out["stmt_pairs"] = [sorted({tuple(_pair(p).split(">>")) for p in h.get_column_lineage()}) for h in holders]
                out["statements"] = lr.statements()
            except Exception as e:
                out["impl"] = "ERR:" + type(e).__name__
                out["stats"] = {"statements": len(tap.of_runner(lr)), "nodes": 0, "multi_rename": False}
    finally:
        SqlFluffLineageAnalyzer._list_specific_statement_segment = orig_list
        SqlFluffColumn._get_column_from_subquery = orig_sc
    if out["impl"] in ("ERR:InvalidSyntaxException",) or any(s is None for s in segs):
        out["skip"] = "parser rejected a statement (oracle outcome)"
        return out
    problems = []
    for s in segs:
        check_wf(s, problems)
    out["wf_problems"] = problems
    try:
        base = "[" + "; ".join("(%s, [%s])" % (coq_string(t), "; ".join(coq_string(c) for c in cs)) for t, cs in (md or {}).items()) + "]"
        out["expr"] = "show_script (%s) %s %s [%s]" % (
            g_env(cfgd.get("DEFAULT_SCHEMA", ""), dialect, bool(provider), {}, scalar),
            "true" if rec.get("silent") else "false", base, "; ".join(g_seg(s) for s in segs))
    except ValueError as e:
        out["skip"] = "unserialisable: " + str(e)[:60]
    return out


def run_scripts(records: list[dict], shard: int = 25) -> list[dict]:
    ctx = mp.get_context("fork")
    with ctx.Pool(min(NCPU, 16)) as pool:
        res = pool.map(analyse_script, records, chunksize=4)
    idx = [i for i, r in enumerate(res) if "expr" in r and "skip" not in r]
    model = coq_eval(SCRIPT_HEADER, [res[i]["expr"] for i in idx], shard=shard)
    for i, m in zip(idx, model):
        res[i]["model"] = m
    for r in res:
        r.pop("expr", None)
    return res


def _summary_only(rec: dict) -> str:
    warnings.filterwarnings("ignore")
    import logging
    logging.disable(logging.CRITICAL)
    from sqllineage.config import SQLLineageConfig
    from sqllineage.core.metadata.dummy import DummyMetaDataProvider
    from sqllineage.runner import LineageRunner
    md = rec.get("metadata")
    provider = DummyMetaDataProvider(md) if md else DummyMetaDataProvider()
    cfgd = {k: v for k, v in (rec.get("config") or {}).items() if v not in ("", False, None)}
    try:
        lr = LineageRunner(rec["sql"], dialect=rec.get("dialect", "ansi"), metadata_provider=provider,
                           silent_mode=rec.get("silent", False))
        if cfgd:
            with SQLLineageConfig(**cfgd):
                lr._eval()
                return summary(lr)
        lr._eval()
        return summary(lr)
    except Exception as e:
        return "ERR:" + type(e).__name__


def summaries(records: list[dict]) -> list[str]:
    """what the user sees, for many (sql, dialect, metadata, config) at once"""
    ctx = mp.get_context("fork")
    with ctx.Pool(min(NCPU, 16)) as pool:
        return pool.map(_summary_only, records, chunksize=8)
