"""Suite T2/T4 at layer L2: analyse scripts with the real LineageRunner, capture the
per-statement holders (statement tap) and the provider's session view (session tap),
hand the *same* holders to the Gallina model Holder/Build.v (evaluated inside Coq)
and compare everything the script-level code computes: the combined graph, the three
role lists, the column paths (all flag combinations) and the Cytoscape export."""
from __future__ import annotations

import json
import multiprocessing as mp
import common
import os
import warnings

from common import coq_eval, NCPU

HEADER = "From SV Require Import Holder.Build.\nOpen Scope string_scope."
PARTS = ["graph", "roles", "paths_default", "paths_incl_subquery_end", "paths_excl_subquery_cols"]


def _ascii(s: str) -> bool:
    return all(32 <= ord(c) < 127 or c in "\t\n\r" for c in s)


def analyse(rec: dict) -> dict:
    """runs in a worker process"""
    warnings.filterwarnings("ignore")
    import logging
    logging.disable(logging.CRITICAL)
    from implgraph import (StatementTap, g_holder, g_provider, g_graph, s_graph, s_roles, s_paths, table_parents)
    from sqllineage.config import SQLLineageConfig
    from sqllineage.core.metadata.dummy import DummyMetaDataProvider
    from sqllineage.runner import LineageRunner
    from sqllineage.io import to_cytoscape

    out = {"rec": rec}
    sql = rec["sql"]
    if not _ascii(sql):
        out["skip"] = "non-ascii"
        return out
    md = rec.get("metadata")
    provider = DummyMetaDataProvider(md) if md else DummyMetaDataProvider()
    cfg = {k: v for k, v in (rec.get("config") or {}).items() if v not in ("", False, None)}
    try:
        with StatementTap() as tap:
            lr = LineageRunner(sql, dialect=rec.get("dialect", "ansi"), metadata_provider=provider,
                               silent_mode=rec.get("silent", False))
            if cfg:
                with SQLLineageConfig(**cfg):
                    lr._eval()
            else:
                lr._eval()
    except Exception as e:
        out["error"] = type(e).__name__
        out["error_module"] = type(e).__module__
        out["n_statements_before_error"] = len(tap.items)
        return out
    holders = [h for _, h in tap.of_runner(lr)]
    sh = lr._sql_holder
    session = {}
    for ev, kw in tap.session_events:
        if ev == "session.register" and kw["provider"] is provider:
            session[str(kw["table"])] = [c.raw_name for c in kw["columns"]]
    cols = {}
    for t in table_parents([h.graph for h in holders]):
        k = str(t)
        cols[k] = session[k] if k in session else list((md or {}).get(k, []))
    try:
        out["impl"] = {
            "graph": s_graph(sh.graph),
            "roles": s_roles(sh),
            "paths_default": s_paths(sh.get_column_lineage(True, False)),
            "paths_incl_subquery_end": s_paths(sh.get_column_lineage(False, False)),
            "paths_excl_subquery_cols": s_paths(sh.get_column_lineage(True, True)),
        }
        out["holders_gal"] = "[%s]" % "; ".join(g_holder(h) for h in holders)
        out["expr"] = "show_all (%s) %s" % (g_provider(bool(provider), cols), out["holders_gal"])
        # export: the model is given the very sub-graphs the implementation exports, in its iteration order
        tg, cg = sh.table_lineage_graph, sh.column_lineage_graph
        out["cy_impl"] = {
            "table": ";".join(n["data"]["id"] + "^-^" for n in to_cytoscape(tg) if "source" not in n["data"]) + "#" +
                     ";".join(n["data"]["source"] + ">" + n["data"]["target"] for n in to_cytoscape(tg) if "source" in n["data"]),
            "column": ";".join("%s^%s^%s" % (n["data"]["id"], n["data"].get("parent", "-"), n["data"]["type"])
                               for n in to_cytoscape(cg, compound=True) if "source" not in n["data"]) + "#" +
                      ";".join(n["data"]["source"] + ">" + n["data"]["target"]
                               for n in to_cytoscape(cg, compound=True) if "source" in n["data"]),
        }
        out["cy_raw"] = {"table": to_cytoscape(tg), "column": to_cytoscape(cg, compound=True)}
        out["cy_expr"] = {
            "table": "show_cy (to_cytoscape_plain (%s))" % g_graph(tg),
            "column": "show_cy (to_cytoscape_compound (%s))" % g_graph(cg),
        }
        out["cy_spec"] = check_export(sh, lr, out["cy_raw"])
        out["wf"] = check_paths(sh, holders)
        out["stats"] = {"statements": len(holders), "nodes": sh.graph.number_of_nodes(), "edges": sh.graph.number_of_edges(),
                        "paths": len(sh.get_column_lineage(True, False)), "metadata": bool(md)}
        # monitored assumptions: nodes retrievable, keys faithful
        bad = []
        g = sh.graph
        for n in g.nodes:
            if n not in g or not g.has_node(n):
                bad.append("node not retrievable: %r" % (n,))
        out["monitor"] = bad
    except ValueError as e:
        out["skip"] = "unserialisable: " + str(e)[:80]
    except Exception as e:   # reading the finished result through the public API raised: the result object is inconsistent
        import traceback
        out["skip"] = "observe_error"
        out["observe_error"] = "%s: %s" % (type(e).__name__, str(e)[:200])
        out["observe_trace"] = traceback.format_exc()[-1500:]
    return out


def check_paths(sh, holders) -> list[dict]:
    """the statement of C06, evaluated directly on the implementation's result"""
    import networkx as nx
    from sqllineage.core.models import Column, Path, SubQuery, Table
    fails = []
    g = sh.graph
    cg = sh.column_lineage_graph
    tg = sh.table_lineage_graph
    read_by_script = set()
    for h in holders:
        read_by_script |= set(h.read)
    # K-C06-1 is about RENAME (a DROP never removes a table that has columns, so it cannot orphan a column path)
    has_rename_or_drop = any(h.rename for h in holders)
    # per-statement inconsistency: a holder uses a column of a table it does not read (scalar sub-query, K-C01-2 seen from the column side)
    orphan_owner = set()
    for h in holders:
        reads = set(h.read) | set(h.write)
        for n in h.graph.nodes:
            if isinstance(n, Column) and isinstance(n.parent, Table) and n.parent not in reads:
                # ... unless the "table" is called like an alias the statement defines: then a reference through a
                # visible alias was not resolved, which is no recorded class
                aliases = {v for _, v, a in h.graph.edges(data=True) if a.get("type") == "has_alias"}
                if n.parent.raw_name not in aliases:
                    orphan_owner.add(str(n.parent))
    targets = set(sh.target_tables) | set(sh.intermediate_tables)
    for path in sh.get_column_lineage(True, False):
        p = [str(c) for c in path]
        if len(path) < 2:
            fails.append({"kind": "short-path", "path": p})
            continue
        for a, b in zip(path, path[1:]):
            if not g.has_edge(a, b) or g.edges[a, b].get("type") != "lineage":
                fails.append({"kind": "not-a-chain", "path": p, "hop": [str(a), str(b)]})
        if cg.in_degree(path[0]) != 0:
            fails.append({"kind": "start-is-fed", "path": p})
        last = path[-1]
        if cg.out_degree(last) != 0 or not isinstance(last.parent, Table):
            fails.append({"kind": "end-not-table-leaf", "path": p})
            continue
        if last.parent not in targets:
            fails.append({"kind": "end-owner-not-target", "path": p, "owner": str(last.parent),
                          "class": "rename-drop" if has_rename_or_drop else None})
        src = path[0]
        if isinstance(src.parent, (Table, Path)):
            if src.parent not in read_by_script:
                fails.append({"kind": "source-owner-not-read", "path": p, "owner": str(src.parent),
                              "class": "scalar-subquery" if str(src.parent) in orphan_owner else
                                       ("rename-drop" if has_rename_or_drop else None)})
            elif isinstance(last.parent, Table) and last.parent in tg and src.parent in tg:
                if src.parent != last.parent and not nx.has_path(tg, src.parent, last.parent):
                    fails.append({"kind": "tables-not-connected", "path": p,
                                  "class": "rename-drop" if has_rename_or_drop else
                                           ("scalar-subquery" if orphan_owner else None)})
            elif src.parent not in tg or last.parent not in tg:
                fails.append({"kind": "owner-not-in-table-graph", "path": p,
                              "class": "rename-drop" if has_rename_or_drop else None})
    for n in g.nodes:
        if not g.has_node(n) or n not in g:
            fails.append({"kind": "node-not-retrievable", "node": str(n)})
        if isinstance(n, Column):
            if (n.parent is not None) != (len(n._parent) == 1):
                fails.append({"kind": "owner-inconsistent", "node": str(n)})
            if hash(n) != hash(str(n)):
                fails.append({"kind": "hash-not-of-name", "node": str(n)})
    return fails


def check_export(sh, lr, raw) -> list[dict]:
    """the statement of C18, evaluated directly on the implementation's export"""
    fails = []
    tg, cg = sh.table_lineage_graph, sh.column_lineage_graph
    for lvl, g, compound in (("table", tg, False), ("column", cg, True)):
        els = raw[lvl]
        nodes = [e["data"] for e in els if "source" not in e["data"]]
        edges = [e["data"] for e in els if "source" in e["data"]]
        ids = [n["id"] for n in nodes]
        idset = set(ids)
        for e in edges:
            if e["source"] not in idset or e["target"] not in idset:
                fails.append({"kind": "edge-endpoint-missing", "level": lvl, "edge": e})
        for n in nodes:
            if "parent" in n and n["parent"] not in idset:
                fails.append({"kind": "parent-missing", "level": lvl, "node": n})
        if sorted((str(u), str(v)) for u, v in g.edges) != sorted((e["source"], e["target"]) for e in edges):
            fails.append({"kind": "edges-not-exact", "level": lvl})
        want = sorted(str(n) for n in g.nodes)
        have = sorted(n["id"] for n in nodes if not compound or n.get("type") == "Column")
        if want != have:
            fails.append({"kind": "nodes-not-exact", "level": lvl, "graph": want[:20], "export": have[:20]})
        if compound:
            # one compound parent per owner *up to Python equality* (two aliases of the same sub-query text are
            # one owner), named by one of the spellings of that owner
            classes = {}
            for n in g.nodes:
                classes.setdefault(n.parent, set()).add(str(n.parent) if n.parent is not None else "<unknown>")
            have_p = [n["id"] for n in nodes if n.get("type") != "Column"]
            names_ok = len(have_p) == len(classes)
            remaining = list(classes.values())
            for name in have_p:
                hit = next((c for c in remaining if name in c), None)
                if hit is None:
                    names_ok = False
                    break
                remaining.remove(hit)
            if not names_ok:
                fails.append({"kind": "parents-not-exact", "level": lvl,
                              "owners": sorted(sorted(c) for c in classes.values())[:20], "export": have_p[:20]})
        if len(ids) != len(idset):
            dup = sorted({i for i in ids if ids.count(i) > 1})
            # is printing non-injective on distinct graph nodes / parents?  (recorded class K-C18-1)
            objs = list(g.nodes) + ([p for p in {n.parent for n in g.nodes} if p is not None] if compound else [])
            strs = [str(o) for o in objs]
            noninj = sorted({x for x in strs if strs.count(x) > 1})
            fails.append({"kind": "dup-id", "level": lvl, "ids": dup[:10], "non_injective_str": noninj[:10]})
    # text summary: the same tables, each once, sorted
    text = str(lr)
    sect = {"Source Tables:": [], "Target Tables:": [], "Intermediate Tables:": []}
    cur = None
    for line in text.split("\n"):
        if line.strip() in sect:
            cur = line.strip()
        elif cur and line.startswith("    ") and line.strip():
            sect[cur].append(line.strip())
        elif not line.startswith("    "):
            cur = None if line.strip() not in sect else line.strip()
    for title, lst in (("Source Tables:", sh.source_tables), ("Target Tables:", sh.target_tables),
                       ("Intermediate Tables:", sh.intermediate_tables)):
        want = sorted(str(t) for t in lst)
        if sect[title] != want:
            fails.append({"kind": "summary", "section": title, "summary": sect[title][:20], "tables": want[:20]})
    # ... and the same tables as the EXPORTED table graph shows (not as the accessors say): a table with incoming and outgoing
    # edges (and no self-loop) is intermediate; one with only outgoing edges is listed as a source, with only incoming as a target
    try:
        cy = lr.to_cytoscape()
        ids = {e["data"]["id"] for e in cy if "source" not in e["data"]}
        edges = [(e["data"]["source"], e["data"]["target"]) for e in cy if "source" in e["data"]]
        ind = {i: 0 for i in ids}
        outd = {i: 0 for i in ids}
        loops = set()
        for a_, b_ in edges:
            if a_ == b_:
                loops.add(a_)
            if a_ in outd:
                outd[a_] += 1
            if b_ in ind:
                ind[b_] += 1
        is_tab = {str(n) for n in lr._sql_holder.table_lineage_graph.nodes if type(n).__name__ in ("Table", "SqlFluffTable", "SqlParseTable", "Path")}
        inter = sorted(i for i in ids if ind[i] > 0 and outd[i] > 0 and i not in loops and i in is_tab)
        if sect["Intermediate Tables:"] != inter:
            fails.append({"kind": "summary-vs-graph", "section": "Intermediate Tables:", "summary": sect["Intermediate Tables:"][:20],
                          "tables_with_incoming_and_outgoing_edges_in_the_export": inter[:20]})
        for i in ids:
            if i in is_tab and i not in loops:
                if outd[i] > 0 and ind[i] == 0 and i not in sect["Source Tables:"]:
                    fails.append({"kind": "summary-vs-graph", "section": "Source Tables:", "missing": i})
                if ind[i] > 0 and outd[i] == 0 and i not in sect["Target Tables:"]:
                    fails.append({"kind": "summary-vs-graph", "section": "Target Tables:", "missing": i})
    except Exception as e:      # noqa
        fails.append({"kind": "summary-vs-graph", "error": type(e).__name__ + ": " + str(e)[:200]})
    return fails


def run(records: list[dict], want_cy: bool = False, shard: int = 40) -> list[dict]:
    ctx = mp.get_context("fork")
    with ctx.Pool(min(NCPU, 16)) as pool:
        res = pool.map(analyse, records, chunksize=4)
    for r in res:
        if "observe_error" in r:
            common.OBSERVE_FAILURES.append({
                "input": r["rec"], "observe_error": r["observe_error"], "trace": r["observe_trace"],
                "spec": "the finished result must be readable through the public accessors (paths, sub-graphs, export) and be "
                        "consistent between them; an accessor raised or returned nodes unknown to the graph it came from"})
    idx = [i for i, r in enumerate(res) if "expr" in r and "skip" not in r]
    model = coq_eval(HEADER, [res[i]["expr"] for i in idx], shard=shard)
    for i, m in zip(idx, model):
        parts = m.split("@")
        if m.startswith("ERR"):
            res[i]["model"] = {"error": m}
        else:
            res[i]["model"] = dict(zip(PARTS, parts))
    if want_cy:
        exprs, where = [], []
        for i in idx:
            for lvl in ("table", "column"):
                exprs.append(res[i]["cy_expr"][lvl])
                where.append((i, lvl))
        out = coq_eval(HEADER, exprs, shard=shard)
        for (i, lvl), m in zip(where, out):
            res[i].setdefault("cy_model", {})[lvl] = m
    for r in res:
        r.pop("expr", None)
        r.pop("cy_expr", None)
    return res
