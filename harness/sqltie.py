"""Shared driver for the SQL-level properties (C01 C02 C07 C08 C09 C13 C14): generated core-SQL
statements are printed to text, analysed by the real LineageRunner (I), by the Gallina tree model on the
very parse trees the runner used (M, suite T2/T4 via t2tie.run_scripts) and by the denotational
specification Ast/Spec.v evaluated inside Coq on the abstract syntax (S)."""
from __future__ import annotations

import astgen
import t2tie
from common import coq_eval

SPEC_HEADER = "From SV Require Import Ast.Spec.\nOpen Scope string_scope."

SQLFLUFF_DIALECTS = ["ansi", "athena", "bigquery", "clickhouse", "databricks", "db2", "duckdb", "exasol", "greenplum", "hive",
                     "impala", "mariadb", "materialize", "mysql", "oracle", "postgres", "redshift", "snowflake", "soql",
                     "sparksql", "sqlite", "starrocks", "teradata", "trino", "tsql", "vertica"]


def installed_dialects():
    from sqllineage.core.parser.sqlfluff.analyzer import SqlFluffLineageAnalyzer
    return list(SqlFluffLineageAnalyzer.SUPPORTED_DIALECTS)


def spec_strings(stmts, ds=""):
    return coq_eval(SPEC_HEADER, ["show_spec %s %s" % (astgen.coq_string(ds), astgen.g_stmt(s)) for s in stmts], shard=400)


def records(stmts, dialect="ansi", opts=None, metadata=None, cfg=None):
    return [{"sql": astgen.to_sql(s, opts), "dialect": dialect, "metadata": metadata, "config": cfg or {}, "silent": False,
             "origin": "generated-ast"} for s in stmts]


def run(recs):
    """[{impl, model, summary, skip...}] aligned with recs"""
    return t2tie.run_scripts(recs)


def tables_part(summary: str) -> str:
    return summary.split("#", 1)[0]


def dataset_nodes(graph_str: str) -> str:
    """projection of a canonical graph string (implgraph.s_graph / Build.show_graph) onto dataset nodes and their tags"""
    if graph_str.startswith("ERR"):
        return graph_str
    nodes = graph_str.split("#E=", 1)[0][2:]
    return ";".join(n for n in nodes.split(";") if n[:2] in ("T:", "P:"))


def statement_graphs(s: str):
    """per-statement holder graphs of a show_script / analyse_script string"""
    if s.startswith("ERR"):
        return [s]
    return s.split("%", 1)[0].split("$")
