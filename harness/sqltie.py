"""Shared driver for the SQL-level properties (C01 C02 C07 C08 C09 C13 C14): generated core-SQL
statements are printed to text, analysed by the real LineageRunner (I), by the Gallina tree model on the
very parse trees the runner used (M, suite T2/T4 via t2tie.run_scripts) and by the denotational
specification Ast/Spec.v evaluated inside Coq on the abstract syntax (S)."""
from __future__ import annotations

import os

import astgen
import t2tie
from common import coq_eval

SPEC_HEADER = "From SV Require Import Ast.Spec.\nOpen Scope string_scope."

SQLFLUFF_DIALECTS = ["ansi", "athena", "bigquery", "clickhouse", "databricks", "db2", "duckdb", "exasol", "greenplum", "hive",
                     "impala", "mariadb", "materialize", "mysql", "oracle", "postgres", "redshift", "snowflake", "soql",
                     "sparksql", "sqlite", "starrocks", "teradata", "trino", "tsql", "vertica"]


def installed_dialects():
    from sqllineage.core.parser.sqlfluff.analyzer import SqlFluffLineageAnalyzer
    return list(SqlFluffLineageAnalyzer.SUPPORTED_DIALECTS)


def has_where_in(s):
    def q_(q):
        if q[0] == "select":
            return q[4] is not None or any(q_(rr[1]) for rr in q[2] if rr[0] == "derived")
        if q[0] == "union":
            return q_(q[1]) or q_(q[2])
        return q_(q[2]) or q_(q[3])
    qq = s[3] if s[0] == "insert" else s[2] if s[0] in ("ctas", "view") else s[1] if s[0] == "query" else None
    return qq is not None and q_(qq)


def has_window(s):
    return "'win'" in repr(s)


def has_group_with_derived(s):
    def in_group(rr):
        return rr[0] == "derived" or rr[0] == "group" and (in_group(rr[1]) or in_group(rr[2]))

    def q_(q):
        if q[0] == "select":
            return any(rr[0] == "group" and in_group(rr) for rr in q[2]) or any(q_(rr[1]) for rr in q[2] if rr[0] == "derived") \
                or (q[4] is not None and q_(q[4][1]))
        if q[0] == "union":
            return q_(q[1]) or q_(q[2])
        return q_(q[2]) or q_(q[3])
    qq = astgen.stmt_query(s)
    return qq is not None and q_(qq)


# recorded per-dialect deviations (property C09): (finding id, applies(dialect, statement))
DIALECT_CLASSES = [
    ("K-C09-1", lambda d, s: d == "clickhouse" and has_where_in(s)),
    ("K-C09-2", lambda d, s: d == "exasol" and s[0] == "view"),
    ("K-C09-6", lambda d, s: d == "sqlite" and has_window(s)),
    ("K-C09-7", lambda d, s: d == "non-validating" and has_group_with_derived(s)),
]



def spec_strings(stmts, ds=""):
    return coq_eval(SPEC_HEADER, ["show_spec %s %s" % (astgen.coq_string(ds), astgen.g_stmt(s)) for s in stmts], shard=400)


def records(stmts, dialect="ansi", opts=None, metadata=None, cfg=None):
    return [{"sql": astgen.to_sql(s, opts), "dialect": dialect, "metadata": metadata, "config": cfg or {}, "silent": False,
             "origin": "generated-ast"} for s in stmts]


def run(recs):
    """[{impl, model, summary, skip...}] aligned with recs"""
    return t2tie.run_scripts(recs)


def tables_part(summary: str) -> str:
    return summary.split("#", 1)[0]


def dataset_nodes(graph_str: str) -> str:
    """projection of a canonical graph string (implgraph.s_graph / Build.show_graph) onto dataset nodes and their tags"""
    if graph_str.startswith("ERR"):
        return graph_str
    nodes = graph_str.split("#E=", 1)[0][2:]
    return ";".join(n for n in nodes.split(";") if n[:2] in ("T:", "P:"))


def statement_graphs(s: str):
    """per-statement holder graphs of a show_script / analyse_script string"""
    if s.startswith("ERR"):
        return [s]
    return s.split("%", 1)[0].split("$")


# ---------------------------------------------------------------------------
# the exactness checks C01 (tables) and C02 (columns)
# ---------------------------------------------------------------------------

def _frag_stmt(st):
    """inside the syntactic fragment Tree/Render.v renders (the Coq guard stmt_ok && sshape decides finally)"""
    def q_(q, top):
        if q[0] == "select":
            return all((i[0] == "star" and "." not in (i[1] or "")) or (i[0] == "expr" and i[1][0] == "col" and "." not in (i[1][1] or "")) for i in q[1]) and \
                all(rr[0] == "table" or (rr[0] == "derived" and q_(rr[1], False)) for rr in q[2]) and (q[4] is None or q_(q[4][1], False))
        if q[0] == "union":
            return q[1][0] == "select" and q[2][0] == "select" and q_(q[1], False) and q_(q[2], False)
        return top and q[2][0] != "with" and q[3][0] != "with" and q_(q[2], False) and q_(q[3], False)
    qq = astgen.stmt_query(st)
    return qq is not None and q_(qq, True)


def _show_tree(x):
    kids = [k for k in x.segments if not (k.is_whitespace or k.is_comment or k.is_meta)]
    head = x.type + "/" + x.get_type() + "/" + ",".join(sorted(c for c in x.class_types if c != "base"))
    return head + ("=" + x.raw if not x.segments else "(" + " ".join(_show_tree(k) for k in kids) + ")")


def _parse_show(job):
    d, sql = job
    import logging
    import warnings
    warnings.filterwarnings("ignore")
    logging.disable(logging.CRITICAL)
    from sqllineage.core.parser.sqlfluff.analyzer import SqlFluffLineageAnalyzer
    try:
        return _show_tree(SqlFluffLineageAnalyzer(".", d)._list_specific_statement_segment(sql)[0])
    except Exception as e:      # noqa
        return "ERR:" + type(e).__name__


def render_per_dialect(r, n, dialects):
    """for n generated statements inside the domain of Lemma A: {dialect: [(sql, same_layout_as_r_stmt, parser_tree, rendered)]}"""
    import multiprocessing as mp
    fr, tries = [], 0
    while len(fr) < n and tries < 40000:
        tries += 1
        st = astgen.gen_stmt(r, r.choice([0, 1, 2]), False)
        if _frag_stmt(st):
            fr.append(st)
    rend = coq_eval("From SV Require Import Tree.Render Tree.LemmaA Tree.LemmaAProofs.\nOpen Scope string_scope.",
                    ["(show_render %s ++ \"|\" ++ (if stmt_ok %s && sshape %s then \"in\" else \"out\"))%%string"
                     % (astgen.g_stmt(st), astgen.g_stmt(st), astgen.g_stmt(st)) for st in fr], shard=100)
    keep = [(st, m.rpartition("|")[0]) for st, m in zip(fr, rend) if m.endswith("|in")]
    sqls = [astgen.to_sql(st, astgen.Opts(kw_case="lower", trailing="")) for st, _ in keep]
    jobs = [(d, q) for d in dialects for q in sqls]
    with mp.get_context("fork").Pool(16) as pool:
        trees = pool.map(_parse_show, jobs, chunksize=8)
    out = {}
    for (d, q), t in zip(jobs, trees):
        m = keep[sqls.index(q)][1]
        out.setdefault(d, []).append((q, t == m, t, m))
    return out


def exactness_check(pid: str, part: str) -> int:
    import corpus
    import gen_witness
    from common import Check, load_known, rng, seed, tier

    ck = Check(pid)
    ck.assumptions += [
        "the sqlfluff parser is an oracle: the model starts from its trees (tree well-formedness is monitored on every tree)",
        "generated statements use unquoted lower-case identifiers; the guarded generator excludes the recorded defect classes (replayed separately)",
        "scalar sub-queries inside expressions are analysed by the legacy sqlparse runner; its answers are taken from the implementation (oracle e_scalar)",
    ]
    ck.trusted += [
        "hand-written Gallina tree model Tree/{Seg,Utils,Models,Holder,Extract,Script}.v + Holder/Build.v, tied by suite T2/T4 on the parser's own trees (this run)",
        "denotational specification Ast/Spec.v (read as the statement of the property), evaluated by vm_compute",
        "harness/astgen.py (generator, SQL printer, Gallina emitter), harness/t2tie.py (tree serialisation), harness/sqltie.py",
    ]
    proofs_ok = ck.proofs()
    quick = tier() == "quick"
    r = rng(pid)
    disagreements, spec_failures = [], []
    dist = {"generated": 0, "per_dialect": {}, "parse_rejected": {}, "kinds": {}, "corpus_statements": 0, "skipped": 0}

    stale = gen_witness.fresh()
    if stale:
        disagreements.append({"suite": "witness-freshness", "stale_witness_trees": stale,
                              "detail": "the parser no longer yields the committed trees of Props/Witness.v"})

    # ---- generated core grammar -------------------------------------------------------------
    n = 260 if quick else 3000
    stmts = astgen.gen_batch(r, n, (0, 1, 2, 2), shapes=110 if quick else None)
    for s in stmts:
        dist["kinds"][s[0]] = dist["kinds"].get(s[0], 0) + 1
    spec = spec_strings(stmts)
    all_d = [d for d in installed_dialects() if d != "ansi"]
    dialects = ["ansi"] + (r.sample(all_d, 2) if quick else all_d)
    for d in dialects:
        sub = list(range(len(stmts))) if d == "ansi" else r.sample(range(len(stmts)), 90 if quick else 300)
        res = run(records([stmts[i] for i in sub], dialect=d))
        for i, x in zip(sub, res):
            ck.count()
            dist["generated"] += 1
            if "skip" in x:
                dist["parse_rejected"][d] = dist["parse_rejected"].get(d, 0) + 1
                continue
            dist["per_dialect"][d] = dist["per_dialect"].get(d, 0) + 1
            case = {"suite": "T3-generated", "dialect": d, "sql": x["rec"]["sql"], "ast": astgen.g_stmt(stmts[i])}
            if d != "ansi" and (x["impl"].startswith("ERR:UnsupportedStatement") or any(f(d, stmts[i]) for _, f in DIALECT_CLASSES)):
                # what a dialect accepts, and the recorded per-dialect deviations, are property C09's business
                dist["left_to_C09"] = dist.get("left_to_C09", 0) + 1
                continue
            if x["impl"].startswith("ERR"):
                case.update(impl=x["impl"], spec=spec[i])
                spec_failures.append(case)
                continue
            summ = x["summary"]
            i_part = tables_part(summ) if part == "tables" else summ
            s_part = tables_part(spec[i]) if part == "tables" else spec[i]
            if part == "tables":
                i_proj = [dataset_nodes(g) for g in statement_graphs(x["impl"])]
                m_proj = [dataset_nodes(g) for g in statement_graphs(x["model"])]
            else:
                i_proj, m_proj = x["impl"], x["model"]
            if "#" in summ and (summ.split("#")[1] if part == "columns" else tables_part(summ) != "R=;W="):
                ck.nontriv((d, x["rec"]["sql"]))
            if i_part != s_part:
                case.update(impl=i_part, spec=s_part, model_agrees_with_impl=(i_proj == m_proj))
                spec_failures.append(case)
            elif i_proj != m_proj:
                case.update(impl=str(i_proj)[:3000], model=str(m_proj)[:3000])
                disagreements.append(case)
        if res:
            ck.sample({"dialect": d, "sql": res[0]["rec"]["sql"], "result": res[0].get("summary")})

    # ---- configuration and spelling dimensions on ansi: a default schema in force; the kinds of JOIN keyword -----------
    sub = stmts[: (120 if quick else 1500)]
    selfr = [astgen.gen_self_reading(r, r.choice([1, 2, 2])) for _ in range(80 if quick else 800)] if part == "tables" else []
    quoted = []
    for st in sub:
        names = sorted(astgen.local_names(st))
        quoted.append(records([st], opts=astgen.Opts(rename={nm: '"Loc_%d%s"' % (k, nm) for k, nm in enumerate(names)}))[0])
    for label, recs_v, spec_v in (
            ("self-reading", records(selfr), spec_strings(selfr) if selfr else []),
            ("quoted-local-names", quoted, spec[: len(sub)]),
            ("default-schema", [dict(x, config={"DEFAULT_SCHEMA": "dflt"}) for x in records(sub)], spec_strings(sub, ds="dflt")),
            ("join-kinds", records(sub, opts=astgen.Opts(joins="mixed")), spec[: len(sub)])):
        for i, (x, sp) in enumerate(zip(run(recs_v), spec_v)):
            ck.count()
            if "skip" in x:
                continue
            dist[label] = dist.get(label, 0) + 1
            case = {"suite": "T3-" + label, "dialect": "ansi", "sql": x["rec"]["sql"], "config": x["rec"].get("config"),
                    "ast": astgen.g_stmt(selfr[i] if label == "self-reading" else sub[i])}
            got = x["impl"] if x["impl"].startswith("ERR") else (tables_part(x["summary"]) if part == "tables" else x["summary"])
            want = tables_part(sp) if part == "tables" else sp
            if got != want:
                case.update(impl=got, spec=want)
                spec_failures.append(case)
            elif x["impl"] != x.get("model") and part != "tables":
                case.update(impl=x["impl"][:3000], model=x.get("model", "")[:3000])
                disagreements.append(case)

    # ---- WITH RECURSIVE: table level only (specification Ast/SpecRec.v) ---------------------------------
    if part == "tables":
        rec = [astgen.gen_recursive(r) for _ in range(40 if quick else 600)]
        rspec = coq_eval("From SV Require Import Ast.SpecRec.\nOpen Scope string_scope.",
                         ["show_tables_rec \"\" %s" % astgen.g_stmt(s) for s in rec], shard=400)
        for d in ["ansi", "postgres", "mysql", "sqlite"] + ([] if quick else ["snowflake", "bigquery", "redshift", "trino", "duckdb"]):
            res = run(records(rec, dialect=d, opts=astgen.Opts(recursive=True)))
            for i, x in enumerate(res):
                ck.count()
                if "skip" in x:
                    dist["parse_rejected"][d] = dist["parse_rejected"].get(d, 0) + 1
                    continue
                dist["recursive"] = dist.get("recursive", 0) + 1
                case = {"suite": "T3-recursive-cte", "dialect": d, "sql": x["rec"]["sql"], "ast": astgen.g_stmt(rec[i])}
                i_part = x["impl"] if x["impl"].startswith("ERR") else tables_part(x["summary"])
                ck.nontriv((d, x["rec"]["sql"]))
                if i_part != rspec[i]:
                    case.update(impl=i_part, spec=rspec[i])
                    spec_failures.append(case)
                elif [dataset_nodes(g) for g in statement_graphs(x["impl"])] != [dataset_nodes(g) for g in statement_graphs(x["model"])]:
                    case.update(impl=x["impl"][:3000], model=x["model"][:3000])
                    disagreements.append(case)

    # ---- a statement inside a script is analysed as it is on its own (no state carried from the statements before it):
    # scripts of 2-3 generated statements (many of them bare queries, which report no target) - the holder of each
    # statement (statement tap) against the holder of the same statement analysed alone, and against the model
    def only_ok(xs):
        return [x for x in xs if "skip" not in x and not x["impl"].startswith("ERR")]
    alone = run(records(stmts[: (120 if quick else 1200)]))
    idx_ok = [i for i, x in enumerate(alone) if "skip" not in x and not x["impl"].startswith("ERR")]
    scripts = []
    for _ in range(60 if quick else 800):
        if len(idx_ok) < 3:
            break
        pick = r.sample(idx_ok, r.choice([2, 2, 3]))
        if r.random() < 0.6:
            # make sure bare queries come first: the statement kinds that write nothing
            pick.sort(key=lambda i: 0 if stmts[i][0] == "query" else 1)
        scripts.append(pick)
    sres = run([{"sql": "\n".join(astgen.to_sql(stmts[i]) for i in pick), "dialect": "ansi", "metadata": None, "config": {}, "silent": False,
                 "origin": "generated-script"} for pick in scripts])
    dist["in_script_statements"] = 0
    for pick, x in zip(scripts, sres):
        if "skip" in x or x["impl"].startswith("ERR"):
            continue
        gi, gm = statement_graphs(x["impl"]), statement_graphs(x.get("model", ""))
        if len(gi) != len(pick):
            continue
        for k, i in enumerate(pick):
            ck.count()
            dist["in_script_statements"] += 1
            own = statement_graphs(alone[i]["impl"])[0]
            proj = dataset_nodes if part == "tables" else (lambda g: g)
            if proj(gi[k]) != proj(own):
                spec_failures.append({"suite": "statement-in-script-vs-alone", "script": x["rec"]["sql"], "statement_index": k,
                                      "statement": astgen.to_sql(stmts[i]), "holder_in_script": proj(gi[k])[:1500], "holder_alone": proj(own)[:1500],
                                      "spec": "the lineage of a statement is a function of that statement (no metadata: nothing carries over from earlier statements)"})
            elif k < len(gm) and proj(gi[k]) != proj(gm[k]):
                disagreements.append({"suite": "T4-statement-in-script", "script": x["rec"]["sql"], "statement_index": k,
                                      "impl": proj(gi[k])[:1500], "model": proj(gm[k])[:1500]})

    # ---- T3-render: the rendering function of Lemma A / Lemma B lays the core fragment out like the parser does ---------
    # (run by C01 and by C02: the theorems of both - and those of C04 C06 C07 C08 C13 C14 built on them - speak about r_stmt)
    if part in ("tables", "columns"):
        def frag(st):
            def q_(q, top):
                if q[0] == "select":
                    return all((i[0] == "star" and "." not in (i[1] or "")) or (i[0] == "expr" and i[1][0] == "col" and "." not in (i[1][1] or "")) for i in q[1]) and \
                        all(rr[0] == "table" or (rr[0] == "derived" and q_(rr[1], False)) for rr in q[2]) and (q[4] is None or q_(q[4][1], False))
                if q[0] == "union":
                    return q[1][0] == "select" and q[2][0] == "select" and q_(q[1], False) and q_(q[2], False)
                return top and q[2][0] != "with" and q[3][0] != "with" and q_(q[2], False) and q_(q[3], False)
            qq = astgen.stmt_query(st)
            return qq is not None and q_(qq, True)
        fr = [st for st in stmts if frag(st)]
        extra = 0
        while len(fr) < (150 if quick else 1500) and extra < 20000:
            extra += 1
            st = astgen.gen_stmt(r, r.choice([0, 1, 2]), False)
            if frag(st):
                fr.append(st)
        from sqllineage.core.parser.sqlfluff.analyzer import SqlFluffLineageAnalyzer

        def show(x):
            kids = [k for k in x.segments if not (k.is_whitespace or k.is_comment or k.is_meta)]
            head = x.type + "/" + x.get_type() + "/" + ",".join(sorted(c for c in x.class_types if c != "base"))
            return head + ("=" + x.raw if not x.segments else "(" + " ".join(show(k) for k in kids) + ")")
        an = SqlFluffLineageAnalyzer(".", "ansi")
        rend = coq_eval("From SV Require Import Tree.Render Tree.LemmaA Tree.LemmaAProofs.\nOpen Scope string_scope.",
                        ["(show_render %s ++ \"|\" ++ (if stmt_ok %s && sshape %s then \"in\" else \"out\"))%%string"
                         % (astgen.g_stmt(st), astgen.g_stmt(st), astgen.g_stmt(st)) for st in fr], shard=100)
        dist["render_checked"], dist["in_lemma_A_fragment"] = 0, 0
        for st, m in zip(fr, rend):
            sql = astgen.to_sql(st, astgen.Opts(kw_case="lower", trailing=""))
            ck.count()
            try:
                i_tree = show(an._list_specific_statement_segment(sql)[0])
            except Exception as e:
                i_tree = "ERR:" + type(e).__name__
            m_tree, _, inside = m.rpartition("|")
            if inside != "in":
                dist["outside_lemma_A_fragment"] = dist.get("outside_lemma_A_fragment", 0) + 1
                continue        # the theorem (and the rendering) speak about stmt_ok && sshape only
            dist["render_checked"] += 1
            dist["in_lemma_A_fragment"] += 1
            ck.nontriv(("render", sql))
            if i_tree != m_tree:
                k = next((j for j in range(min(len(i_tree), len(m_tree))) if i_tree[j] != m_tree[j]), 0)
                disagreements.append({"suite": "T3-render", "sql": sql, "ast": astgen.g_stmt(st), "parser_tree": i_tree[max(0, k - 200):k + 300],
                                      "rendered_tree": m_tree[max(0, k - 200):k + 300],
                                      "detail": "Tree/Render.v (the function Lemma A / Lemma B and the script theorems are stated about) no longer lays the statement out like the parser"})

    # ---- T3-render-x: whole statements with expression items at every nesting level (Tree/RenderExpr.v r_stmt_x; the function
    # c01_exact_on_rendered_core_with_expressions and c02_exact_on_single_select_with_expressions are stated about)
    if part in ("tables", "columns"):
        def frag_x(st):
            def e_ok(e):
                if e[0] == "col":
                    return "." not in (e[1] or "")
                return e[0] in ("lit", "fun", "bin", "case", "cast", "win") and all(e_ok(x) for x in e[1:])
            def q_(q, top):
                if q[0] == "select":
                    return all((i[0] == "star" and "." not in (i[1] or "")) or (i[0] == "expr" and e_ok(i[1])) for i in q[1]) and \
                        all(rr[0] == "table" or (rr[0] == "derived" and q_(rr[1], False)) for rr in q[2]) and (q[4] is None or q_(q[4][1], False))
                if q[0] == "union":
                    return q[1][0] == "select" and q[2][0] == "select" and q_(q[1], False) and q_(q[2], False)
                return top and q[2][0] != "with" and q[3][0] != "with" and q_(q[2], False) and q_(q[3], False)
            qq = astgen.stmt_query(st)
            return qq is not None and q_(qq, True)
        frx = [st for st in stmts if frag_x(st) and not frag(st)]
        extra = 0
        while len(frx) < (40 if quick else 800) and extra < 20000:
            extra += 1
            st = astgen.gen_stmt(r, r.choice([0, 1, 2]), False)
            if frag_x(st) and not frag(st):
                frx.append(st)
        rendx = coq_eval("From SV Require Import Tree.RenderExpr Tree.LemmaAExpr.\nOpen Scope string_scope.",
                         ["(show_render_x %s ++ \"|\" ++ (if stmt_ok_a %s && LemmaAProofs.sshape %s then \"in\" else \"out\"))%%string"
                          % (astgen.g_stmt(st), astgen.g_stmt(st), astgen.g_stmt(st)) for st in frx], shard=50)
        dist["render_x_checked"] = 0
        for st, m in zip(frx, rendx):
            sql = astgen.to_sql(st, astgen.Opts(kw_case="lower", trailing=""))
            ck.count()
            m_tree, _, inside = m.rpartition("|")
            if inside != "in":
                continue
            try:
                i_tree = show(an._list_specific_statement_segment(sql)[0])
            except Exception as e:      # noqa
                i_tree = "ERR:" + type(e).__name__
            dist["render_x_checked"] += 1
            ck.nontriv(("render-x", sql))
            if i_tree != m_tree:
                k = next((j for j in range(min(len(i_tree), len(m_tree))) if i_tree[j] != m_tree[j]), 0)
                disagreements.append({"suite": "T3-render-x", "sql": sql, "ast": astgen.g_stmt(st), "parser_tree": i_tree[max(0, k - 200):k + 300],
                                      "rendered_tree": m_tree[max(0, k - 200):k + 300],
                                      "detail": "Tree/RenderExpr.v r_stmt_x no longer lays the statement out like the parser"})

    # ---- T3-render-expr: Tree/RenderExpr.v lays expression items (functions, arithmetic, CASE, CAST, window; nested) out like
    # the parser does - what connects c02_expression_item_sources / c02_exact_on_single_select_with_expressions_partial to the code
    if part == "columns":
        atoms = [astgen.col(None, "cx"), astgen.col("t", "cy"), astgen.LIT]
        es = list(atoms)
        for a in atoms:
            es.append(astgen.cast(a))
            for b in atoms:
                es += [astgen.fun(a, b), astgen.bin_(a, b)]
        for _ in range(10):
            es += [astgen.case(*[r.choice(atoms) for _ in range(3)]), astgen.win(*[r.choice(atoms) for _ in range(3)])]
        d1 = list(es)
        for _ in range(40 if quick else 300):
            a, b, c = r.choice(d1), r.choice(d1), r.choice(d1)
            es.append(r.choice([astgen.fun(a, b), astgen.bin_(a, b), astgen.cast(a), astgen.case(a, b, c), astgen.win(a, b, c)]))
        refs = [(None, "cx"), ("t", "cy"), (None, "cz"), ("p", "ck")]
        for _ in range(60 if quick else 900):
            es.append(astgen.gen_expr(r, refs, 3))
        xcases = [(e, al) for e in es for al in ("k", None)]
        xopts = astgen.Opts(kw_case="lower", trailing="")
        xsqls = [astgen.to_sql(("query", astgen.select([astgen.iexpr(e, al)], [astgen.rtable(None, "t")])), xopts) for e, al in xcases]
        xrend = coq_eval("From SV Require Import Tree.RenderExpr.\nOpen Scope string_scope.",
                         ["show_render_item %s" % astgen.g_item(astgen.iexpr(e, al)) for e, al in xcases], shard=100)
        dist["render_expr_items_checked"] = 0
        for (e, al), sql, m in zip(xcases, xsqls, xrend):
            ck.count()
            dist["render_expr_items_checked"] += 1
            try:
                st0 = an._list_specific_statement_segment(sql)[0]
                pt = show(next(iter(st0.recursive_crawl("select_clause_element"))))
            except Exception as ex:      # noqa
                pt = "ERR:" + type(ex).__name__
            if pt != m:
                k = next((j for j in range(min(len(pt), len(m))) if pt[j] != m[j]), 0)
                disagreements.append({"suite": "T3-render-expr", "sql": sql, "parser_tree": pt[max(0, k - 200):k + 300],
                                      "rendered_tree": m[max(0, k - 200):k + 300],
                                      "detail": "Tree/RenderExpr.v (the function the expression-item theorems of C02 are stated about) no longer lays the item out like the parser"})

    # ---- corpus: test-suite SQL, tie only (no specification for arbitrary SQL) -------------------
    recs = [x for x in corpus.load() if x["dialect"] != "non-validating" and (not quick or not x.get("origin", "").startswith("tpcds"))]
    for x in run(recs):
        ck.count()
        if "skip" in x:
            dist["skipped"] += 1
            continue
        dist["corpus_statements"] += 1
        if part == "tables":
            a = [dataset_nodes(g) for g in statement_graphs(x["impl"])]
            b = [dataset_nodes(g) for g in statement_graphs(x["model"])]
        else:
            a, b = x["impl"], x["model"]
        if a != b:
            disagreements.append({"suite": "T2-corpus", "dialect": x["rec"]["dialect"], "sql": x["rec"]["sql"],
                                  "metadata": x["rec"].get("metadata"), "impl": str(a)[:3000], "model": str(b)[:3000]})
        if x.get("wf_problems"):
            disagreements.append({"suite": "tree-wf", "sql": x["rec"]["sql"], "problems": x["wf_problems"][:5]})

    # ---- UPDATE / MERGE / SELECT INTO: layout of the renderer, implementation vs specification (C01 lists these kinds) ----
    import dmltie
    dmltie.run(ck, r, quick, spec_failures, disagreements, dist, part)

    # ---- layout of the renderers added in round 6 (COPY / file references, CTE chains, join groups) against the real parser, and
    # implementation vs specification on the path statements: the sub-agents' own validation scripts (harness/layout/*.py), run
    # as they are; a LAYOUT mismatch breaks the transfer of the respective theorem, a TABLES mismatch is a failing input --------
    if part == "tables":
        import subprocess
        import sys as _sys
        from common import REPO as _REPO, VERIF as _VERIF
        lay = _VERIF / "harness" / "layout"
        envp = dict(os.environ, PYTHONPATH="%s:%s:%s" % (_REPO, _VERIF / "harness", lay))
        jobs = [("T3-render-path", [str(lay / "check_render_path.py"), "8" if quick else "60", str(20260930 + seed())],
                 "c01_exact_on_copy_and_file_references (Tree/RenderPath.v)"),
                ("T3-render-chain+group", [str(lay / "check_render_chain.py"), "groups"],
                 "c01_exact_on_cte_chains (Tree/RenderChain.v), c01_join_groups_refuted (Tree/RenderGroup.v)")]
        for name, argv, thm in jobs:
            pr = subprocess.run([_sys.executable] + argv, capture_output=True, text=True, env=envp, timeout=1500)
            ck.count()
            out = pr.stdout + pr.stderr
            dist.setdefault("layout_suites", {})[name] = (out.strip().splitlines() or ["?"])[-2:]
            tm = [ln for ln in out.splitlines() if ln.startswith("TABLES MISMATCH")]
            for ln in tm:
                spec_failures.append({"suite": name, "statement": ln, "detail": out[out.index(ln):][:600],
                                      "spec": "the implementation reports the specified tables / paths inside the theorem's guard"})
            if pr.returncode != 0 and not tm:
                disagreements.append({"suite": name, "output": out[-2500:], "broken_transfer": thm})

    # ---- recorded defect classes: replay the witnesses -------------------------------------------------
    from sqllineage.runner import LineageRunner
    import warnings
    warnings.filterwarnings("ignore")
    for f in load_known():
        if f["property"] != pid or f["status"] != "known" or "replay" not in f:
            continue
        rp = f["replay"]
        try:
            lr = LineageRunner(rp["sql"], dialect=rp.get("dialect", "ansi"))
            lr._eval()
            got = t2tie.summary(lr)
        except Exception as e:
            got = "ERR:" + type(e).__name__
        got_p = tables_part(got) if part == "tables" else got
        ck.count()
        if got_p == rp["observed"]:
            ck.known(f["id"], f["what"] + " (replayed: %r -> %s)" % (rp["sql"], got_p))
        elif got_p == rp["expected"]:
            pass   # repaired: the code now does what the property says on this class
        else:
            spec_failures.append({"suite": "known-finding-replay", "finding": f["id"], "sql": rp["sql"], "impl": got_p,
                                  "recorded_defect": rp["observed"], "spec": rp["expected"]})

    ck.notes["input_distribution"] = dist
    ck.notes["dialects"] = dialects
    ck.coverage["disagreements_checked"] = len(disagreements)
    if spec_failures:
        c = spec_failures[0]
        c["how_to_replay"] = "cd /verif && VERIF_SEED=%d ./check %s --tier %s" % (seed(), pid, tier())
        c["all_failures"] = len(spec_failures)
        ck.violation(c, "spec")
    elif disagreements:
        c = disagreements[0]
        c["broken"] = "correspondence T2/T3 between the tree model (Tree/Extract.v, theorems of Props/%s.v) and sqllineage/core/parser/sqlfluff" % pid
        c["all_disagreements"] = len(disagreements)
        c["search"] = "the specification was compared with the implementation on every generated statement of this run; no failing input"
        ck.violation(c, "tie", no_input=True)
    if not proofs_ok:
        ck.violation({"broken": "proof obligations of Props/%s.v" % pid, "detail": ck.broken_obligation}, "proof", no_input=not spec_failures)
    return ck.finish(rule="%d random + systematic-shape core-SQL statements, WITH RECURSIVE statements at table level (statement kind x FROM shape {single, explicit joins, comma joins, parenthesised join "
                          "groups, derived tables, CTE references} x items {column, qualified column, star, function, arithmetic, CASE, CAST, "
                          "window, unresolved column} x set operation x WITH (1-2 CTEs) x WHERE-IN sub-query x schema-qualified column references x alias reuse across scopes, nesting <= 2) under dialects %s, plus the "
                          "harvested corpus (tie only) and the witnesses of the recorded defect classes; non-trivial = distinct (dialect, SQL) "
                          "with non-empty lineage" % (n, ",".join(dialects)))
