"""Shared machinery of the /verif checks: Coq build and proof-obligation audit,
evaluation of the Gallina model inside Coq (vm_compute), verdicts, evidence."""
from __future__ import annotations

import hashlib
import json
import os
import random
import re
import shutil
import subprocess
import sys
import tempfile
import time
from concurrent.futures import ThreadPoolExecutor
from pathlib import Path

VERIF = Path(__file__).resolve().parent.parent
REPO = Path(os.environ.get("VERIF_REPO", "/repo"))
COQ = VERIF / "coq"
# development runs against a scratch worktree (VERIF_REPO set by tools/seed_try2) must not overwrite the evidence and replay
# files of /repo: they go to a scratch directory named after the worktree
_DEV = None if str(REPO) == "/repo" else Path("/tmp/verif_dev") / REPO.name
EVIDENCE = VERIF / "evidence" if _DEV is None else _DEV / "evidence"
REPLAY = VERIF / "replay" if _DEV is None else _DEV / "replay"
NCPU = os.cpu_count() or 4

ALLOWED_AXIOMS: set[str] = set()  # the development is axiom-free; see DESIGN.md section 7

FORBIDDEN = re.compile(
    r"\b(Admitted|admit|Axiom|Axioms|Parameter|Parameters|Conjecture|Conjectures|"
    r"Hypothesis|Hypotheses|Variable|Variables|Unset\s+Guard|bypass_check|"
    r"Unset\s+Positivity|Unset\s+Universe|type-in-type|impredicative-set|native_compute|Admit\s+Obligations)\b"
)


def tier() -> str:
    t = os.environ.get("VERIF_TIER", "quick")
    return t if t in ("quick", "thorough") else "quick"


def seed() -> int:
    try:
        return int(os.environ.get("VERIF_SEED", "0"))
    except ValueError:
        return 0


def rng(*salt) -> random.Random:
    h = hashlib.sha256(repr((seed(),) + salt).encode()).digest()
    return random.Random(int.from_bytes(h[:8], "big"))


class Scratch:
    """mkdtemp outside /repo and /verif, removed on exit."""

    def __enter__(self) -> Path:
        self.path = Path(tempfile.mkdtemp(prefix="sv_"))
        return self.path

    def __exit__(self, *a):
        shutil.rmtree(self.path, ignore_errors=True)


# ---------------------------------------------------------------------------
# Coq side
# ---------------------------------------------------------------------------

def strip_comments(text: str) -> str:
    out, depth, i = [], 0, 0
    while i < len(text):
        if text.startswith("(*", i):
            depth += 1
            i += 2
        elif text.startswith("*)", i) and depth:
            depth -= 1
            i += 2
        else:
            if depth == 0:
                out.append(text[i])
            i += 1
    return "".join(out)


def audit_sources() -> list[str]:
    """grep for anything that would declare an axiom or weaken the kernel.
    Variable/Hypothesis are allowed only inside a Section."""
    problems = []
    for f in sorted((COQ / "theories").rglob("*.v")):
        text = strip_comments(f.read_text())
        # remove string literals
        text = re.sub(r'"(?:[^"]|"")*"', '""', text)
        depth = 0
        for ln, line in enumerate(text.splitlines(), 1):
            if re.match(r"\s*Section\b", line):
                depth += 1
            if re.match(r"\s*End\b", line) and depth:
                depth -= 1
            for m in FORBIDDEN.finditer(line):
                w = m.group(1)
                if w.split()[0] in ("Variable", "Variables", "Hypothesis", "Hypotheses") and depth > 0:
                    continue
                problems.append(f"{f.relative_to(COQ)}:{ln}: {w}")
    for f in [COQ / "_CoqProject"]:
        t = f.read_text()
        if "type-in-type" in t or "impredicative-set" in t:
            problems.append("_CoqProject: kernel-weakening flag")
    return problems


def coq_make(clean: bool = False) -> tuple[bool, str]:
    """(Re)build the whole development; returns (ok, log)."""
    if clean:
        subprocess.run(["make", "-C", str(COQ), "clean"], capture_output=True, text=True)
    if not (COQ / "Makefile").exists() or (COQ / "Makefile").stat().st_mtime < (COQ / "_CoqProject").stat().st_mtime:
        subprocess.run(["coq_makefile", "-f", "_CoqProject", "-o", "Makefile"], cwd=COQ, capture_output=True)
    p = subprocess.run(
        ["timeout", "3000", "make", "-C", str(COQ), f"-j{NCPU}"], capture_output=True, text=True
    )
    return p.returncode == 0, p.stdout + p.stderr


def props_obligations(pid: str) -> dict:
    """Compile Props/<pid>.v on its own and read back, for every Theorem in it,
    what Print Assumptions says.  A theorem that does not compile, or depends on
    an axiom that is not allow-listed, is an undischarged obligation."""
    src = COQ / "theories" / "Props" / f"{pid}.v"
    text = strip_comments(src.read_text())
    theorems = re.findall(r"^\s*(?:Theorem|Example)\s+([A-Za-z0-9_']+)", text, re.M)
    printed = re.findall(r"^\s*Print Assumptions\s+([A-Za-z0-9_']+)\s*\.", text, re.M)
    with Scratch() as d:
        # compile a copy so that a stale .vo can never stand in for the proof
        tmp = d / f"{pid}.v"
        shutil.copy(src, tmp)
        p = subprocess.run(
            ["timeout", "900", "coqc", "-Q", str(COQ / "theories"), "SV", "-w", "none", str(tmp)],
            capture_output=True, text=True, cwd=d,
        )
    out = p.stdout
    ok = p.returncode == 0
    # split the output into one block per Print Assumptions
    blocks = re.split(r"(?=Closed under the global context|Axioms:)", out)
    blocks = [b for b in blocks if b.startswith("Closed") or b.startswith("Axioms:")]
    assumptions = {}
    bad = []
    for name, b in zip(printed, blocks):
        if b.startswith("Closed"):
            assumptions[name] = "Closed under the global context"
        else:
            names = re.findall(r"^([A-Za-z0-9_.']+)\s*:", b, re.M)
            assumptions[name] = "Axioms: " + ", ".join(names)
            for n in names:
                if n not in ALLOWED_AXIOMS:
                    bad.append(f"{name} depends on {n}")
    if ok and len(blocks) != len(printed):
        bad.append(f"expected {len(printed)} Print Assumptions outputs, saw {len(blocks)}")
    missing = [t for t in theorems if t not in printed and not t.endswith("nonvacuous") and not t.startswith("ex_")]
    return {
        "file": str(src.relative_to(VERIF)),
        "theorems": theorems,
        "compiled": ok,
        "stderr": p.stderr[-3000:] if not ok else "",
        "assumptions": assumptions,
        "bad_axioms": bad,
        "unprinted": missing,
        "cmd": f"coqc -Q coq/theories SV coq/theories/Props/{pid}.v",
    }


_COQ_STR = re.compile(r'"((?:[^"]|"")*)"')


def coq_string(s: str) -> str:
    """A Gallina string literal for an ASCII Python string."""
    for ch in s:
        if ord(ch) > 126 or (ord(ch) < 32 and ch not in "\t\n\r\x0b\x0c\x1c\x1d\x1e\x1f"):
            raise ValueError(f"non-printable/non-ascii character in model input: {s!r}")
    if any(ord(c) < 32 for c in s):
        # build with explicit ascii codes
        parts = []
        for ch in s:
            parts.append(f'(String (ascii_of_nat {ord(ch)}) ' )
        return "".join(parts) + "EmptyString" + ")" * len(s)
    return '"' + s.replace('"', '""') + '"'


def _run_shard(args):
    path, header, exprs = args
    lines = [header, "Set Printing Width 100000000.", "Set Printing Depth 100000000."]
    for e in exprs:
        lines.append(f"Eval vm_compute in ({e}).")
    path.write_text("\n".join(lines) + "\n")
    p = subprocess.run(
        ["bash", "-c", "ulimit -s unlimited 2>/dev/null || ulimit -s 1000000; exec timeout 1800 coqc -Q %s SV -w none %s"
         % (COQ / "theories", path)],
        capture_output=True, text=True, cwd=path.parent,
    )
    if p.returncode != 0:
        raise RuntimeError(f"coqc failed on {path}: {p.stderr[-2000:]}")
    res = []
    # every result looks like:   = "...."\n     : string
    for chunk in re.split(r"\n\s+: string\n", p.stdout + "\n"):
        chunk = chunk.strip()
        if not chunk:
            continue
        m = re.match(r'=\s*"((?:[^"]|"")*)"(?:%string)?$', chunk, re.S)
        if not m:
            raise RuntimeError(f"cannot parse Coq output chunk: {chunk[:300]!r}")
        res.append(m.group(1).replace('""', '"'))
    if len(res) != len(exprs):
        raise RuntimeError(f"{path}: {len(exprs)} cases, {len(res)} results")
    return res


def coq_eval(header: str, exprs: list[str], shard: int = 300) -> list[str]:
    """Evaluate Gallina terms of type [string] with vm_compute, in parallel shards."""
    if not exprs:
        return []
    with Scratch() as d:
        jobs = []
        for i in range(0, len(exprs), shard):
            jobs.append((d / f"Cases{i // shard}.v", header, exprs[i:i + shard]))
        with ThreadPoolExecutor(max_workers=NCPU) as ex:
            parts = list(ex.map(_run_shard, jobs))
    return [r for part in parts for r in part]


# ---------------------------------------------------------------------------
# Verdicts and evidence
# ---------------------------------------------------------------------------

def load_known() -> list[dict]:
    f = VERIF / "known_findings.json"
    return json.loads(f.read_text())["findings"] if f.exists() else []


# results of the implementation that could not be read back through its public accessors (filled by the tie suites)
OBSERVE_FAILURES: list = []


class Check:
    def __init__(self, pid: str):
        self.pid = pid
        self.t0 = time.time()
        self.violations: list[str] = []
        self.known_lines: list[str] = []
        self.coverage: dict = {"samples": []}
        self.assumptions: list[str] = []
        self.evaluations = 0
        self.nontrivial: set = set()
        self.checker_cmds: list[str] = []
        self.obligations = 0
        self.discharged = 0
        self.trusted: list[str] = []
        self.notes: dict = {}
        REPLAY.mkdir(parents=True, exist_ok=True)
        for old in REPLAY.glob(f"{pid}_*.json"):
            old.unlink()

    # -- proof obligations -------------------------------------------------
    def proofs(self) -> bool:
        """make + Props/<pid>.v + audit.  Returns True when every obligation is discharged."""
        probs = audit_sources()
        ok, log = coq_make()
        self.checker_cmds.append(f"make -C coq -j{NCPU}")
        ob = props_obligations(self.pid)
        self.checker_cmds.append(ob["cmd"])
        self.obligations = len(ob["theorems"])
        self.discharged = len(ob["theorems"]) if (ok and ob["compiled"] and not ob["bad_axioms"] and not probs) else 0
        self.notes["print_assumptions"] = ob["assumptions"]
        self.trusted += [
            "Coq 8.16.1 kernel and its vm_compute reduction machine (no native_compute)",
            "Print Assumptions for every theorem of Props/%s.v: %s" % (
                self.pid, "; ".join(f"{k}: {v}" for k, v in ob["assumptions"].items())),
        ]
        if probs or not ok or not ob["compiled"] or ob["bad_axioms"] or ob["unprinted"]:
            detail = {
                "audit": probs, "make_ok": ok, "make_log_tail": log[-3000:] if not ok else "",
                "props": ob,
            }
            self.broken_obligation = detail
            return False
        self.broken_obligation = None
        return True

    # -- reporting ---------------------------------------------------------
    def count(self, n: int = 1):
        self.evaluations += n

    def nontriv(self, canonical) -> None:
        self.nontrivial.add(hashlib.sha1(repr(canonical).encode()).hexdigest())

    def sample(self, x, limit: int = 6):
        if len(self.coverage["samples"]) < limit:
            self.coverage["samples"].append(x)

    def violation(self, replay: dict, name: str, no_input: bool = False) -> None:
        replay = dict(replay)
        replay.setdefault("property", self.pid)
        replay.setdefault("seed", seed())
        replay.setdefault("tier", tier())
        path = REPLAY / f"{self.pid}_{name}.json"
        path.write_text(json.dumps(replay, indent=1, default=str))
        line = f"VIOLATION property={self.pid} replay={path}"
        if no_input:
            line += " no-failing-input-found"
        if line not in self.violations:
            self.violations.append(line)
            print(line, flush=True)

    def known(self, finding_id: str, what: str) -> None:
        line = f"KNOWN-FINDING: property={self.pid} {finding_id}: {what}"
        if line not in self.known_lines:
            self.known_lines.append(line)
            print(line, flush=True)

    def conclude(self, spec_failures: list, disagreements: list, proofs_ok: bool, broken: str, search: str) -> None:
        """the verdict protocol of DESIGN.md section 5"""
        if OBSERVE_FAILURES:
            spec_failures = list(OBSERVE_FAILURES) + list(spec_failures)
        self.coverage["disagreements_checked"] = len(disagreements)
        hint = "cd /verif && VERIF_SEED=%d ./check %s --tier %s" % (seed(), self.pid, tier())
        if spec_failures:
            c = dict(spec_failures[0])
            c["how_to_replay"] = hint
            c["all_failures"] = len(spec_failures)
            self.violation(c, "spec")
        elif disagreements:
            c = dict(disagreements[0])
            c["broken"] = broken
            c["all_disagreements"] = len(disagreements)
            c["search"] = search
            c["how_to_replay"] = hint
            self.violation(c, "tie", no_input=True)
        if not proofs_ok:
            self.violation({"broken": "proof obligations of Props/%s.v" % self.pid, "detail": self.broken_obligation},
                           "proof", no_input=not spec_failures)

    def finish(self, rule: str, extra: dict | None = None) -> int:
        cov = self.coverage
        cov.update({
            "obligations": self.obligations,
            "discharged": self.discharged,
            "checker_cmd": " && ".join(self.checker_cmds) or "none",
            "trusted_base": self.trusted,
            "evaluations": self.evaluations,
            "distinct_nontrivial": len(self.nontrivial),
            "rule": rule,
        })
        if extra:
            cov.update(extra)
        cov.update(self.notes)
        ev = {
            "property_id": self.pid,
            "tier": tier(),
            "seed": seed(),
            "level": "proof",
            "coverage": cov,
            "assumptions": self.assumptions,
            "wall_s": round(time.time() - self.t0, 2),
            "violations": len(self.violations),
            "known_findings_reported": self.known_lines,
        }
        EVIDENCE.mkdir(parents=True, exist_ok=True)
        (EVIDENCE / f"{self.pid}.json").write_text(json.dumps(ev, indent=1, default=str))
        print(f"[{self.pid}] tier={tier()} seed={seed()} obligations={self.obligations} "
              f"discharged={self.discharged} evaluations={self.evaluations} "
              f"distinct_nontrivial={len(self.nontrivial)} violations={len(self.violations)} "
              f"wall={ev['wall_s']}s", flush=True)
        return 1 if self.violations else 0


def impl_env(hashseed: int | str = 0, extra: dict | None = None) -> dict:
    env = dict(os.environ)
    env["PYTHONPATH"] = str(REPO)
    env["SQLLINEAGE_VERIF"] = "1"
    env["PYTHONHASHSEED"] = str(hashseed)
    for k in list(env):
        if k.startswith("SQLLINEAGE_") and k != "SQLLINEAGE_VERIF":
            del env[k]
    if extra:
        env.update(extra)
    return env
