"""C15 - configuration overrides are scoped and thread-local.

Proof obligations: coq/theories/Props/C15.v.
Tie (suite T1): the Gallina model Config.Model is evaluated inside Coq on the
same operation histories / thread programs the real _SQLLineageConfigLoader runs.
  I = implementation, M = model [run], S = specification [spec_top].
"""
from __future__ import annotations

import itertools
import os
import threading

from common import Check, coq_eval, coq_string, rng, tier

KEYS = ["DIRECTORY", "DEFAULT_SCHEMA", "TSQL_NO_SEMICOLON", "LATERAL_COLUMN_ALIAS_REFERENCE"]
COQ_KEY = {"DIRECTORY": "DIRECTORY", "DEFAULT_SCHEMA": "DEFAULT_SCHEMA",
           "TSQL_NO_SEMICOLON": "TSQL_NO_SEMICOLON", "LATERAL_COLUMN_ALIAS_REFERENCE": "LCAR"}
HEADER = "From SV Require Import Config.Model Config.Model0.\nOpen Scope string_scope."

# ---------------------------------------------------------------------------
# implementation side
# ---------------------------------------------------------------------------
from sqllineage import config as _cfgmod  # noqa: E402
from sqllineage.exceptions import ConfigException  # noqa: E402

CUR = [0]
_REAL_GET_IDENT = _cfgmod._SQLLineageConfigLoader.__dict__["get_ident"]


def virtual_ids(on: bool):
    if on:
        _cfgmod._SQLLineageConfigLoader.get_ident = staticmethod(lambda: CUR[0])
    else:
        _cfgmod._SQLLineageConfigLoader.get_ident = _REAL_GET_IDENT


def fresh_loader():
    return _cfgmod._SQLLineageConfigLoader()


def dirdef() -> str:
    return _cfgmod._SQLLineageConfigLoader.config["DIRECTORY"][1]


class EnvPatch:
    def __init__(self, env: dict):
        self.env = env

    def __enter__(self):
        self.saved = {k: os.environ.get(k) for k in os.environ if k.startswith("SQLLINEAGE_")}
        for k in list(os.environ):
            if k.startswith("SQLLINEAGE_") and k != "SQLLINEAGE_VERIF":
                del os.environ[k]
        for k, v in self.env.items():
            os.environ["SQLLINEAGE_" + k] = v

    def __exit__(self, *a):
        for k in list(os.environ):
            if k.startswith("SQLLINEAGE_") and k != "SQLLINEAGE_VERIF":
                del os.environ[k]
        for k, v in self.saved.items():
            if v is not None:
                os.environ[k] = v


def show_value(v) -> str:
    if isinstance(v, bool):
        return "Vb:1" if v else "Vb:0"
    if isinstance(v, str):
        return "Vs:" + v
    return "V?:" + repr(v)


def impl_op(cfg, op) -> str:
    kind, t = op[0], op[1]
    CUR[0] = t
    try:
        if kind == "call":
            cfg(**dict(op[2]))
            return "D"
        if kind == "enter":
            cfg.__enter__()
            return "D"
        if kind == "exit":
            cfg.__exit__(None, None, None)
            return "D"
        if kind == "read":
            return show_value(getattr(cfg, op[2]))
        if kind == "assign":
            setattr(cfg, op[2], "zz")
            return "D"
    except ConfigException:
        return "RC"
    except Exception as e:  # anything else is outside the model's output alphabet
        return "X:" + type(e).__name__
    raise AssertionError(op)


def probe_ops(tids):
    ops = []
    for t in tids:
        for k in KEYS:
            ops.append(("read", t, k))
        ops.append(("enter", t))
    return ops


def impl_history(env: dict, h: list, tids) -> str:
    with EnvPatch(env):
        cfg = fresh_loader()
        outs = [impl_op(cfg, o) for o in h + probe_ops(tids)]
    return "|".join(outs)


# ---------------------------------------------------------------------------
# Gallina emission
# ---------------------------------------------------------------------------

def g_val(v) -> str:
    if isinstance(v, bool):
        return f"RBool {'true' if v else 'false'}"
    if isinstance(v, int):
        return f"RInt ({v})%Z"
    return f"RStr {coq_string(v)}"


def g_kw(kw) -> str:
    parts = []
    for k, v in kw:
        kk = f"Known {COQ_KEY[k]}" if k in COQ_KEY else f"Unknown {coq_string(k)}"
        parts.append(f"({kk}, {g_val(v)})")
    return "[" + "; ".join(parts) + "]"


def g_op(op) -> str:
    kind, t = op[0], op[1]
    if kind == "call":
        return f"Call {t} {g_kw(op[2])}"
    if kind == "enter":
        return f"Enter {t}"
    if kind == "exit":
        return f"Exit {t}"
    if kind == "read":
        return f"Read {t} {COQ_KEY[op[2]]}"
    return f"Assign {t} {COQ_KEY[op[2]]}"


def g_state(env: dict) -> str:
    e = "; ".join(f"({COQ_KEY[k]}, {coq_string(v)})" for k, v in env.items())
    return f"{{| tcfg := []; inctx := []; env := [{e}]; dirdef := {coq_string(dirdef())} |}}"


def g_hist(h) -> str:
    return "[" + "; ".join(g_op(o) for o in h) + "]"


def g_item(it) -> str:
    if it[0] == "read":
        return f"IRead {COQ_KEY[it[1]]}"
    if it[0] == "assign":
        return f"IAssign {COQ_KEY[it[1]]}"
    if it[0] == "raise":
        return "IRaise"
    return f"IWith {g_kw(it[1])} ({g_items(it[2])})"


def g_items(its) -> str:
    s = "INil"
    for it in reversed(its):
        s = f"ICons ({g_item(it)}) ({s})"
    return s


def g_prog(p) -> str:
    return "[" + "; ".join(g_item(i) for i in p) + "]"


# ---------------------------------------------------------------------------
# generators
# ---------------------------------------------------------------------------
ENVS = [
    {},
    {"DEFAULT_SCHEMA": "envs", "TSQL_NO_SEMICOLON": "TRUE"},
    {"LATERAL_COLUMN_ALIAS_REFERENCE": " 1 ", "DEFAULT_SCHEMA": ""},
]

BOOL_VALUES = ["true", " On ", "0", "-0", "+1_0", "1__0", "yes ", "nope", "", "OK", "y", "Y", "_1", "1_",
               "\t1\n", " \x0c+0 ", "\x1f2", "0x1", "1.0", "- 1", "TRUE", "tRuE", "on\x1c", "00", "--1",
               0, 2, -1, True, False]
STR_VALUES = ["a", "B c", "", "<default>", 5, True, False, -3]

KW_POOL = [
    [("DEFAULT_SCHEMA", "a")],
    [("DEFAULT_SCHEMA", "b"), ("LATERAL_COLUMN_ALIAS_REFERENCE", " On ")],
    [("TSQL_NO_SEMICOLON", 0)],
    [("BOGUS", 1)],
    [("DEFAULT_SCHEMA", "c"), ("BOGUS", 1)],
    [("BOGUS", 1), ("DEFAULT_SCHEMA", "d")],
    [],
]


def op_alphabet(tids):
    ops = []
    for t in tids:
        for kw in KW_POOL:
            ops.append(("call", t, kw))
        ops += [("enter", t), ("exit", t), ("read", t, "DEFAULT_SCHEMA"),
                ("read", t, "LATERAL_COLUMN_ALIAS_REFERENCE"), ("assign", t, "DEFAULT_SCHEMA")]
    return ops


def random_kw(r):
    n = r.choice([0, 1, 1, 2, 2, 3])
    keys = r.sample(KEYS + ["BOGUS", "directory"], n)
    kw = []
    for k in keys:
        if k in ("TSQL_NO_SEMICOLON", "LATERAL_COLUMN_ALIAS_REFERENCE"):
            kw.append((k, r.choice(BOOL_VALUES)))
        else:
            kw.append((k, r.choice(STR_VALUES)))
    return kw


def random_items(r, depth, n):
    its = []
    for _ in range(n):
        c = r.random()
        if c < 0.4:
            its.append(("read", r.choice(KEYS)))
        elif c < 0.5:
            its.append(("assign", r.choice(KEYS)))
        elif c < 0.6:
            its.append(("raise",))
        elif depth < 2:
            its.append(("with", random_kw(r), random_items(r, depth + 1, r.choice([0, 1, 2, 3]))))
        else:
            its.append(("read", r.choice(KEYS)))
    return its


FIXED_PROGRAMS = [
    [("with", [("DEFAULT_SCHEMA", "a")], [("read", "DEFAULT_SCHEMA"), ("read", "LATERAL_COLUMN_ALIAS_REFERENCE")]),
     ("read", "DEFAULT_SCHEMA")],
    [("with", [("DEFAULT_SCHEMA", "k"), ("BOGUS", 1)], [("read", "DEFAULT_SCHEMA")]), ("read", "DEFAULT_SCHEMA")],
    [("with", [("LATERAL_COLUMN_ALIAS_REFERENCE", " On ")],
      [("with", [("DEFAULT_SCHEMA", "b")], [("read", "DEFAULT_SCHEMA")]), ("read", "LATERAL_COLUMN_ALIAS_REFERENCE")]),
     ("read", "DEFAULT_SCHEMA"), ("read", "LATERAL_COLUMN_ALIAS_REFERENCE")],
    [("with", [("DEFAULT_SCHEMA", "o")],
      [("read", "DEFAULT_SCHEMA"), ("with", [("DEFAULT_SCHEMA", "i")], []), ("read", "DEFAULT_SCHEMA")]),
     ("read", "DEFAULT_SCHEMA")],
    [("with", [("DEFAULT_SCHEMA", "a")], [("read", "DEFAULT_SCHEMA"), ("raise",), ("read", "DEFAULT_SCHEMA")]),
     ("read", "DEFAULT_SCHEMA")],
    [("assign", "DEFAULT_SCHEMA"), ("read", "DEFAULT_SCHEMA")],
    [("with", [("TSQL_NO_SEMICOLON", "0")], [("read", "TSQL_NO_SEMICOLON"), ("assign", "TSQL_NO_SEMICOLON")]),
     ("read", "TSQL_NO_SEMICOLON")],
    [("with", [("BOGUS", 1)], [("read", "DEFAULT_SCHEMA")]), ("with", [("DEFAULT_SCHEMA", "c")], [("read", "DEFAULT_SCHEMA")])],
    [("read", "DIRECTORY"), ("with", [("DIRECTORY", "")], [("read", "DIRECTORY")]), ("read", "DIRECTORY")],
    [("with", [], [("read", "DEFAULT_SCHEMA")]), ("with", [("DEFAULT_SCHEMA", 5)], [("read", "DEFAULT_SCHEMA")])],
]


# ---------------------------------------------------------------------------
# program execution on the implementation, one op per scheduler step
# ---------------------------------------------------------------------------

def run_item(cfg, t, item, trace, hist):
    """generator: yields before every config operation; returns True if an exception propagates"""
    def do(op):
        out = impl_op(cfg, op)
        trace.append(out)
        hist.append(op)
        return out

    kind = item[0]
    if kind == "read":
        yield
        do(("read", t, item[1]))
        return False
    if kind == "assign":
        yield
        out = do(("assign", t, item[1]))
        return out.startswith("R") or out.startswith("X")
    if kind == "raise":
        return True
    kw, body = item[1], item[2]
    yield
    out = do(("call", t, kw))
    if out != "D":
        return True
    yield
    out = do(("enter", t))
    if out != "D":
        return True
    ex = False
    for sub in body:
        ex = yield from run_item(cfg, t, sub, trace, hist)
        if ex:
            break
    yield
    do(("exit", t))
    return ex


def run_prog(cfg, t, prog, trace, hist):
    for item in prog:
        yield from run_item(cfg, t, item, trace, hist)


def all_schedules(progs, env, limit, r):
    """Run every interleaving (op granularity) of the thread programs, by DFS with re-execution.
    Yields (schedule, traces, history)."""
    n = len(progs)

    # Compute op counts by running each thread alone (deterministic); then enumerate
    # multiset permutations.  A generator step k of thread t executes the op that
    # follows its k-th yield, so a thread with m ops needs m+1 steps; we fold the
    # final step into the previous one by always draining after the schedule ends.
    counts = []
    with EnvPatch(env):
        for t in range(n):
            cfg = fresh_loader()
            tr, hi = [], []
            g = run_prog(cfg, t, progs[t], tr, hi)
            steps = 0
            try:
                while True:
                    next(g)
                    steps += 1
            except StopIteration:
                pass
            counts.append(steps)
    import math
    total = math.factorial(sum(counts))
    for c in counts:
        total //= math.factorial(c)

    def perms(cs):
        if sum(cs) == 0:
            yield []
            return
        for t in range(n):
            if cs[t]:
                cs[t] -= 1
                for rest in perms(cs):
                    yield [t] + rest
                cs[t] += 1

    if total <= limit:
        scheds = perms(list(counts))
        exhaustive = True
    else:
        def sampler():
            for _ in range(limit):
                s = [t for t in range(n) for _ in range(counts[t])]
                r.shuffle(s)
                yield s
        scheds = sampler()
        exhaustive = False

    with EnvPatch(env):
        for sched in scheds:
            cfg = fresh_loader()
            traces = [[] for _ in range(n)]
            hist = []
            gens = [run_prog(cfg, t, progs[t], traces[t], hist) for t in range(n)]
            # step semantics: the k-th next() of a generator executes its (k-1)-th op and stops
            # before the k-th; so schedule entries after the first one of a thread execute ops.
            # To make every schedule entry execute exactly one op, prime all generators first.
            done = [False] * n
            for t in range(n):
                try:
                    next(gens[t])
                except StopIteration:
                    done[t] = True
            for t in sched:
                if done[t]:
                    continue
                try:
                    next(gens[t])
                except StopIteration:
                    done[t] = True
            yield sched, traces, hist, exhaustive


# ---------------------------------------------------------------------------
# real threads, pre-empted at the config taps
# ---------------------------------------------------------------------------

class TapScheduler:
    """Lock-step scheduler: a thread arriving at a tap waits until it is chosen."""

    def __init__(self, n, r):
        self.n, self.r = n, r
        self.cv = threading.Condition()
        self.waiting = set()
        self.finished = set()
        self.turn = None
        self.index = {}

    def tap(self, event, **kw):
        if not event.startswith("config."):
            return
        me = self.index.get(threading.get_ident())
        if me is None:
            return
        with self.cv:
            self.waiting.add(me)
            self.cv.notify_all()
            while self.turn != me:
                self.cv.wait(timeout=5)
            self.turn = None
            self.waiting.discard(me)

    def finish(self, me):
        with self.cv:
            self.finished.add(me)
            self.cv.notify_all()

    def drive(self):
        with self.cv:
            while len(self.finished) < self.n:
                live = set(range(self.n)) - self.finished
                if self.turn is None and live and live <= (self.waiting | self.finished) and self.waiting:
                    self.turn = self.r.choice(sorted(self.waiting))
                    self.cv.notify_all()
                self.cv.wait(timeout=0.05)


def real_item(cfg, item, trace):
    kind = item[0]
    if kind == "read":
        trace.append(show_value(getattr(cfg, item[1])))
        return
    if kind == "assign":
        setattr(cfg, item[1], "zz")
        return
    if kind == "raise":
        raise RuntimeError("boom")
    with cfg(**dict(item[1])):
        trace.append("in")
        for sub in item[2]:
            real_item(cfg, sub, trace)


def real_thread(cfg, prog, trace, sched, me):
    sched.index[threading.get_ident()] = me
    try:
        for item in prog:
            try:
                real_item(cfg, item, trace)
            except ConfigException:
                trace.append("RC")
            except RuntimeError:
                trace.append("RO")
            except Exception as e:
                trace.append("X:" + type(e).__name__)
    finally:
        sched.finish(me)


def line_preempt_run(cfg, prog_a, prog_b, k):
    """Thread A runs prog_a and is suspended after the k-th executed line of config.py; while it is
    suspended thread B runs the whole of prog_b; then A resumes.  Sub-operation granularity."""
    import sys
    ta, tb = [], []
    gate, resume = threading.Event(), threading.Event()
    st = {"n": 0, "fired": False}

    def local(frame, event, arg):
        if event == "line" and not st["fired"]:
            st["n"] += 1
            if st["n"] == k:
                st["fired"] = True
                gate.set()
                resume.wait(10)
        return local

    def tracer(frame, event, arg):
        if frame.f_code.co_filename.endswith("sqllineage/config.py"):
            return local
        return None

    class NoSched:
        index = {}

        def finish(self, me):
            pass

    def run_a():
        sys.settrace(tracer)
        try:
            real_thread(cfg, prog_a, ta, NoSched(), 0)
        finally:
            sys.settrace(None)
            gate.set()

    a = threading.Thread(target=run_a)
    a.start()
    gate.wait(10)
    b = threading.Thread(target=real_thread, args=(cfg, prog_b, tb, NoSched(), 1))
    b.start()
    b.join(10)
    resume.set()
    a.join(10)
    return st["fired"], ta, tb


def line_preempt_run2(cfg, prog_a, prog_b, k, j):
    """Two-phase schedule at line granularity: A is suspended after its k-th executed line of config.py; B then runs up to
    its j-th executed line of config.py and is suspended there; A resumes and runs to its end; then B resumes.
    (A operation of B thus lands INSIDE an operation of A, and the rest of B sees what A's resumed operation left.)"""
    import sys
    ta, tb = [], []
    a_parked, a_go, b_parked, b_go = threading.Event(), threading.Event(), threading.Event(), threading.Event()
    st = {"na": 0, "nb": 0, "fa": False, "fb": False}

    def mk(local_key, fired_key, limit, parked, go):
        def local(frame, event, arg):
            if event == "line" and not st[fired_key]:
                st[local_key] += 1
                if st[local_key] == limit:
                    st[fired_key] = True
                    parked.set()
                    go.wait(10)
            return local

        def tracer(frame, event, arg):
            if frame.f_code.co_filename.endswith("sqllineage/config.py"):
                return local
            return None
        return tracer

    class NoSched:
        index = {}

        def finish(self, me):
            pass

    def run(prog, out, tracer, parked, me):
        sys.settrace(tracer)
        try:
            real_thread(cfg, prog, out, NoSched(), me)
        finally:
            sys.settrace(None)
            parked.set()

    a = threading.Thread(target=run, args=(prog_a, ta, mk("na", "fa", k, a_parked, a_go), a_parked, 0))
    a.start()
    a_parked.wait(10)
    b = threading.Thread(target=run, args=(prog_b, tb, mk("nb", "fb", j, b_parked, b_go), b_parked, 1))
    b.start()
    b_parked.wait(10)
    a_go.set()
    a.join(10)
    b_go.set()
    b.join(10)
    return st["fa"], st["fb"], ta, tb


def spec_to_real(spec_outs: list[str], prog) -> list[str]:
    """Project the specification's outputs onto what the real-thread runner records:
    reads, 'in' when a scope is entered, RC/RO when an item raises."""
    # recompute structurally: walk the program with the spec outputs
    it = iter(spec_outs)
    res = []

    def walk(item, depth):
        kind = item[0]
        if kind == "read":
            res.append(next(it))
            return False
        if kind == "assign":
            next(it)
            return "RC"
        if kind == "raise":
            return "RO"
        o = next(it)
        if o != "D":
            return "RC"
        o = next(it)
        if o != "D":
            return "RC"
        res.append("in")
        ex = False
        for sub in item[2]:
            ex = walk(sub, depth + 1)
            if ex:
                break
        next(it)  # exit
        return ex

    for item in prog:
        ex = walk(item, 0)
        if ex:
            res.append(ex)
    return res


# ---------------------------------------------------------------------------
# the check
# ---------------------------------------------------------------------------

def main() -> int:
    ck = Check("C15")
    ck.assumptions += [
        "each dict/set method of CPython runs atomically with respect to other threads (validated by the tap-pre-empted real-thread runs, not proved)",
        "thread identity is threading.get_ident(); virtual identifiers are substituted for it in the exhaustive suites",
        "raw override values are str/int/bool; other value types are outside the model",
    ]
    ck.trusted += [
        "hand-written Gallina model coq/theories/Config/Model.v of sqllineage/config.py, tied by suite T1 (this run)",
        "harness/c15.py (generators, virtual thread ids, schedule enumeration) and harness/common.py (Coq output parsing)",
    ]
    proofs_ok = ck.proofs()
    r = rng("c15")
    quick = tier() == "quick"
    virtual_ids(True)
    disagreements = []   # (kind, detail)
    spec_failures = []
    dist = {"coerce": 0, "histories": 0, "schedules": 0, "programs": 0, "real_thread_runs": 0,
            "hist_with_raise": 0, "hist_len": {}}

    # ---- T0: coerce -----------------------------------------------------
    cases = [(k, v) for k in KEYS for v in (BOOL_VALUES + STR_VALUES)]
    impl = []
    for k, v in cases:
        try:
            impl.append(show_value(_cfgmod._SQLLineageConfigLoader.parse_value(v, _cfgmod._SQLLineageConfigLoader.config[k][0]))[1:])
        except Exception as e:
            impl.append("X:" + type(e).__name__)
    model = coq_eval(HEADER, [f"show_coerce {COQ_KEY[k]} ({g_val(v)})" for k, v in cases])
    for c, i, m in zip(cases, impl, model):
        ck.count()
        dist["coerce"] += 1
        ck.nontriv(("coerce", c, i))
        if i != m:
            disagreements.append({"suite": "T0-coerce", "input": repr(c), "impl": i, "model": m})
    # the property's own statement about coercion: result type follows the key
    for (k, v), i in zip(cases, impl):
        want_bool = k in ("TSQL_NO_SEMICOLON", "LATERAL_COLUMN_ALIAS_REFERENCE")
        if i.startswith("X:") or (i.startswith("b:") != want_bool):
            spec_failures.append({"suite": "T0-coerce", "input": repr((k, v)), "impl": i,
                                  "spec": "bool" if want_bool else "str"})

    # ---- T1a: operation histories (I vs M) --------------------------------
    tids = [0, 1]
    alpha = op_alphabet(tids)
    hists = []
    maxlen = 2 if quick else 3
    for n in range(1, maxlen + 1):
        for h in itertools.product(alpha, repeat=n):
            # symmetry: first op by thread 0
            if h[0][1] != 0:
                continue
            hists.append(list(h))
    n_random = 2500 if quick else 40000
    for _ in range(n_random):
        n = r.randint(3, 9)
        h = []
        for _ in range(n):
            t = r.choice([0, 0, 1, 1, 2])
            c = r.random()
            if c < 0.35:
                h.append(("call", t, random_kw(r)))
            elif c < 0.5:
                h.append(("enter", t))
            elif c < 0.65:
                h.append(("exit", t))
            elif c < 0.95:
                h.append(("read", t, r.choice(KEYS)))
            else:
                h.append(("assign", t, r.choice(KEYS)))
        hists.append(h)
    jobs = []
    for idx, h in enumerate(hists):
        env = ENVS[idx % len(ENVS)]
        ts = sorted({o[1] for o in h})
        jobs.append((env, h, ts))
    impl = [impl_history(env, h, ts) for env, h, ts in jobs]
    model = coq_eval(HEADER, [f"show_hist ({g_state(env)}) ({g_hist(h + probe_ops(ts))})" for env, h, ts in jobs])
    for (env, h, ts), i, m in zip(jobs, impl, model):
        ck.count()
        dist["histories"] += 1
        dist["hist_len"][len(h)] = dist["hist_len"].get(len(h), 0) + 1
        if "RC" in i:
            dist["hist_with_raise"] += 1
        if any(o[0] == "call" for o in h) and any(o[0] == "read" for o in h):
            ck.nontriv(("hist", repr(h), repr(env)))
        if i != m:
            disagreements.append({"suite": "T1-histories", "env": env, "history": h, "impl": i, "model": m})
        # S on histories, directly on the implementation's answers (no model involved): (B) an attempt to open a scope
        # inside an open scope of the same thread - by a call or by entering the manager directly - is refused; (A) between
        # an accepted open and the close of that scope, the thread reads its string override of DEFAULT_SCHEMA
        outs_i = i.split("|")
        open_, pending, active = {}, {}, {}
        for k_op, (o, out) in enumerate(zip(h, outs_i)):
            t = o[1]
            bad = None
            if o[0] == "call":
                if open_.get(t) and out == "D":
                    bad = "a configuration call inside an open scope of the same thread was accepted (nested scope)"
                elif out == "D":
                    pending[t] = dict(o[2])
            elif o[0] == "enter":
                if open_.get(t):
                    if out != "RC":
                        bad = "entering a scope inside an open scope of the same thread was not refused (nested scope)"
                elif out == "D":
                    open_[t] = True
                    active[t] = pending.pop(t, {})
            elif o[0] == "exit":
                if out == "D":
                    open_[t] = False
                    active[t] = {}
                    pending.pop(t, None)
            elif o[0] == "read" and open_.get(t) and o[2] == "DEFAULT_SCHEMA" and isinstance(active.get(t, {}).get("DEFAULT_SCHEMA"), str):
                if out != "Vs:" + active[t]["DEFAULT_SCHEMA"]:
                    bad = "inside its open scope the thread does not read its override of DEFAULT_SCHEMA"
            if bad:
                spec_failures.append({"suite": "T1-histories-scope", "env": env, "history": h[:k_op + 1], "answers": outs_i[:k_op + 1],
                                      "thread": t, "spec": bad})
                break
        # S on histories: a refused operation changes nothing observable (c15_reject),
        # checked directly on the implementation
    ck.sample({"history": hists[len(hists) // 2], "impl": impl[len(hists) // 2]})

    # rejected operations are no-ops: observe everything before and after, on the implementation
    rej_cases = 0
    for idx in range(0, len(hists), 7 if quick else 3):
        env, h, ts = jobs[idx]
        for cut in range(len(h)):
            o = h[cut]
            with EnvPatch(env):
                cfg = fresh_loader()
                for p in h[:cut]:
                    impl_op(cfg, p)
                out = impl_op(cfg, o)
                if out != "RC":
                    continue
                after = [impl_op(cfg, p) for p in probe_ops(ts)]
                cfg2 = fresh_loader()
                for p in h[:cut]:
                    impl_op(cfg2, p)
                before = [impl_op(cfg2, p) for p in probe_ops(ts)]
            rej_cases += 1
            ck.count()
            if before != after:
                spec_failures.append({"suite": "T1-reject", "env": env, "history": h[:cut + 1],
                                      "observations_without_rejected_op": before, "observations_after_rejected_op": after,
                                      "spec": "a rejected operation changes nothing a later read can observe"})
    dist["rejected_ops_checked"] = rej_cases

    # ---- T1b: thread programs under every interleaving (I vs S, I vs M) ----
    programs = list(FIXED_PROGRAMS)
    for _ in range(14 if quick else 60):
        programs.append(random_items(r, 0, r.choice([1, 2, 3])))
    dist["programs"] = len(programs)
    # specification outputs, per (env, program)
    spec_jobs = [(e, p) for e in range(len(ENVS)) for p in range(len(programs))]
    spec_out = coq_eval(HEADER, [f"show_spec ({g_state(ENVS[e])}) ({g_prog(programs[p])})" for e, p in spec_jobs])
    spec = {jp: s.replace("Vs:", "Vs:").split("|") if s else [] for jp, s in zip(spec_jobs, spec_out)}
    ck.sample({"program": programs[3], "spec_outputs": spec[(0, 3)]})

    pairs = []
    if quick:
        for a in range(len(FIXED_PROGRAMS)):
            for b in range(a, len(FIXED_PROGRAMS)):
                pairs.append((a, b))
        for _ in range(40):
            pairs.append((r.randrange(len(programs)), r.randrange(len(programs))))
    else:
        for a in range(len(programs)):
            for b in range(a, len(programs)):
                pairs.append((a, b))
    triples = [tuple(r.randrange(len(programs)) for _ in range(3)) for _ in range(10 if quick else 120)]
    model_jobs = []
    limit = 300 if quick else 3000
    exhaustive_groups = 0
    for gi, group in enumerate(pairs + triples):
        e = gi % len(ENVS)
        progs = [programs[i] for i in group]
        first = True
        for sched, traces, hist, exhaustive in all_schedules(progs, ENVS[e], limit, r):
            if first and exhaustive:
                exhaustive_groups += 1
            ck.count()
            dist["schedules"] += 1
            for t, i in enumerate(group):
                if traces[t] != spec[(e, i)]:
                    spec_failures.append({"suite": "T1-programs", "env": ENVS[e], "programs": progs, "thread": t,
                                          "schedule": sched, "history": hist, "impl_outputs": traces[t],
                                          "spec_outputs": spec[(e, i)]})
            if first or r.random() < (0.02 if quick else 0.01):
                model_jobs.append((ENVS[e], list(hist), "|".join(x for tr in [] for x in tr), traces, sched))
            first = False
            ck.nontriv(("sched", group, tuple(sched)))
    dist["schedule_groups"] = len(pairs) + len(triples)
    dist["schedule_groups_exhaustive"] = exhaustive_groups
    # I vs M on the recorded histories of a subset of schedules
    impl_h = [impl_history(env, hist, sorted({o[1] for o in hist})) for env, hist, _, _, _ in model_jobs]
    model_h = coq_eval(HEADER, [
        f"show_hist ({g_state(env)}) ({g_hist(hist + probe_ops(sorted({o[1] for o in hist})))})"
        for env, hist, _, _, _ in model_jobs])
    for (env, hist, _, _, sched), i, m in zip(model_jobs, impl_h, model_h):
        ck.count()
        if i != m:
            disagreements.append({"suite": "T1-program-histories", "env": env, "history": hist, "impl": i, "model": m})

    # ---- real threads pre-empted at the config taps ------------------------
    virtual_ids(False)
    from sqllineage.utils import verif as tapmod
    n_real = 40 if quick else 400
    for k in range(n_real):
        group = [r.randrange(len(programs)) for _ in range(r.choice([2, 3]))]
        e = k % len(ENVS)
        sched = TapScheduler(len(group), r)
        cfg = fresh_loader()
        traces = [[] for _ in group]
        with EnvPatch(ENVS[e]):
            tapmod.ENABLED = True
            tapmod.set_listener(sched.tap)
            try:
                ths = [threading.Thread(target=real_thread, args=(cfg, programs[i], traces[t], sched, t))
                       for t, i in enumerate(group)]
                for th in ths:
                    th.start()
                sched.drive()
                for th in ths:
                    th.join(10)
            finally:
                tapmod.set_listener(None)
        ck.count()
        dist["real_thread_runs"] += 1
        for t, i in enumerate(group):
            want = spec_to_real(spec[(e, i)], programs[i])
            if traces[t] != want:
                spec_failures.append({"suite": "T1-real-threads", "env": ENVS[e], "programs": [programs[i] for i in group],
                                      "thread": t, "impl_outputs": traces[t], "spec_outputs": want})
        leftovers = (dict(cfg._thread_config) if hasattr(cfg, "_thread_config") else None)
        if leftovers:
            spec_failures.append({"suite": "T1-real-threads", "programs": [programs[i] for i in group],
                                  "spec": "no per-thread entry survives the end of every scope", "left": repr(leftovers)})
    # ---- real threads pre-empted between any two lines of config.py (sub-operation granularity) ----
    dist["line_preemption_runs"] = 0
    lp_pairs = [(a, b) for a in range(len(FIXED_PROGRAMS)) for b in (0, 4, 8)] if quick else \
               [(a, b) for a in range(len(programs)) for b in range(0, len(programs), 3)]
    for gi, (ia, ib) in enumerate(lp_pairs):
        e = gi % len(ENVS)
        with EnvPatch(ENVS[e]):
            k = 1
            while k < 400:
                cfg = fresh_loader()
                fired, ta, tb = line_preempt_run(cfg, programs[ia], programs[ib], k)
                if not fired:
                    break
                ck.count()
                dist["line_preemption_runs"] += 1
                for who, tr, i in (("A", ta, ia), ("B", tb, ib)):
                    want = spec_to_real(spec[(e, i)], programs[i])
                    if tr != want:
                        spec_failures.append({"suite": "T1-line-preemption", "env": ENVS[e], "program_A": programs[ia],
                                              "program_B": programs[ib], "A_suspended_after_config_py_line_event": k,
                                              "thread": who, "impl_outputs": tr, "spec_outputs": want})
                k += 1
    # two-phase schedules: an operation of B lands inside an operation of A and the rest of B runs after A's operation ended
    dist["line_preemption_two_phase_runs"] = 0
    lp2 = [(0, 0), (0, 4), (4, 0), (3, 0), (2, 6)] if quick else [(a, b) for a in range(len(FIXED_PROGRAMS)) for b in (0, 1, 4, 8)]
    for gi, (ia, ib) in enumerate(lp2):
        e = gi % len(ENVS)
        with EnvPatch(ENVS[e]):
            k = 1
            while k < 120:
                any_fired = False
                j = 1
                while j < 120:
                    cfg = fresh_loader()
                    fa, fb, ta, tb = line_preempt_run2(cfg, programs[ia], programs[ib], k, j)
                    if not fa:
                        break
                    any_fired = True
                    if not fb:
                        break
                    ck.count()
                    dist["line_preemption_two_phase_runs"] += 1
                    for who, tr, i in (("A", ta, ia), ("B", tb, ib)):
                        want = spec_to_real(spec[(e, i)], programs[i])
                        if tr != want:
                            spec_failures.append({"suite": "T1-line-preemption-two-phase", "env": ENVS[e], "program_A": programs[ia],
                                                  "program_B": programs[ib], "A_suspended_after_line_event": k, "B_suspended_after_line_event": j,
                                                  "thread": who, "impl_outputs": tr, "spec_outputs": want})
                    leftovers = (dict(cfg._thread_config) if hasattr(cfg, "_thread_config") else None)
                    if leftovers:
                        spec_failures.append({"suite": "T1-line-preemption-two-phase", "program_A": programs[ia], "program_B": programs[ib],
                                              "A_suspended_after_line_event": k, "B_suspended_after_line_event": j,
                                              "spec": "no per-thread entry survives the end of every scope", "left": repr(leftovers)})
                    j += (1 if quick and j < 12 else 2 if quick else 1)
                if not any_fired:
                    break
                k += 1
    virtual_ids(True)

    # ---- verdict -----------------------------------------------------------
    ck.notes["input_distribution"] = dist
    ck.coverage["disagreements_checked"] = len(disagreements)
    ck.coverage["exhaustive"] = False
    if spec_failures:
        first = spec_failures[0]
        first["how_to_replay"] = "cd /verif && VERIF_SEED=%d VERIF_TIER=%s ./check C15" % (ck_seed(), tier())
        first["all_failures"] = len(spec_failures)
        ck.violation(first, "spec")
    elif disagreements:
        # tie broken but the specification holds on everything explored
        d = disagreements[0]
        d["broken"] = "correspondence T1 between Config.Model (theorems c15_local, c15_scope, c15_interleaving, c15_reject) and sqllineage/config.py"
        d["all_disagreements"] = len(disagreements)
        ck.violation(d, "tie", no_input=True)
    if not proofs_ok:
        ck.violation({"broken": "proof obligations of Props/C15.v", "detail": ck.broken_obligation,
                      "search": "specification oracles ran on %d cases without finding a failing input" % ck.evaluations
                      if not spec_failures else "see spec replay"}, "proof", no_input=not spec_failures)
    return ck.finish(
        rule="histories: all op sequences of length<=%d over a %d-op alphabet (2 virtual threads) + seeded random "
             "histories of length 3-9 over 3 threads; programs: %d thread programs, every interleaving of each "
             "pair/triple up to %d schedules (sampled beyond); non-trivial = history containing both an override "
             "and a read, or a distinct (program group, schedule)" % (maxlen, len(alpha), len(programs), limit))


def ck_seed():
    from common import seed
    return seed()


if __name__ == "__main__":
    raise SystemExit(main())
