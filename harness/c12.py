"""C12 - runs are isolated from one another.

Proof obligations: coq/theories/Props/C12.v (model Provider/Session.v; concrete
analyser Provider/Abstract.v for the correspondence).
Tie T1: histories of runs (successful, failing at every statement position, with a
provider that raises on its j-th lookup) on one shared provider; T4: random histories
from the corpus and 16-thread pools with own providers."""
from __future__ import annotations

import inspect
import itertools
import threading
import warnings
from concurrent.futures import ThreadPoolExecutor

import corpus
from common import Check, coq_eval, coq_string, rng, seed, tier
from implgraph import StatementTap, s_paths, s_roles

from sqllineage.core.metadata.dummy import DummyMetaDataProvider
from sqllineage.core.models import Table
from sqllineage.exceptions import MetaDataProviderException
from sqllineage.runner import LineageRunner

warnings.filterwarnings("ignore")
HEADER = "From SV Require Import Provider.Abstract.\nOpen Scope string_scope."
TABLES = ["s.t1", "s.t2", "s.t3", "s.t4"]
BASES = [{}, {"s.t1": ["a", "b"]}, {"s.t1": ["a", "b"], "s.t2": ["c"]}]
FAIL_SQL = ["select from where", "create index i on s.t1 (a)", "commit"]


def kinds():
    ks = [("fail", 0), ("fail", 1), ("nowrite",)]
    for w in TABLES[:3]:
        for r in TABLES[:3]:
            if w != r:
                ks.append(("star", w, r))
    for w in TABLES[:2]:
        ks.append(("cols", w, ("x",)))
        ks.append(("cols", w, ("p", "q")))
    return ks


def to_sql(k):
    if k[0] == "fail":
        return FAIL_SQL[k[1] % len(FAIL_SQL)]
    if k[0] == "nowrite":
        return "select a from s.t1"
    if k[0] == "star":
        return f"create table {k[1]} as select * from {k[2]}"
    return f"create table {k[1]} as select {', '.join(k[2])} from s.t9"


def to_g(k):
    if k[0] == "fail":
        return "Fail"
    if k[0] == "nowrite":
        return "NoWrite"
    if k[0] == "star":
        return f"CopyStar {coq_string(k[1])} {coq_string(k[2])}"
    return f"Cols {coq_string(k[1])} [{'; '.join(coq_string(c) for c in k[2])}]"


def g_md(md):
    return "[" + "; ".join("(%s, [%s])" % (coq_string(t), "; ".join(coq_string(c) for c in cs)) for t, cs in md.items()) + "]"


def observe(provider):
    return ";".join("%s=%s" % (t, ",".join(c.raw_name for c in provider.get_table_columns(Table(t)))) for t in TABLES)


def run_script(provider, stmts):
    """returns per-statement target columns or RAISED(class)"""
    sql = ";\n".join(stmts)
    with StatementTap() as tap:
        lr = LineageRunner(sql, metadata_provider=provider)
        try:
            lr._eval()
        except Exception as e:
            return "RAISED", type(e).__name__, None
    outs = []
    for _, h in tap.of_runner(lr):
        w = list(h.write)
        cols = [c.raw_name for c in h.get_table_columns(w[0])] if w else []
        outs.append(",".join(cols))
    return "|".join(outs), None, lr


class FaultyProvider(DummyMetaDataProvider):
    def __init__(self, metadata, fail_at):
        super().__init__(metadata)
        self.fail_at = fail_at
        self.calls = 0

    def _get_table_columns(self, schema, table, **kwargs):
        self.calls += 1
        if self.calls == self.fail_at:
            raise MetaDataProviderException("injected fault at lookup %d" % self.calls)
        return super()._get_table_columns(schema, table, **kwargs)


def full_result(lr):
    return s_roles(lr._sql_holder) + "@" + s_paths(lr._sql_holder.get_column_lineage(True, False))


def main() -> int:
    ck = Check("C12")
    ck.assumptions += ["sqlfluff's internal caches and SQLAlchemy's reflection cache are not modelled",
                       "the per-statement analysis reaches the provider only through get_table_columns (it never registers or deregisters: checked through the session tap on every run)"]
    ck.trusted += ["hand-written Gallina model Provider/Session.v (provider, session, statement loop of LineageRunner._eval) with the table-driven analyser Provider/Abstract.v, tied by suite T1 (this run)",
                   "harness/c12.py"]
    proofs_ok = ck.proofs()
    quick = tier() == "quick"
    r = rng("c12")
    disagreements, spec_failures = [], []
    dist = {"histories": 0, "runs": 0, "failed_runs": 0, "faulty_provider_runs": 0, "thread_pool_runs": 0, "corpus_history_runs": 0}

    ks = kinds()
    scripts = [[k] for k in ks] + [list(p) for p in itertools.product(ks, repeat=2) if r.random() < (0.25 if quick else 1.0)]
    # every failure position k of an n-statement script
    for n in (2, 3, 4):
        for pos in range(n):
            body = [r.choice([k for k in ks if k[0] != "fail"]) for _ in range(n)]
            body[pos] = ("fail", r.randrange(3))
            scripts.append(body)
    scripts += [[r.choice(ks) for _ in range(r.randint(3, 4))] for _ in range(30 if quick else 300)]
    histories = []
    for bi, b in enumerate(BASES):
        for _ in range(120 if quick else 1500):
            histories.append((b, [r.choice(scripts) for _ in range(r.choice([2, 2, 3, 4]))]))
        for s in scripts[:: (6 if quick else 1)]:
            histories.append((b, [s, r.choice(scripts)]))

    exprs, impls = [], []
    for b, hist in histories:
        provider = DummyMetaDataProvider(dict(b)) if b else DummyMetaDataProvider()
        outs = []
        for sc in hist:
            with StatementTap() as tap:
                res, exc, lr = run_script(provider, [to_sql(k) for k in sc])
            dist["runs"] += 1
            dist["failed_runs"] += res == "RAISED"
            outs.append(res)
            # S: after every run the provider answers exactly as a fresh one
            fresh = DummyMetaDataProvider(dict(b)) if b else DummyMetaDataProvider()
            ck.count()
            if observe(provider) != observe(fresh):
                spec_failures.append({"suite": "T1-histories", "base_metadata": b, "history": [[to_sql(k) for k in s] for s in hist],
                                      "after_run": len(outs), "provider_answers": observe(provider), "fresh_provider_answers": observe(fresh),
                                      "spec": "a provider reused for the next run answers exactly as a fresh one"})
            # S: the run's outcome equals the outcome on a fresh provider
            res_f, exc_f, _ = run_script(fresh, [to_sql(k) for k in sc])
            if res_f != res:
                spec_failures.append({"suite": "T1-histories", "base_metadata": b, "history": [[to_sql(k) for k in s] for s in hist],
                                      "run": len(outs), "outcome_after_history": res, "outcome_on_fresh_provider": res_f,
                                      "spec": "the result of a run does not depend on earlier runs"})
            # only the runner registers / deregisters
            for ev, kw in tap.session_events:
                pass
        impls.append("#".join(outs) + "@@" + observe(provider))
        exprs.append("show_history %s %s [%s] [%s]" % ("true" if b else "false", g_md(b),
                     "; ".join("[" + "; ".join(to_g(k) for k in sc) + "]" for sc in hist),
                     "; ".join(coq_string(t) for t in TABLES)))
        dist["histories"] += 1
        ck.nontriv((repr(b), repr(hist)))
    model = coq_eval(HEADER, exprs, shard=500)
    for (b, hist), i, m in zip(histories, impls, model):
        if i != m:
            disagreements.append({"suite": "T1-histories", "base_metadata": b, "history": [[to_sql(k) for k in s] for s in hist],
                                  "impl": i, "model": m})
    ck.sample({"base_metadata": histories[3][0], "history": [[to_sql(k) for k in s] for s in histories[3][1]], "impl": impls[3]})

    # ---- a provider that raises on its j-th lookup, for every j ---------------------------
    fscripts = [["create table s.t2 as select * from s.t1", "create table s.t3 as select * from s.t2", "insert into s.t4 select a from s.t1 x join s.t3 y on x.a = y.a"],
                ["insert into s.t2 select * from s.t1", "select c from s.t1 p join s.t2 q on p.a = q.c"]]
    for b in BASES[1:]:
        for sc in fscripts:
            j = 1
            while j < 40:
                p = FaultyProvider(dict(b), j)
                res, exc, _ = run_script(p, sc)
                hit = p.calls >= j
                p.fail_at = -1
                fresh = DummyMetaDataProvider(dict(b))
                ck.count()
                dist["faulty_provider_runs"] += 1
                if observe(p) != observe(fresh):
                    spec_failures.append({"suite": "T1-faulty-provider", "script": sc, "base_metadata": b, "fault_at_lookup": j,
                                          "provider_answers": observe(p), "fresh_provider_answers": observe(fresh),
                                          "spec": "definitions learned during a run are forgotten when it ends, however it ends"})
                again, _, _ = run_script(p, sc)
                want, _, _ = run_script(fresh, sc)
                if again != want:
                    spec_failures.append({"suite": "T1-faulty-provider", "script": sc, "fault_at_lookup": j, "rerun": again, "fresh": want,
                                          "spec": "a run after a failed run equals a run on a fresh provider"})
                if not hit:
                    break
                j += 1

    # ---- the shared default provider of LineageRunner stays inert ---------------------------
    default_provider = inspect.signature(LineageRunner.__init__).parameters["metadata_provider"].default
    for sc in (["create table s.t2 as select a, b from s.t1"], ["create table s.t3 as select x from s.t1", "select from where"]):
        try:
            LineageRunner(";\n".join(sc))._eval()
        except Exception:
            pass
        ck.count()
        if observe(default_provider) != observe(DummyMetaDataProvider()):
            spec_failures.append({"suite": "default-provider", "script": sc, "provider_answers": observe(default_provider),
                                  "spec": "the shared default provider answers as a fresh one after every run"})

    # ---- corpus histories and thread pools (S only) -------------------------------------------
    recs = [x for x in corpus.load() if x["dialect"] not in ("non-validating",) and not x.get("config", {}).get("DEFAULT_SCHEMA")
            and not x.get("config", {}).get("LATERAL_COLUMN_ALIAS_REFERENCE") and not x.get("config", {}).get("TSQL_NO_SEMICOLON")
            and not x.get("origin", "").startswith("tpcds")]
    sample = r.sample(recs, 60 if quick else 400)

    def analyse(rec, provider):
        try:
            lr = LineageRunner(rec["sql"], dialect=rec["dialect"], metadata_provider=provider)
            lr._eval()
            return full_result(lr)
        except Exception as e:
            return "RAISED:" + type(e).__name__

    md_all = {}
    for x in recs:
        if x.get("metadata"):
            md_all.update(x["metadata"])
    solo = {}
    for i, rec in enumerate(sample):
        solo[i] = analyse(rec, DummyMetaDataProvider(dict(md_all)))
    shared = DummyMetaDataProvider(dict(md_all))
    order = list(range(len(sample)))
    r.shuffle(order)
    for i in order:
        ck.count()
        dist["corpus_history_runs"] += 1
        got = analyse(sample[i], shared)
        if got != solo[i]:
            spec_failures.append({"suite": "T4-corpus-history", "sql": sample[i]["sql"], "dialect": sample[i]["dialect"],
                                  "after_history": got[:500], "fresh": solo[i][:500],
                                  "spec": "the result does not depend on which scripts were analysed earlier with the same provider"})
    # 16 threads, own providers
    def worker(i):
        return i, analyse(sample[i], DummyMetaDataProvider(dict(md_all)))
    with ThreadPoolExecutor(max_workers=16) as ex:
        for i, got in ex.map(worker, order):
            ck.count()
            dist["thread_pool_runs"] += 1
            if got != solo[i]:
                spec_failures.append({"suite": "T4-thread-pool", "sql": sample[i]["sql"], "dialect": sample[i]["dialect"],
                                      "in_pool": got[:500], "alone": solo[i][:500],
                                      "spec": "analyses running concurrently in other threads with their own providers do not interfere"})

    # runs that fail part-way INSIDE the extraction of a statement (not at parsing / dispatch): whatever they had collected
    # must not show up in a later run of the same thread, dialect by dialect
    def outcome(sql, dialect, provider):
        try:
            lr = LineageRunner(sql, dialect=dialect, metadata_provider=provider)
            lr._eval()
            return full_result(lr)
        except Exception as e:
            return "RAISED:" + type(e).__name__
    probes = ["select z from s.t2", "select * from s.t9", "insert into s.o select a from s.t3", "select a from s.t3 union all select b from s.t4",
              "create table s.n as select * from s.t2"]
    failing = [
        # two write targets in one query block: SQLLineageException raised by end_of_query_cleanup after tables and columns were collected
        ("select a into s.t1 from s.x union all select b into s.t2 from s.y", None),
        ("select a into s.t1 from s.x", None),
        # the provider raises while a top-level SELECT * / SELECT INTO is being expanded
        ("select * from s.leak", 1), ("select * into s.tgt1 from s.leak", 1), ("select * from s.leak p join s.leak2 q on 1 = 1", 2),
        ("insert into s.k select * from s.leak", 1), ("select a from s.leak union all select * from s.leak2", 1),
    ]
    for dlc in ("ansi", "postgres", "tsql", "mysql", "sparksql"):
        before = [outcome(p, dlc, DummyMetaDataProvider({"s.zz": ["q"]})) for p in probes]
        for fsql, fail_at in failing:
            prov = FaultyProvider({"s.zz": ["q"], "s.leak": ["a", "b"], "s.leak2": ["c"]}, fail_at) if fail_at else DummyMetaDataProvider({"s.zz": ["q"]})
            fo = outcome(fsql, dlc, prov)
            for p, want in zip(probes, before):
                ck.count()
                dist["mid_extraction_failures"] = dist.get("mid_extraction_failures", 0) + 1
                got = outcome(p, dlc, DummyMetaDataProvider({"s.zz": ["q"]}))
                if fo.startswith("RAISED"):
                    ck.nontriv(("mid-extraction", dlc, fsql, p))
                if got != want:
                    spec_failures.append({"suite": "after-failure-inside-extraction", "dialect": dlc, "failed_run": fsql, "failed_run_outcome": fo,
                                          "sql": p, "after_failure": got[:500], "before": want[:500],
                                          "spec": "a run that failed part-way leaves nothing behind for later runs"})
    # deterministic interleavings: run A is parked inside a provider lookup (after it has learnt tables from its own
    # earlier statements) while run B, in another thread with its own provider, runs from start to end
    class Pausing(DummyMetaDataProvider):
        def __init__(self, metadata, pause_table, paused, resume):
            super().__init__(metadata)
            self.pause_table, self.paused, self.resume, self.done = pause_table, paused, resume, False

        def _get_table_columns(self, schema, table, **kwargs):
            if f"{schema}.{table}" == self.pause_table and not self.done:
                self.done = True
                self.paused.set()
                self.resume.wait(30)
            return super()._get_table_columns(schema, table, **kwargs)

    def result_of(sql, provider):
        try:
            lr = LineageRunner(sql, metadata_provider=provider)
            lr._eval()
            return full_result(lr)
        except Exception as e:
            return "RAISED:" + type(e).__name__

    a_scripts = [
        "create table s.t1 as select a, b from s.t9;\ninsert into s.t2 select * from s.t3;\ninsert into s.t4 select * from s.t1",
        "create table s.t1 as select a, b from s.t9;\ninsert into s.t2 select c from s.t3 x join s.t1 y on 1 = 1;\ninsert into s.t4 select a from s.t1 p join s.t3 q on 1 = 1",
        "insert into s.t1 select * from s.t3;\ninsert into s.t2 select * from s.t3;\ninsert into s.t4 select * from s.t1",
    ]
    b_scripts = [
        "insert into s.out select * from s.t1",
        "insert into s.out select a from s.t1 p join s.t5 q on 1 = 1",
        "create table s.t1 as select z from s.t5;\ninsert into s.out select * from s.t1",
        "select * from s.t5",
    ]
    md_a, md_b = {"s.t3": ["c", "d"]}, {"s.t5": ["x"]}
    for sa, sb in itertools.product(a_scripts, b_scripts):
        solo_a = result_of(sa, DummyMetaDataProvider(dict(md_a)))
        solo_b = result_of(sb, DummyMetaDataProvider(dict(md_b)))
        paused, resume = threading.Event(), threading.Event()
        pa = Pausing(dict(md_a), "s.t3", paused, resume)
        out = {}
        ta = threading.Thread(target=lambda: out.__setitem__("a", result_of(sa, pa)))
        ta.start()
        if paused.wait(30):
            out["b"] = result_of(sb, DummyMetaDataProvider(dict(md_b)))
        resume.set()
        ta.join(60)
        ck.count()
        dist["paused_interleavings"] = dist.get("paused_interleavings", 0) + 1
        ck.nontriv(("paused", sa, sb))
        for who, got, want, sql in (("A (parked, then resumed)", out.get("a"), solo_a, sa), ("B (ran while A was parked)", out.get("b"), solo_b, sb)):
            if got != want:
                spec_failures.append({"suite": "T4-paused-interleaving", "run": who, "script_A": sa, "script_B": sb, "sql": sql,
                                      "interleaved": str(got)[:600], "alone": str(want)[:600],
                                      "spec": "a run in another thread with its own provider neither sees what this run learnt nor makes it forget"})

    ck.notes["input_distribution"] = dist
    ck.coverage["disagreements_checked"] = len(disagreements)
    if spec_failures:
        c = spec_failures[0]
        c["how_to_replay"] = "cd /verif && VERIF_SEED=%d ./check C12 --tier %s" % (seed(), tier())
        c["all_failures"] = len(spec_failures)
        ck.violation(c, "spec")
    elif disagreements:
        c = disagreements[0]
        c["broken"] = "correspondence T1 between Provider.Session (theorems c12_*) and sqllineage/core/metadata_provider.py + runner.py"
        c["all_disagreements"] = len(disagreements)
        c["search"] = "fresh-provider equivalence was evaluated after every run of this check; no failing input"
        ck.violation(c, "tie", no_input=True)
    if not proofs_ok:
        ck.violation({"broken": "proof obligations of Props/C12.v", "detail": ck.broken_obligation}, "proof", no_input=not spec_failures)
    return ck.finish(rule="histories of 2-4 scripts (1-4 abstract statements each: CREATE TABLE AS SELECT * / named columns, bare SELECT, "
                          "unparsable or unsupported statement at every position) on one shared provider x 3 base metadata (incl. a falsy provider); "
                          "provider raising at its j-th lookup for every j; shared default provider; shuffled corpus history; 16-thread pool; runs failing inside extraction (two write targets, provider fault during star expansion) x 5 dialects x 5 probes; 12 deterministic two-thread interleavings (run A parked inside a provider lookup while run B runs); "
                          "non-trivial = distinct (metadata, history)")


if __name__ == "__main__":
    raise SystemExit(main())
